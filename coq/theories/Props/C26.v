(* C26 — Execution follows the GraphQL execution algorithm.
   Property theorems only (Run/ExecTheorems.v), pinned by Check, followed by Print Assumptions. *)
From Coq Require Import ZArith String.
From ApolloVerif Require Import Base.Chars Ast.Ast Schema.Model Run.Json Run.Coerce Run.TypedDoc Run.Prog
  Run.Execute Run.ExecTop Run.RefExecute Run.ExecKnown Run.ExecProofs Run.ExecPaths Run.ExecTheorems.
Local Open Scope string_scope.
Local Open Scope list_scope.

(* C26_nonnull, for ANY resolver world and every request that gets a response:
   the data is shaped by the operation's selection set on the root type (ExecProofs.shape / shape_obj /
   shape_fields): exactly the collected response keys in order (minus fields undefined on the object type or skipped
   by the resolver), a JSON array per list wrapper of the field type, leaves accepted by result coercion, objects
   shaped by the merged sub-selections on a concrete object type allowed at that position, and null only where the
   selection's field type (`field.ty()`) — or the field's type on the object type — is nullable;
   and data = null comes with at least one field error (one direction of "data is null exactly when a null
   propagates to the root").
   NOT proved here (checked by the tie on every generated case, outside the known class): equality with the
   reference executor of Run/RefExecute.v (C26_eq_reference), the converse direction of data_null_iff (an error at a
   position all of whose enclosing positions are non-null makes the data null), and that the fuel ex_fuel_for
   always suffices (the statement is about requests whose
   outcome is a response; the model runner reports out-of-fuel as a machinery error and never did). *)
Theorem C26_nonnull_partial : forall s doc values w d vars root impls r log,
  execute_prepare s doc values = EpReady d vars root impls ->
  execute_request s doc values w = (EoResponse r, log) ->
  (forall m, er_data r = Some m -> shape_obj (ex_cx_for s d vars) root impls (rd_sels d) m) /\
  (er_data r = None -> er_errors r <> []).
Proof. exact c26_nonnull. Qed.
Check C26_nonnull_partial : forall s doc values w d vars root impls r log,
  execute_prepare s doc values = EpReady d vars root impls ->
  execute_request s doc values w = (EoResponse r, log) ->
  (forall m, er_data r = Some m -> shape_obj (ex_cx_for s d vars) root impls (rd_sels d) m) /\
  (er_data r = None -> er_errors r <> []).
Print Assumptions C26_nonnull_partial.

(* every field error carries the path of its position: following an error's path in the data reaches a null, at the
   error's own position or at an enclosing position (the nearest nullable ancestor) to which the null propagated;
   when the data is null that ancestor is the root.  For resolver worlds without SkipForPartialExecution (a skipped
   list item shifts the response list's indices against the resolved list's). *)
Theorem C26_error_paths : forall s doc values w r log,
  world_skipfree w = true ->
  execute_request s doc values w = (EoResponse r, log) ->
  forall e, In e (er_errors r) ->
    match er_data r with
    | Some m => null_along (JObj m) (ge_path e)
    | None => True
    end.
Proof. exact c26_error_paths. Qed.
Check C26_error_paths : forall s doc values w r log,
  world_skipfree w = true ->
  execute_request s doc values w = (EoResponse r, log) ->
  forall e, In e (er_errors r) ->
    match er_data r with
    | Some m => null_along (JObj m) (ge_path e)
    | None => True
    end.
Print Assumptions C26_error_paths.

(* the invariant behind it, for every executor function and every fuel: the result value has the shape of its
   type and selections, old errors are kept, every new error's path extends the position being executed, and a
   propagated null always comes with an error *)
Theorem C26_invariant : forall w cx fuel,
  P_selset w cx fuel /\ P_field w cx fuel /\ P_complete w cx fuel /\ P_list w cx fuel.
Proof. exact inv_all. Qed.
Check C26_invariant : forall w cx fuel,
  P_selset w cx fuel /\ P_field w cx fuel /\ P_complete w cx fuel /\ P_list w cx fuel.
Print Assumptions C26_invariant.

(* non-vacuity: a request with nested selections, a list of non-null items with a null item (the list becomes
   null), a wrongly typed leaf at a non-null field (the parent becomes null), __typename; the reference executor
   gives the same response *)
Example C26_nonvacuous :
  (exists d vars root impls, execute_prepare x_nv_schema x_nv_doc [] = EpReady d vars root impls) /\
  fst (execute_request x_nv_schema x_nv_doc [] x_nv_world) =
    EoResponse {| er_data := Some [(xs "a", JObj [(xs "n", JInt 1); (xs "l", JNull)]); (xs "b", JNull);
                                   (xs "__typename", JStr (xs "Query"))];
                  er_errors := [{| ge_class := EcNull; ge_path := [PsKey (xs "a"); PsKey (xs "l"); PsIdx 1%N] |};
                                {| ge_class := EcLeaf; ge_path := [PsKey (xs "b"); PsKey (xs "n")] |}] |} /\
  ref_execute x_nv_schema x_nv_doc [] x_nv_world = fst (execute_request x_nv_schema x_nv_doc [] x_nv_world) /\
  world_skipfree x_nv_world = true.
Proof. exact c26_nonvacuous. Qed.

(* The full statement is false of the faithful model: with `interface I { f: Int }  type T implements I { f: Int! }
   type Query { i: I }`, the document `{ i { f } }` and a T whose f resolves to null, the code's response has null
   at the non-null position T.f and no error; the reference propagates the null to `i` and reports the error. *)
Theorem C26_covariant_refuted :
  (exists d, td_build x_cov_schema x_cov_doc = Some d /\ known_covariant x_cov_schema d = true) /\
  fst (execute_request x_cov_schema x_cov_doc [] x_cov_world) =
    EoResponse {| er_data := Some [(xs "i", JObj [(xs "f", JNull)])]; er_errors := [] |} /\
  ref_execute x_cov_schema x_cov_doc [] x_cov_world =
    EoResponse {| er_data := Some [(xs "i", JNull)];
                  er_errors := [{| ge_class := EcNull; ge_path := [PsKey (xs "i"); PsKey (xs "f")] |}] |}.
Proof. exact c26_covariant_refuted. Qed.
Check C26_covariant_refuted :
  (exists d, td_build x_cov_schema x_cov_doc = Some d /\ known_covariant x_cov_schema d = true) /\
  fst (execute_request x_cov_schema x_cov_doc [] x_cov_world) =
    EoResponse {| er_data := Some [(xs "i", JObj [(xs "f", JNull)])]; er_errors := [] |} /\
  ref_execute x_cov_schema x_cov_doc [] x_cov_world =
    EoResponse {| er_data := Some [(xs "i", JNull)];
                  er_errors := [{| ge_class := EcNull; ge_path := [PsKey (xs "i"); PsKey (xs "f")] |}] |}.
Print Assumptions C26_covariant_refuted.

(* Second known class: `scalar Any  type Query { any(j: Any): Any }`, `query($v: Int) { any(j: {a: $v}) }` with
   {"v": 3}: a variable nested in a literal at a scalar position is not substituted; the valid document's field
   fails with a SuspectedValidationBug error and its resolver is never called. *)
Theorem C26_nested_variable_refuted :
  (exists d, td_build x_nv2_schema x_nv2_doc = Some d /\ known_nested_var d = true) /\
  execute_request x_nv2_schema x_nv2_doc [(xs "v", JInt 3)] [((0%N, xs "any"), BhEcho)] =
    (EoResponse {| er_data := Some [(xs "any", JNull)];
                   er_errors := [{| ge_class := EcBug; ge_path := [PsKey (xs "any")] |}] |}, []).
Proof. exact c26_nested_variable_refuted. Qed.
Check C26_nested_variable_refuted :
  (exists d, td_build x_nv2_schema x_nv2_doc = Some d /\ known_nested_var d = true) /\
  execute_request x_nv2_schema x_nv2_doc [(xs "v", JInt 3)] [((0%N, xs "any"), BhEcho)] =
    (EoResponse {| er_data := Some [(xs "any", JNull)];
                   er_errors := [{| ge_class := EcBug; ge_path := [PsKey (xs "any")] |}] |}, []).
Print Assumptions C26_nested_variable_refuted.
