(* C26 — Execution follows the GraphQL execution algorithm.
   Property theorems only (Run/ExecTheorems.v), pinned by Check, followed by Print Assumptions. *)
From Coq Require Import ZArith String.
From ApolloVerif Require Import Base.Chars Ast.Ast Schema.Model Run.Json Run.Coerce Run.TypedDoc Run.Prog
  Run.Execute Run.ExecTop Run.RefExecute Run.ExecProofs Run.ExecPaths Run.ExecTheorems
  Run.ExecRefDefs Run.ExecRefInv Run.ExecRefFuel Run.ExecRefCollect Run.ExecRefTyping Run.ExecRefProp Run.ExecRefSim
  Run.ExecRefFuelRef Run.ExecRefNull Run.ExecRefTheorems.
Local Open Scope string_scope.
Local Open Scope list_scope.

(* C26_nonnull, for ANY resolver world and every request that gets a response:
   the data is shaped by the operation's selection set on the root type (ExecProofs.shape / shape_obj /
   shape_fields): exactly the collected response keys in order (minus fields undefined on the object type or skipped
   by the resolver), a JSON array per list wrapper of the field's type on the concrete object type, leaves accepted by
   result coercion, objects shaped by the merged sub-selections on a concrete object type allowed at that position,
   and null only where the field's type on the concrete object type (`field_def.ty`) is nullable;
   and data = null comes with at least one field error (one direction of "data is null exactly when a null
   propagates to the root").
   Equality with the reference executor of Run/RefExecute.v, both directions of data_null_iff and the sufficiency of
   the fuel ex_fuel_for are proved further down (C26_eq_reference, C26_data_null_iff, C26_fuel_enough). *)
Theorem C26_nonnull_partial : forall s doc values w d vars root impls r log,
  execute_prepare s doc values = EpReady d vars root impls ->
  execute_request s doc values w = (EoResponse r, log) ->
  (forall m, er_data r = Some m -> shape_obj (ex_cx_for s d vars) root impls (rd_sels d) m) /\
  (er_data r = None -> er_errors r <> []).
Proof. exact c26_nonnull. Qed.
Check C26_nonnull_partial : forall s doc values w d vars root impls r log,
  execute_prepare s doc values = EpReady d vars root impls ->
  execute_request s doc values w = (EoResponse r, log) ->
  (forall m, er_data r = Some m -> shape_obj (ex_cx_for s d vars) root impls (rd_sels d) m) /\
  (er_data r = None -> er_errors r <> []).
Print Assumptions C26_nonnull_partial.

(* every field error carries the path of its position: following an error's path in the data reaches a null, at the
   error's own position or at an enclosing position (the nearest nullable ancestor) to which the null propagated;
   when the data is null that ancestor is the root.  For resolver worlds without SkipForPartialExecution (a skipped
   list item shifts the response list's indices against the resolved list's). *)
Theorem C26_error_paths : forall s doc values w r log,
  world_skipfree w = true ->
  execute_request s doc values w = (EoResponse r, log) ->
  forall e, In e (er_errors r) ->
    match er_data r with
    | Some m => null_along (JObj m) (ge_path e)
    | None => True
    end.
Proof. exact c26_error_paths. Qed.
Check C26_error_paths : forall s doc values w r log,
  world_skipfree w = true ->
  execute_request s doc values w = (EoResponse r, log) ->
  forall e, In e (er_errors r) ->
    match er_data r with
    | Some m => null_along (JObj m) (ge_path e)
    | None => True
    end.
Print Assumptions C26_error_paths.

(* the invariant behind it, for every executor function and every fuel: the result value has the shape of its
   type and selections, old errors are kept, every new error's path extends the position being executed, and a
   propagated null always comes with an error *)
Theorem C26_invariant : forall w cx fuel,
  P_selset w cx fuel /\ P_field w cx fuel /\ P_complete w cx fuel /\ P_list w cx fuel.
Proof. exact inv_all. Qed.
Check C26_invariant : forall w cx fuel,
  P_selset w cx fuel /\ P_field w cx fuel /\ P_complete w cx fuel /\ P_list w cx fuel.
Print Assumptions C26_invariant.

(* non-vacuity: a request with nested selections, a list of non-null items with a null item (the list becomes
   null), a wrongly typed leaf at a non-null field (the parent becomes null), __typename; the reference executor
   gives the same response *)
Example C26_nonvacuous :
  (exists d vars root impls, execute_prepare x_nv_schema x_nv_doc [] = EpReady d vars root impls) /\
  fst (execute_request x_nv_schema x_nv_doc [] x_nv_world) =
    EoResponse {| er_data := Some [(xs "a", JObj [(xs "n", JInt 1); (xs "l", JNull)]); (xs "b", JNull);
                                   (xs "__typename", JStr (xs "Query"))];
                  er_errors := [{| ge_class := EcNull; ge_path := [PsKey (xs "a"); PsKey (xs "l"); PsIdx 1%N] |};
                                {| ge_class := EcLeaf; ge_path := [PsKey (xs "b"); PsKey (xs "n")] |}] |} /\
  ref_execute x_nv_schema x_nv_doc [] x_nv_world = fst (execute_request x_nv_schema x_nv_doc [] x_nv_world) /\
  world_skipfree x_nv_world = true.
Proof. exact c26_nonvacuous. Qed.

(* Formerly refuted (class covariant_field_type, repaired in execute_field): with `interface I { f: Int }
   type T implements I { f: Int! }  type Query { i: I }`, the document `{ i { f } }` and a T whose f resolves to null,
   the value is completed against T.f's type: the null propagates to `i` and the error is reported, as the reference
   says (the general statement is C26_eq_reference below, which no longer excludes such schemas). *)
Theorem C26_covariant_repaired :
  (exists d, td_build x_cov_schema x_cov_doc = Some d) /\ sch_exec_wf x_cov_schema = true /\
  fst (execute_request x_cov_schema x_cov_doc [] x_cov_world) =
    EoResponse {| er_data := Some [(xs "i", JNull)];
                  er_errors := [{| ge_class := EcNull; ge_path := [PsKey (xs "i"); PsKey (xs "f")] |}] |} /\
  ref_execute x_cov_schema x_cov_doc [] x_cov_world = fst (execute_request x_cov_schema x_cov_doc [] x_cov_world).
Proof. exact c26_covariant_repaired. Qed.
Check C26_covariant_repaired :
  (exists d, td_build x_cov_schema x_cov_doc = Some d) /\ sch_exec_wf x_cov_schema = true /\
  fst (execute_request x_cov_schema x_cov_doc [] x_cov_world) =
    EoResponse {| er_data := Some [(xs "i", JNull)];
                  er_errors := [{| ge_class := EcNull; ge_path := [PsKey (xs "i"); PsKey (xs "f")] |}] |} /\
  ref_execute x_cov_schema x_cov_doc [] x_cov_world = fst (execute_request x_cov_schema x_cov_doc [] x_cov_world).
Print Assumptions C26_covariant_repaired.

(* Formerly refuted (class nested_variable_in_scalar_literal, repaired in coerce_argument_value): `scalar Any
   type Query { any(j: Any): Any }`, `query($v: Int) { any(j: {a: $v}) }` with {"v": 3}: the variable nested in the
   literal at a custom-scalar position is substituted, the resolver is called with {"j": {"a": 3}} and there is no
   error. *)
Theorem C26_nested_variable_repaired :
  (exists d, td_build x_nv2_schema x_nv2_doc = Some d) /\
  execute_request x_nv2_schema x_nv2_doc [(xs "v", JInt 3)] [((0%N, xs "any"), BhEcho)] =
    (EoResponse {| er_data := Some [(xs "any", JObj [(xs "j", JObj [(xs "a", JInt 3)])])]; er_errors := [] |},
     [{| ec_obj := 0%N; ec_field := xs "any"; ec_args := [(xs "j", JObj [(xs "a", JInt 3)])] |}]) /\
  ref_execute x_nv2_schema x_nv2_doc [(xs "v", JInt 3)] [((0%N, xs "any"), BhEcho)] =
    fst (execute_request x_nv2_schema x_nv2_doc [(xs "v", JInt 3)] [((0%N, xs "any"), BhEcho)]).
Proof. exact c26_nested_variable_repaired. Qed.
Check C26_nested_variable_repaired :
  (exists d, td_build x_nv2_schema x_nv2_doc = Some d) /\
  execute_request x_nv2_schema x_nv2_doc [(xs "v", JInt 3)] [((0%N, xs "any"), BhEcho)] =
    (EoResponse {| er_data := Some [(xs "any", JObj [(xs "j", JObj [(xs "a", JInt 3)])])]; er_errors := [] |},
     [{| ec_obj := 0%N; ec_field := xs "any"; ec_args := [(xs "j", JObj [(xs "a", JInt 3)])] |}]) /\
  ref_execute x_nv2_schema x_nv2_doc [(xs "v", JInt 3)] [((0%N, xs "any"), BhEcho)] =
    fst (execute_request x_nv2_schema x_nv2_doc [(xs "v", JInt 3)] [((0%N, xs "any"), BhEcho)]).
Print Assumptions C26_nested_variable_repaired.

(* ================================================================ second part: the reference executor

   Hypotheses used below (Run/ExecRefDefs.v), all on the typed document d = td_build s doc and the schema:
     rd_acyclic d = true          every chain of fragment spreads ends within (number of fragments + 1) steps, i.e. the
                                  fragments reachable in the document form no cycle (decidable; validation's
                                  NoFragmentCycles).  Without it the code itself does not terminate.
     sch_exec_wf s = true         type names are unique in the type map, no object / interface type declares a field
                                  named __typename / __schema / __type, the built-in scalar String is present, and
                                  where an object type declares a field of an interface it implements, every object
                                  type possible for the object's field type is possible for the interface's field
                                  type (sch_impl_covariant: what IsValidImplementation guarantees and execution uses)
                                  (decidable; true of every valid schema; evaluated on every generated case)
     rd_mergeable s d             in every grouped field set execution can form (any object type, any depth) the
                                  fields of a response key have one field name: the "same field name" half of
                                  validation's FieldsInSetCanMerge.  A proposition; rd_alias_consistent d = true (a
                                  response key names one field throughout the document) is a decidable sufficient
                                  condition (C26_mergeable_of_alias_consistent).  The proof's typing invariant needs
                                  it; since the repair of execute_field no request is known on which model and
                                  reference differ without it (C26_unmergeable_example: for the invalid
                                  `{ x: a { j } x: b { k } }` both now complete k with the type of A.k).
   The typed document itself is td_build's (Run/TypedDoc.v: valid documents; C18 is about the real construction). *)

(* the fuel handed to the executor, to collect_fields and to argument coercion always suffices *)
Theorem C26_fuel_enough : forall s doc values w d vars root impls,
  execute_prepare s doc values = EpReady d vars root impls ->
  rd_acyclic d = true ->
  fst (execute_request s doc values w) <> EoFuel.
Proof. exact c26_fuel_enough. Qed.
Check C26_fuel_enough : forall s doc values w d vars root impls,
  execute_prepare s doc values = EpReady d vars root impls ->
  rd_acyclic d = true ->
  fst (execute_request s doc values w) <> EoFuel.
Print Assumptions C26_fuel_enough.

(* collect_fields of the model (one pass, pushing into an ordered map of groups) = flatten-then-group-by-response-key
   of the reference, with @skip/@include, type conditions and the visited-fragments set, for any fuels that suffice *)
Theorem C26_collect_fields_eq : forall cx otn oimpls fuel1 fuel2 sels v1 groups fields v2,
  sch_names_unique (ex_schema cx) -> ex_get_object (ex_schema cx) otn = Some oimpls ->
  ex_collect fuel1 cx otn oimpls sels [] [] = Some (v1, groups) ->
  rf_flatten fuel2 (ex_schema cx) (ex_frags cx) (ex_vars cx) otn sels [] = Some (fields, v2) ->
  v2 = v1 /\ to_ref groups = rf_group fields.
Proof. exact c26_collect_fields_eq. Qed.
Check C26_collect_fields_eq : forall cx otn oimpls fuel1 fuel2 sels v1 groups fields v2,
  sch_names_unique (ex_schema cx) -> ex_get_object (ex_schema cx) otn = Some oimpls ->
  ex_collect fuel1 cx otn oimpls sels [] [] = Some (v1, groups) ->
  rf_flatten fuel2 (ex_schema cx) (ex_frags cx) (ex_vars cx) otn sels [] = Some (fields, v2) ->
  v2 = v1 /\ to_ref groups = rf_group fields.
Print Assumptions C26_collect_fields_eq.

(* complete_leaf_value = the reference's result coercion of scalars and enums *)
Theorem C26_leaf_completion_eq : forall s n tdef j,
  sch_get_type s n = Some tdef -> j <> JNull ->
  match tdef with EScalar _ _ _ _ | EEnum _ _ _ _ _ => True | _ => False end ->
  ex_leaf n tdef j = if rf_leaf_ok s n j then None else Some EcLeaf.
Proof. exact leaf_eq. Qed.
Check C26_leaf_completion_eq : forall s n tdef j,
  sch_get_type s n = Some tdef -> j <> JNull ->
  match tdef with EScalar _ _ _ _ | EEnum _ _ _ _ _ => True | _ => False end ->
  ex_leaf n tdef j = if rf_leaf_ok s n j then None else Some EcLeaf.
Print Assumptions C26_leaf_completion_eq.

(* the simulation, for ANY fuels on both sides and any world: as long as neither side runs out of fuel,
   execute_selection_set, execute_field, complete_value and complete_list_value of the model produce the value and
   (reversed) the new errors that the reference's null propagation computes from its result tree at that position *)
Theorem C26_simulation : forall s d vars w,
  sch_names_unique s -> sch_no_meta_fields s -> sch_has_string s -> sch_impl_covariant s = true ->
  frags_typed s (rd_frags d) ->
  forall f1, S_selset s d vars w f1 /\ S_field s d vars w f1 /\ S_complete s d vars w f1 /\ S_list s d vars w f1.
Proof. exact sim_all. Qed.
Check C26_simulation : forall s d vars w,
  sch_names_unique s -> sch_no_meta_fields s -> sch_has_string s -> sch_impl_covariant s = true ->
  frags_typed s (rd_frags d) ->
  forall f1, S_selset s d vars w f1 /\ S_field s d vars w f1 /\ S_complete s d vars w f1 /\ S_list s d vars w f1.
Print Assumptions C26_simulation.

(* C26_eq_reference: for any resolver world, the outcome of the executor model — data and the error list (class, path)
   in order — is the outcome of the reference executor (build the annotated result tree, then propagate nulls to the
   nearest nullable ancestor), and neither runs out of fuel *)
Theorem C26_eq_reference : forall s doc values w d vars root impls,
  execute_prepare s doc values = EpReady d vars root impls ->
  sch_exec_wf s = true -> rd_mergeable s d -> rd_acyclic d = true ->
  fst (execute_request s doc values w) = ref_execute s doc values w.
Proof. exact c26_eq_reference. Qed.
Check C26_eq_reference : forall s doc values w d vars root impls,
  execute_prepare s doc values = EpReady d vars root impls ->
  sch_exec_wf s = true -> rd_mergeable s d -> rd_acyclic d = true ->
  fst (execute_request s doc values w) = ref_execute s doc values w.
Print Assumptions C26_eq_reference.

(* the decidable sufficient condition for rd_mergeable, and the statement with decidable hypotheses only *)
Theorem C26_mergeable_of_alias_consistent : forall s d,
  rd_alias_consistent d = true -> rd_acyclic d = true -> rd_mergeable s d.
Proof. exact alias_consistent_mergeable. Qed.
Check C26_mergeable_of_alias_consistent : forall s d,
  rd_alias_consistent d = true -> rd_acyclic d = true -> rd_mergeable s d.
Print Assumptions C26_mergeable_of_alias_consistent.

Theorem C26_eq_reference_decidable : forall s doc values w d vars root impls,
  execute_prepare s doc values = EpReady d vars root impls ->
  sch_exec_wf s = true -> rd_alias_consistent d = true -> rd_acyclic d = true ->
  fst (execute_request s doc values w) = ref_execute s doc values w.
Proof. exact c26_eq_reference_alias. Qed.
Check C26_eq_reference_decidable : forall s doc values w d vars root impls,
  execute_prepare s doc values = EpReady d vars root impls ->
  sch_exec_wf s = true -> rd_alias_consistent d = true -> rd_acyclic d = true ->
  fst (execute_request s doc values w) = ref_execute s doc values w.
Print Assumptions C26_eq_reference_decidable.

(* C26_data_null_iff, both directions: the data is null exactly when, in the reference's result tree of the request,
   some root field propagates a null — rt_propagates: a field error (or failed list) all of whose enclosing
   positions, up to the root field, are non-null *)
Theorem C26_data_null_iff : forall s doc values w d vars root impls r log,
  execute_prepare s doc values = EpReady d vars root impls ->
  sch_exec_wf s = true -> rd_mergeable s d -> rd_acyclic d = true ->
  execute_request s doc values w = (EoResponse r, log) ->
  (er_data r = None <-> rt_fields_propagate (ref_root_fields s d vars root w) = true).
Proof. exact c26_data_null_iff. Qed.
Check C26_data_null_iff : forall s doc values w d vars root impls r log,
  execute_prepare s doc values = EpReady d vars root impls ->
  sch_exec_wf s = true -> rd_mergeable s d -> rd_acyclic d = true ->
  execute_request s doc values w = (EoResponse r, log) ->
  (er_data r = None <-> rt_fields_propagate (ref_root_fields s d vars root w) = true).
Print Assumptions C26_data_null_iff.

(* non-vacuity of the hypotheses: they hold of the example request above (whose data is not null) *)
Example C26_hypotheses_nonvacuous :
  exists d vars root impls,
    execute_prepare x_nv_schema x_nv_doc [] = EpReady d vars root impls /\
    sch_exec_wf x_nv_schema = true /\ rd_alias_consistent d = true /\
    rd_acyclic d = true /\ rd_mergeable x_nv_schema d /\
    rt_fields_propagate (ref_root_fields x_nv_schema d vars root x_nv_world) = false.
Proof. exact c26_hyps_nonvacuous. Qed.

(* the former counterexample to dropping rd_mergeable: an (invalid) document whose two fields of response key x do not
   merge; since the repair of execute_field the model and the reference agree on it *)
Example C26_unmergeable_example :
  (exists d, td_build x_mg_schema x_mg_doc = Some d /\ sch_exec_wf x_mg_schema = true /\
             rd_acyclic d = true /\ rd_alias_consistent d = false) /\
  fst (execute_request x_mg_schema x_mg_doc [] x_mg_world) =
    EoResponse {| er_data := Some [(xs "x", JObj [(xs "j", JInt 1); (xs "k", JNull)])];
                  er_errors := [{| ge_class := EcLeaf; ge_path := [PsKey (xs "x"); PsKey (xs "k")] |}] |} /\
  ref_execute x_mg_schema x_mg_doc [] x_mg_world = fst (execute_request x_mg_schema x_mg_doc [] x_mg_world).
Proof. exact c26_unmergeable_example. Qed.
