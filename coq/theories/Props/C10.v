(* C10 — placeholder while the tie is brought up; replaced by the property theorems. *)
From ApolloVerif Require Import Base.Chars Base.Utf8 Ast.Names Ast.NamesProofs.

Theorem C10_name : forall s, name_is_valid_syntax s = true <-> IsName s.
Proof. exact name_valid_iff_spec. Qed.
Check C10_name : forall s, name_is_valid_syntax s = true <-> IsName s.
Print Assumptions C10_name.
