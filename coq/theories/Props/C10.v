(* C10 — Names, numbers and type references are well-formed.
   Property theorems only: each closed by `exact <lemma>`, pinned by Check, followed by Print Assumptions. *)
From ApolloVerif Require Import Base.Chars Base.Utf8 Ast.Names Ast.NamesProofs Ast.Numbers Ast.NumbersProofs
  Ast.Ast Ast.TypeRef Ast.TypeRefProofs.
From Coq Require Import ZArith.

(* ---- names: Name::is_valid_syntax over the UTF-8 bytes is the GraphQL Name grammar ---- *)

Theorem C10_name : forall s, name_is_valid_syntax s = true <-> IsName s.
Proof. exact name_valid_iff_spec. Qed.
Check C10_name : forall s, name_is_valid_syntax s = true <-> IsName s.
Print Assumptions C10_name.

Theorem C10_name_bytes_eq_chars : forall s, name_is_valid_syntax s = is_valid_name s.
Proof. exact name_bytes_eq_chars. Qed.
Check C10_name_bytes_eq_chars : forall s, name_is_valid_syntax s = is_valid_name s.
Print Assumptions C10_name_bytes_eq_chars.

Theorem C10_name_nonascii : forall s, (exists c, In c s /\ 128 <= c) -> name_is_valid_syntax s = false.
Proof. exact name_nonascii_invalid. Qed.
Check C10_name_nonascii : forall s, (exists c, In c s /\ 128 <= c) -> name_is_valid_syntax s = false.
Print Assumptions C10_name_nonascii.

(* every checked constructor (new, new_static, TryFrom<Arc<str>>, TryFrom<&str|String|&String>, Deserialize)
   accepts exactly the valid names and keeps the text *)
Theorem C10_name_constructors : forall s,
  let r := if name_is_valid_syntax s then Some s else None in
  name_new s = r /\ name_new_static s = r /\ name_try_from_arc s = r /\
  name_try_from_str s = r /\ name_deserialize s = r.
Proof. exact name_constructors_agree. Qed.
Check C10_name_constructors : forall s,
  let r := if name_is_valid_syntax s then Some s else None in
  name_new s = r /\ name_new_static s = r /\ name_try_from_arc s = r /\
  name_try_from_str s = r /\ name_deserialize s = r.
Print Assumptions C10_name_constructors.

(* ---- numeric literal syntax (also what serde deserialization of IntValue / FloatValue accepts) ---- *)

Theorem C10_int_syntax : forall s, num_int_valid_syntax s = true <-> SpecIntValue s.
Proof. exact int_syntax_iff. Qed.
Check C10_int_syntax : forall s, num_int_valid_syntax s = true <-> SpecIntValue s.
Print Assumptions C10_int_syntax.

Theorem C10_float_syntax : forall s, num_float_valid_syntax s = true <-> SpecFloatValue s.
Proof. exact float_syntax_iff. Qed.
Check C10_float_syntax : forall s, num_float_valid_syntax s = true <-> SpecFloatValue s.
Print Assumptions C10_float_syntax.

(* the code before the fix c6646f2 (DESIGN.md D8) accepted "1e" and "1.5e+"; outside that class it was right *)
Theorem C10_float_old_refuted :
  num_float_valid_syntax_old [49; 101] = true /\ ~ SpecFloatValue [49; 101] /\
  num_float_valid_syntax_old [49; 46; 53; 101; 43] = true /\ ~ SpecFloatValue [49; 46; 53; 101; 43].
Proof. exact float_old_refuted. Qed.
Check C10_float_old_refuted :
  num_float_valid_syntax_old [49; 101] = true /\ ~ SpecFloatValue [49; 101] /\
  num_float_valid_syntax_old [49; 46; 53; 101; 43] = true /\ ~ SpecFloatValue [49; 46; 53; 101; 43].
Print Assumptions C10_float_old_refuted.

Theorem C10_float_old_restricted : forall s,
  num_empty_exponent_digits s = false -> (num_float_valid_syntax_old s = true <-> SpecFloatValue s).
Proof. exact float_old_iff_restricted. Qed.
Check C10_float_old_restricted : forall s,
  num_empty_exponent_digits s = false -> (num_float_valid_syntax_old s = true <-> SpecFloatValue s).
Print Assumptions C10_float_old_restricted.

(* ---- i32 -> IntValue -> i32, for every i32 (decimal printing proved, not sampled) ---- *)

Theorem C10_i32 : forall z, (num_i32_min <= z <= num_i32_max)%Z ->
  exists s, num_int_from_i32 z = Some s /\ num_int_valid_syntax s = true /\ num_parse_i32 s = Some z.
Proof. exact i32_roundtrip. Qed.
Check C10_i32 : forall z, (num_i32_min <= z <= num_i32_max)%Z ->
  exists s, num_int_from_i32 z = Some s /\ num_int_valid_syntax s = true /\ num_parse_i32 s = Some z.
Print Assumptions C10_i32.

(* ---- f64 -> FloatValue.
   Full statement (NOT proved): for every finite f64 x, the text of FloatValue::from(x) satisfies
   SpecFloatValue and try_to_f64 returns x with the same bits.  That needs a model of Rust's shortest
   round-trip float printing and of f64::from_str; neither is modelled.  Proved: if `x.to_string()` has
   the shape Rust documents for `{}` on a finite f64 (optional '-', decimal digits without superfluous
   leading zeros, optionally '.' and digits, never an exponent), the ".0" fix-up yields a valid
   FloatValue.  The shape and the parse-back are checked on every generated f64 by the tie. ---- *)
Theorem C10_f64_shape_partial : forall t, RustFloatDisplayShape t ->
  SpecFloatValue (num_float_fixup t) /\ num_float_valid_syntax (num_float_fixup t) = true.
Proof. exact float_fixup_shape. Qed.
Check C10_f64_shape_partial : forall t, RustFloatDisplayShape t ->
  SpecFloatValue (num_float_fixup t) /\ num_float_valid_syntax (num_float_fixup t) = true.
Print Assumptions C10_f64_shape_partial.

(* ---- type references: parse (print t) = t for every nesting depth within the recursion limit ---- *)

Theorem C10_type_roundtrip : forall t limit,
  tref_wf t = true -> (tref_depth t <= limit)%nat -> tref_parse limit (tref_print t) = Some t.
Proof. exact type_roundtrip. Qed.
Check C10_type_roundtrip : forall t limit,
  tref_wf t = true -> (tref_depth t <= limit)%nat -> tref_parse limit (tref_print t) = Some t.
Print Assumptions C10_type_roundtrip.

Theorem C10_type_over_limit : forall t limit,
  tref_wf t = true -> (limit < tref_depth t)%nat -> tref_parse limit (tref_print t) = None.
Proof. exact type_over_limit. Qed.
Check C10_type_over_limit : forall t limit,
  tref_wf t = true -> (limit < tref_depth t)%nat -> tref_parse limit (tref_print t) = None.
Print Assumptions C10_type_over_limit.

(* ---- non-vacuity ---- *)
Example C10_nonvacuous_name :
  name_is_valid_syntax [95; 120; 57] = true /\ name_is_valid_syntax [97; 233] = false /\
  (exists c, In c [97; 233] /\ 128 <= c).
Proof. repeat split; try (vm_compute; reflexivity). exists 233. split; [now right; left|vm_compute; discriminate]. Qed.

Example C10_nonvacuous_numbers :
  num_int_valid_syntax [45; 48] = true /\ num_float_valid_syntax [45; 49; 46; 53; 48; 101; 43; 49; 48] = true /\
  num_float_valid_syntax [49; 101] = false /\ num_empty_exponent_digits [49; 46; 48] = false /\
  num_int_from_i32 (-2147483648)%Z = Some [45; 50; 49; 52; 55; 52; 56; 51; 54; 52; 56] /\
  num_parse_i32 [45; 50; 49; 52; 55; 52; 56; 51; 54; 52; 56] = Some (-2147483648)%Z /\
  num_parse_i32 [50; 49; 52; 55; 52; 56; 51; 54; 52; 56] = None /\
  (num_i32_min <= -2147483648 <= num_i32_max)%Z.
Proof. repeat split; vm_compute; try reflexivity; discriminate. Qed.

Example C10_nonvacuous_shape :
  RustFloatDisplayShape [45; 48] /\ num_float_fixup [45; 48] = [45; 48; 46; 48] /\
  RustFloatDisplayShape ([49; 48] ++ [46; 53]) /\ num_float_fixup [49; 48; 46; 53] = [49; 48; 46; 53].
Proof.
  split; [apply RFS_int, SIP_neg_zero|]. split; [reflexivity|]. split; [|reflexivity].
  apply RFS_frac.
  - apply SIP_nonzero; [unfold SpecNonZeroDigit; lia|repeat constructor; unfold SpecDigit; lia].
  - apply SFP; [unfold SpecDigit; lia|constructor].
Qed.

Definition ex_ty : ty := TNonNullList (TList (TNonNullNamed [73; 110; 116])).
Example C10_nonvacuous_type :
  tref_wf ex_ty = true /\ (tref_depth ex_ty <= tref_default_limit)%nat /\
  tref_print ex_ty = [91; 91; 73; 110; 116; 33; 93; 93; 33] /\
  tref_parse tref_default_limit (tref_print ex_ty) = Some ex_ty /\
  tref_parse 1 (tref_print ex_ty) = None.
Proof. repeat split; try (vm_compute; reflexivity). unfold tref_default_limit. cbn. lia. Qed.
