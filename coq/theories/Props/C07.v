(* C07 — Standalone type and field-set parsing consume the whole input.  PARTIAL.

   Full statements (not proved; they need the grammar-level correctness of ty::parse / selection, which is
   C05's reference grammar):
     C07_type_exact     : errors (parse_type s) = [] ->
                          exists t, significant (lex_all s) = type_tokens t ++ [Eof]
     C07_fieldset_exact : errors (parse_selection_set s) = [] ->
                          significant (lex_all s) is `sel` or `{ sel }` followed by Eof, sel one or more selections
   Proved here, for all item lists / limits: (1) both entries read to the end of the stream before returning;
   (2) the part of the property that the repaired code added: whatever follows the construct is reported --
   if no error is on record after trailing_tokens_are_errors, only ignored tokens stood between the end of the
   construct and Eof.  What is NOT proved: that the construct itself is one well-formed type / selection set when
   no error is reported (exercised by the correspondence run and its oracle only). *)
From ApolloVerif Require Import Base.Chars Lex.Item Lex.Fun Parse.Outcome Parse.Builder Parse.Limits Parse.Monad
  Parse.Grammar Parse.Entry Parse.LosslessDefs Parse.Lossless Parse.SilentInst Parse.EntryEnd.

Theorem C07_type_entry_reaches_eof_partial : forall fuel dbg rl items u s',
  g_type_entry fuel (p_init_state dbg rl items) = POk (u, s') -> at_end s' /\ ps_pending s' = [].
Proof. exact type_entry_reaches_eof. Qed.
Check C07_type_entry_reaches_eof_partial : forall fuel dbg rl items u s',
  g_type_entry fuel (p_init_state dbg rl items) = POk (u, s') -> at_end s' /\ ps_pending s' = [].
Print Assumptions C07_type_entry_reaches_eof_partial.

Theorem C07_field_set_entry_reaches_eof_partial : forall fuel dbg rl items u s',
  0 < rl -> g_field_set fuel (p_init_state dbg rl items) = POk (u, s') -> at_end s' /\ ps_pending s' = [].
Proof. exact field_set_entry_reaches_eof. Qed.
Check C07_field_set_entry_reaches_eof_partial : forall fuel dbg rl items u s',
  0 < rl -> g_field_set fuel (p_init_state dbg rl items) = POk (u, s') -> at_end s' /\ ps_pending s' = [].
Print Assumptions C07_field_set_entry_reaches_eof_partial.

(* rest_of s = current token and what the lexer will still yield; ignored_item = a Whitespace / Comment / Comma
   token (a lexical error is not); errs_ok is the invariant of C04_silent_after_limit *)
Theorem C07_trailing_tokens_reported_partial : forall fuel s u s',
  p_trailing_tokens_are_errors fuel s = POk (u, s') ->
  errs_ok (ps_accept s) (ps_errors s) -> ps_errors s' = [] ->
  exists ign, rest_of s = ign ++ rest_of s' /\ Forall ignored_item ign /\ at_end s'.
Proof. exact trailing_tokens_clean. Qed.
Check C07_trailing_tokens_reported_partial : forall fuel s u s',
  p_trailing_tokens_are_errors fuel s = POk (u, s') ->
  errs_ok (ps_accept s) (ps_errors s) -> ps_errors s' = [] ->
  exists ign, rest_of s = ign ++ rest_of s' /\ Forall ignored_item ign /\ at_end s'.
Print Assumptions C07_trailing_tokens_reported_partial.

(* non-vacuity, on the witnesses of the repaired defect D7 and on accepted inputs:
   `Int ]] x`, `Int Int`, `[Int] !` ... now report errors; `[Int!]!` and ` a { b } ` do not *)
Definition errs_of (o : poutcome presult) : option N :=
  match o with POk r => Some (N.of_nat (length (pr_errors r))) | _ => None end.
Example C07_nonvacuous :
  errs_of (parse_type_items false 500 (lex_all [73;110;116;32;93;93;32;120])) = Some 3 /\
  errs_of (parse_type_items false 500 (lex_all [73;110;116;32;73;110;116])) = Some 1 /\
  errs_of (parse_type_items false 500 (lex_all [73;110;116;33;33])) = Some 1 /\
  errs_of (parse_type_items false 500 (lex_all [32;91;73;110;116;33;93;33;32])) = Some 0 /\
  errs_of (parse_selection_set_items false 500 (lex_all [97;32;125;32;98])) = Some 2 /\
  errs_of (parse_selection_set_items false 500 (lex_all [123;32;97;32;125;32;125])) = Some 1 /\
  errs_of (parse_selection_set_items false 500 (lex_all [32;97;32;123;32;98;32;125;32])) = Some 0.
Proof. vm_compute. repeat split. Qed.
