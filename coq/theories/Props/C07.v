(* C07 — placeholder while the proofs are being developed (replaced below in this branch). *)
From ApolloVerif Require Import Base.Chars Parse.Outcome Parse.Limits.
Theorem C07_tracker_decrement_total : forall t, ptr_current t <> 0 -> exists t', ptracker_decrement t = POk t'.
Proof. intros t H. unfold ptracker_decrement. destruct (N.eqb_spec (ptr_current t) 0); [contradiction|eauto]. Qed.
Check C07_tracker_decrement_total : forall t, ptr_current t <> 0 -> exists t', ptracker_decrement t = POk t'.
Print Assumptions C07_tracker_decrement_total.
