(* C07 — Standalone type and field-set parsing consume the whole input.

   Proved here, for every source string and every recursion limit (parser model Parse/Grammar.v + Parse/Entry.v on the
   items of the lexer model Lex.Fun.lex_all; reference Parse/RefGrammar.v):
     C07_type_exact     : no error reported by parse_type  ->  the significant tokens of the input are exactly one
                          Type of the reference grammar (rg_type consumes all of them)               -- FULL
     C07_type_accepts   : the converse, when the recursion limit exceeds the number of `[` (a bound on nesting)
     C07_fieldset_exact : no error reported by parse_selection_set  ->  the significant tokens are exactly
                          `{ Selection+ }` or `Selection+` of the reference grammar                    -- FULL
                          (the two leniencies that used to show here, an argument / object field without a value,
                          C05's findings, were repaired in /repo: C07_fieldset_repaired_witness keeps the former
                          counterexample `f(a)`; the remaining relaxation of Parse/RefLenient.v, a list value ending
                          at the end of the tokens, never shows in a whole field set: Parse/RefLenientEof.v).
     C07_fieldset_accepts : everything the reference accepts is parsed without error (recursion limit above the
                          number of `{`, `[`, `:` tokens + 1).
   and, for all item lists / limits (older, weaker facts kept): both entries read to the end of the stream before
   returning; whatever follows the construct is reported. *)
From ApolloVerif Require Import Base.Chars Lex.Item Lex.Fun Parse.Outcome Parse.Builder Parse.Limits Parse.Monad
  Parse.Grammar Parse.Entry Parse.LosslessDefs Parse.Lossless Parse.SilentInst Parse.EntryEnd
  Parse.RefGrammar Parse.RefLenient Parse.RefLinkBase Parse.RefLinkTop.

Theorem C07_type_entry_reaches_eof_partial : forall fuel dbg rl items u s',
  g_type_entry fuel (p_init_state dbg rl items) = POk (u, s') -> at_end s' /\ ps_pending s' = [].
Proof. exact type_entry_reaches_eof. Qed.
Check C07_type_entry_reaches_eof_partial : forall fuel dbg rl items u s',
  g_type_entry fuel (p_init_state dbg rl items) = POk (u, s') -> at_end s' /\ ps_pending s' = [].
Print Assumptions C07_type_entry_reaches_eof_partial.

Theorem C07_field_set_entry_reaches_eof_partial : forall fuel dbg rl items u s',
  0 < rl -> g_field_set fuel (p_init_state dbg rl items) = POk (u, s') -> at_end s' /\ ps_pending s' = [].
Proof. exact field_set_entry_reaches_eof. Qed.
Check C07_field_set_entry_reaches_eof_partial : forall fuel dbg rl items u s',
  0 < rl -> g_field_set fuel (p_init_state dbg rl items) = POk (u, s') -> at_end s' /\ ps_pending s' = [].
Print Assumptions C07_field_set_entry_reaches_eof_partial.

(* rest_of s = current token and what the lexer will still yield; ignored_item = a Whitespace / Comment / Comma
   token (a lexical error is not); errs_ok is the invariant of C04_silent_after_limit *)
Theorem C07_trailing_tokens_reported_partial : forall fuel s u s',
  p_trailing_tokens_are_errors fuel s = POk (u, s') ->
  errs_ok (ps_accept s) (ps_errors s) -> ps_errors s' = [] ->
  exists ign, rest_of s = ign ++ rest_of s' /\ Forall ignored_item ign /\ at_end s'.
Proof. exact trailing_tokens_clean. Qed.
Check C07_trailing_tokens_reported_partial : forall fuel s u s',
  p_trailing_tokens_are_errors fuel s = POk (u, s') ->
  errs_ok (ps_accept s) (ps_errors s) -> ps_errors s' = [] ->
  exists ign, rest_of s = ign ++ rest_of s' /\ Forall ignored_item ign /\ at_end s'.
Print Assumptions C07_trailing_tokens_reported_partial.

(* non-vacuity, on the witnesses of the repaired defect D7 and on accepted inputs:
   `Int ]] x`, `Int Int`, `[Int] !` ... now report errors; `[Int!]!` and ` a { b } ` do not *)
Definition errs_of (o : poutcome presult) : option N :=
  match o with POk r => Some (N.of_nat (length (pr_errors r))) | _ => None end.
Example C07_nonvacuous :
  errs_of (parse_type_items false 500 (lex_all [73;110;116;32;93;93;32;120])) = Some 3 /\
  errs_of (parse_type_items false 500 (lex_all [73;110;116;32;73;110;116])) = Some 1 /\
  errs_of (parse_type_items false 500 (lex_all [73;110;116;33;33])) = Some 1 /\
  errs_of (parse_type_items false 500 (lex_all [32;91;73;110;116;33;93;33;32])) = Some 0 /\
  errs_of (parse_selection_set_items false 500 (lex_all [97;32;125;32;98])) = Some 2 /\
  errs_of (parse_selection_set_items false 500 (lex_all [123;32;97;32;125;32;125])) = Some 1 /\
  errs_of (parse_selection_set_items false 500 (lex_all [32;97;32;123;32;98;32;125;32])) = Some 0.
Proof. vm_compute. repeat split. Qed.

(* ---- exactness against the reference grammar (rg_significant = the input's tokens without Whitespace, Comment,
        Comma and Eof, None on a lexical error; rg_type / rg_field_set = the reference recognisers, RgOk [] = all
        tokens consumed; rl_weight counts the `{`, `[`, `:` tokens) ---- *)
Theorem C07_type_exact : forall dbg rl s r,
  parse_type_items dbg rl (lex_all s) = POk r -> pr_errors r = [] ->
  exists ts, rg_significant (lex_all s) = Some ts /\ rg_type ts = RgOk [].
Proof. exact rl_type_exact_source. Qed.
Check C07_type_exact : forall dbg rl s r,
  parse_type_items dbg rl (lex_all s) = POk r -> pr_errors r = [] ->
  exists ts, rg_significant (lex_all s) = Some ts /\ rg_type ts = RgOk [].
Print Assumptions C07_type_exact.

Theorem C07_type_accepts : forall dbg rl s r ts,
  parse_type_items dbg rl (lex_all s) = POk r -> rg_significant (lex_all s) = Some ts ->
  rg_type ts = RgOk [] -> rl_weight ts < rl -> pr_errors r = [].
Proof. exact rl_type_accepts_source. Qed.
Check C07_type_accepts : forall dbg rl s r ts,
  parse_type_items dbg rl (lex_all s) = POk r -> rg_significant (lex_all s) = Some ts ->
  rg_type ts = RgOk [] -> rl_weight ts < rl -> pr_errors r = [].
Print Assumptions C07_type_accepts.

Theorem C07_fieldset_exact : forall dbg rl s r, 0 < rl ->
  parse_selection_set_items dbg rl (lex_all s) = POk r -> pr_errors r = [] ->
  exists ts, rg_significant (lex_all s) = Some ts /\ rg_field_set ts = RgOk [].
Proof. exact rl_field_set_exact_reference. Qed.
Check C07_fieldset_exact : forall dbg rl s r, 0 < rl ->
  parse_selection_set_items dbg rl (lex_all s) = POk r -> pr_errors r = [] ->
  exists ts, rg_significant (lex_all s) = Some ts /\ rg_field_set ts = RgOk [].
Print Assumptions C07_fieldset_exact.

Theorem C07_fieldset_accepts : forall dbg rl s r ts,
  parse_selection_set_items dbg rl (lex_all s) = POk r -> rg_significant (lex_all s) = Some ts ->
  rg_field_set ts = RgOk [] -> rl_weight ts + 1 < rl -> pr_errors r = [].
Proof. exact rl_field_set_accepts_source. Qed.
Check C07_fieldset_accepts : forall dbg rl s r ts,
  parse_selection_set_items dbg rl (lex_all s) = POk r -> rg_significant (lex_all s) = Some ts ->
  rg_field_set ts = RgOk [] -> rl_weight ts + 1 < rl -> pr_errors r = [].
Print Assumptions C07_fieldset_accepts.

(* the former counterexample `f(a)` (an argument without a value, repaired in /repo): the model now reports it, the
   reference rejects its tokens, they are outside the class, and the relaxed grammar of before the repair accepted them *)
Theorem C07_fieldset_repaired_witness :
  rl_reports (parse_selection_set_items false 500 (lex_all rl_field_set_witness)) = true /\
  rg_significant (lex_all rl_field_set_witness) = Some rl_field_set_witness_tokens /\
  rg_field_set rl_field_set_witness_tokens = RgNo /\ rgl_known_field_set rl_field_set_witness_tokens = false /\
  rgl_whole (rgl_field_set rgl_parser_old) rl_field_set_witness_tokens = true.
Proof. exact rl_field_set_repaired. Qed.
Check C07_fieldset_repaired_witness :
  rl_reports (parse_selection_set_items false 500 (lex_all rl_field_set_witness)) = true /\
  rg_significant (lex_all rl_field_set_witness) = Some rl_field_set_witness_tokens /\
  rg_field_set rl_field_set_witness_tokens = RgNo /\ rgl_known_field_set rl_field_set_witness_tokens = false /\
  rgl_whole (rgl_field_set rgl_parser_old) rl_field_set_witness_tokens = true.
Print Assumptions C07_fieldset_repaired_witness.

(* non-vacuity: `[Int!]!` and ` a { b } ` are parsed without error and are accepted by the reference to the end *)
Example C07_exact_nonvacuous :
  errs_of (parse_type_items false 500 (lex_all [32;91;73;110;116;33;93;33;32])) = Some 0 /\
  (rg_significant (lex_all [32;91;73;110;116;33;93;33;32]) =
     Some [(TkLBracket, [91]); (TkName, [73;110;116]); (TkBang, [33]); (TkRBracket, [93]); (TkBang, [33])] /\
   rg_type [(TkLBracket, [91]); (TkName, [73;110;116]); (TkBang, [33]); (TkRBracket, [93]); (TkBang, [33])] = RgOk []) /\
  errs_of (parse_selection_set_items false 500 (lex_all [32;97;32;123;32;98;32;125;32])) = Some 0 /\
  (rg_significant (lex_all [32;97;32;123;32;98;32;125;32]) =
     Some [(TkName, [97]); (TkLCurly, [123]); (TkName, [98]); (TkRCurly, [125])] /\
   rg_field_set [(TkName, [97]); (TkLCurly, [123]); (TkName, [98]); (TkRCurly, [125])] = RgOk [] /\
   rgl_known_field_set [(TkName, [97]); (TkLCurly, [123]); (TkName, [98]); (TkRCurly, [125])] = false).
Proof. vm_compute. repeat split. Qed.
