(* C04 — placeholder while the proofs are being developed (replaced below in this branch). *)
From ApolloVerif Require Import Base.Chars Parse.Outcome Parse.Limits.
Theorem C04_tracker_decrement_total : forall t, tr_current t <> 0 -> exists t', tracker_decrement t = Ok t'.
Proof. intros t H. unfold tracker_decrement. destruct (N.eqb_spec (tr_current t) 0); [contradiction|eauto]. Qed.
Check C04_tracker_decrement_total : forall t, tr_current t <> 0 -> exists t', tracker_decrement t = Ok t'.
Print Assumptions C04_tracker_decrement_total.
