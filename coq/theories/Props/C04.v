(* C04 — Token and recursion limits are enforced exactly.  Property theorems only (over the parser model run
   on an arbitrary item list; `items` is `lex_limited tl s` of Lex/ when a token limit is set). *)
From ApolloVerif Require Import Base.Chars Lex.Item Parse.Outcome Parse.Builder Parse.Limits Parse.Monad
  Parse.Grammar Parse.Generic Parse.Entry Parse.LosslessDefs Parse.Lossless Parse.TrackerInst Parse.SilentInst
  Parse.PulledInst Lex.Fun Parse.Compose.

Inductive entry := EDoc | ESelSet | EType.
Definition run (e : entry) : bool -> N -> list item -> poutcome presult :=
  match e with
  | EDoc => parse_document_items
  | ESelSet => parse_selection_set_items
  | EType => parse_type_items
  end.

(* with any limits, the tree text is a prefix of the text of the items (of the input) *)
Theorem C04_prefix : forall e dbg rl items r,
  Forall item_name_ok items -> run e dbg rl items = POk r -> ~ Known_D3 r ->
  exists suf, p_text_of (pr_tree r) ++ suf = concat (map item_data items).
Proof.
  intros e dbg rl items r Hn E Hk. apply not_known_D3 in Hk.
  destruct e; [eapply document_prefix|eapply selection_set_prefix|eapply type_prefix]; eauto.
Qed.
Check C04_prefix : forall e dbg rl items r,
  Forall item_name_ok items -> run e dbg rl items = POk r -> ~ Known_D3 r ->
  exists suf, p_text_of (pr_tree r) ++ suf = concat (map item_data items).
Print Assumptions C04_prefix.

(* ... on source strings: with any token limit and recursion limit the tree text is a prefix of the source *)
Theorem C04_prefix_source : forall e dbg tl rl s r,
  run e dbg rl (lex_for tl s) = POk r -> ~ Known_D3 r ->
  exists suf, p_text_of (pr_tree r) ++ suf = s.
Proof.
  intros e dbg tl rl s r E Hk.
  destruct (C04_prefix e dbg rl _ r (lex_for_names_ok tl s) E Hk) as [suf1 H1].
  destruct (lex_for_prefix tl s) as [suf2 H2]. exists (suf1 ++ suf2). rewrite app_assoc, H1. exact H2.
Qed.
Check C04_prefix_source : forall e dbg tl rl s r,
  run e dbg rl (lex_for tl s) = POk r -> ~ Known_D3 r ->
  exists suf, p_text_of (pr_tree r) ++ suf = s.
Print Assumptions C04_prefix_source.

(* the recursion tracker: balanced (current is back to 0), never above the limit, high <= limit + 1 *)
Theorem C04_tracker_inv : forall e dbg rl items r,
  run e dbg rl items = POk r ->
  ptr_current (pr_rec r) = 0 /\ ptr_limit (pr_rec r) = rl /\ ptr_high (pr_rec r) <= rl + 1.
Proof.
  intros e dbg rl items r. destruct e; apply tracker_run; intros fuel.
  - apply document_CT.
  - apply gg_field_set. exact CT_ok.
  - apply type_entry_CT.
Qed.
Check C04_tracker_inv : forall e dbg rl items r,
  run e dbg rl items = POk r ->
  ptr_current (pr_rec r) = 0 /\ ptr_limit (pr_rec r) = rl /\ ptr_high (pr_rec r) <= rl + 1.
Print Assumptions C04_tracker_inv.

(* ... and at every definition of a document, and around every guarded construct: each production returns
   with `current` where it found it, the invariant current <= limit, high <= limit + 1 kept *)
Theorem C04_tracker_inv_definition : forall def fuel s u s',
  tr_ok (ps_rec s) -> g_select_definition def fuel s = POk (u, s') ->
  tr_ok (ps_rec s') /\ ptr_current (ps_rec s') = ptr_current (ps_rec s).
Proof.
  intros def fuel s u s' Hs E.
  destruct (post_returns _ _ _ _ (gg_select_definition CT CT_ok def fuel) s Hs _ _ E) as [H1 [H2 _]]. auto.
Qed.
Check C04_tracker_inv_definition : forall def fuel s u s',
  tr_ok (ps_rec s) -> g_select_definition def fuel s = POk (u, s') ->
  tr_ok (ps_rec s') /\ ptr_current (ps_rec s') = ptr_current (ps_rec s).
Print Assumptions C04_tracker_inv_definition.

Theorem C04_check_and_increment : forall t b t',
  tr_ok t -> ptracker_check_and_increment t = POk (b, t') ->
  tr_ok t' /\ ptr_limit t' = ptr_limit t /\ ptr_high t <= ptr_high t' /\
  (b = true -> ptr_current t' = ptr_current t /\ ptr_limit t < ptr_current t + 1) /\
  (b = false -> ptr_current t' = ptr_current t + 1).
Proof. exact check_and_increment_spec. Qed.
Check C04_check_and_increment : forall t b t',
  tr_ok t -> ptracker_check_and_increment t = POk (b, t') ->
  tr_ok t' /\ ptr_limit t' = ptr_limit t /\ ptr_high t <= ptr_high t' /\
  (b = true -> ptr_current t' = ptr_current t /\ ptr_limit t < ptr_current t + 1) /\
  (b = false -> ptr_current t' = ptr_current t + 1).
Print Assumptions C04_check_and_increment.

(* no error is reported after the first limit error (token or recursion) *)
Theorem C04_silent_after_limit : forall e dbg rl items r pre err post_,
  run e dbg rl items = POk r ->
  pr_errors r = pre ++ err :: post_ -> is_limit_err err = true -> no_limit pre -> post_ = [].
Proof.
  intros e dbg rl items r pre err post_. destruct e; apply silent_run; intros fuel.
  - apply document_CS.
  - apply gg_field_set. exact CS_ok.
  - apply type_entry_CS.
Qed.
Check C04_silent_after_limit : forall e dbg rl items r pre err post_,
  run e dbg rl items = POk r ->
  pr_errors r = pre ++ err :: post_ -> is_limit_err err = true -> no_limit pre -> post_ = [].
Print Assumptions C04_silent_after_limit.

(* the token tracker's high mark counts items taken from the parser's own lexer: at most all of them
   (so at most tl + 1 with `lex_limited tl`); look-ahead consumes nothing *)
Theorem C04_token_consumption : forall e dbg rl items r,
  run e dbg rl items = POk r -> pr_tokens_high r <= N.of_nat (length items).
Proof.
  intros e dbg rl items r. destruct e; apply pulled_run; intros n fuel.
  - apply document_CP.
  - apply gg_field_set. apply CP_ok.
  - apply type_entry_CP.
Qed.
Check C04_token_consumption : forall e dbg rl items r,
  run e dbg rl items = POk r -> pr_tokens_high r <= N.of_nat (length items).
Print Assumptions C04_token_consumption.

(* D3 breaks the prefix clause: type entry, token limit 2, `{ a` : the `{` is dropped *)
Definition ex_d3_prefix : list item :=
  [ITok TkLCurly [123] 0; ITok TkWhitespace [32] 1; IErr ELimit [] 2].
Theorem C04_prefix_refuted : exists items r,
  Forall item_name_ok items /\ run EType false 500 items = POk r /\
  forall suf, p_text_of (pr_tree r) ++ suf <> concat (map item_data items).
Proof.
  exists ex_d3_prefix. eexists. split; [repeat constructor|]. split; [vm_compute; reflexivity|].
  intros suf. vm_compute. discriminate.
Qed.
Check C04_prefix_refuted : exists items r,
  Forall item_name_ok items /\ run EType false 500 items = POk r /\
  forall suf, p_text_of (pr_tree r) ++ suf <> concat (map item_data items).
Print Assumptions C04_prefix_refuted.

(* non-vacuity: `{a{b}}` with recursion limit 1: a limit error, nothing after it, balanced tracker, high = 2 *)
Definition ex_nest : list item :=
  [ITok TkLCurly [123] 0; ITok TkName [97] 1; ITok TkLCurly [123] 2; ITok TkName [98] 3;
   ITok TkRCurly [125] 4; ITok TkRCurly [125] 5; ITok TkWhitespace [32] 6; IErr ELex [233] 7; ITok TkEof [] 9].
Example C04_nonvacuous : exists r,
  run EDoc false 1 ex_nest = POk r /\ ~ Known_D3 r /\ Forall item_name_ok ex_nest /\
  pr_errors r = [{| pe_class := PcLimit; pe_index := 3 |}] /\
  ptr_high (pr_rec r) = 2 /\ ptr_current (pr_rec r) = 0 /\ pr_tokens_high r = 9.
Proof.
  eexists. split; [vm_compute; reflexivity|]. split.
  - unfold Known_D3. vm_compute. intros H. apply H. reflexivity.
  - split; [repeat constructor|]. vm_compute. auto.
Qed.
