(* C14 — Schema validation agrees with the specification.

   The agreement of the CODE (Schema::parse_and_validate) with sv_schema_valid (Schema/Valid.v, the
   rule-by-rule transcription of the October 2021 specification with apollo-compiler's three documented
   differences as parameters) is what the correspondence check tests on generated schemas; it is NOT a
   theorem (strength: partial by construction).  The theorems here make the oracle itself trustworthy:
   the algorithmic rules are proved against declarative statements (Schema/Consistent.v), and the literal
   models of apollo-compiler's two cycle searches (Schema/Cycles.v, tied to the code by the c14_cycles
   family) are proved against the same statements. *)
From ApolloVerif Require Import Base.Chars Ast.Ast Schema.Model Schema.Valid Schema.Consistent
  Schema.Cycles Schema.ValidProofs Schema.CyclesProofs.

(* bookkeeping: the verdict is the conjunction of the named rules *)
Theorem C14_verdict_decomposes : forall p s,
  sv_schema_valid p s = true <-> (forall r, In r (sv_rules p) -> r s = true).
Proof. intros p s. unfold sv_schema_valid. apply forallb_forall. Qed.
Check C14_verdict_decomposes : forall p s,
  sv_schema_valid p s = true <-> (forall r, In r (sv_rules p) -> r s = true).
Print Assumptions C14_verdict_decomposes.

(* sv_implements_ok is the transcription of spec 3.6 IsValidImplementation (with
   IsValidImplementationFieldType); ImplementsSpec is its declarative statement *)
Theorem C14_interface_contract : forall s t i, sv_implements_ok s t i = true <-> ImplementsSpec s t i.
Proof. exact sv_implements_ok_spec. Qed.
Check C14_interface_contract : forall s t i, sv_implements_ok s t i = true <-> ImplementsSpec s t i.
Print Assumptions C14_interface_contract.

(* the literal model of FindRecursiveInputValue (RecursionStack, depth limit 32) reports a cycle exactly
   when the input object reaches itself through non-null singular input fields -- for searches that stay
   within the limit *)
Theorem C14_input_cycle : forall s d n dirs fs b,
  sch_get_type s n = Some (EInput d n dirs fs b) ->
  cy_input_check s n (map c_val fs) <> CyLimit ->
  (cy_find_recursive_input s n (map c_val fs) = true <-> CsNNPath s n n).
Proof. exact cy_find_recursive_input_spec. Qed.
Check C14_input_cycle : forall s d n dirs fs b,
  sch_get_type s n = Some (EInput d n dirs fs b) ->
  cy_input_check s n (map c_val fs) <> CyLimit ->
  (cy_find_recursive_input s n (map c_val fs) = true <-> CsNNPath s n n).
Print Assumptions C14_input_cycle.

(* ... and it never runs out of the model's fuel (the recursion is bounded by the limit) *)
Theorem C14_input_cycle_total : forall s n fs, cy_input_check s n fs <> CyFuel.
Proof. exact cy_input_check_total. Qed.
Check C14_input_cycle_total : forall s n fs, cy_input_check s n fs <> CyFuel.
Print Assumptions C14_input_cycle_total.

(* the specification's own rule function against the same statement: sound, and exact whenever its
   closure saturated (otherwise the rule is false, never silently true) *)
Theorem C14_input_rule : forall s n,
  (sv_input_no_cycle s n = true -> ~ CsNNPath s n n) /\
  (sv_saturated streq (sv_nn_succ s) (sv_close streq (sv_nn_succ s) (sv_type_fuel s) (sv_nn_succ s n)) = true ->
   sv_input_no_cycle s n = false -> CsNNPath s n n).
Proof. exact sv_input_no_cycle_spec. Qed.
Check C14_input_rule : forall s n,
  (sv_input_no_cycle s n = true -> ~ CsNNPath s n n) /\
  (sv_saturated streq (sv_nn_succ s) (sv_close streq (sv_nn_succ s) (sv_type_fuel s) (sv_nn_succ s n)) = true ->
   sv_input_no_cycle s n = false -> CsNNPath s n n).
Print Assumptions C14_input_rule.

(* Directive definitions.  Full statement (analogous to C14_input_cycle):
     sch_find_dirdef (dd_name def) (sch_dirdefs s) = Some def -> cy_dir_check s def <> CyLimit ->
     (cy_find_recursive_directive s def = true <-> CsRefPath s (CsD (dd_name def)) (CsD (dd_name def))).
   Proved: the direction ->  (what the literal search reports is a self-reference), and that the
   specification's rule is sound for the same statement; hence whenever the literal search reports a cycle
   the specification rule rejects too.  Not proved: <- (the search with its two path stacks misses no
   cycle); that direction is exercised by the tie only (c14_cycles: literal model = code; c14_validate:
   code = specification rule, on the directive self-reference shapes of the generator). *)
Theorem C14_directive_cycle_partial : forall s def,
  sch_find_dirdef (dd_name def) (sch_dirdefs s) = Some def ->
  cy_find_recursive_directive s def = true ->
  CsRefPath s (CsD (dd_name def)) (CsD (dd_name def)).
Proof. exact cy_find_recursive_directive_sound. Qed.
Check C14_directive_cycle_partial : forall s def,
  sch_find_dirdef (dd_name def) (sch_dirdefs s) = Some def ->
  cy_find_recursive_directive s def = true ->
  CsRefPath s (CsD (dd_name def)) (CsD (dd_name def)).
Print Assumptions C14_directive_cycle_partial.

Theorem C14_directive_rule_sound : forall s d,
  sv_dirdef_no_self_ref s d = true -> ~ CsRefPath s (CsD d) (CsD d).
Proof. exact sv_dirdef_no_self_ref_sound. Qed.
Check C14_directive_rule_sound : forall s d,
  sv_dirdef_no_self_ref s d = true -> ~ CsRefPath s (CsD d) (CsD d).
Print Assumptions C14_directive_rule_sound.

(* ---------------------------------------------------------------- non-vacuity *)

Definition c14_iv (n : str) (t : ty) : comp inputvaldef :=
  mkcomp ODef {| iv_desc := None; iv_name := n; iv_ty := t; iv_default := None; iv_dirs := [] |}.
Definition c14_A : str := [65]. Definition c14_B : str := [66]. Definition c14_C : str := [67].
Definition c14_x : str := [120].
(* input A { x: B! }  input B { x: [A!]!  y: C! }  input C { x: A! }   and a directive @A(x: Int @B) @B(x: Int @A) *)
Definition c14_fsA := [c14_iv c14_x (TNonNullNamed c14_B)].
Definition c14_fsB := [c14_iv c14_x (TNonNullList (TNonNullNamed c14_A)); c14_iv c14_B (TNonNullNamed c14_C)].
Definition c14_fsC := [c14_iv c14_x (TNonNullNamed c14_A)].
Definition c14_dd (n other : str) : dirdef :=
  {| dd_desc := None; dd_name := n;
     dd_args := [{| iv_desc := None; iv_name := c14_x; iv_ty := TNamed [73;110;116]; iv_default := None;
                    iv_dirs := [{| d_name := other; d_args := [] |}] |}];
     dd_repeatable := false; dd_locs := [LArgumentDefinition]; dd_builtin := false |}.
Definition c14_ex : schema :=
  {| sch_def := {| sd_desc := None; sd_dirs := []; sd_query := None; sd_mutation := None; sd_subscription := None |};
     sch_dirdefs := [c14_dd c14_A c14_B; c14_dd c14_B c14_A];
     sch_types := [EInput None c14_A [] c14_fsA false; EInput None c14_B [] c14_fsB false;
                   EInput None c14_C [] c14_fsC false] |}.

Example C14_input_cycle_nonvacuous :
  sch_get_type c14_ex c14_A = Some (EInput None c14_A [] c14_fsA false) /\
  cy_input_check c14_ex c14_A (map c_val c14_fsA) <> CyLimit /\
  cy_find_recursive_input c14_ex c14_A (map c_val c14_fsA) = true /\
  CsNNPath c14_ex c14_A c14_A /\
  sv_input_no_cycle c14_ex c14_A = false.
Proof.
  assert (H1 : sch_get_type c14_ex c14_A = Some (EInput None c14_A [] c14_fsA false)) by reflexivity.
  assert (H2 : cy_input_check c14_ex c14_A (map c_val c14_fsA) <> CyLimit) by (vm_compute; discriminate).
  assert (H3 : cy_find_recursive_input c14_ex c14_A (map c_val c14_fsA) = true) by (vm_compute; reflexivity).
  split; [exact H1|]. split; [exact H2|]. split; [exact H3|].
  split; [exact (proj1 (C14_input_cycle _ _ _ _ _ _ H1 H2) H3)|vm_compute; reflexivity].
Qed.

Example C14_directive_cycle_nonvacuous :
  cy_find_recursive_directive c14_ex (c14_dd c14_A c14_B) = true /\
  CsRefPath c14_ex (CsD c14_A) (CsD c14_A) /\
  sv_dirdef_no_self_ref c14_ex c14_A = false.
Proof.
  assert (H : cy_find_recursive_directive c14_ex (c14_dd c14_A c14_B) = true) by (vm_compute; reflexivity).
  split; [exact H|]. split; [|vm_compute; reflexivity].
  exact (C14_directive_cycle_partial c14_ex (c14_dd c14_A c14_B) eq_refl H).
Qed.

(* the interface contract on the C15 example is in Props/C15.v (C15_nonvacuous) *)
