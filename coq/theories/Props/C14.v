(* C14 — Schema validation agrees with the specification.
   The agreement of the CODE with sv_schema_valid is what the correspondence check tests; it is not a
   theorem (strength: partial by construction).  The theorems here make the oracle itself trustworthy. *)
From ApolloVerif Require Import Base.Chars Ast.Ast Schema.Model Schema.Valid Schema.Consistent Schema.ValidProofs.

Theorem C14_verdict_decomposes : forall p s,
  sv_schema_valid p s = true <-> (forall r, In r (sv_rules p) -> r s = true).
Proof. intros p s. unfold sv_schema_valid. apply forallb_forall. Qed.
Check C14_verdict_decomposes : forall p s,
  sv_schema_valid p s = true <-> (forall r, In r (sv_rules p) -> r s = true).
Print Assumptions C14_verdict_decomposes.

(* implements_ok is the transcription of spec 3.6 IsValidImplementation (with IsValidImplementationFieldType);
   ImplementsSpec is its declarative statement (Schema/Consistent.v) *)
Theorem C14_interface_contract : forall s t i, sv_implements_ok s t i = true <-> ImplementsSpec s t i.
Proof. exact sv_implements_ok_spec. Qed.
Check C14_interface_contract : forall s t i, sv_implements_ok s t i = true <-> ImplementsSpec s t i.
Print Assumptions C14_interface_contract.
