(* C14 — Schema validation agrees with the specification.
   The agreement of the CODE with sv_schema_valid is what the correspondence check tests; it is not a
   theorem (strength: partial by construction).  The theorems here make the oracle itself trustworthy. *)
From ApolloVerif Require Import Base.Chars Ast.Ast Schema.Model Schema.Valid.

Theorem C14_verdict_decomposes : forall p s,
  sv_schema_valid p s = true <-> (forall r, In r (sv_rules p) -> r s = true).
Proof. intros p s. unfold sv_schema_valid. apply forallb_forall. Qed.
Check C14_verdict_decomposes : forall p s,
  sv_schema_valid p s = true <-> (forall r, In r (sv_rules p) -> r s = true).
Print Assumptions C14_verdict_decomposes.
