(* C19 — Executable documents and field sets round-trip through serialization.
   Property theorems only.  Models: Exec/FromAst.v (from_ast.rs), Exec/ToAst.v (executable/serialize.rs).

   The text-level statement
     C19_roundtrip : valid s d -> forall cfg, reparse_and_validate s (print cfg (to_ast d)) = d
   composes the theorems below with C08 (printing an AST and parsing it back gives the same AST, for every
   indentation setting) and is not proved here: it is checked on the implementation, for every valid
   generated document / field set / mixed text under the six serialization configurations, by the oracle of
   harness/src/c19.rs.

   `xs_closed s`: every type name that can type a selection set is a type of the schema (true of every
   Valid<Schema>, and of "no schema").  On a schema that is not closed from_ast drops fields silently
   (FieldLookupError::NoSuchType records no error), so no left inverse exists there. *)
From ApolloVerif Require Import Base.Chars Ast.Ast Schema.Model Exec.Doc Exec.FromAst Exec.ToAst
  Exec.FromAstProofs Exec.ToAstProofs.

(* to_ast is a left inverse of an error-free from_ast up to the order in which the typed document stores
   its definitions: the anonymous operation, the named operations in source order, the fragments in source
   order (xt_reorder: a stable partition of the AST's definitions). *)
Theorem C19_to_ast_left_inverse : forall s a d,
  xs_closed s -> xb_from_ast s a = (d, []) -> xt_doc d = xt_reorder a.
Proof. intros s a d. exact (xb_document_to_ast s true a d). Qed.
Check C19_to_ast_left_inverse : forall s a d,
  xs_closed s -> xb_from_ast s a = (d, []) -> xt_doc d = xt_reorder a.
Print Assumptions C19_to_ast_left_inverse.

(* the same for a mixed document (type-system definitions are skipped, not errors) *)
Theorem C19_to_ast_left_inverse_mixed : forall s a d,
  xs_closed s -> xb_document s false a = (d, []) -> xt_doc d = xt_reorder a.
Proof. intros s a d. exact (xb_document_to_ast s false a d). Qed.
Check C19_to_ast_left_inverse_mixed : forall s a d,
  xs_closed s -> xb_document s false a = (d, []) -> xt_doc d = xt_reorder a.
Print Assumptions C19_to_ast_left_inverse_mixed.

(* and for field sets: no reordering *)
Theorem C19_field_set_left_inverse : forall sc ty l out,
  xs_schema_closed sc -> sch_get_type sc ty <> None ->
  xb_field_set sc ty l = (out, []) -> xt_sels out = l.
Proof. exact xb_field_set_to_ast. Qed.
Check C19_field_set_left_inverse : forall sc ty l out,
  xs_schema_closed sc -> sch_get_type sc ty <> None ->
  xb_field_set sc ty l = (out, []) -> xt_sels out = l.
Print Assumptions C19_field_set_left_inverse.

(* the stored order is a fixed point: the AST of a built document is already in stored order *)
Theorem C19_reorder_idempotent : forall a, xt_reorder (xt_reorder a) = xt_reorder a.
Proof. exact xt_reorder_idempotent. Qed.
Check C19_reorder_idempotent : forall a, xt_reorder (xt_reorder a) = xt_reorder a.
Print Assumptions C19_reorder_idempotent.

(* Stability under a second round: building the printed AST again records no error and gives the very same
   typed document (hence the same AST once more, by C19_to_ast_left_inverse and C19_reorder_idempotent). *)
Theorem C19_second_round : forall s a d,
  xs_closed s -> xb_from_ast s a = (d, []) -> xb_from_ast s (xt_doc d) = (d, []).
Proof. intros s a d. exact (xb_second_round_full s true a d). Qed.
Check C19_second_round : forall s a d,
  xs_closed s -> xb_from_ast s a = (d, []) -> xb_from_ast s (xt_doc d) = (d, []).
Print Assumptions C19_second_round.

(* ---- non-vacuity: fragment before the operations, a named operation, inline fragments with and without
   type condition; the document is stored (and printed) operations first *)
Definition ex_Q : str := [81]. Definition ex_a : str := [97]. Definition ex_F : str := [70].
Definition ex_Op : str := [79;112].
Definition ex_fd (n : str) (t : ty) : comp fielddef :=
  mkcomp ODef {| fd_desc := None; fd_name := n; fd_args := []; fd_ty := t; fd_dirs := [] |}.
Definition ex_schema : schema :=
  {| sch_def := {| sd_desc := None; sd_dirs := []; sd_query := Some (mkcomp ODef ex_Q);
                   sd_mutation := None; sd_subscription := None |};
     sch_dirdefs := [];
     sch_types := [ EObject None ex_Q [] [] [ex_fd ex_a (TNamed ex_Q)] false;
                    EScalar None xn_String [] true;
                    EObject None xn_Schema [] [] [] true; EObject None xn_Type [] [] [] true ] |}.
Definition ex_doc : document :=
  [ DFragment ex_F ex_Q [] [SField (Some ex_F) ex_a [] [] [SField None xn_typename [] [] []]];
    DOperation OpQuery (Some ex_Op) [] []
      [ SInline None [] [SSpread ex_F []]; SInline (Some ex_Q) [] [SField None ex_a [] [] [SSpread ex_F []]] ] ].

Example C19_nonvacuous :
  xs_closed (Some ex_schema) /\
  (exists d, xb_from_ast (Some ex_schema) ex_doc = (d, []) /\ xt_doc d = xt_reorder ex_doc /\
             xt_reorder ex_doc <> ex_doc /\ xb_from_ast (Some ex_schema) (xt_doc d) = (d, [])).
Proof.
  split; [apply xs_closedb_spec; vm_compute; reflexivity|].
  eexists. split; [vm_compute; reflexivity|]. split; [vm_compute; reflexivity|].
  split; [vm_compute; discriminate|vm_compute; reflexivity].
Qed.
