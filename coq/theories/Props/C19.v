(* C19 — placeholder while the model is tied to the implementation; theorems follow. *)
From ApolloVerif Require Import Base.Chars Ast.Ast Exec.Doc Exec.ToAst.

Theorem C19_placeholder : xt_doc xd_empty = [].
Proof. reflexivity. Qed.
Check C19_placeholder : xt_doc xd_empty = [].
Print Assumptions C19_placeholder.
