(* C08 — placeholder while the tie is being brought up; replaced by the real theorems *)
From ApolloVerif Require Import Base.Chars Ast.Ast Ast.PrintState Ast.Print.

Theorem C08_empty_document : forall cfg, pc_level cfg = 0 -> ast_print cfg [] = ApOk [].
Proof. intros [p l] H. cbn in H. subst l. destruct p; reflexivity. Qed.
Check C08_empty_document : forall cfg, pc_level cfg = 0 -> ast_print cfg [] = ApOk [].
Print Assumptions C08_empty_document.
