(* C08 — AST serialization round-trips.
   Property theorems only: each closed by `exact <lemma>`, pinned by Check, followed by Print Assumptions.

   The full statement (DESIGN.md section 4, C08), over the models of the lexer (C03), the parser (C02/C05)
   and from_cst, which are not part of this development unit:

     C08_roundtrip : forall cfg s d,
       ws_prefix (pc_prefix cfg) = true ->
       parse_ok s d ->                                   (* s parses without errors to the AST d *)
       exists t, ast_print cfg d = ApOk t /\ parse_ok t d /\
       (forall d', parse_ok t d' -> ast_print cfg d' = ApOk t).   (* second print byte-identical *)

   What is proved here is the printer's half of it, over the literal model Ast/Print.v of
   ast/serialize.rs (all 17 definition kinds, all configurations), in a form that composes with a lexer
   and a parser theorem:

   (a) C08_print_factors: the printed text is exactly `pt_render (ptokens cfg d)`: significant tokens
       (punctuators, names, numbers as literal text, strings as decoded value + writing style), each
       preceded by a separator text.  C08_print_never_panics is its corollary.
   (b) C08_tokens_config_independent: the significant token sequence does not depend on the
       configuration, up to the `query` keyword of the shorthand form (pt_shorthand_norm), which the
       code prints or not depending on `output_empty`, and `output_empty` is cleared by the initial
       indentation (C08_tokens_config_dependence_witness shows the literal equality is false; the
       grammar gives both forms the same AST).  C08_tokens_config_independent_exact: equality on the
       nose between configurations that agree on pc_starts_empty.
   (c) C08_adjacent_safe: wherever two consecutive tokens have no separator text between them
       (e.g. `a(`, `$v`, `...F`, `]!`, and in no_indent mode `(a`, `1)`), the pair is adjacent_safe, so
       the lexer cannot merge or re-split them.
   (d) C08_tokens_wf: for an AST with valid names and literal-syntax numbers (pwfd, a boolean
       predicate) and a space/tab indent prefix, every name/number token is a well-formed lexeme and
       every separator text consists of ignored characters (space, tab, LF, comma).
   C08_roundtrip_partial packages (a)-(d).

   What the composition adds: C03 (maximal munch) turns (a)+(c)+(d) into
   `significant (lex (ast_print cfg d)) = tokens of d, no lexical error`, with C09 for the claim that a
   string token's text (quoted, or block with the indentation `prefix^level`) decodes to its value;
   C02/C05 + from_cst (a reference `tokens -> AST`, proved inverse to the canonical token sequence of a
   well-formed AST, including that a leading `{` and `query {` convert to the same operation) turn
   (b) into `parse_ok (ast_print cfg d) d`; the byte-identical second print is then immediate because
   ast_print is a function of (cfg, d).  Until then the round trip itself is decided on the
   implementation by the oracle of the tie (harness/src/c08.rs). *)
From ApolloVerif Require Import Base.Chars Ast.Ast Ast.PrintState Ast.PrintString Ast.Print
  Ast.PrintTokens Ast.PrintAdjacent Ast.PrintIndep Ast.PrintFactor Ast.PrintWf Ast.PrintCompose.
From Coq Require Import String.

Theorem C08_print_factors : forall cfg d, ast_print cfg d = ApOk (pt_render (ptokens cfg d)).
Proof. exact print_factors. Qed.
Check C08_print_factors : forall cfg d, ast_print cfg d = ApOk (pt_render (ptokens cfg d)).
Print Assumptions C08_print_factors.

Theorem C08_print_never_panics : forall cfg d w, ast_print cfg d <> ApPanic w.
Proof. exact print_no_panic. Qed.
Check C08_print_never_panics : forall cfg d w, ast_print cfg d <> ApPanic w.
Print Assumptions C08_print_never_panics.

Theorem C08_tokens_config_independent : forall cfg1 cfg2 d,
  pt_shorthand_norm (ptsig (ptokens cfg1 d)) = pt_shorthand_norm (ptsig (ptokens cfg2 d)).
Proof. exact tokens_config_independent. Qed.
Check C08_tokens_config_independent : forall cfg1 cfg2 d,
  pt_shorthand_norm (ptsig (ptokens cfg1 d)) = pt_shorthand_norm (ptsig (ptokens cfg2 d)).
Print Assumptions C08_tokens_config_independent.

Theorem C08_tokens_config_independent_exact : forall cfg1 cfg2 d,
  pc_starts_empty cfg1 = pc_starts_empty cfg2 -> ptsig (ptokens cfg1 d) = ptsig (ptokens cfg2 d).
Proof. exact tokens_config_independent_exact. Qed.
Check C08_tokens_config_independent_exact : forall cfg1 cfg2 d,
  pc_starts_empty cfg1 = pc_starts_empty cfg2 -> ptsig (ptokens cfg1 d) = ptsig (ptokens cfg2 d).
Print Assumptions C08_tokens_config_independent_exact.

Theorem C08_tokens_config_dependence_witness :
  ptsig (ptokens pc_default c08_ex_shorthand) <> ptsig (ptokens c08_cfg_indented c08_ex_shorthand) /\
  ast_print pc_default c08_ex_shorthand = ApOk (ap_lit "{
  a
}
"%string) /\
  ast_print c08_cfg_indented c08_ex_shorthand = ApOk (ap_lit "            query {
                a
            }
"%string).
Proof. exact config_dependence_witness. Qed.
Check C08_tokens_config_dependence_witness :
  ptsig (ptokens pc_default c08_ex_shorthand) <> ptsig (ptokens c08_cfg_indented c08_ex_shorthand) /\
  ast_print pc_default c08_ex_shorthand = ApOk (ap_lit "{
  a
}
"%string) /\
  ast_print c08_cfg_indented c08_ex_shorthand = ApOk (ap_lit "            query {
                a
            }
"%string).
Print Assumptions C08_tokens_config_dependence_witness.

Theorem C08_adjacent_safe : forall cfg d l1 a b l2,
  ptokens cfg d = l1 ++ a :: b :: l2 -> pt_sep b = [] ->
  adjacent_safe (pt_tok a) (pt_tok b) = true.
Proof. exact adjacent_safe_pairs. Qed.
Check C08_adjacent_safe : forall cfg d l1 a b l2,
  ptokens cfg d = l1 ++ a :: b :: l2 -> pt_sep b = [] ->
  adjacent_safe (pt_tok a) (pt_tok b) = true.
Print Assumptions C08_adjacent_safe.

Theorem C08_tokens_wf : forall cfg d,
  pwfd d = true -> ws_prefix (pc_prefix cfg) = true -> forallb ptoken_ok (ptokens cfg d) = true.
Proof. exact tokens_wf. Qed.
Check C08_tokens_wf : forall cfg d,
  pwfd d = true -> ws_prefix (pc_prefix cfg) = true -> forallb ptoken_ok (ptokens cfg d) = true.
Print Assumptions C08_tokens_wf.

Theorem C08_roundtrip_partial : forall cfg d,
  pwfd d = true -> ws_prefix (pc_prefix cfg) = true ->
  exists toks,
    ast_print cfg d = ApOk (pt_render toks) /\
    pt_consecutive_safe toks = true /\
    forallb ptoken_ok toks = true /\
    pt_shorthand_norm (ptsig toks) = pt_shorthand_norm (ptsig (ptokens pc_default d)).
Proof. exact roundtrip_partial. Qed.
Check C08_roundtrip_partial : forall cfg d,
  pwfd d = true -> ws_prefix (pc_prefix cfg) = true ->
  exists toks,
    ast_print cfg d = ApOk (pt_render toks) /\
    pt_consecutive_safe toks = true /\
    forallb ptoken_ok toks = true /\
    pt_shorthand_norm (ptsig toks) = pt_shorthand_norm (ptsig (ptokens pc_default d)).
Print Assumptions C08_roundtrip_partial.

(* ---- non-vacuity *)
(* query Q($v: Int = 1) @d { a b: c(x: [1.5, "s"]) ...F ... on T { e } }   type T implements I { "d" f(a: Int): [T!]! } *)
Definition c08_n (s : string) : str := ap_lit s.
Definition c08_ex_doc : document :=
  [ DOperation OpQuery (Some (c08_n "Q"))
      [ {| v_name := c08_n "v"; v_ty := TNamed (c08_n "Int"); v_default := Some (VInt (c08_n "1"));
           v_dirs := [] |} ]
      [ {| d_name := c08_n "d"; d_args := [] |} ]
      [ SField None (c08_n "a") [] [] [];
        SField (Some (c08_n "b")) (c08_n "c")
          [ (c08_n "x", VList [VFloat (c08_n "1.5"); VString (c08_n "s")]) ] [] [];
        SSpread (c08_n "F") [];
        SInline (Some (c08_n "T")) [] [SField None (c08_n "e") [] [] []] ];
    DObject None (c08_n "T") [c08_n "I"] []
      [ {| fd_desc := Some (c08_n "d"); fd_name := c08_n "f";
           fd_args := [ {| iv_desc := None; iv_name := c08_n "a"; iv_ty := TNamed (c08_n "Int");
                           iv_default := None; iv_dirs := [] |} ];
           fd_ty := TNonNullList (TNonNullNamed (c08_n "T")); fd_dirs := [] |} ] ].
Definition c08_cfg_noindent : print_config := {| pc_prefix := None; pc_level := 0 |}.

Example C08_nonvacuous :
  pwfd c08_ex_doc = true /\ ws_prefix (pc_prefix c08_cfg_indented) = true /\
  ast_print c08_cfg_noindent c08_ex_doc =
    ApOk (c08_n "query Q($v: Int = 1) @d { a b: c(x: [1.5, ""s""]) ...F ... on T { e } } type T implements I { ""d"" f(a: Int): [T!]! }") /\
  (* the relation is not trivially true, and unseparated neighbours do occur *)
  adjacent_safe (PtName (c08_n "a")) (PtName (c08_n "b")) = false /\
  adjacent_safe (PtInt (c08_n "1")) (PtPunct PSpread) = false /\
  existsb (fun t => aps_is_empty (pt_sep t)) (tl (ptokens c08_cfg_noindent c08_ex_doc)) = true /\
  (* a rejected AST: the name `1a` *)
  pwfd [DScalar None (c08_n "1a") []] = false.
Proof. repeat split; vm_compute; reflexivity. Qed.
