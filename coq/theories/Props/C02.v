(* C02 — The document syntax tree is lossless.
   Property theorems only.  They speak about the parser model run on an arbitrary ITEM LIST; composed with the
   lexer theorems (Lex/: the items of `lex_all s` are Eof-terminated, their data concatenate to s, Name tokens
   carry names) they give the statement about source strings.
   Known finding D3 (ty::parse drops a token): the run's ghost list pr_dropped records the dropped tokens;
   the theorems are stated for runs that dropped no text, and C02_lossless_refuted exhibits the failure. *)
From ApolloVerif Require Import Base.Chars Lex.Item Parse.Outcome Parse.Builder Parse.Limits Parse.Monad
  Parse.Grammar Parse.Entry Parse.LosslessDefs Parse.Lossless Lex.Fun Parse.Compose Parse.Ranges.

Theorem C02_lossless : forall dbg rl items r,
  Forall item_name_ok items -> eof_terminated items ->
  parse_document_items dbg rl items = POk r -> ~ Known_D3 r ->
  p_text_of (pr_tree r) = concat (map item_data items).
Proof.
  intros dbg rl items r Hn He E Hk. eapply document_lossless; eauto.
  apply not_known_D3. exact Hk.
Qed.
Check C02_lossless : forall dbg rl items r,
  Forall item_name_ok items -> eof_terminated items ->
  parse_document_items dbg rl items = POk r -> ~ Known_D3 r ->
  p_text_of (pr_tree r) = concat (map item_data items).
Print Assumptions C02_lossless.

(* composed with the lexer model (C03: the items of lex_all s are Eof-terminated, their data concatenate to s,
   Name tokens carry names): the text of the document tree IS the source string *)
Theorem C02_lossless_source : forall dbg rl s r,
  parse_document_items dbg rl (lex_all s) = POk r -> ~ Known_D3 r -> p_text_of (pr_tree r) = s.
Proof. exact document_lossless_source. Qed.
Check C02_lossless_source : forall dbg rl s r,
  parse_document_items dbg rl (lex_all s) = POk r -> ~ Known_D3 r -> p_text_of (pr_tree r) = s.
Print Assumptions C02_lossless_source.

(* every item's text appears exactly once, in order, as the text of one token of the tree
   (ne = the non-empty texts: the Eof token and the limit error carry none) *)
Theorem C02_each_item_once : forall dbg rl items r,
  Forall item_name_ok items -> eof_terminated items ->
  parse_document_items dbg rl items = POk r -> ~ Known_D3 r ->
  ne (map snd (p_leaves (pr_tree r))) = ne (map item_data items).
Proof.
  intros dbg rl items r Hn He E Hk. eapply document_chunks; eauto.
  apply not_known_D3. exact Hk.
Qed.
Check C02_each_item_once : forall dbg rl items r,
  Forall item_name_ok items -> eof_terminated items ->
  parse_document_items dbg rl items = POk r -> ~ Known_D3 r ->
  ne (map snd (p_leaves (pr_tree r))) = ne (map item_data items).
Print Assumptions C02_each_item_once.

(* every node and token range (p_ranges: cumulated text lengths, as rowan computes text_range()) is the byte
   span of a sub-list of characters of the tree text: it starts and ends on a character boundary and covers
   exactly the element's text -- for every tree *)
Theorem C02_ranges_on_boundaries : forall t off, Forall (span_ok (p_text_of t) off) (p_ranges off t).
Proof. exact ranges_on_boundaries. Qed.
Check C02_ranges_on_boundaries : forall t off, Forall (span_ok (p_text_of t) off) (p_ranges off t).
Print Assumptions C02_ranges_on_boundaries.

(* the standalone type entry is lossless too (since the repair of D1/D7) *)
Theorem C02_lossless_type_entry : forall dbg rl items r,
  Forall item_name_ok items -> eof_terminated items ->
  parse_type_items dbg rl items = POk r -> ~ Known_D3 r ->
  p_text_of (pr_tree r) = concat (map item_data items).
Proof.
  intros dbg rl items r Hn He E Hk. eapply type_lossless; eauto.
  apply not_known_D3. exact Hk.
Qed.
Check C02_lossless_type_entry : forall dbg rl items r,
  Forall item_name_ok items -> eof_terminated items ->
  parse_type_items dbg rl items = POk r -> ~ Known_D3 r ->
  p_text_of (pr_tree r) = concat (map item_data items).
Print Assumptions C02_lossless_type_entry.

(* D3: `type T{f:[!}` — the `!` is popped by ty::parse and never reaches the tree *)
Definition ex_d3 : list item :=
  [ITok TkName [116;121;112;101] 0; ITok TkWhitespace [32] 4; ITok TkName [84] 5; ITok TkLCurly [123] 6;
   ITok TkName [102] 7; ITok TkColon [58] 8; ITok TkLBracket [91] 9; ITok TkBang [33] 10;
   ITok TkRCurly [125] 11; ITok TkEof [] 12].

Theorem C02_lossless_refuted : exists items r,
  Forall item_name_ok items /\ eof_terminated items /\
  parse_document_items false 500 items = POk r /\
  p_text_of (pr_tree r) <> concat (map item_data items).
Proof.
  exists ex_d3. eexists. split; [|split; [|split]].
  - repeat constructor.
  - exists (removelast ex_d3), 12. split; [reflexivity|]. repeat constructor.
  - vm_compute. reflexivity.
  - vm_compute. discriminate.
Qed.
Check C02_lossless_refuted : exists items r,
  Forall item_name_ok items /\ eof_terminated items /\
  parse_document_items false 500 items = POk r /\
  p_text_of (pr_tree r) <> concat (map item_data items).
Print Assumptions C02_lossless_refuted.

(* non-vacuity: `{ a }` meets every hypothesis, and a lexical error inside a document does too *)
Definition ex_ok : list item :=
  [ITok TkLCurly [123] 0; ITok TkWhitespace [32] 1; ITok TkName [97] 2; IErr ELex [233] 3;
   ITok TkWhitespace [32] 5; ITok TkRCurly [125] 6; ITok TkEof [] 7].
Example C02_nonvacuous : exists r,
  Forall item_name_ok ex_ok /\ eof_terminated ex_ok /\
  parse_document_items false 500 ex_ok = POk r /\ ~ Known_D3 r /\
  p_text_of (pr_tree r) = [123; 32; 97; 233; 32; 125].
Proof.
  eexists. split; [repeat constructor|]. split.
  - exists (removelast ex_ok), 7. split; [reflexivity|]. repeat constructor.
  - split; [vm_compute; reflexivity|]. split; [|vm_compute; reflexivity].
    unfold Known_D3. vm_compute. intros H. apply H. reflexivity.
Qed.
