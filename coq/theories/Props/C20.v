(* C20 — Validating without a schema is a relaxation.
   Property theorems only.  Models: Exec/FromAst.v (from_ast with and without a schema),
   Exec/Standalone.v (validate_standalone_executable: every rule that runs without a schema).

   What is proved and what the tie carries.  Validation WITH a schema has no model of its own here; C20's
   theorems take it as  xv_valid_with other sc a  :=  no build error against sc
                                                  && the standalone rules on the document typed against sc
                                                  && other sc d        (ANY further rules, arbitrary).
   Proved for all inputs: the standalone rules cannot see the difference between the two typings
   (C20_rules_ignore_types, C20_erasure), hence C20_relaxation and C20_only_schema_independent.
   Carried by the tie (driver/props/c20.py, on every generated case): that the real validator with a schema
   contains the standalone rules as conjuncts (impl `with=t` implies model `typed=t`), that the model's
   standalone verdict is the implementation's, and the property itself on the implementation (oracle).

   `xs_schema_closed sc` holds of every Valid<Schema> (see C19.v). *)
From ApolloVerif Require Import Base.Chars Ast.Ast Schema.Model Exec.Doc Exec.FromAst Exec.Standalone
  Exec.FromAstProofs Exec.StandaloneProofs.

(* no standalone rule reads a field's `definition` or a selection set's `ty` *)
Theorem C20_rules_ignore_types : forall d, xv_standalone_valid (xe_doc d) = xv_standalone_valid d.
Proof. exact xv_standalone_valid_erase. Qed.
Check C20_rules_ignore_types : forall d, xv_standalone_valid (xe_doc d) = xv_standalone_valid d.
Print Assumptions C20_rules_ignore_types.

(* if building against the schema records no error, building without a schema records none, and the
   standalone rules give the same verdict on both documents *)
Theorem C20_erasure : forall sc a d,
  xs_schema_closed sc -> xb_from_ast (Some sc) a = (d, []) ->
  exists d0, xb_from_ast None a = (d0, []) /\ xv_standalone_valid d0 = xv_standalone_valid d.
Proof. exact xv_erasure. Qed.
Check C20_erasure : forall sc a d,
  xs_schema_closed sc -> xb_from_ast (Some sc) a = (d, []) ->
  exists d0, xb_from_ast None a = (d0, []) /\ xv_standalone_valid d0 = xv_standalone_valid d.
Print Assumptions C20_erasure.

Theorem C20_relaxation : forall other sc a,
  xs_schema_closed sc -> xv_valid_with other sc a = true -> xv_validate_standalone_executable a = true.
Proof. exact xv_relaxation. Qed.
Check C20_relaxation : forall other sc a,
  xs_schema_closed sc -> xv_valid_with other sc a = true -> xv_validate_standalone_executable a = true.
Print Assumptions C20_relaxation.

(* the sentence users rely on: what standalone validation reports is an error under every schema *)
Theorem C20_only_schema_independent : forall a,
  xv_validate_standalone_executable a = false ->
  forall other sc, xs_schema_closed sc -> xv_valid_with other sc a = false.
Proof. exact xv_only_schema_independent. Qed.
Check C20_only_schema_independent : forall a,
  xv_validate_standalone_executable a = false ->
  forall other sc, xs_schema_closed sc -> xv_valid_with other sc a = false.
Print Assumptions C20_only_schema_independent.

(* the selection-set walk of the model never runs out of fuel (its out-of-fuel value is never produced) *)
Theorem C20_fuel : forall d, xv_fuel_ok d = true.
Proof. exact xv_fuel_always_ok. Qed.
Check C20_fuel : forall d, xv_fuel_ok d = true.
Print Assumptions C20_fuel.

(* ---- non-vacuity, and the witness of the repaired defect D14:
   query($v: Boolean!) { a @skip(if: $v) }  is valid standalone (built-in directives are not rejected) *)
Definition ex_Q : str := [81]. Definition ex_a : str := [97]. Definition ex_v : str := [118].
Definition ex_Boolean : str := [66;111;111;108;101;97;110].
Definition ex_fd (n : str) (t : ty) : comp fielddef :=
  mkcomp ODef {| fd_desc := None; fd_name := n; fd_args := []; fd_ty := t; fd_dirs := [] |}.
Definition ex_schema : schema :=
  {| sch_def := {| sd_desc := None; sd_dirs := []; sd_query := Some (mkcomp ODef ex_Q);
                   sd_mutation := None; sd_subscription := None |};
     sch_dirdefs := [];
     sch_types := [ EObject None ex_Q [] [] [ex_fd ex_a (TNamed xn_String)] false;
                    EScalar None xn_String [] true;
                    EObject None xn_Schema [] [] [] true; EObject None xn_Type [] [] [] true ] |}.
Definition ex_d14 : document :=
  [ DOperation OpQuery None
      [ {| v_name := ex_v; v_ty := TNonNullNamed ex_Boolean; v_default := None; v_dirs := [] |} ] []
      [ SField None ex_a [] [ {| d_name := xn_skip; d_args := [(xn_if, VVar ex_v)] |} ] [] ] ].
(* an unused variable: invalid standalone, hence under every schema *)
Definition ex_unused : document :=
  [ DOperation OpQuery None
      [ {| v_name := ex_v; v_ty := TNonNullNamed ex_Boolean; v_default := None; v_dirs := [] |} ] []
      [ SField None ex_a [] [] [] ] ].

Example C20_nonvacuous :
  xs_schema_closed ex_schema /\
  xv_valid_with (fun _ _ => true) ex_schema ex_d14 = true /\
  xv_validate_standalone_executable ex_d14 = true /\
  xv_validate_standalone_executable ex_unused = false /\
  fst (xb_from_ast (Some ex_schema) ex_d14) <> fst (xb_from_ast None ex_d14).
Proof.
  split; [apply xs_closedb_spec; vm_compute; reflexivity|].
  repeat split; try (vm_compute; reflexivity). vm_compute. discriminate.
Qed.
