(* C20 — placeholder while the model is tied to the implementation; theorems follow. *)
From ApolloVerif Require Import Base.Chars Ast.Ast Exec.Doc Exec.Standalone.

Theorem C20_placeholder : xv_standalone_valid xd_empty = true.
Proof. reflexivity. Qed.
Check C20_placeholder : xv_standalone_valid xd_empty = true.
Print Assumptions C20_placeholder.
