(* C33 — Generated responses match the operation's shape.  (placeholder while the proofs are written) *)
From ApolloVerif Require Import Base.Chars Ast.Ast Schema.Model Smith.Response Smith.ResponseSpec.

Theorem C33_exhausted_on_empty_stream : forall n, rs_gen_range 0 n [] = RsExhausted.
Proof. intros n. unfold rs_gen_range. destruct (n <? 0) eqn:E; [lia|reflexivity]. Qed.
Check C33_exhausted_on_empty_stream : forall n, rs_gen_range 0 n [] = RsExhausted.
Print Assumptions C33_exhausted_on_empty_stream.
