(* C33 — Generated responses match the operation's shape.
   Property theorems only: each closed by `exact <lemma>`, pinned by Check, followed by Print Assumptions.

   Model: Smith/Response.v (ResponseBuilder without partial data / custom generators, default scalar generators,
   RandomProvider over an abstract choice stream).  Specification: Smith/ResponseSpec.v (RsObjOk / RsValueOk,
   written from the GraphQL execution section over the concrete object type's field definitions).

   The full statement (for EVERY valid schema whose abstract types have possible types and every valid operation)
   is false of the faithful model and of the code: C33_shape_refuted.  C33_shape is the statement restricted to
   inputs outside the class rs_known_covariant (a selected field that an implementing object type narrows).

   Not theorems (decided by the tie and the harness's oracle only):
   - C33_replay: executing the operation with resolvers serving the generated data reproduces it without errors
     (no execution model was available; the harness executes with apollo-compiler's resolver API);
   - that the model's fuel (60 in the tie) suffices for acyclic fragments: C33_shape speaks about every run that
     returns a response (RsOk), for any fuel; C33_no_panic shows that the only other outcomes on well-typed input
     are `exhausted` and out-of-fuel (never a panic, EmptyChoose or a missing definition). *)
From Coq Require Import ZArith.
From ApolloVerif Require Import Base.Chars Ast.Ast Schema.Model Smith.Response Smith.ResponseSpec
  Smith.ResponseProofs Smith.ResponseExamples Smith.ResponseSafe.

Theorem C33_shape : forall fuel cfg s d opname o n sels root stream j rest,
  rs_known_covariant s d = false ->
  RsBuiltinsOk s -> RsHasImplementers s ->
  rs_find_operation d opname = Some (o, n, sels) -> rs_root_type s o = Some root ->
  RsComposite s root -> RsValid s d root sels ->
  rs_build_data fuel cfg s d opname stream = RsOk j rest ->
  RsObjOk s d root sels j.
Proof. exact rs_shape. Qed.
Check C33_shape : forall fuel cfg s d opname o n sels root stream j rest,
  rs_known_covariant s d = false ->
  RsBuiltinsOk s -> RsHasImplementers s ->
  rs_find_operation d opname = Some (o, n, sels) -> rs_root_type s o = Some root ->
  RsComposite s root -> RsValid s d root sels ->
  rs_build_data fuel cfg s d opname stream = RsOk j rest ->
  RsObjOk s d root sels j.
Print Assumptions C33_shape.

(* the unrestricted statement fails: `interface I { x: Int }  type T implements I { x: Int! }`, `{ i { x } }`,
   null ratio 1/2, choices 1,0,0 give {"i":{"x":null}} *)
Theorem C33_shape_refuted : exists fuel cfg s d opname o n sels root stream j rest,
  rs_known_covariant s d = true /\
  RsBuiltinsOk s /\ RsHasImplementers s /\
  rs_find_operation d opname = Some (o, n, sels) /\ rs_root_type s o = Some root /\
  RsComposite s root /\ RsValid s d root sels /\
  rs_build_data fuel cfg s d opname stream = RsOk j rest /\
  ~ RsObjOk s d root sels j.
Proof.
  exists 10%nat, rx_cfg, rx_bad, rx_doc, None, OpQuery, None, [rx_sel_i], rx_Query, [1; 0; 0],
    (RJObject [(rx_i, RJObject [(rx_x, RJNull)])]), [].
  split; [exact rx_bad_class|]. split; [apply rx_builtins|]. split; [apply rx_has_impl|].
  split; [reflexivity|]. split; [reflexivity|]. split; [exact I|]. split; [apply rx_valid|].
  split; [exact rx_bad_run|exact rx_bad_shape].
Qed.
Check C33_shape_refuted : exists fuel cfg s d opname o n sels root stream j rest,
  rs_known_covariant s d = true /\
  RsBuiltinsOk s /\ RsHasImplementers s /\
  rs_find_operation d opname = Some (o, n, sels) /\ rs_root_type s o = Some root /\
  RsComposite s root /\ RsValid s d root sels /\
  rs_build_data fuel cfg s d opname stream = RsOk j rest /\
  ~ RsObjOk s d root sels j.
Print Assumptions C33_shape_refuted.

(* on well-typed input (every field defined on the type it is selected under, leaf fields of enum/scalar type,
   fields with sub-selections of composite type, unions and enums non-empty, min <= max list size, non-zero
   ratio denominator) no run panics, fails with EmptyChoose or misses a definition: for every stream the outcome
   is a response, `exhausted`, or the model's fuel bound *)
Theorem C33_no_panic : forall fuel cfg s d opname stream,
  rs_cfg_ok cfg = true -> rs_typed_operation s d opname = true ->
  RsSafe (rs_build_data fuel cfg s d opname stream).
Proof. exact rs_no_panic. Qed.
Check C33_no_panic : forall fuel cfg s d opname stream,
  rs_cfg_ok cfg = true -> rs_typed_operation s d opname = true ->
  RsSafe (rs_build_data fuel cfg s d opname stream).
Print Assumptions C33_no_panic.

(* operation not found: data is null and no choice is consumed *)
Theorem C33_no_operation : forall fuel cfg s d opname stream,
  rs_find_operation d opname = None -> rs_build_data fuel cfg s d opname stream = RsOk RJNull stream.
Proof. exact rs_no_operation. Qed.
Check C33_no_operation : forall fuel cfg s d opname stream,
  rs_find_operation d opname = None -> rs_build_data fuel cfg s d opname stream = RsOk RJNull stream.
Print Assumptions C33_no_operation.

(* what the shape predicate entails: null only at nullable positions ... *)
Theorem C33_null_only_nullable : forall s d t sels, RsValueOk s d t sels RJNull -> is_non_null t = false.
Proof. exact rs_value_null. Qed.
Check C33_null_only_nullable : forall s d t sels, RsValueOk s d t sels RJNull -> is_non_null t = false.
Print Assumptions C33_null_only_nullable.

(* ... and one list per list wrapper of the field type *)
Theorem C33_lists_nested : forall s d t it sels v,
  RsValueOk s d t sels v -> rs_item_ty t = Some it ->
  v = RJNull \/ exists vs, v = RJArray vs /\ Forall (RsValueOk s d it sels) vs.
Proof. exact rs_value_list. Qed.
Check C33_lists_nested : forall s d t it sels v,
  RsValueOk s d t sels v -> rs_item_ty t = Some it ->
  v = RJNull \/ exists vs, v = RJArray vs /\ Forall (RsValueOk s d it sels) vs.
Print Assumptions C33_lists_nested.

(* the grouping of collect_fields (nested IndexMap merges) is the grouping by response key in order of first
   occurrence of the flattened selection set *)
Theorem C33_collect_fields : forall s d T fuel ps g,
  (forall n cond fsels, rs_find_fragment d n = Some (cond, fsels) ->
     forall sel, In sel fsels -> rs_cov_sel s cond sel = false) ->
  rs_collect fuel s d T ps = Some g ->
  exists fl, RsFlat s d T (map snd ps) (map rs_erase fl) /\
             map fst g = rs_first_occ [] (map rcf_key fl) /\
             forall k fs, In (k, fs) g -> fs = rs_group_of k fl.
Proof. exact rs_collect_fields_grouped. Qed.
Check C33_collect_fields : forall s d T fuel ps g,
  (forall n cond fsels, rs_find_fragment d n = Some (cond, fsels) ->
     forall sel, In sel fsels -> rs_cov_sel s cond sel = false) ->
  rs_collect fuel s d T ps = Some g ->
  exists fl, RsFlat s d T (map snd ps) (map rs_erase fl) /\
             map fst g = rs_first_occ [] (map rcf_key fl) /\
             forall k fs, In (k, fs) g -> fs = rs_group_of k fl.
Print Assumptions C33_collect_fields.

(* non-vacuity of C33_shape: `type T implements I { x: Int }` meets every hypothesis and a response is built *)
Example C33_shape_nonvacuous :
  let s := rx_schema (TNamed rs_n_int) in
  rs_known_covariant s rx_doc = false /\ RsBuiltinsOk s /\ RsHasImplementers s /\
  rs_find_operation rx_doc None = Some (OpQuery, None, [rx_sel_i]) /\ rs_root_type s OpQuery = Some rx_Query /\
  RsComposite s rx_Query /\ RsValid s rx_doc rx_Query [rx_sel_i] /\
  rs_build_data 10 rx_cfg s rx_doc None [1; 0; 0] = RsOk (RJObject [(rx_i, RJObject [(rx_x, RJNull)])]) [] /\
  RsObjOk s rx_doc rx_Query [rx_sel_i] (RJObject [(rx_i, RJObject [(rx_x, RJNull)])]).
Proof.
  cbv zeta.
  split; [exact rx_good_class|]. split; [apply rx_builtins|]. split; [apply rx_has_impl|].
  split; [reflexivity|]. split; [reflexivity|]. split; [exact I|]. split; [apply rx_valid|].
  split; [exact rx_good_run|].
  exact (C33_shape 10 rx_cfg _ rx_doc None OpQuery None [rx_sel_i] rx_Query [1; 0; 0] _ []
           rx_good_class (rx_builtins _) (rx_has_impl _) eq_refl eq_refl I (rx_valid _) rx_good_run).
Qed.

Example C33_no_panic_nonvacuous :
  rs_cfg_ok rx_cfg = true /\ rs_typed_operation (rx_schema (TNamed rs_n_int)) rx_doc None = true /\
  rs_typed_operation rx_bad rx_doc None = true.
Proof. repeat split; vm_compute; reflexivity. Qed.
