(* C12 — Schema serialization round-trips and preserves order. *)
From ApolloVerif Require Import Base.Chars Ast.Ast Schema.Model Schema.Build Schema.ToAst Schema.Canon.

(* placeholder while the tie is being built *)
Lemma C12_subseq_nil : forall b, c12_subseq [] b = true.
Proof. destruct b; reflexivity. Qed.
Check C12_subseq_nil : forall b, c12_subseq [] b = true.
Print Assumptions C12_subseq_nil.
