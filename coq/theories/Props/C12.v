(* C12 — Schema serialization round-trips and preserves order (AST level: Schema::to_ast followed by
   the schema builder).  Property theorems only.
   Models: Schema/Build.v (from_ast.rs), Schema/ToAst.v (serialize.rs), Schema/Canon.v. *)
From ApolloVerif Require Import Base.Chars Ast.Ast Schema.Model Schema.Build Schema.ToAst Schema.Canon
  Schema.RebuildProofs.

(* ---- the witness of D10 *)
Definition c12_Query : str := [81; 117; 101; 114; 121].
Definition c12_Int : str := [73; 110; 116].
Definition c12_dname : str := [100].
Definition c12_fd (n : str) : fielddef :=
  {| fd_desc := None; fd_name := n; fd_args := []; fd_ty := TNamed c12_Int; fd_dirs := [] |}.
(* type Query { f: Int }  extend type Query { a: Int }  extend type Query @d { b: Int }  directive @d on OBJECT *)
Definition c12_witness : document :=
  [ DObject None c12_Query [] [] [c12_fd [102]];
    XObject c12_Query [] [] [c12_fd [97]];
    XObject c12_Query [] [{| d_name := c12_dname; d_args := [] |}] [c12_fd [98]];
    DDirective None c12_dname [] false [LObject] ].
Definition c12_b0 : schema :=
  {| sch_def := sb_empty_schema_def; sch_dirdefs := []; sch_types := [EScalar None c12_Int [] true] |}.
Definition c12_cfg : sb_cfg := {| sbc_adopt := false; sbc_ignore_builtin := false |}.

Definition c12_field_names (s : schema) : list str :=
  match sch_get_type s c12_Query with
  | Some (EObject _ _ _ _ fields _) => map (fun c => fd_name (c_val c)) fields
  | _ => []
  end.

(* the unrestricted statement is false of the faithful model: the witness builds without errors, its
   to_ast re-builds without errors, but the fields f, a, b come back as f, b, a (finding D10) *)
Theorem C12_order_refuted :
  exists defs s s',
    sb_build c12_cfg c12_b0 defs = SbBuilt s [] /\
    sb_build c12_cfg c12_b0 (sch_to_ast s) = SbBuilt s' [] /\
    c12_field_names s = [[102]; [97]; [98]] /\ c12_field_names s' = [[102]; [98]; [97]] /\
    ~ sch_equiv s' s /\ c12_known s = true.
Proof.
  exists c12_witness. eexists. eexists.
  split; [vm_compute; reflexivity|]. split; [vm_compute; reflexivity|].
  split; [vm_compute; reflexivity|]. split; [vm_compute; reflexivity|].
  split; [|vm_compute; reflexivity]. unfold sch_equiv. vm_compute. intros H. discriminate H.
Qed.
Check C12_order_refuted :
  exists defs s s',
    sb_build c12_cfg c12_b0 defs = SbBuilt s [] /\
    sb_build c12_cfg c12_b0 (sch_to_ast s) = SbBuilt s' [] /\
    c12_field_names s = [[102]; [97]; [98]] /\ c12_field_names s' = [[102]; [98]; [97]] /\
    ~ sch_equiv s' s /\ c12_known s = true.
Print Assumptions C12_order_refuted.

(* Full statement (C12_rebuild):
     forall cfg b0 defs s, sb_build cfg b0 defs = SbBuilt s [] -> c12_known s = false ->
       exists s', sb_build cfg b0 (sch_to_ast s) = SbBuilt s' [] /\ sch_equiv s' s
   (sch_equiv: equal including the order of types, fields, arguments, enum values, union members,
   interfaces, directive applications and the partition of components into definition / extensions, up
   to a renaming of extension ids).
   Proved here: the statement for every schema s that is well-formed w.r.t. the built-in definitions b0
   (rb_wf: directive definitions = built-ins, possibly replaced in place, then user definitions with
   distinct names; types = the built-in types with extension components added, then user types with
   distinct names; map keys unique; every component list lists the definition's components first and
   then those of the extensions in the order in which `extensions()` discovers them — the negation of
   Known_C12 for lists built by appending; the schema definition consistent with the builder
   configuration).  Missing: the invariant that every schema the builder returns without errors and
   outside Known_C12 is well-formed in this sense. *)
Theorem C12_rebuild_partial : forall cfg b0 s,
  rb_wf cfg b0 s ->
  exists s', sb_build cfg b0 (sch_to_ast s) = SbBuilt s' [] /\ sch_equiv s' s /\ sch_to_ast s' = sch_to_ast s.
Proof. exact rb_rebuild. Qed.
Check C12_rebuild_partial : forall cfg b0 s,
  rb_wf cfg b0 s ->
  exists s', sb_build cfg b0 (sch_to_ast s) = SbBuilt s' [] /\ sch_equiv s' s /\ sch_to_ast s' = sch_to_ast s.
Print Assumptions C12_rebuild_partial.
