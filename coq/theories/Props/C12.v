(* C12 — Schema serialization round-trips and preserves order (AST level: Schema::to_ast followed by
   the schema builder).  Property theorems only.
   Models: Schema/Build.v (from_ast.rs), Schema/ToAst.v (serialize.rs), Schema/Canon.v. *)
From ApolloVerif Require Import Base.Chars Ast.Ast Schema.Model Schema.Build Schema.ToAst Schema.Canon
  Schema.Builtin Schema.RebuildProofs Schema.InvProofs Schema.BuiltinProofs.

(* ---- the witness of D10 *)
Definition c12_Query : str := [81; 117; 101; 114; 121].
Definition c12_Int : str := [73; 110; 116].
Definition c12_dname : str := [100].
Definition c12_fd (n : str) : fielddef :=
  {| fd_desc := None; fd_name := n; fd_args := []; fd_ty := TNamed c12_Int; fd_dirs := [] |}.
(* type Query { f: Int }  extend type Query { a: Int }  extend type Query @d { b: Int }  directive @d on OBJECT *)
Definition c12_witness : document :=
  [ DObject None c12_Query [] [] [c12_fd [102]];
    XObject c12_Query [] [] [c12_fd [97]];
    XObject c12_Query [] [{| d_name := c12_dname; d_args := [] |}] [c12_fd [98]];
    DDirective None c12_dname [] false [LObject] ].
Definition c12_b0 : schema :=
  {| sch_def := sb_empty_schema_def; sch_dirdefs := []; sch_types := [EScalar None c12_Int [] true] |}.
Definition c12_cfg : sb_cfg := {| sbc_adopt := false; sbc_ignore_builtin := false |}.

Definition c12_field_names (s : schema) : list str :=
  match sch_get_type s c12_Query with
  | Some (EObject _ _ _ _ fields _) => map (fun c => fd_name (c_val c)) fields
  | _ => []
  end.

(* the unrestricted statement is false of the faithful model: the witness builds without errors, its
   to_ast re-builds without errors, but the fields f, a, b come back as f, b, a (finding D10) *)
Theorem C12_order_refuted :
  exists defs s s',
    sb_build c12_cfg c12_b0 defs = SbBuilt s [] /\
    sb_build c12_cfg c12_b0 (sch_to_ast s) = SbBuilt s' [] /\
    c12_field_names s = [[102]; [97]; [98]] /\ c12_field_names s' = [[102]; [98]; [97]] /\
    ~ sch_equiv s' s /\ c12_known s = true.
Proof.
  exists c12_witness. eexists. eexists.
  split; [vm_compute; reflexivity|]. split; [vm_compute; reflexivity|].
  split; [vm_compute; reflexivity|]. split; [vm_compute; reflexivity|].
  split; [|vm_compute; reflexivity]. unfold sch_equiv. vm_compute. intros H. discriminate H.
Qed.
Check C12_order_refuted :
  exists defs s s',
    sb_build c12_cfg c12_b0 defs = SbBuilt s [] /\
    sb_build c12_cfg c12_b0 (sch_to_ast s) = SbBuilt s' [] /\
    c12_field_names s = [[102]; [97]; [98]] /\ c12_field_names s' = [[102]; [98]; [97]] /\
    ~ sch_equiv s' s /\ c12_known s = true.
Print Assumptions C12_order_refuted.

(* The round trip outside the class of D10 (Known_C12 = c12_known): for every list of documents whose
   build from the built-in definitions b0 gives a schema s without errors, to_ast s re-builds without
   errors to a schema s' that equals s including the order of types, fields, arguments, enum values,
   union members, interfaces, directive applications and the partition of the components into
   definition / extensions, up to a renaming of the extension ids (sch_equiv).
   Hypotheses, both decidable and both checked by the tie on the real data on every run:
   bi_b0_ok b0 — the built-in definitions have an empty schema definition, are flagged built-in, have
   distinct names and no extension components; bi_doc_ok — every `schema` definition has at least one
   root operation (what the parser produces). *)
Theorem C12_rebuild : forall cfg b0 docs s,
  bi_b0_ok b0 = true -> Forall (fun d => bi_doc_ok d = true) docs ->
  sb_build_docs cfg b0 docs = SbBuilt s [] -> c12_known s = false ->
  exists s', sb_build cfg b0 (sch_to_ast s) = SbBuilt s' [] /\ sch_equiv s' s.
Proof. exact bi_rebuild. Qed.
Check C12_rebuild : forall cfg b0 docs s,
  bi_b0_ok b0 = true -> Forall (fun d => bi_doc_ok d = true) docs ->
  sb_build_docs cfg b0 docs = SbBuilt s [] -> c12_known s = false ->
  exists s', sb_build cfg b0 (sch_to_ast s) = SbBuilt s' [] /\ sch_equiv s' s.
Print Assumptions C12_rebuild.

(* the second serialization is identical: to_ast of the re-built schema is the same document *)
Theorem C12_fixpoint : forall cfg b0 docs s,
  bi_b0_ok b0 = true -> Forall (fun d => bi_doc_ok d = true) docs ->
  sb_build_docs cfg b0 docs = SbBuilt s [] -> c12_known s = false ->
  exists s', sb_build cfg b0 (sch_to_ast s) = SbBuilt s' [] /\ sch_to_ast s' = sch_to_ast s.
Proof. exact bi_fixpoint. Qed.
Check C12_fixpoint : forall cfg b0 docs s,
  bi_b0_ok b0 = true -> Forall (fun d => bi_doc_ok d = true) docs ->
  sb_build_docs cfg b0 docs = SbBuilt s [] -> c12_known s = false ->
  exists s', sb_build cfg b0 (sch_to_ast s) = SbBuilt s' [] /\ sch_to_ast s' = sch_to_ast s.
Print Assumptions C12_fixpoint.

(* the same for any schema value (built or not) that is well-formed w.r.t. the built-ins: unique map keys,
   built-in definitions only extended, every component list in canonical order *)
Theorem C12_rebuild_wf : forall cfg b0 s,
  rb_wf cfg b0 s ->
  exists s', sb_build cfg b0 (sch_to_ast s) = SbBuilt s' [] /\ sch_equiv s' s /\ sch_to_ast s' = sch_to_ast s.
Proof. exact rb_rebuild. Qed.
Check C12_rebuild_wf : forall cfg b0 s,
  rb_wf cfg b0 s ->
  exists s', sb_build cfg b0 (sch_to_ast s) = SbBuilt s' [] /\ sch_equiv s' s /\ sch_to_ast s' = sch_to_ast s.
Print Assumptions C12_rebuild_wf.

(* C12_validity_preserved (a valid schema stays valid after the round trip) is not stated: the
   validation rules have no model here (they are C14's); the tie checks it on the implementation. *)

(* non-vacuity: the harmless variant of the witness (the second extension contributes only a directive,
   so the two extensions share no component list) is outside Known_C12 although its extensions are
   discovered in the opposite order; it meets every hypothesis of C12_rebuild *)
Definition c12_harmless : document :=
  [ DObject None c12_Query [] [] [c12_fd [102]];
    XObject c12_Query [] [] [c12_fd [97]];
    XObject c12_Query [] [{| d_name := c12_dname; d_args := [] |}] [];
    DSchema None [] [(OpQuery, c12_Query)];
    DDirective None c12_dname [] false [LObject] ].

Example C12_nonvacuous :
  bi_b0_ok c12_b0 = true /\ bi_doc_ok c12_harmless = true /\
  exists s, sb_build_docs c12_cfg c12_b0 [c12_harmless] = SbBuilt s [] /\ c12_known s = false /\
            ta_type_extensions match sch_get_type s c12_Query with Some t => t | None => EScalar None [] [] false end = [1; 0].
Proof.
  split; [vm_compute; reflexivity|]. split; [vm_compute; reflexivity|].
  eexists. split; [vm_compute; reflexivity|]. split; vm_compute; reflexivity.
Qed.
