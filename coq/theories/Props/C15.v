(* C15 — Valid schemas are internally consistent.
   C15_valid_consistent is a genuine implication between the executable checker (Schema/Valid.v, the
   transcribed specification rules whose agreement with apollo-compiler the C14 tie tests) and the
   independent declarative statement Consistent (Schema/Consistent.v, written without reference to the
   checker functions).  All conjuncts of Consistent are covered.  The sentence about built-in scalars
   concerns the schema after validate_schema's prune/insert step and is evaluated through the tie
   (cs_scalars_exact_b); C15_scalars_reflect ties that boolean to its declarative reading. *)
From ApolloVerif Require Import Base.Chars Ast.Ast Schema.Model Schema.Valid Schema.Consistent
  Schema.ConsistentB Schema.ConsistentProofs.

Theorem C15_valid_consistent : forall p s, sv_schema_valid p s = true -> Consistent s.
Proof. exact sv_valid_consistent. Qed.
Check C15_valid_consistent : forall p s, sv_schema_valid p s = true -> Consistent s.
Print Assumptions C15_valid_consistent.

(* the boolean the model side of the tie evaluates on the dumped Valid<Schema> implies Consistent *)
Theorem C15_reflection_sound : forall s, cs_consistent_b s = true -> Consistent s.
Proof. exact cs_consistent_b_sound. Qed.
Check C15_reflection_sound : forall s, cs_consistent_b s = true -> Consistent s.
Print Assumptions C15_reflection_sound.

Theorem C15_scalars_reflect : forall s, cs_scalars_exact_b s = true <-> CsScalarsExact s.
Proof. exact cs_scalars_exact_b_spec. Qed.
Check C15_scalars_reflect : forall s, cs_scalars_exact_b s = true <-> CsScalarsExact s.
Print Assumptions C15_scalars_reflect.

(* non-vacuity: the real builder's Schema (dumped by harness/src/schemadump.rs, built-ins left out) for
     schema { query: Q mutation: M }
     interface Node { id: ID! }
     interface Named implements Node { id: ID! name(upper: Boolean): String }
     interface Res implements Named & Node { id: ID! name(upper: Boolean): String owner: Node kids: [Node] }
     type User implements Named & Node { id: ID! name(upper: Boolean, extra: Int, extra2: Int! = 1): String! }
     type Doc implements Res & Named & Node { id: ID! name(upper: Boolean): String owner: User kids: [User!]! }
     union Any = User | Doc
     enum Color { RED GREEN }
     input In { req: Int! self: In list: [In!] other: In2 color: Color = RED }
     input In2 { a: In! b: [In2!]! }
     type Q { node(id: ID!, in: In): Node any: Any docs(f: In2): [Doc!] }
     type M { set(v: Int): Int }
   -- interfaces implementing interfaces, a union, an enum, input objects with nullable and list cycles --
   is accepted by the checker, hence Consistent. *)
Definition c15_ex : schema :=
{| sch_def := {| sd_desc := None; sd_dirs := []; sd_query := (Some (mkcomp ODef [81])); sd_mutation := (Some (mkcomp ODef [77])); sd_subscription := None |};
   sch_dirdefs := [];
   sch_types := [
    (EInterface None [78;111;100;101] [] []
      [(mkcomp ODef {| fd_desc := None; fd_name := [105;100]; fd_args := []; fd_ty := (TNonNullNamed [73;68]); fd_dirs := [] |})] false);
    (EInterface None [78;97;109;101;100] [(mkcomp ODef [78;111;100;101])] []
      [(mkcomp ODef {| fd_desc := None; fd_name := [105;100]; fd_args := []; fd_ty := (TNonNullNamed [73;68]); fd_dirs := [] |}); (mkcomp ODef {| fd_desc := None; fd_name := [110;97;109;101]; fd_args := [{| iv_desc := None; iv_name := [117;112;112;101;114]; iv_ty := (TNamed [66;111;111;108;101;97;110]); iv_default := None; iv_dirs := [] |}]; fd_ty := (TNamed [83;116;114;105;110;103]); fd_dirs := [] |})] false);
    (EInterface None [82;101;115] [(mkcomp ODef [78;97;109;101;100]); (mkcomp ODef [78;111;100;101])] []
      [(mkcomp ODef {| fd_desc := None; fd_name := [105;100]; fd_args := []; fd_ty := (TNonNullNamed [73;68]); fd_dirs := [] |}); (mkcomp ODef {| fd_desc := None; fd_name := [110;97;109;101]; fd_args := [{| iv_desc := None; iv_name := [117;112;112;101;114]; iv_ty := (TNamed [66;111;111;108;101;97;110]); iv_default := None; iv_dirs := [] |}]; fd_ty := (TNamed [83;116;114;105;110;103]); fd_dirs := [] |}); (mkcomp ODef {| fd_desc := None; fd_name := [111;119;110;101;114]; fd_args := []; fd_ty := (TNamed [78;111;100;101]); fd_dirs := [] |}); (mkcomp ODef {| fd_desc := None; fd_name := [107;105;100;115]; fd_args := []; fd_ty := (TList (TNamed [78;111;100;101])); fd_dirs := [] |})] false);
    (EObject None [85;115;101;114] [(mkcomp ODef [78;97;109;101;100]); (mkcomp ODef [78;111;100;101])] []
      [(mkcomp ODef {| fd_desc := None; fd_name := [105;100]; fd_args := []; fd_ty := (TNonNullNamed [73;68]); fd_dirs := [] |}); (mkcomp ODef {| fd_desc := None; fd_name := [110;97;109;101]; fd_args := [{| iv_desc := None; iv_name := [117;112;112;101;114]; iv_ty := (TNamed [66;111;111;108;101;97;110]); iv_default := None; iv_dirs := [] |}; {| iv_desc := None; iv_name := [101;120;116;114;97]; iv_ty := (TNamed [73;110;116]); iv_default := None; iv_dirs := [] |}; {| iv_desc := None; iv_name := [101;120;116;114;97;50]; iv_ty := (TNonNullNamed [73;110;116]); iv_default := (Some (VInt [49])); iv_dirs := [] |}]; fd_ty := (TNonNullNamed [83;116;114;105;110;103]); fd_dirs := [] |})] false);
    (EObject None [68;111;99] [(mkcomp ODef [82;101;115]); (mkcomp ODef [78;97;109;101;100]); (mkcomp ODef [78;111;100;101])] []
      [(mkcomp ODef {| fd_desc := None; fd_name := [105;100]; fd_args := []; fd_ty := (TNonNullNamed [73;68]); fd_dirs := [] |}); (mkcomp ODef {| fd_desc := None; fd_name := [110;97;109;101]; fd_args := [{| iv_desc := None; iv_name := [117;112;112;101;114]; iv_ty := (TNamed [66;111;111;108;101;97;110]); iv_default := None; iv_dirs := [] |}]; fd_ty := (TNamed [83;116;114;105;110;103]); fd_dirs := [] |}); (mkcomp ODef {| fd_desc := None; fd_name := [111;119;110;101;114]; fd_args := []; fd_ty := (TNamed [85;115;101;114]); fd_dirs := [] |}); (mkcomp ODef {| fd_desc := None; fd_name := [107;105;100;115]; fd_args := []; fd_ty := (TNonNullList (TNonNullNamed [85;115;101;114])); fd_dirs := [] |})] false);
    (EUnion None [65;110;121] [] [(mkcomp ODef [85;115;101;114]); (mkcomp ODef [68;111;99])] false);
    (EEnum None [67;111;108;111;114] [] [(mkcomp ODef {| ev_desc := None; ev_value := [82;69;68]; ev_dirs := [] |}); (mkcomp ODef {| ev_desc := None; ev_value := [71;82;69;69;78]; ev_dirs := [] |})] false);
    (EInput None [73;110] []
      [(mkcomp ODef {| iv_desc := None; iv_name := [114;101;113]; iv_ty := (TNonNullNamed [73;110;116]); iv_default := None; iv_dirs := [] |}); (mkcomp ODef {| iv_desc := None; iv_name := [115;101;108;102]; iv_ty := (TNamed [73;110]); iv_default := None; iv_dirs := [] |}); (mkcomp ODef {| iv_desc := None; iv_name := [108;105;115;116]; iv_ty := (TList (TNonNullNamed [73;110])); iv_default := None; iv_dirs := [] |}); (mkcomp ODef {| iv_desc := None; iv_name := [111;116;104;101;114]; iv_ty := (TNamed [73;110;50]); iv_default := None; iv_dirs := [] |}); (mkcomp ODef {| iv_desc := None; iv_name := [99;111;108;111;114]; iv_ty := (TNamed [67;111;108;111;114]); iv_default := (Some (VEnum [82;69;68])); iv_dirs := [] |})] false);
    (EInput None [73;110;50] []
      [(mkcomp ODef {| iv_desc := None; iv_name := [97]; iv_ty := (TNonNullNamed [73;110]); iv_default := None; iv_dirs := [] |}); (mkcomp ODef {| iv_desc := None; iv_name := [98]; iv_ty := (TNonNullList (TNonNullNamed [73;110;50])); iv_default := None; iv_dirs := [] |})] false);
    (EObject None [81] [] []
      [(mkcomp ODef {| fd_desc := None; fd_name := [110;111;100;101]; fd_args := [{| iv_desc := None; iv_name := [105;100]; iv_ty := (TNonNullNamed [73;68]); iv_default := None; iv_dirs := [] |}; {| iv_desc := None; iv_name := [105;110]; iv_ty := (TNamed [73;110]); iv_default := None; iv_dirs := [] |}]; fd_ty := (TNamed [78;111;100;101]); fd_dirs := [] |}); (mkcomp ODef {| fd_desc := None; fd_name := [97;110;121]; fd_args := []; fd_ty := (TNamed [65;110;121]); fd_dirs := [] |}); (mkcomp ODef {| fd_desc := None; fd_name := [100;111;99;115]; fd_args := [{| iv_desc := None; iv_name := [102]; iv_ty := (TNamed [73;110;50]); iv_default := None; iv_dirs := [] |}]; fd_ty := (TList (TNonNullNamed [68;111;99])); fd_dirs := [] |})] false);
    (EObject None [77] [] []
      [(mkcomp ODef {| fd_desc := None; fd_name := [115;101;116]; fd_args := [{| iv_desc := None; iv_name := [118]; iv_ty := (TNamed [73;110;116]); iv_default := None; iv_dirs := [] |}]; fd_ty := (TNamed [73;110;116]); fd_dirs := [] |})] false) ] |}
.

Example C15_nonvacuous : sv_schema_valid sv_apollo_params c15_ex = true /\ Consistent c15_ex.
Proof.
  assert (H : sv_schema_valid sv_apollo_params c15_ex = true) by (vm_compute; reflexivity).
  split; [exact H|exact (C15_valid_consistent _ _ H)].
Qed.
