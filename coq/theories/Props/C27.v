(* C27 — Async execution does not depend on the schedule.
   Property theorems only (Run/AsyncTheorems.v), pinned by Check, followed by Print Assumptions.

   execute_request        : execute_sync of the executor model (Run/ExecTop.v): outcome and resolver call log
   execute_request_async  : execute_async of the SAME program (Run/AsyncExec.v): every await point i (resolver
                            future or `next()` of a list stream) is Pending `sigma i` times; the poll loop
                            returns outcome, call log and the number of polls of the root future
   The model has no wakers: that the real code forwards the waker it is polled with is observed by the tie only
   (a dropped or substituted waker is the observation `deadlock`). *)
From Coq Require Import ZArith Arith String.
From ApolloVerif Require Import Base.Chars Ast.Ast Schema.Model Run.Json Run.Coerce Run.TypedDoc Run.Prog
  Run.Execute Run.ExecTop Run.Async Run.AsyncExec Run.ExecTheorems Run.AsyncTheorems.
Local Open Scope string_scope.
Local Open Scope nat_scope.
Local Open Scope list_scope.

Theorem C27_schedule_independent : forall sigma s doc values w,
  execute_request_async sigma s doc values w =
  (fst (execute_request s doc values w), snd (execute_request s doc values w),
   1 + sum_sigma sigma 0 (request_points s doc values w)).
Proof. exact c27_schedule_independent. Qed.
Check C27_schedule_independent : forall sigma s doc values w,
  execute_request_async sigma s doc values w =
  (fst (execute_request s doc values w), snd (execute_request s doc values w),
   1 + sum_sigma sigma 0 (request_points s doc values w)).
Print Assumptions C27_schedule_independent.

(* the general fact behind it: for ANY program, sequential await gives the synchronous result, the synchronous
   call log, and no lost or spurious poll *)
Theorem C27_program_schedule_independent : forall (A : Type) sigma w (p : prog A) i,
  run_async (to_async sigma w p i) =
  (fst (run_sync w p []), i + sync_points w p, rev (snd (run_sync w p [])),
   1 + sum_sigma sigma i (sync_points w p)).
Proof. exact c27_program_schedule_independent. Qed.
Check C27_program_schedule_independent : forall (A : Type) sigma w (p : prog A) i,
  run_async (to_async sigma w p i) =
  (fst (run_sync w p []), i + sync_points w p, rev (snd (run_sync w p [])),
   1 + sum_sigma sigma i (sync_points w p)).
Print Assumptions C27_program_schedule_independent.

(* the fields of a selection set — for a mutation: its root fields — are resolved strictly one after another in
   the order of the grouped field set: the call log is the concatenation of the per-field call logs (contiguous
   blocks), and the executed fields are a subsequence of the collected response keys in order *)
Theorem C27_mutation_serial : forall w fuel cx rpath otn oimpls oid sels st visited groups,
  ex_collect (ex_cfuel cx) cx otn oimpls sels [] [] = Some (visited, groups) ->
  let run_field := fun key fdef f0 rest => ex_field fuel cx (PsKey key :: rpath) otn oimpls oid fdef f0 rest in
  let blocks := loop_blocks w run_field (ex_schema cx) otn groups st in
  rev (snd (run_sync w (ex_selset (S fuel) cx rpath otn oimpls oid sels st) [])) = concat (map snd blocks) /\
  is_subseq (map fst blocks) (map fst groups).
Proof. exact c27_mutation_serial. Qed.
Check C27_mutation_serial : forall w fuel cx rpath otn oimpls oid sels st visited groups,
  ex_collect (ex_cfuel cx) cx otn oimpls sels [] [] = Some (visited, groups) ->
  let run_field := fun key fdef f0 rest => ex_field fuel cx (PsKey key :: rpath) otn oimpls oid fdef f0 rest in
  let blocks := loop_blocks w run_field (ex_schema cx) otn groups st in
  rev (snd (run_sync w (ex_selset (S fuel) cx rpath otn oimpls oid sels st) [])) = concat (map snd blocks) /\
  is_subseq (map fst blocks) (map fst groups).
Print Assumptions C27_mutation_serial.

Example C27_nonvacuous :
  exists visited groups,
    ex_collect (ex_cfuel x_ab_cx) x_ab_cx (xs "Query") [] x_ab_sels [] [] = Some (visited, groups) /\
    map fst groups = [xs "a"; xs "b"] /\
    map (fun b => (fst b, map (fun c => (ec_obj c, ec_field c)) (snd b)))
        (loop_blocks x_ab_world
           (fun key fdef f0 rest => ex_field 10 x_ab_cx [PsKey key] (xs "Query") [] 0%N fdef f0 rest)
           (ex_schema x_ab_cx) (xs "Query") groups []) =
    [(xs "a", [(0%N, xs "a"); (1%N, xs "n")]); (xs "b", [(0%N, xs "b"); (2%N, xs "n")])].
Proof. exact c27_nonvacuous. Qed.

(* the theorem is not vacuous: with a join (alternate polling) of the two root fields of `{ a { n } b { n } }`
   instead of sequential await, two schedules give different call logs *)
Theorem C27_concurrent_refuted :
  x_joined [0; 0] [0; 0] = Some [(0%N, xs "a"); (1%N, xs "n"); (0%N, xs "b"); (2%N, xs "n")] /\
  x_joined [1; 0] [0; 0] = Some [(0%N, xs "a"); (0%N, xs "b"); (2%N, xs "n"); (1%N, xs "n")] /\
  (forall s, x_sequential s = [(0%N, xs "a"); (1%N, xs "n"); (0%N, xs "b"); (2%N, xs "n")]).
Proof. exact c27_concurrent_refuted. Qed.
Check C27_concurrent_refuted :
  x_joined [0; 0] [0; 0] = Some [(0%N, xs "a"); (1%N, xs "n"); (0%N, xs "b"); (2%N, xs "n")] /\
  x_joined [1; 0] [0; 0] = Some [(0%N, xs "a"); (0%N, xs "b"); (2%N, xs "n"); (1%N, xs "n")] /\
  (forall s, x_sequential s = [(0%N, xs "a"); (1%N, xs "n"); (0%N, xs "b"); (2%N, xs "n")]).
Print Assumptions C27_concurrent_refuted.
