(* C13 — Building from several sources is compositional; extension placement does not matter.
   Property theorems only.  Model: Schema/Build.v (SchemaBuilder of schema/from_ast.rs). *)
From ApolloVerif Require Import Base.Chars Ast.Ast Schema.Model Schema.Build Schema.BuildProofs.
From Coq Require Import Permutation.

(* the builder is a fold over definitions: adding the documents d1 ++ d2 one after another is adding d1,
   then d2 — same state, hence same schema and same error list *)
Theorem C13_schema_fold : forall cfg st d1 d2,
  sb_add_docs cfg st (d1 ++ d2) = sb_add_docs cfg (sb_add_docs cfg st d1) d2.
Proof. exact sb_add_docs_app. Qed.
Check C13_schema_fold : forall cfg st d1 d2,
  sb_add_docs cfg st (d1 ++ d2) = sb_add_docs cfg (sb_add_docs cfg st d1) d2.
Print Assumptions C13_schema_fold.

(* several documents give exactly the result (schema and error list) of the one document that is the
   concatenation of their definition lists *)
Theorem C13_schema_concat : forall cfg b0 docs,
  sb_build_docs cfg b0 docs = sb_build cfg b0 (concat docs).
Proof. exact sb_build_docs_concat. Qed.
Check C13_schema_concat : forall cfg b0 docs,
  sb_build_docs cfg b0 docs = sb_build cfg b0 (concat docs).
Print Assumptions C13_schema_concat.

(* Full statement (C13_extension_commutes):
     forall cfg b0 pre e d mid post, sb_extends e d = true -> mid does not touch the target of e ->
       sb_build cfg b0 (pre ++ e :: d :: mid ++ post)  and  sb_build cfg b0 (pre ++ d :: mid ++ e :: post)
       are both a panic, or have schemas equal up to a renaming of extension ids (sch_equiv) and error
       lists that are permutations of each other.
   Proved: the case mid = [] (the extension directly before vs directly after the definition of its
   target — a type of any of the six kinds, or the schema definition; any prefix, any suffix, both builder
   configurations, including kind-mismatched extensions, colliding definitions and built-in types): there
   the two schemas are EQUAL (same extension ids) and the error lists are permutations.
   Missing: moving the extension across the definitions `mid` in between (needs the renaming of ids). *)
Theorem C13_extension_commutes_partial : forall cfg b0 pre e d post,
  sb_extends e d = true ->
  sb_result_perm (sb_build cfg b0 (pre ++ e :: d :: post)) (sb_build cfg b0 (pre ++ d :: e :: post)).
Proof. exact sb_commute_adjacent. Qed.
Check C13_extension_commutes_partial : forall cfg b0 pre e d post,
  sb_extends e d = true ->
  sb_result_perm (sb_build cfg b0 (pre ++ e :: d :: post)) (sb_build cfg b0 (pre ++ d :: e :: post)).
Print Assumptions C13_extension_commutes_partial.

(* non-vacuity: `extend union X @d` before / after `type X { f: Int }` (the former D11): in both
   orders one TypeExtensionKindMismatch and the same schema *)
Definition c13_X : str := [88]. Definition c13_f : str := [102]. Definition c13_d : str := [100].
Definition c13_Int : str := [73; 110; 116].
Definition c13_b0 : schema :=
  {| sch_def := sb_empty_schema_def; sch_dirdefs := []; sch_types := [EScalar None c13_Int [] true] |}.
Definition c13_e : definition := XUnion c13_X [{| d_name := c13_d; d_args := [] |}] [].
Definition c13_def : definition :=
  DObject None c13_X [] [] [{| fd_desc := None; fd_name := c13_f; fd_args := []; fd_ty := TNamed c13_Int; fd_dirs := [] |}].
Definition c13_cfg : sb_cfg := {| sbc_adopt := false; sbc_ignore_builtin := false |}.

Example C13_nonvacuous :
  sb_extends c13_e c13_def = true /\
  (exists s, sb_build c13_cfg c13_b0 [c13_e; c13_def] = SbBuilt s [SbeTypeExtensionKindMismatch c13_X SbUnion SbObject]
          /\ sb_build c13_cfg c13_b0 [c13_def; c13_e] = SbBuilt s [SbeTypeExtensionKindMismatch c13_X SbUnion SbObject]).
Proof. split; [reflexivity|]. eexists. split; vm_compute; reflexivity. Qed.
