(* C13 — placeholder while the tie is being built *)
From ApolloVerif Require Import Base.Chars.
Lemma C13_placeholder : forall n : N, n = n.
Proof. reflexivity. Qed.
Check C13_placeholder : forall n : N, n = n.
Print Assumptions C13_placeholder.
