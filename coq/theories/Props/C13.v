(* C13 — Building from several sources is compositional; extension placement does not matter.
   Property theorems only.  Model: Schema/Build.v (SchemaBuilder of schema/from_ast.rs). *)
From ApolloVerif Require Import Base.Chars Ast.Ast Schema.Model Schema.Build Schema.Canon Schema.Builtin
  Schema.BuildProofs Schema.CommuteProofs Schema.TotalProofs.
From Coq Require Import Permutation.

(* the builder is a fold over definitions: adding the documents d1 ++ d2 one after another is adding d1,
   then d2 — same state, hence same schema and same error list *)
Theorem C13_schema_fold : forall cfg st d1 d2,
  sb_add_docs cfg st (d1 ++ d2) = sb_add_docs cfg (sb_add_docs cfg st d1) d2.
Proof. exact sb_add_docs_app. Qed.
Check C13_schema_fold : forall cfg st d1 d2,
  sb_add_docs cfg st (d1 ++ d2) = sb_add_docs cfg (sb_add_docs cfg st d1) d2.
Print Assumptions C13_schema_fold.

(* several documents give exactly the result (schema and error list) of the one document that is the
   concatenation of their definition lists *)
Theorem C13_schema_concat : forall cfg b0 docs,
  sb_build_docs cfg b0 docs = sb_build cfg b0 (concat docs).
Proof. exact sb_build_docs_concat. Qed.
Check C13_schema_concat : forall cfg b0 docs,
  sb_build_docs cfg b0 docs = sb_build cfg b0 (concat docs).
Print Assumptions C13_schema_concat.

(* Moving an extension e of the type / schema definition that d defines from directly before d to
   after the definitions `mid` that follow d, none of which touches what e extends (sb_untouched: no
   definition or extension of that type, resp. no schema definition or extension): both builds panic, or
   both return schemas equal up to a renaming of the extension ids (sch_equiv: same order of types,
   fields, ..., same partition into definition and extensions) with error lists that are permutations of
   each other (the real list is sorted by location, so only the multiset is observable).  Any prefix,
   any suffix, all six kinds and the schema definition, kind-mismatched extensions, colliding definitions,
   built-in targets, both builder configurations.  Hypotheses (decidable, checked by the tie on the real
   data): the built-in initial state is as bi_b0_ok says; schema definitions in pre, d, mid have a root
   operation. *)
Theorem C13_extension_commutes : forall cfg b0 pre e d mid post,
  bi_b0_ok b0 = true -> bi_doc_ok (pre ++ d :: mid) = true ->
  sb_extends e d = true -> sb_untouched e mid = true ->
  sb_result_equiv (sb_build cfg b0 (pre ++ e :: d :: mid ++ post))
                  (sb_build cfg b0 (pre ++ d :: mid ++ e :: post)).
Proof. exact bi_commute. Qed.
Check C13_extension_commutes : forall cfg b0 pre e d mid post,
  bi_b0_ok b0 = true -> bi_doc_ok (pre ++ d :: mid) = true ->
  sb_extends e d = true -> sb_untouched e mid = true ->
  sb_result_equiv (sb_build cfg b0 (pre ++ e :: d :: mid ++ post))
                  (sb_build cfg b0 (pre ++ d :: mid ++ e :: post)).
Print Assumptions C13_extension_commutes.

(* the special case mid = []: there the two schemas are EQUAL (same extension ids), for any b0 *)
Theorem C13_extension_adjacent : forall cfg b0 pre e d post,
  sb_extends e d = true ->
  sb_result_perm (sb_build cfg b0 (pre ++ e :: d :: post)) (sb_build cfg b0 (pre ++ d :: e :: post)).
Proof. exact sb_commute_adjacent. Qed.
Check C13_extension_adjacent : forall cfg b0 pre e d post,
  sb_extends e d = true ->
  sb_result_perm (sb_build cfg b0 (pre ++ e :: d :: post)) (sb_build cfg b0 (pre ++ d :: e :: post)).
Print Assumptions C13_extension_adjacent.

(* the asserts / unwraps / `unreachable!()` of build_inner and adopt_type_extensions are unreachable: the
   builder returns a schema and an error list for every list of documents, in both configurations *)
Theorem C13_builder_total : forall cfg b0 docs, sb_build_docs cfg b0 docs <> SbPanic.
Proof. exact sb_build_total. Qed.
Check C13_builder_total : forall cfg b0 docs, sb_build_docs cfg b0 docs <> SbPanic.
Print Assumptions C13_builder_total.

(* No model of ExecutableDocumentBuilder::add_ast_document: the second half of the first sentence of the
   property (executable documents from several sources) is checked on the implementation only. *)

(* non-vacuity: `extend union X @d` before / after `type X { f: Int }` (the former D11): in both
   orders one TypeExtensionKindMismatch and the same schema *)
Definition c13_X : str := [88]. Definition c13_f : str := [102]. Definition c13_d : str := [100].
Definition c13_Int : str := [73; 110; 116].
Definition c13_b0 : schema :=
  {| sch_def := sb_empty_schema_def; sch_dirdefs := []; sch_types := [EScalar None c13_Int [] true] |}.
Definition c13_e : definition := XUnion c13_X [{| d_name := c13_d; d_args := [] |}] [].
Definition c13_def : definition :=
  DObject None c13_X [] [] [{| fd_desc := None; fd_name := c13_f; fd_args := []; fd_ty := TNamed c13_Int; fd_dirs := [] |}].
Definition c13_cfg : sb_cfg := {| sbc_adopt := false; sbc_ignore_builtin := false |}.

Definition c13_mid : list definition := [XScalar c13_Int [{| d_name := c13_d; d_args := [] |}]; DScalar None c13_d []].
Definition c13_e2 : definition := XObject c13_X [] [{| d_name := c13_d; d_args := [] |}] [].

Example C13_nonvacuous :
  bi_b0_ok c13_b0 = true /\ bi_doc_ok (c13_def :: c13_mid) = true /\
  sb_extends c13_e c13_def = true /\ sb_untouched c13_e c13_mid = true /\
  sb_extends c13_e2 c13_def = true /\ sb_untouched c13_e2 c13_mid = true /\
  (exists s, sb_build c13_cfg c13_b0 [c13_e; c13_def] = SbBuilt s [SbeTypeExtensionKindMismatch c13_X SbUnion SbObject]
          /\ sb_build c13_cfg c13_b0 [c13_def; c13_e] = SbBuilt s [SbeTypeExtensionKindMismatch c13_X SbUnion SbObject]) /\
  (* with `extend scalar Int @d` in between the ids differ (0 / 1 swapped) but the schemas are equivalent *)
  (exists s1 s2, sb_build c13_cfg c13_b0 (c13_e2 :: c13_def :: c13_mid) = SbBuilt s1 [] /\
                 sb_build c13_cfg c13_b0 (c13_def :: c13_mid ++ [c13_e2]) = SbBuilt s2 [] /\ s1 <> s2 /\ sch_equiv s1 s2).
Proof.
  split; [reflexivity|]. split; [reflexivity|]. split; [reflexivity|]. split; [reflexivity|].
  split; [reflexivity|]. split; [reflexivity|]. split.
  - eexists. split; vm_compute; reflexivity.
  - eexists. eexists. split; [vm_compute; reflexivity|]. split; [vm_compute; reflexivity|]. split; [discriminate|].
    vm_compute. reflexivity.
Qed.
