(* C25 — The introspection depth limit does not depend on fragments.
   Property theorems only.  Model: Intro/MaxDepth.v (md_check_selection_set / md_check_max_depth as of /repo HEAD,
   i.e. after the D16 fix a863a6a), specification: ExpandedDepth (expanded nesting depth of list fields).
   Fuel: the model's recursion through fragment definitions is fuel-bounded; [Checks frs op v] means
   "some fuel gives the md_verdict v, and v is not out-of-fuel", [ExpandedDepth frs op x] likewise. *)
From ApolloVerif Require Import Base.Chars Intro.MaxDepth Intro.MaxDepthProofs.

(* The check rejects iff the expanded depth reaches md_MAX_LISTS_DEPTH = 3; it always terminates with Ok or Err
   (no panic) on acyclic fragment maps; the md_verdict does not depend on the fuel.
   Spreads of undefined fragments are allowed (the code skips them, the expansion drops them), so the
   DESIGN.md hypothesis spreads_defined is not needed. *)
Theorem C25_iff : forall frs op, acyclic frs ->
  exists x, ExpandedDepth frs op x /\
    (exists v, Checks frs op v) /\
    (forall v, Checks frs op v ->
       (v = MdVErr <-> md_MAX_LISTS_DEPTH <= x) /\ (v = MdVOk <-> x < md_MAX_LISTS_DEPTH)).
Proof. exact check_iff_acyclic. Qed.
Check C25_iff : forall frs op, acyclic frs ->
  exists x, ExpandedDepth frs op x /\
    (exists v, Checks frs op v) /\
    (forall v, Checks frs op v ->
       (v = MdVErr <-> md_MAX_LISTS_DEPTH <= x) /\ (v = MdVOk <-> x < md_MAX_LISTS_DEPTH)).
Print Assumptions C25_iff.

(* the same without acyclicity, for any operation whose expansion terminates *)
Theorem C25_iff_expanded : forall frs op x, ExpandedDepth frs op x ->
  (exists v, Checks frs op v) /\
  (forall v, Checks frs op v ->
     (v = MdVErr <-> md_MAX_LISTS_DEPTH <= x) /\ (v = MdVOk <-> x < md_MAX_LISTS_DEPTH)).
Proof. exact check_iff. Qed.
Check C25_iff_expanded : forall frs op x, ExpandedDepth frs op x ->
  (exists v, Checks frs op v) /\
  (forall v, Checks frs op v ->
     (v = MdVErr <-> md_MAX_LISTS_DEPTH <= x) /\ (v = MdVOk <-> x < md_MAX_LISTS_DEPTH)).
Print Assumptions C25_iff_expanded.

(* two operations, each with its own fragment definitions, whose expansions (named and inline fragments
   replaced by their fields) are the same field tree, get the same md_verdict *)
Theorem C25_fragment_independent : forall frs1 op1 frs2 op2 e,
  acyclic frs1 -> acyclic frs2 ->
  Expansion frs1 op1 e -> Expansion frs2 op2 e ->
  forall v1 v2, Checks frs1 op1 v1 -> Checks frs2 op2 v2 -> v1 = v2.
Proof. exact fragment_independent. Qed.
Check C25_fragment_independent : forall frs1 op1 frs2 op2 e,
  acyclic frs1 -> acyclic frs2 ->
  Expansion frs1 op1 e -> Expansion frs2 op2 e ->
  forall v1 v2, Checks frs1 op1 v1 -> Checks frs2 op2 v2 -> v1 = v2.
Print Assumptions C25_fragment_independent.

(* the specification is a function of the expansion: the expanded depth of (frs, op) is the depth of the
   fragment-free field tree it expands to, and that tree exists *)
Theorem C25_depth_of_expansion : forall frs op x, ExpandedDepth frs op x ->
  (exists e, Expansion frs op e) /\ (forall e, Expansion frs op e -> ExpandedDepth [] e x).
Proof. exact depth_of_expansion. Qed.
Check C25_depth_of_expansion : forall frs op x, ExpandedDepth frs op x ->
  (exists e, Expansion frs op e) /\ (forall e, Expansion frs op e -> ExpandedDepth [] e x).
Print Assumptions C25_depth_of_expansion.

(* the fuel-bounded function behind ExpandedDepth computes the declarative specification: the maximum,
   over the paths of the expansion, of the number of nested list-valued introspection fields *)
Theorem C25_spec_is_max_path : forall frs op x, ExpandedDepth frs op x ->
  NestPath frs op x /\ forall k, NestPath frs op k -> k <= x.
Proof. exact xdepth_is_max_path. Qed.
Check C25_spec_is_max_path : forall frs op x, ExpandedDepth frs op x ->
  NestPath frs op x /\ forall k, NestPath frs op k -> k <= x.
Print Assumptions C25_spec_is_max_path.

(* ---- the code before the fix (finding D16), kept as a witness:
   fragment F on __Type { possibleTypes { possibleTypes { name } } }
   { ...F possibleTypes { ...F } }          F has own depth 2, spread at depth 0 and again at depth 1 *)
Definition w_name : str := [110;97;109;101].
Definition w_F : str := [70].
Definition w_frs : md_fragmap :=
  [(w_F, [MdField md_n_possibleTypes [MdField md_n_possibleTypes [MdField w_name []]]])].
Definition w_op : list md_sel := [MdSpread w_F; MdField md_n_possibleTypes [MdSpread w_F]].

Theorem C25_old_refuted :
  md_check_max_depth_old 10 w_frs w_op = MdVOk /\ md_check_max_depth 10 w_frs w_op = MdVErr /\
  md_xdepth 10 w_frs w_op = Some 3.
Proof. vm_compute. auto. Qed.
Check C25_old_refuted :
  md_check_max_depth_old 10 w_frs w_op = MdVOk /\ md_check_max_depth 10 w_frs w_op = MdVErr /\
  md_xdepth 10 w_frs w_op = Some 3.
Print Assumptions C25_old_refuted.

(* ---- non-vacuity: the witness meets the hypotheses of the theorems above *)
Example C25_nonvacuous_acyclic : acyclic w_frs.
Proof.
  exists (fun _ => O). intros n body Hn m body' Hs Hm. exfalso.
  cbn [w_frs md_assoc] in Hn. destruct (md_str_eqb n w_F); [|discriminate]. injection Hn as <-.
  repeat match goal with
         | H : SpreadIn _ (_ :: _) |- _ => inversion H; clear H; subst
         | H : SpreadIn _ [] |- _ => inversion H
         end.
Qed.

Example C25_nonvacuous :
  ExpandedDepth w_frs w_op 3 /\ Checks w_frs w_op MdVErr /\
  Expansion w_frs w_op
    [MdField md_n_possibleTypes [MdField md_n_possibleTypes [MdField w_name []]];
     MdField md_n_possibleTypes [MdField md_n_possibleTypes [MdField md_n_possibleTypes [MdField w_name []]]]] /\
  Expansion [] [MdField md_n_possibleTypes [MdField md_n_possibleTypes [MdField w_name []]];
                MdInline [MdField md_n_possibleTypes [MdInline [MdField md_n_possibleTypes [MdField md_n_possibleTypes [MdField w_name []]]]]]]
    [MdField md_n_possibleTypes [MdField md_n_possibleTypes [MdField w_name []]];
     MdField md_n_possibleTypes [MdField md_n_possibleTypes [MdField md_n_possibleTypes [MdField w_name []]]]].
Proof.
  split; [exists 10%nat; vm_compute; reflexivity|].
  split; [exists 10%nat; vm_compute; split; [reflexivity|discriminate]|].
  split; exists 10%nat; vm_compute; reflexivity.
Qed.
