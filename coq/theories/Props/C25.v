(* C25 — The introspection depth limit does not depend on fragments. *)
From ApolloVerif Require Import Base.Chars Intro.MaxDepth.

Definition w_possibleTypes := n_possibleTypes.
Definition w_name : str := [110;97;109;101].
Definition w_F : str := [70].
(* fragment F on __Type { possibleTypes { possibleTypes { name } } }
   { ...F possibleTypes { ...F } } *)
Definition w_frs : fragmap :=
  [(w_F, [SField w_possibleTypes [SField w_possibleTypes [SField w_name []]]])].
Definition w_op : list sel := [SSpread w_F; SField w_possibleTypes [SSpread w_F]].

Theorem C25_refuted :
  check_max_depth 10 w_frs w_op = VOk /\ xdepth 10 w_frs w_op = Some 3 /\ known_c25_b 10 w_frs w_op = true.
Proof. vm_compute. auto. Qed.
Check C25_refuted :
  check_max_depth 10 w_frs w_op = VOk /\ xdepth 10 w_frs w_op = Some 3 /\ known_c25_b 10 w_frs w_op = true.
Print Assumptions C25_refuted.
