(* C25 — The introspection depth limit does not depend on fragments.
   Property theorems only.  Model: Intro/MaxDepth.v (check_selection_set / check_max_depth as of /repo HEAD,
   i.e. after the D16 fix a863a6a), specification: ExpandedDepth (expanded nesting depth of list fields).
   Fuel: the model's recursion through fragment definitions is fuel-bounded; [Checks frs op v] means
   "some fuel gives the verdict v, and v is not out-of-fuel", [ExpandedDepth frs op x] likewise. *)
From ApolloVerif Require Import Base.Chars Intro.MaxDepth Intro.MaxDepthProofs.

(* The check rejects iff the expanded depth reaches MAX_LISTS_DEPTH = 3; it always terminates with Ok or Err
   (no panic) on acyclic fragment maps; the verdict does not depend on the fuel.
   Spreads of undefined fragments are allowed (the code skips them, the expansion drops them), so the
   DESIGN.md hypothesis spreads_defined is not needed. *)
Theorem C25_iff : forall frs op, acyclic frs ->
  exists x, ExpandedDepth frs op x /\
    (exists v, Checks frs op v) /\
    (forall v, Checks frs op v ->
       (v = VErr <-> MAX_LISTS_DEPTH <= x) /\ (v = VOk <-> x < MAX_LISTS_DEPTH)).
Proof. exact check_iff_acyclic. Qed.
Check C25_iff : forall frs op, acyclic frs ->
  exists x, ExpandedDepth frs op x /\
    (exists v, Checks frs op v) /\
    (forall v, Checks frs op v ->
       (v = VErr <-> MAX_LISTS_DEPTH <= x) /\ (v = VOk <-> x < MAX_LISTS_DEPTH)).
Print Assumptions C25_iff.

(* the same without acyclicity, for any operation whose expansion terminates *)
Theorem C25_iff_expanded : forall frs op x, ExpandedDepth frs op x ->
  (exists v, Checks frs op v) /\
  (forall v, Checks frs op v ->
     (v = VErr <-> MAX_LISTS_DEPTH <= x) /\ (v = VOk <-> x < MAX_LISTS_DEPTH)).
Proof. exact check_iff. Qed.
Check C25_iff_expanded : forall frs op x, ExpandedDepth frs op x ->
  (exists v, Checks frs op v) /\
  (forall v, Checks frs op v ->
     (v = VErr <-> MAX_LISTS_DEPTH <= x) /\ (v = VOk <-> x < MAX_LISTS_DEPTH)).
Print Assumptions C25_iff_expanded.

(* two operations, each with its own fragment definitions, whose expansions (named and inline fragments
   replaced by their fields) are the same field tree, get the same verdict *)
Theorem C25_fragment_independent : forall frs1 op1 frs2 op2 e,
  acyclic frs1 -> acyclic frs2 ->
  Expansion frs1 op1 e -> Expansion frs2 op2 e ->
  forall v1 v2, Checks frs1 op1 v1 -> Checks frs2 op2 v2 -> v1 = v2.
Proof. exact fragment_independent. Qed.
Check C25_fragment_independent : forall frs1 op1 frs2 op2 e,
  acyclic frs1 -> acyclic frs2 ->
  Expansion frs1 op1 e -> Expansion frs2 op2 e ->
  forall v1 v2, Checks frs1 op1 v1 -> Checks frs2 op2 v2 -> v1 = v2.
Print Assumptions C25_fragment_independent.

(* the specification is a function of the expansion: the expanded depth of (frs, op) is the depth of the
   fragment-free field tree it expands to, and that tree exists *)
Theorem C25_depth_of_expansion : forall frs op x, ExpandedDepth frs op x ->
  (exists e, Expansion frs op e) /\ (forall e, Expansion frs op e -> ExpandedDepth [] e x).
Proof. exact depth_of_expansion. Qed.
Check C25_depth_of_expansion : forall frs op x, ExpandedDepth frs op x ->
  (exists e, Expansion frs op e) /\ (forall e, Expansion frs op e -> ExpandedDepth [] e x).
Print Assumptions C25_depth_of_expansion.

(* ---- the code before the fix (finding D16), kept as a witness:
   fragment F on __Type { possibleTypes { possibleTypes { name } } }
   { ...F possibleTypes { ...F } }          F has own depth 2, spread at depth 0 and again at depth 1 *)
Definition w_name : str := [110;97;109;101].
Definition w_F : str := [70].
Definition w_frs : fragmap :=
  [(w_F, [SField n_possibleTypes [SField n_possibleTypes [SField w_name []]]])].
Definition w_op : list sel := [SSpread w_F; SField n_possibleTypes [SSpread w_F]].

Theorem C25_old_refuted :
  check_max_depth_old 10 w_frs w_op = VOk /\ check_max_depth 10 w_frs w_op = VErr /\
  xdepth 10 w_frs w_op = Some 3.
Proof. vm_compute. auto. Qed.
Check C25_old_refuted :
  check_max_depth_old 10 w_frs w_op = VOk /\ check_max_depth 10 w_frs w_op = VErr /\
  xdepth 10 w_frs w_op = Some 3.
Print Assumptions C25_old_refuted.

(* ---- non-vacuity: the witness meets the hypotheses of the theorems above *)
Example C25_nonvacuous_acyclic : acyclic w_frs.
Proof.
  exists (fun _ => O). intros n body Hn m body' Hs Hm. exfalso.
  cbn [w_frs md_assoc] in Hn. destruct (md_str_eqb n w_F); [|discriminate]. injection Hn as <-.
  repeat match goal with
         | H : SpreadIn _ (_ :: _) |- _ => inversion H; clear H; subst
         | H : SpreadIn _ [] |- _ => inversion H
         end.
Qed.

Example C25_nonvacuous :
  ExpandedDepth w_frs w_op 3 /\ Checks w_frs w_op VErr /\
  Expansion w_frs w_op
    [SField n_possibleTypes [SField n_possibleTypes [SField w_name []]];
     SField n_possibleTypes [SField n_possibleTypes [SField n_possibleTypes [SField w_name []]]]] /\
  Expansion [] [SField n_possibleTypes [SField n_possibleTypes [SField w_name []]];
                SInline [SField n_possibleTypes [SInline [SField n_possibleTypes [SField n_possibleTypes [SField w_name []]]]]]]
    [SField n_possibleTypes [SField n_possibleTypes [SField w_name []]];
     SField n_possibleTypes [SField n_possibleTypes [SField n_possibleTypes [SField w_name []]]]].
Proof.
  split; [exists 10%nat; vm_compute; reflexivity|].
  split; [exists 10%nat; vm_compute; split; [reflexivity|discriminate]|].
  split; exists 10%nat; vm_compute; reflexivity.
Qed.
