(* C29 — Type compatibility checks match the specification.
   Property theorems only: each closed by `exact <lemma>`, pinned by Check, followed by Print Assumptions. *)
From ApolloVerif Require Import Base.Chars Ast.Ast Ast.TypeRef Exec.Compat Exec.CompatProofs.

(* Type::is_assignable_to is AreTypesCompatible, for all types (any nesting) *)
Theorem C29_assignable : forall v l,
  compat_is_assignable_to v l = true <-> AreTypesCompatible (sty_of v) (sty_of l).
Proof. exact assignable_iff. Qed.
Check C29_assignable : forall v l,
  compat_is_assignable_to v l = true <-> AreTypesCompatible (sty_of v) (sty_of l).
Print Assumptions C29_assignable.

(* is_variable_usage_allowed is IsVariableUsageAllowed, for all types and defaults, including `null` *)
Theorem C29_usage : forall d u, compat_usage_allowed d u = true <-> IsVariableUsageAllowed d u.
Proof. exact usage_iff. Qed.
Check C29_usage : forall d u, compat_usage_allowed d u = true <-> IsVariableUsageAllowed d u.
Print Assumptions C29_usage.

(* the code before the fix 19b3359 (DESIGN.md D13): `is_some()` where the spec says "exists and is not null" *)
Theorem C29_usage_old_refuted :
  exists d u, compat_usage_allowed_old d u = true /\ ~ IsVariableUsageAllowed d u.
Proof. exact usage_old_refuted. Qed.
Check C29_usage_old_refuted :
  exists d u, compat_usage_allowed_old d u = true /\ ~ IsVariableUsageAllowed d u.
Print Assumptions C29_usage_old_refuted.

Theorem C29_usage_old_restricted : forall d u,
  compat_null_default_class d u = false ->
  (compat_usage_allowed_old d u = true <-> IsVariableUsageAllowed d u).
Proof. exact usage_old_iff_restricted. Qed.
Check C29_usage_old_restricted : forall d u,
  compat_null_default_class d u = false ->
  (compat_usage_allowed_old d u = true <-> IsVariableUsageAllowed d u).
Print Assumptions C29_usage_old_restricted.

(* is_valid_implementation_field_type is IsValidImplementationFieldType, for every subtype relation *)
Theorem C29_impl_field : forall (sub : str -> str -> bool) iface impl,
  compat_valid_impl_field_type sub iface impl = true <->
  IsValidImplementationFieldType (fun implemented field => sub implemented field = true) (sty_of impl) (sty_of iface).
Proof. exact impl_iff. Qed.
Check C29_impl_field : forall (sub : str -> str -> bool) iface impl,
  compat_valid_impl_field_type sub iface impl = true <->
  IsValidImplementationFieldType (fun implemented field => sub implemented field = true) (sty_of impl) (sty_of iface).
Print Assumptions C29_impl_field.

(* Schema::is_subtype is the specification's steps 4 and 5 when union members are object types *)
Theorem C29_subtype : forall types a b, UnionMembersAreObjects types ->
  (compat_is_subtype types a b = true <-> SpecSubtype types a b).
Proof. exact subtype_iff. Qed.
Check C29_subtype : forall types a b, UnionMembersAreObjects types ->
  (compat_is_subtype types a b = true <-> SpecSubtype types a b).
Print Assumptions C29_subtype.

Theorem C29_impl_field_schema : forall types iface impl, UnionMembersAreObjects types ->
  (compat_valid_impl_field_type (compat_is_subtype types) iface impl = true <->
   IsValidImplementationFieldType (SpecSubtype types) (sty_of impl) (sty_of iface)).
Proof. exact impl_schema_iff. Qed.
Check C29_impl_field_schema : forall types iface impl, UnionMembersAreObjects types ->
  (compat_valid_impl_field_type (compat_is_subtype types) iface impl = true <->
   IsValidImplementationFieldType (SpecSubtype types) (sty_of impl) (sty_of iface)).
Print Assumptions C29_impl_field_schema.

(* ---- non-vacuity ---- *)
Definition ex_A : str := [65]. Definition ex_I : str := [73]. Definition ex_U : str := [85].
Definition ex_types : list (str * compat_tydef) :=
  [(ex_A, CtObject [ex_I]); (ex_I, CtInterface []); (ex_U, CtUnion [ex_A])].

Example C29_nonvacuous :
  compat_is_assignable_to (TNonNullList (TNonNullNamed ex_A)) (TList (TNamed ex_A)) = true /\
  compat_is_assignable_to (TList (TNamed ex_A)) (TList (TNonNullNamed ex_A)) = false /\
  compat_usage_allowed {| cv_ty := TNamed ex_A; cv_default := Some CvOther |}
                       {| cu_ty := TNonNullNamed ex_A; cu_default := None |} = true /\
  compat_usage_allowed {| cv_ty := TNamed ex_A; cv_default := Some CvNull |}
                       {| cu_ty := TNonNullNamed ex_A; cu_default := None |} = false /\
  compat_null_default_class {| cv_ty := TNamed ex_A; cv_default := Some CvOther |}
                            {| cu_ty := TNonNullNamed ex_A; cu_default := None |} = false /\
  compat_valid_impl_field_type (compat_is_subtype ex_types) (TList (TNamed ex_I)) (TNonNullList (TNonNullNamed ex_A)) = true /\
  compat_valid_impl_field_type (compat_is_subtype ex_types) (TNamed ex_U) (TNamed ex_I) = false /\
  UnionMembersAreObjects ex_types.
Proof.
  repeat split; try (vm_compute; reflexivity).
  intros u members m Hu Hm. unfold ex_types in *. cbn [compat_types_get] in Hu.
  destruct (streq u ex_A); [discriminate|]. destruct (streq u ex_I); [discriminate|].
  destruct (streq u ex_U); [|discriminate]. injection Hu as <-.
  destruct Hm as [<-|[]]. exists [ex_I]. reflexivity.
Qed.
