(* C29 — placeholder while the tie is brought up; replaced by the property theorems. *)
From ApolloVerif Require Import Base.Chars Ast.TypeRef Exec.Compat.

Theorem C29_usage_refuted_placeholder :
  compat_usage_allowed_old {| cv_ty := TrNamed [65]; cv_default := Some CvNull |}
                       {| cu_ty := TrNonNullNamed [65]; cu_default := None |} = true.
Proof. reflexivity. Qed.
Check C29_usage_refuted_placeholder :
  compat_usage_allowed_old {| cv_ty := TrNamed [65]; cv_default := Some CvNull |}
                       {| cu_ty := TrNonNullNamed [65]; cu_default := None |} = true.
Print Assumptions C29_usage_refuted_placeholder.
