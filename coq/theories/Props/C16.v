(* C16 — placeholder while the tie is being built *)
From ApolloVerif Require Import Base.Chars.
Lemma C16_placeholder : forall n : N, n = n.
Proof. reflexivity. Qed.
Check C16_placeholder : forall n : N, n = n.
Print Assumptions C16_placeholder.
