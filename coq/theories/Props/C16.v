(* C16 — Validation is idempotent; re-validation restores exactly the removed built-in scalars.
   Property theorems only.  `vs_post_validate all s` is what validate_schema does to Schema::types
   (schema/validation.rs: BuiltInScalars, retain, insertion loop), `all` the table of built-in scalar
   definitions; None would be the panic of `all[&name]`. *)
From ApolloVerif Require Import Base.Chars Ast.Ast Schema.Model Schema.Scalars Schema.ScalarsProofs.

(* the prune / restore step never panics *)
Theorem C16_total : forall all s, exists s', vs_post_validate all s = Some s'.
Proof. exact vs_post_validate_total. Qed.
Check C16_total : forall all s, exists s', vs_post_validate all s = Some s'.
Print Assumptions C16_total.

(* re-validating the output of a validation leaves it identical, including which built-in scalars are
   present and the order of `types` *)
Theorem C16_idempotent : forall all s s1,
  vs_wf all s -> vs_post_validate all s = Some s1 -> vs_post_validate all s1 = Some s1.
Proof. exact vs_idempotent. Qed.
Check C16_idempotent : forall all s s1,
  vs_wf all s -> vs_post_validate all s = Some s1 -> vs_post_validate all s1 = Some s1.
Print Assumptions C16_idempotent.

(* the output is again well-formed, so the statement applies along any history of validations *)
Theorem C16_wf_preserved : forall all s s1,
  vs_wf all s -> vs_post_validate all s = Some s1 -> vs_wf all s1.
Proof. exact vs_wf_result. Qed.
Check C16_wf_preserved : forall all s s1,
  vs_wf all s -> vs_post_validate all s = Some s1 -> vs_wf all s1.
Print Assumptions C16_wf_preserved.

(* s1 a validated schema (a fixpoint) from which the built-in scalar B was pruned; a field of type B
   (whose arguments reference no other missing built-in scalar) is added to an object type:
   re-validation changes nothing but `types`, to which exactly B's definition is appended *)
Theorem C16_restore : forall all s1 tname fd B defB d n impls dirs fields b,
  NoDup (map et_name all) ->
  vs_post_validate all s1 = Some s1 ->
  sch_find_type B all = Some defB ->
  vs_contains (sch_types s1) B = false ->
  sch_find_type tname (sch_types s1) = Some (EObject d n impls dirs fields b) ->
  inner_named_type (fd_ty fd) = B ->
  (forall r, In r (vs_args_refs (fd_args fd)) -> vs_contains all r = true -> vs_contains (sch_types s1) r = true) ->
  vs_post_validate all (vs_add_field tname fd s1) =
  Some {| sch_def := sch_def s1; sch_dirdefs := sch_dirdefs s1;
          sch_types := vs_add_field_types tname fd (sch_types s1) ++ [defB] |}.
Proof. exact vs_restore. Qed.
Check C16_restore : forall all s1 tname fd B defB d n impls dirs fields b,
  NoDup (map et_name all) ->
  vs_post_validate all s1 = Some s1 ->
  sch_find_type B all = Some defB ->
  vs_contains (sch_types s1) B = false ->
  sch_find_type tname (sch_types s1) = Some (EObject d n impls dirs fields b) ->
  inner_named_type (fd_ty fd) = B ->
  (forall r, In r (vs_args_refs (fd_args fd)) -> vs_contains all r = true -> vs_contains (sch_types s1) r = true) ->
  vs_post_validate all (vs_add_field tname fd s1) =
  Some {| sch_def := sch_def s1; sch_dirdefs := sch_dirdefs s1;
          sch_types := vs_add_field_types tname fd (sch_types s1) ++ [defB] |}.
Print Assumptions C16_restore.

(* No theorem is stated for the third sentence of the property (re-validating an executable document):
   in a model validation is a pure function of (schema, document); its content is the tie (c16_exec). *)

(* non-vacuity: built-in scalars Int, Float, String; `type Query { s: String }` *)
Definition c16_Int : str := [73; 110; 116].
Definition c16_Float : str := [70; 108; 111; 97; 116].
Definition c16_String : str := [83; 116; 114; 105; 110; 103].
Definition c16_Query : str := [81; 117; 101; 114; 121].
Definition c16_all : list ext_type :=
  [EScalar None c16_Int [] true; EScalar None c16_Float [] true; EScalar None c16_String [] true].
Definition c16_sd : schema_def :=
  {| sd_desc := None; sd_dirs := []; sd_query := None; sd_mutation := None; sd_subscription := None |}.
Definition c16_fd (n ty : str) : fielddef :=
  {| fd_desc := None; fd_name := n; fd_args := []; fd_ty := TNamed ty; fd_dirs := [] |}.
Definition c16_s0 : schema :=
  {| sch_def := c16_sd; sch_dirdefs := [];
     sch_types := c16_all ++ [EObject None c16_Query [] [] [mkcomp ODef (c16_fd [115] c16_String)] false] |}.
Definition c16_s1 : schema :=
  {| sch_def := c16_sd; sch_dirdefs := [];
     sch_types := [EScalar None c16_String [] true;
                   EObject None c16_Query [] [] [mkcomp ODef (c16_fd [115] c16_String)] false] |}.

Example C16_nonvacuous :
  vs_wf c16_all c16_s0 /\
  vs_post_validate c16_all c16_s0 = Some c16_s1 /\            (* Int and Float are pruned *)
  vs_post_validate c16_all c16_s1 = Some c16_s1 /\
  vs_contains (sch_types c16_s1) c16_Int = false /\
  option_map vs_type_names (vs_post_validate c16_all (vs_add_field c16_Query (c16_fd [122] c16_Int) c16_s1))
  = Some [c16_String; c16_Query; c16_Int].
Proof.
  split.
  - unfold vs_wf. split; [|split].
    + vm_compute. repeat constructor; cbn; intuition congruence.
    + repeat constructor.
    + repeat constructor; cbn; congruence.
  - repeat split; vm_compute; reflexivity.
Qed.
