(* C03 — The lexer implements the GraphQL lexical grammar.
   Property theorems only: each closed by `exact <lemma>`, pinned by Check, followed by Print Assumptions.
   The model is Lex.Fun (lex_all = the item stream of the Lexer iterator); the specification is Lex.Spec. *)
From ApolloVerif Require Import Base.Chars Lex.Item Lex.Fun Lex.LexProofs.

(* the fuel of lex_all is never exhausted: lex_all is the stream computed with enough fuel *)
Theorem C03_fuel : forall s, lex_run (S (length s)) 0 s = Some (lex_all s).
Proof. exact (lex_from_run 0). Qed.
Check C03_fuel : forall s, lex_run (S (length s)) 0 s = Some (lex_all s).
Print Assumptions C03_fuel.

(* tokens and error fragments, concatenated in order, reproduce the input *)
Theorem C03_concat : forall s, concat (map item_data (lex_all s)) = s.
Proof. exact lex_all_concat. Qed.
Check C03_concat : forall s, concat (map item_data (lex_all s)) = s.
Print Assumptions C03_concat.

(* each item's index is the UTF-8 length of the data before it *)
Theorem C03_index : forall s pre it post,
  lex_all s = pre ++ it :: post -> item_index it = blen (concat (map item_data pre)).
Proof. exact lex_all_index. Qed.
Check C03_index : forall s pre it post,
  lex_all s = pre ++ it :: post -> item_index it = blen (concat (map item_data pre)).
Print Assumptions C03_index.

(* the stream ends with TkEof (empty data, index = byte length) and TkEof occurs nowhere else *)
Theorem C03_eof : forall s,
  exists pre, lex_all s = pre ++ [ITok TkEof [] (blen s)] /\ existsb is_eof pre = false.
Proof. exact lex_all_eof. Qed.
Check C03_eof : forall s,
  exists pre, lex_all s = pre ++ [ITok TkEof [] (blen s)] /\ existsb is_eof pre = false.
Print Assumptions C03_eof.

(* non-vacuity: a concrete input with tokens, an error fragment and a multi-byte character *)
Example C03_nonvacuous :
  lex_all [123; 97; 32; 233; 49; 46; 125] =
  [ITok TkLCurly [123] 0; ITok TkName [97] 1; ITok TkWhitespace [32] 2; IErr ELex [233] 3;
   IErr ELex [49; 46; 125] 5; ITok TkEof [] 8].
Proof. vm_compute. reflexivity. Qed.
