(* C03 — The lexer implements the GraphQL lexical grammar.
   Property theorems only: each closed by `exact <lemma>`, pinned by Check, followed by Print Assumptions.

   Model: Lex.Fun (lex_all s = the item stream of the `Lexer` iterator on s, lex_limited n s = the same
   with `with_limit(n)`), tied to the code by the correspondence check.
   Specification: Lex.Spec (the October 2021 lexical grammar, declarative, independent of Lex.Fun),
   parameterised by SourceCharacter SC; theorems quantify over SC and over inputs made of SC characters,
   so they hold for SC_scalar (all &str inputs) and for SC_oct2021 (inputs within the strict set).

   One deviation of the code from the statement read with the strict October 2021 SourceCharacter set,
   with its refutation below: oct2021_source_character (DESIGN.md D4) -- characters outside that set are
   accepted inside comments and strings.  (A second deviation found while modelling -- a line terminator
   right after the opening quote was accepted -- was repaired in /repo, commit 4dbec7a; the model follows
   the repaired code.) *)
From ApolloVerif Require Import Base.Chars Lex.Item Lex.Fun Lex.Spec Lex.LexProofs Lex.LexSound
  Lex.LexMain Lex.LexLimit.

(* the fuel of lex_all is never exhausted: lex_all is the stream computed with enough fuel *)
Theorem C03_fuel : forall s, lex_run (S (length s)) 0 s = Some (lex_all s).
Proof. exact (lex_from_run 0). Qed.
Check C03_fuel : forall s, lex_run (S (length s)) 0 s = Some (lex_all s).
Print Assumptions C03_fuel.

(* tokens and error fragments, concatenated in order, reproduce the input *)
Theorem C03_concat : forall s, concat (map item_data (lex_all s)) = s.
Proof. exact lex_all_concat. Qed.
Check C03_concat : forall s, concat (map item_data (lex_all s)) = s.
Print Assumptions C03_concat.

(* each item's index is the UTF-8 length of the data before it *)
Theorem C03_index : forall s pre it post,
  lex_all s = pre ++ it :: post -> item_index it = blen (concat (map item_data pre)).
Proof. exact lex_all_index. Qed.
Check C03_index : forall s pre it post,
  lex_all s = pre ++ it :: post -> item_index it = blen (concat (map item_data pre)).
Print Assumptions C03_index.

(* the stream ends with Eof (empty data, index = byte length) and Eof occurs nowhere else *)
Theorem C03_eof : forall s,
  exists pre, lex_all s = pre ++ [ITok TkEof [] (blen s)] /\ existsb is_eof pre = false.
Proof. exact lex_all_eof. Qed.
Check C03_eof : forall s,
  exists pre, lex_all s = pre ++ [ITok TkEof [] (blen s)] /\ existsb is_eof pre = false.
Print Assumptions C03_eof.

(* Each token is a lexeme of its kind, its lookahead restriction holds for the text that follows,
   and no lexeme of ANY kind at the same position is longer (maximal munch). *)
Theorem C03_tokens_are_munch : forall SC s pre k d idx post, Forall SC s ->
  lex_all s = pre ++ ITok k d idx :: post -> k <> TkEof ->
  Munch SC k d (concat (map item_data post)).
Proof. exact tokens_are_munch. Qed.
Check C03_tokens_are_munch : forall SC s pre k d idx post, Forall SC s ->
  lex_all s = pre ++ ITok k d idx :: post -> k <> TkEof ->
  Munch SC k d (concat (map item_data post)).
Print Assumptions C03_tokens_are_munch.

(* The lexer reports no error exactly when the input is a sequence of valid lexical tokens and ignored
   tokens; for every SourceCharacter set SC and every input made of SC characters. *)
Theorem C03_no_error_iff : forall SC s, Forall SC s ->
  (no_lex_error s = true <-> LexicallyValid SC s).
Proof. exact no_error_iff. Qed.
Check C03_no_error_iff : forall SC s, Forall SC s ->
  (no_lex_error s = true <-> LexicallyValid SC s).
Print Assumptions C03_no_error_iff.

(* the instance for every &str input: SourceCharacter = any Unicode scalar value *)
Corollary C03_no_error_iff_scalar : forall s, Forall scalar s ->
  (no_lex_error s = true <-> LexicallyValid SC_scalar s).
Proof. exact (no_error_iff SC_scalar). Qed.
Check C03_no_error_iff_scalar : forall s, Forall scalar s ->
  (no_lex_error s = true <-> LexicallyValid SC_scalar s).
Print Assumptions C03_no_error_iff_scalar.

(* D4: for arbitrary &str inputs the iff fails under the strict October 2021 SourceCharacter
   (witness: hash U+0001) *)
Theorem C03_no_error_iff_oct2021_refuted :
  exists s, Forall scalar s /\ no_lex_error s = true /\ ~ LexicallyValid SC_oct2021 s.
Proof. exact no_error_iff_oct2021_refuted. Qed.
Check C03_no_error_iff_oct2021_refuted :
  exists s, Forall scalar s /\ no_lex_error s = true /\ ~ LexicallyValid SC_oct2021 s.
Print Assumptions C03_no_error_iff_oct2021_refuted.

(* Lexer::with_limit(n): the first n items and then the limit error, or everything when there are at
   most n items.  The limit error's index is Cursor::index() (cursor_after). *)
Theorem C03_lex_limited : forall n s,
  ((length (lex_all s) <= N.to_nat n)%nat -> lex_limited n s = lex_all s) /\
  ((N.to_nat n < length (lex_all s))%nat ->
     lex_limited n s = firstn (N.to_nat n) (lex_all s) ++
                       [IErr ELimit [] (cursor_after (blen s) 0 (lex_all s) (N.to_nat n))]).
Proof. exact (fun n s => conj (lex_limited_under n s) (lex_limited_over n s)). Qed.
Check C03_lex_limited : forall n s,
  ((length (lex_all s) <= N.to_nat n)%nat -> lex_limited n s = lex_all s) /\
  ((N.to_nat n < length (lex_all s))%nat ->
     lex_limited n s = firstn (N.to_nat n) (lex_all s) ++
                       [IErr ELimit [] (cursor_after (blen s) 0 (lex_all s) (N.to_nat n))]).
Print Assumptions C03_lex_limited.

(* ---- non-vacuity ---- *)
(* tokens, an error fragment and a multi-byte character *)
Example C03_nonvacuous_stream :
  lex_all [123; 97; 32; 233; 49; 46; 125] =
  [ITok TkLCurly [123] 0; ITok TkName [97] 1; ITok TkWhitespace [32] 2; IErr ELex [233] 3;
   IErr ELex [49; 46; 125] 5; ITok TkEof [] 8].
Proof. vm_compute. reflexivity. Qed.

(* lcurly a colon -1.5e3 comma, the quoted string x\n, a space, the block string b, a spread, a comment:
   meets the hypotheses of the munch and iff theorems and is valid *)
Definition ex_valid : str :=
  [123; 97; 58; 45; 49; 46; 53; 101; 51; 44; 34; 120; 92; 110; 34; 32; 34; 34; 34; 98; 34; 34; 34; 46; 46; 46; 35; 99].
Example C03_nonvacuous_valid :
  Forall SC_oct2021 ex_valid /\ Forall scalar ex_valid /\
  no_lex_error ex_valid = true /\
  LexicallyValid SC_oct2021 ex_valid /\
  lex_all ex_valid =
    [ITok TkLCurly [123] 0; ITok TkName [97] 1; ITok TkColon [58] 2] ++
    ITok TkFloat [45; 49; 46; 53; 101; 51] 3 ::
    [ITok TkComma [44] 9; ITok TkStringValue [34; 120; 92; 110; 34] 10; ITok TkWhitespace [32] 15;
     ITok TkStringValue [34; 34; 34; 98; 34; 34; 34] 16; ITok TkSpread [46; 46; 46] 23;
     ITok TkComment [35; 99] 26; ITok TkEof [] 28].
Proof.
  assert (H1 : Forall SC_oct2021 ex_valid) by (apply sc_oct2021_forall; vm_compute; reflexivity).
  assert (H2 : no_lex_error ex_valid = true) by (vm_compute; reflexivity).
  split; [exact H1|]. split; [apply scalar_forall; vm_compute; reflexivity|].
  split; [exact H2|].
  split; [apply (C03_no_error_iff SC_oct2021 ex_valid H1); exact H2|].
  vm_compute. reflexivity.
Qed.

(* an invalid input inside the theorems' hypotheses: `1.` *)
Example C03_nonvacuous_invalid :
  Forall SC_oct2021 [49; 46] /\ no_lex_error [49; 46] = false /\ ~ LexicallyValid SC_oct2021 [49; 46].
Proof.
  assert (H1 : Forall SC_oct2021 [49; 46]) by (apply sc_oct2021_forall; vm_compute; reflexivity).
  split; [exact H1|]. split; [vm_compute; reflexivity|].
  intros HV. apply (C03_no_error_iff SC_oct2021 _ H1) in HV. vm_compute in HV. discriminate.
Qed.

(* the limit: `a b` has 4 items; limit 2 cuts after the whitespace, limit 3 reports index len-1 *)
Example C03_nonvacuous_limit :
  lex_limited 2 [97; 32; 98] = [ITok TkName [97] 0; ITok TkWhitespace [32] 1; IErr ELimit [] 2] /\
  lex_limited 3 [97; 32; 98] = [ITok TkName [97] 0; ITok TkWhitespace [32] 1; ITok TkName [98] 2; IErr ELimit [] 2] /\
  lex_limited 4 [97; 32; 98] = lex_all [97; 32; 98].
Proof. repeat split; vm_compute; reflexivity. Qed.
