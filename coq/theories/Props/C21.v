(* C21 — The compiler never panics on adversarial input; excessive depth produces recursion-limit
   diagnostics; diagnostic lists come out sorted.

   What is proved here is about the guard mechanisms of validation/mod.rs, the guarded traversals
   (including, since its repair, the recursion of validate_selection_set) and DiagnosticList::sort as modelled in Valid/Guards.v, for EVERY graph (look-up function: finite or not,
   cyclic or not) and EVERY limit.  The statement "no unwrap / index / expect anywhere in the compiler can
   fire" has no model: it is only exercised by the pipeline family of the tie (strength: partial).

   Full statement of the design's C21_guard_depth: "for every guarded traversal T and every graph g, T g
   terminates, its activation depth is <= limit_T + 1, and deep g -> has_limit_error (T g)".
   - termination / depth: proved (fuel = number of nested activations; limit + 1 suffice, 4*limit + 2 for the
     two-stack directive traversal; more fuel never changes the result);
   - "deep g -> has_limit_error" is FALSE as worded for the traversals with a `seen` set (a fragment first
     reached on a short path is not walked again on a long one: no error, and none is needed).  What is
     proved instead is the reason it matters: a result other than the limit error is the result of the same
     traversal under every larger limit (nothing was cut off); the verdicts `cycle` and `ok` of the three
     cycle detectors are EXACT for every graph and limit (C21_cycle_verdict_exact: the limit can only turn a
     verdict into `limit`, never into a wrong one); and for chains the limit error appears exactly when the
     chain is longer than the limit (GuardsExamples.v, boundary values by computation; C21_deep_chain_limit
     for every limit on an unbounded chain).
   - At the level of a whole document the limit error of the three @defer walks used to be discarded by
     their caller (former finding defer_walk_limit_swallowed, repaired in the code): validate_defer now
     reports it, C21_defer_limit_reported; the behaviour before the repair is kept as gd_doc_walk_obs_old with
     its witness, C21_defer_limit_swallowed_old_refuted.
   - validate_selection_set / validate_field / validate_inline_fragment / validate_fragment_spread /
     validate_fragment_definition used to recurse without any guard (former finding
     selection_set_recursion_unguarded: (fragments on a spread path) x (nesting of each definition) native
     frames, stack overflow); the code now threads a DepthGuard with limit 500 through that recursion and
     reports RecursionError: C21_guard_depth_selection_validation (limit + 1 nested activations for every
     document, fragment table and schema), C21_selection_limit_reported; the recursion before the repair is
     kept as gd_vss (Valid/Unguarded.v) with its witness, C21_selection_depth_unguarded_old_refuted.
   - detect_fragment_cycles used to call itself for every field and inline fragment too, so that its native
     depth was (fragments on the path) x (nesting of each definition) although its guard bounds the fragments
     (former finding fragment_cycles_recursion_unguarded, stack overflow); it now loops over an explicit-stack
     iterator and calls itself only to follow a spread: the activations bounded by
     C21_guard_depth_fragments are now all of its native recursion, and the iterator yields the sequence of
     spreads the model works on, C21_fragment_spreads_iterated. *)
From Coq Require Import Sorting.Sorted Sorting.Permutation.
From ApolloVerif Require Import Base.Chars Ast.Ast Schema.Model Valid.Guards Valid.GuardsProofs
     Valid.SortProofs Valid.GuardsExamples Valid.CycleExact Valid.DeepChain Valid.Unguarded Valid.WalkExact
     Valid.DeferReport Valid.SelWalkProofs Valid.SpreadIter.

(* ---- guarded traversals: termination within limit + 1 activations, fuel independence, no truncation *)

Theorem C21_guard_depth_fragments : forall look limit fuel name spreads,
  gd_frag_wf look -> (fuel >= gd_fuel_of limit)%nat ->
  let r := gd_frag_check_with limit (gd_fuel_of limit) look name spreads in
  gd_frag_check_with limit fuel look name spreads = r /\ r <> GrFuel /\ r <> GrPanic /\
  forall limit', (limit <= limit')%N -> gd_verdict_of r <> GvLimit ->
    gd_verdict_of (gd_frag_check_with limit' (gd_fuel_of limit) look name spreads) = gd_verdict_of r.
Proof. exact gd_frag_depth. Qed.
Check C21_guard_depth_fragments : forall look limit fuel name spreads,
  gd_frag_wf look -> (fuel >= gd_fuel_of limit)%nat ->
  let r := gd_frag_check_with limit (gd_fuel_of limit) look name spreads in
  gd_frag_check_with limit fuel look name spreads = r /\ r <> GrFuel /\ r <> GrPanic /\
  forall limit', (limit <= limit')%N -> gd_verdict_of r <> GvLimit ->
    gd_verdict_of (gd_frag_check_with limit' (gd_fuel_of limit) look name spreads) = gd_verdict_of r.
Print Assumptions C21_guard_depth_fragments.

Theorem C21_guard_depth_input_objects : forall look limit fuel name fields,
  (fuel >= gd_fuel_of limit)%nat ->
  let r := gd_input_check_with limit (gd_fuel_of limit) look name fields in
  gd_input_check_with limit fuel look name fields = r /\ r <> GrFuel /\ r <> GrPanic /\
  forall limit', (limit <= limit')%N -> gd_verdict_of r <> GvLimit ->
    gd_verdict_of (gd_input_check_with limit' (gd_fuel_of limit) look name fields) = gd_verdict_of r.
Proof. exact gd_input_depth. Qed.
Check C21_guard_depth_input_objects : forall look limit fuel name fields,
  (fuel >= gd_fuel_of limit)%nat ->
  let r := gd_input_check_with limit (gd_fuel_of limit) look name fields in
  gd_input_check_with limit fuel look name fields = r /\ r <> GrFuel /\ r <> GrPanic /\
  forall limit', (limit <= limit')%N -> gd_verdict_of r <> GvLimit ->
    gd_verdict_of (gd_input_check_with limit' (gd_fuel_of limit) look name fields) = gd_verdict_of r.
Print Assumptions C21_guard_depth_input_objects.

Theorem C21_guard_depth_directives : forall find_dir find_type limit fuel name items,
  gd_builtin_dir_only find_type -> (fuel >= gd_dir_fuel_of limit)%nat ->
  let r := gd_dir_check_with limit (gd_dir_fuel_of limit) find_dir find_type name items in
  gd_dir_check_with limit fuel find_dir find_type name items = r /\ r <> GrFuel /\ r <> GrPanic /\
  forall limit', (limit <= limit')%N -> gd_verdict_of r <> GvLimit ->
    gd_verdict_of (gd_dir_check_with limit' (gd_dir_fuel_of limit) find_dir find_type name items) = gd_verdict_of r.
Proof. exact gd_dir_depth. Qed.
Check C21_guard_depth_directives : forall find_dir find_type limit fuel name items,
  gd_builtin_dir_only find_type -> (fuel >= gd_dir_fuel_of limit)%nat ->
  let r := gd_dir_check_with limit (gd_dir_fuel_of limit) find_dir find_type name items in
  gd_dir_check_with limit fuel find_dir find_type name items = r /\ r <> GrFuel /\ r <> GrPanic /\
  forall limit', (limit <= limit')%N -> gd_verdict_of r <> GvLimit ->
    gd_verdict_of (gd_dir_check_with limit' (gd_dir_fuel_of limit) find_dir find_type name items) = gd_verdict_of r.
Print Assumptions C21_guard_depth_directives.

(* nested_fragment_spreads, the explicit-stack iterator detect_fragment_cycles loops over (the only other loop
   of that function since its repair: it recurses natively only where gd_frag_loop calls `rec`): for every stack
   of pending selection lists it terminates (one turn per selection, push and pop) and yields the fragment
   spreads in document order, i.e. the list gd_spreads on which gd_frag_check is defined *)
Theorem C21_fragment_spreads_iterated :
  (forall fuel stack, (si_stack stack < fuel)%nat ->
     gd_spread_iter fuel stack = Some (flat_map gd_spreads stack)) /\
  (forall sels, gd_spread_iter (S (S (si_list sels))) [sels] = Some (gd_spreads sels)).
Proof. split; [exact spread_iter_spreads|exact spread_iter_top]. Qed.
Check C21_fragment_spreads_iterated :
  (forall fuel stack, (si_stack stack < fuel)%nat ->
     gd_spread_iter fuel stack = Some (flat_map gd_spreads stack)) /\
  (forall sels, gd_spread_iter (S (S (si_list sels))) [sels] = Some (gd_spreads sels)).
Print Assumptions C21_fragment_spreads_iterated.

Example C21_fragment_spreads_iterated_nonvacuous :
  gd_spread_iter 20 [[SField None [97] [] [] [SSpread [65] []; SInline None [] [SSpread [66] []]]; SSpread [67] []]]
  = Some [[65]; [66]; [67]].
Proof. vm_compute. reflexivity. Qed.

(* walk_selections, walk_selections_with_deduped_fragments, walk_defers_in_selection_set,
   forbid_defer_on_root, forbid_unconditional_defer are the modes of gd_walk *)
Theorem C21_guard_depth_walks : forall frags m limit fuel sels,
  (fuel >= gd_fuel_of limit)%nat ->
  let r := gd_walk_top_with limit (gd_fuel_of limit) frags m sels in
  gd_walk_top_with limit fuel frags m sels = r /\ snd r <> GrFuel /\ snd r <> GrPanic /\
  forall limit' c s, (limit <= limit')%N -> snd r = GrOk (c, s) ->
    exists c', gd_walk_top_with limit' (gd_fuel_of limit) frags m sels = (fst r, GrOk (c', s)).
Proof. exact gd_walk_depth. Qed.
Check C21_guard_depth_walks : forall frags m limit fuel sels,
  (fuel >= gd_fuel_of limit)%nat ->
  let r := gd_walk_top_with limit (gd_fuel_of limit) frags m sels in
  gd_walk_top_with limit fuel frags m sels = r /\ snd r <> GrFuel /\ snd r <> GrPanic /\
  forall limit' c s, (limit <= limit')%N -> snd r = GrOk (c, s) ->
    exists c', gd_walk_top_with limit' (gd_fuel_of limit) frags m sels = (fst r, GrOk (c', s)).
Print Assumptions C21_guard_depth_walks.

(* validate_selection_set and its callees (selection.rs, field.rs, fragment.rs), for every fragment table
   (cyclic or not), every verdict of the cycle check, every schema (or none) and every limit: limit + 1 nested
   activations of validate_nested_selection_set suffice (at most two other frames lie between two of them, so
   the native depth of this recursion is at most 3 * (limit + 1)), more fuel changes nothing, and a walk that
   is not stopped by the limit is the walk under every larger limit *)
Theorem C21_guard_depth_selection_validation : forall frags cycles_ok ty limit fuel against sels,
  (fuel >= gd_fuel_of limit)%nat ->
  let r := vs_top_with limit (gd_fuel_of limit) frags cycles_ok ty against sels in
  vs_top_with limit fuel frags cycles_ok ty against sels = r /\ snd r <> GrFuel /\ snd r <> GrPanic /\
  forall limit' c s, (limit <= limit')%N -> snd r = GrOk (c, s) ->
    exists c', vs_top_with limit' (gd_fuel_of limit) frags cycles_ok ty against sels = (fst r, GrOk (c', s)).
Proof. exact vs_walk_depth. Qed.
Check C21_guard_depth_selection_validation : forall frags cycles_ok ty limit fuel against sels,
  (fuel >= gd_fuel_of limit)%nat ->
  let r := vs_top_with limit (gd_fuel_of limit) frags cycles_ok ty against sels in
  vs_top_with limit fuel frags cycles_ok ty against sels = r /\ snd r <> GrFuel /\ snd r <> GrPanic /\
  forall limit' c s, (limit <= limit')%N -> snd r = GrOk (c, s) ->
    exists c', vs_top_with limit' (gd_fuel_of limit) frags cycles_ok ty against sels = (fst r, GrOk (c', s)).
Print Assumptions C21_guard_depth_selection_validation.

(* FieldsInSetCanMerge::validate_operation: never Panic (LimitTracker::decrement does not underflow), never
   out of fuel; RecursionLimitError is pushed iff the high-water mark exceeded the limit; if it is not
   pushed the sets visited are those visited under every larger limit *)
Theorem C21_guard_depth_field_merging : forall limit fuel ch1 ch2 root t memo1 memo2,
  (fuel >= gd_fuel_of limit)%nat -> gdt_limit t = limit -> gdt_current t = 0%N ->
  exists t' m1 m2,
    gd_merge_operation fuel ch1 ch2 root t memo1 memo2 = GrOk (t', m1, m2, (limit <? gdt_high t')%N) /\
    gdt_current t' = 0%N /\ gdt_limit t' = limit /\ (gdt_high t <= gdt_high t')%N /\
    ((limit <? gdt_high t')%N = false ->
     forall limit' u, (limit <= limit')%N -> raise_trackers limit limit' t u ->
       exists u' flag', gd_merge_operation fuel ch1 ch2 root u memo1 memo2 = GrOk (u', m1, m2, flag')).
Proof. exact gd_merge_depth. Qed.
Check C21_guard_depth_field_merging : forall limit fuel ch1 ch2 root t memo1 memo2,
  (fuel >= gd_fuel_of limit)%nat -> gdt_limit t = limit -> gdt_current t = 0%N ->
  exists t' m1 m2,
    gd_merge_operation fuel ch1 ch2 root t memo1 memo2 = GrOk (t', m1, m2, (limit <? gdt_high t')%N) /\
    gdt_current t' = 0%N /\ gdt_limit t' = limit /\ (gdt_high t <= gdt_high t')%N /\
    ((limit <? gdt_high t')%N = false ->
     forall limit' u, (limit <= limit')%N -> raise_trackers limit limit' t u ->
       exists u' flag', gd_merge_operation fuel ch1 ch2 root u memo1 memo2 = GrOk (u', m1, m2, flag')).
Print Assumptions C21_guard_depth_field_merging.

(* ---- the verdicts `cycle` and `ok` are exact, for every graph, every limit and any fuel: the root is on a
   cycle (of `T!` input fields / of fragment spreads, in spite of the `seen` set / of directive applications and
   argument types) exactly as reported; only `limit` is inconclusive *)

Theorem C21_cycle_verdict_exact :
  (forall look limit fuel name fields,
     match gd_input_check_with limit fuel look name fields with
     | GrCycle _ => exists f, In f fields /\ (f = name \/ reaches look name f)
     | GrOk _ => forall f, In f fields -> f <> name /\ ~ reaches look name f
     | _ => True
     end) /\
  (forall look limit fuel name spreads, gd_frag_wf look ->
     match gd_frag_check_with limit fuel look name spreads with
     | GrCycle _ => exists f, In f spreads /\ (f = name \/ reaches (flook look) name f)
     | GrOk _ => forall f, In f spreads -> f <> name /\ ~ reaches (flook look) name f
     | _ => True
     end) /\
  (forall find_dir find_type limit fuel name items,
     (forall t n b body, find_type t = Some (n, b, body) -> n = t) ->
     match gd_dir_check_with limit fuel find_dir find_type name items with
     | GrCycle _ => exists x, In x items /\ (x = GiDir name \/ dreaches find_dir find_type name x)
     | GrOk _ => forall x, In x items -> x <> GiDir name /\ ~ dreaches find_dir find_type name x
     | _ => True
     end).
Proof. split; [exact input_check_exact|split; [exact frag_check_exact|exact dir_check_exact]]. Qed.
Check C21_cycle_verdict_exact :
  (forall look limit fuel name fields,
     match gd_input_check_with limit fuel look name fields with
     | GrCycle _ => exists f, In f fields /\ (f = name \/ reaches look name f)
     | GrOk _ => forall f, In f fields -> f <> name /\ ~ reaches look name f
     | _ => True
     end) /\
  (forall look limit fuel name spreads, gd_frag_wf look ->
     match gd_frag_check_with limit fuel look name spreads with
     | GrCycle _ => exists f, In f spreads /\ (f = name \/ reaches (flook look) name f)
     | GrOk _ => forall f, In f spreads -> f <> name /\ ~ reaches (flook look) name f
     | _ => True
     end) /\
  (forall find_dir find_type limit fuel name items,
     (forall t n b body, find_type t = Some (n, b, body) -> n = t) ->
     match gd_dir_check_with limit fuel find_dir find_type name items with
     | GrCycle _ => exists x, In x items /\ (x = GiDir name \/ dreaches find_dir find_type name x)
     | GrOk _ => forall x, In x items -> x <> GiDir name /\ ~ dreaches find_dir find_type name x
     | _ => True
     end).
Print Assumptions C21_cycle_verdict_exact.

(* ---- a walk that returns Ok has seen exactly the fragment names reachable from its start (walk_selections,
   walk_selections_with_deduped_fragments, forbid_defer_on_root: the modes that follow spreads and have no
   skip test).  For the deduplicating walk: collect_used_fragments, hence every UnusedFragment diagnostic, is
   exact unless a RecursionLimitError is reported. *)
Theorem C21_walk_seen_exact : forall frags m limit fuel sels acc c seen,
  gm_skip m = false -> gm_spreads m = true ->
  gd_walk_top_with limit fuel frags m sels = (acc, GrOk (c, seen)) ->
  forall n, In n seen <-> reach_from frags m (direct m sels) n.
Proof. intros frags m limit fuel sels acc c seen H1 H2. exact (walk_seen_exact frags m H1 H2 limit fuel sels acc c seen). Qed.
Check C21_walk_seen_exact : forall frags m limit fuel sels acc c seen,
  gm_skip m = false -> gm_spreads m = true ->
  gd_walk_top_with limit fuel frags m sels = (acc, GrOk (c, seen)) ->
  forall n, In n seen <-> reach_from frags m (direct m sels) n.
Print Assumptions C21_walk_seen_exact.

(* ---- deep => limit error, for every limit: an unbounded chain of input objects *)
Theorem C21_deep_chain_limit : forall limit fuel, (fuel >= gd_fuel_of limit)%nat ->
  gd_input_check_with limit fuel dc_chain (dc_name 0) [dc_name 1] = GrLimit.
Proof. exact deep_chain_limit. Qed.
Check C21_deep_chain_limit : forall limit fuel, (fuel >= gd_fuel_of limit)%nat ->
  gd_input_check_with limit fuel dc_chain (dc_name 0) [dc_name 1] = GrLimit.
Print Assumptions C21_deep_chain_limit.

(* ---- push is never called with a name already on the stack; every push is popped *)

Theorem C21_recursion_stack_safe :
  (forall look limit k name spreads, gd_frag_wf look -> (S k >= N.to_nat limit)%nat ->
     let r := gd_frag_check_with limit (S k) look name spreads in
     r <> GrPanic /\ forall p s, r = GrOk (p, s) ->
       gds_seen p = [name] /\ gds_limit p = limit) /\
  (forall look limit k name fields, (S k >= N.to_nat limit)%nat ->
     let r := gd_input_check_with limit (S k) look name fields in
     r <> GrPanic /\ forall p, r = GrOk p -> gds_seen p = [name] /\ gds_limit p = limit) /\
  (forall find_dir find_type limit k name items, gd_builtin_dir_only find_type ->
     (k >= 4 * N.to_nat limit + 2)%nat ->
     let r := gd_dir_check_with limit k find_dir find_type name items in
     r <> GrPanic /\ forall d t, r = GrOk (d, t) ->
       gds_seen d = [name] /\ gds_seen t = [] /\ gds_limit d = limit /\ gds_limit t = limit).
Proof.
  split; [|split].
  - intros look limit k name spreads Hwf Hk r.
    destruct (frag_check_safe look Hwf limit k name spreads Hk) as (Hp & _ & Hok).
    split; [exact Hp|]. intros p s E. destruct (Hok p s E) as [A B]. split; [exact A|exact B].
  - intros look limit k name fields Hk r.
    destruct (input_check_safe look limit k name fields Hk) as (Hp & _ & Hok).
    split; [exact Hp|]. intros p E. destruct (Hok p E) as [A B]. split; [exact A|exact B].
  - intros find_dir find_type limit k name items Hb Hk r.
    destruct (dir_check_safe find_dir find_type Hb limit k name items Hk) as (Hp & _ & Hok).
    split; [exact Hp|]. intros d t E. destruct (Hok d t E) as [[A B] [C D]]. repeat split; assumption.
Qed.
Check C21_recursion_stack_safe :
  (forall look limit k name spreads, gd_frag_wf look -> (S k >= N.to_nat limit)%nat ->
     let r := gd_frag_check_with limit (S k) look name spreads in
     r <> GrPanic /\ forall p s, r = GrOk (p, s) ->
       gds_seen p = [name] /\ gds_limit p = limit) /\
  (forall look limit k name fields, (S k >= N.to_nat limit)%nat ->
     let r := gd_input_check_with limit (S k) look name fields in
     r <> GrPanic /\ forall p, r = GrOk p -> gds_seen p = [name] /\ gds_limit p = limit) /\
  (forall find_dir find_type limit k name items, gd_builtin_dir_only find_type ->
     (k >= 4 * N.to_nat limit + 2)%nat ->
     let r := gd_dir_check_with limit k find_dir find_type name items in
     r <> GrPanic /\ forall d t, r = GrOk (d, t) ->
       gds_seen d = [name] /\ gds_seen t = [] /\ gds_limit d = limit /\ gds_limit t = limit).
Print Assumptions C21_recursion_stack_safe.

(* the hypotheses of the theorems above hold of the look-up functions derived from every document and from
   every schema without a built-in input object *)
Theorem C21_hypotheses_hold :
  (forall fr, gd_frag_wf (gd_table_look (gd_spread_table fr))) /\
  (forall s, gd_no_builtin_input s -> gd_builtin_dir_only (gd_schema_find_type s)) /\
  (forall s t n b body, gd_schema_find_type s t = Some (n, b, body) -> n = t).
Proof.
  split; [exact gd_spread_table_wf|split; [exact gd_schema_builtin_dir_only|]].
  intros s t n b body. unfold gd_schema_find_type, sch_get_type.
  generalize (sch_types s). intros ts. induction ts as [|x ts IH]; cbn [sch_find_type]; [discriminate|].
  destruct (streq t (et_name x)) eqn:E; [|exact IH].
  intros [= <- _ _]. apply streq_eq in E. congruence.
Qed.
Check C21_hypotheses_hold :
  (forall fr, gd_frag_wf (gd_table_look (gd_spread_table fr))) /\
  (forall s, gd_no_builtin_input s -> gd_builtin_dir_only (gd_schema_find_type s)) /\
  (forall s t n b body, gd_schema_find_type s t = Some (n, b, body) -> n = t).
Print Assumptions C21_hypotheses_hold.

(* ---- DiagnosticList::sort: sorted by Option (file id, offset) with None first, a permutation, stable;
   and any sorted stable arrangement is this one (so modelling std's stable sort by insertion sort loses
   nothing) *)

Theorem C21_sorted : forall (A : Type) (key : A -> gd_key) (l : list A),
  Sorted (gd_le key) (gd_sort key l) /\ Permutation l (gd_sort key l) /\
  (forall k, gd_with_key key k (gd_sort key l) = gd_with_key key k l) /\
  (forall l', Sorted (gd_le key) l' -> (forall k, gd_with_key key k l' = gd_with_key key k l) ->
              l' = gd_sort key l).
Proof.
  intros A key l. split; [apply gd_sort_sorted|split; [apply gd_sort_perm|split]].
  - intros k. apply gd_sort_stable.
  - intros l'. apply gd_sort_unique.
Qed.
Check C21_sorted : forall (A : Type) (key : A -> gd_key) (l : list A),
  Sorted (gd_le key) (gd_sort key l) /\ Permutation l (gd_sort key l) /\
  (forall k, gd_with_key key k (gd_sort key l) = gd_with_key key k l) /\
  (forall l', Sorted (gd_le key) l' -> (forall k, gd_with_key key k l' = gd_with_key key k l) ->
              l' = gd_sort key l).
Print Assumptions C21_sorted.

(* the order is the derived Ord of Option<(FileId, usize)>: a total preorder with None first *)
Theorem C21_key_order : forall a b c : gd_key,
  gd_key_le a a = true /\ (gd_key_le a b = true \/ gd_key_le b a = true) /\
  (gd_key_le a b = true -> gd_key_le b c = true -> gd_key_le a c = true) /\
  (gd_key_le a b = true -> gd_key_le b a = true -> a = b) /\ gd_key_le None a = true.
Proof.
  intros a b c. split; [apply gd_key_le_refl|split; [apply gd_key_le_total|split; [apply gd_key_le_trans|split]]].
  - apply gd_key_le_antisym.
  - reflexivity.
Qed.
Check C21_key_order : forall a b c : gd_key,
  gd_key_le a a = true /\ (gd_key_le a b = true \/ gd_key_le b a = true) /\
  (gd_key_le a b = true -> gd_key_le b c = true -> gd_key_le a c = true) /\
  (gd_key_le a b = true -> gd_key_le b a = true -> a = b) /\ gd_key_le None a = true.
Print Assumptions C21_key_order.

(* ---- the document-level statement "excessive depth produces recursion-limit diagnostics" for validate_defer:
   whenever one of its walks (walk_defers_in_selection_set over every operation and fragment definition,
   forbid_defer_on_root, forbid_unconditional_defer) ends with the limit error, the diagnostics of the
   document contain a RecursionError, for EVERY document *)
Theorem C21_defer_limit_reported : forall (ty : vs_typing) (d : document),
  gwo_defer_truncated (gd_doc_walk_obs ty d) = true -> (1 <= gwo_recursion (gd_doc_walk_obs ty d))%N.
Proof. exact defer_limit_reported. Qed.
Check C21_defer_limit_reported : forall (ty : vs_typing) (d : document),
  gwo_defer_truncated (gd_doc_walk_obs ty d) = true -> (1 <= gwo_recursion (gd_doc_walk_obs ty d))%N.
Print Assumptions C21_defer_limit_reported.

(* the repair of validate_defer adds that diagnostic (once, and only to a list without a recursion-limit
   diagnostic: none from validate_unused_variables / validate_fragments_used, none from validate_selection_set)
   and changes nothing else of what the guarded walks report *)
Theorem C21_defer_repair_conservative : forall (ty : vs_typing) (d : document),
  let o := gd_doc_walk_obs ty d in
  let o' := gd_doc_walk_obs_old ty d in
  gwo_used_limit o = gwo_used_limit o' /\ gwo_defer_root o = gwo_defer_root o' /\
  gwo_uncond o = gwo_uncond o' /\ gwo_defer_truncated o = gwo_defer_truncated o' /\
  gwo_sel_limit o = gwo_sel_limit o' /\ gwo_undefined o = gwo_undefined o' /\
  gwo_recursion o
  = (gwo_recursion o' + gd_b2n (gwo_defer_truncated o' && (gwo_used_limit o' =? 0)%N && (gwo_sel_limit o' =? 0)%N))%N.
Proof. exact defer_repair_conservative. Qed.
Check C21_defer_repair_conservative : forall (ty : vs_typing) (d : document),
  let o := gd_doc_walk_obs ty d in
  let o' := gd_doc_walk_obs_old ty d in
  gwo_used_limit o = gwo_used_limit o' /\ gwo_defer_root o = gwo_defer_root o' /\
  gwo_uncond o = gwo_uncond o' /\ gwo_defer_truncated o = gwo_defer_truncated o' /\
  gwo_sel_limit o = gwo_sel_limit o' /\ gwo_undefined o = gwo_undefined o' /\
  gwo_recursion o
  = (gwo_recursion o' + gd_b2n (gwo_defer_truncated o' && (gwo_used_limit o' =? 0)%N && (gwo_sel_limit o' =? 0)%N))%N.
Print Assumptions C21_defer_repair_conservative.

(* validate_defer BEFORE the repair (gd_doc_walk_obs_old: the results of the walks discarded, `let _ =`): a
   @defer walk stopped by the limit in a document for which no other guarded walk reports anything (former
   finding defer_walk_limit_swallowed; the same document with one fragment less reports the @defer) *)
Theorem C21_defer_limit_swallowed_old_refuted : exists (ty : vs_typing) (d : document),
  let o := gd_doc_walk_obs_old ty d in
  gwo_defer_truncated o = true /\ gwo_defer_root o = 0%N /\ gwo_recursion o = 0%N /\ gwo_used_limit o = 0%N.
Proof. exists ex_typing, (ex_defer_doc 10). exact ex_defer_swallowed_old. Qed.
Check C21_defer_limit_swallowed_old_refuted : exists (ty : vs_typing) (d : document),
  let o := gd_doc_walk_obs_old ty d in
  gwo_defer_truncated o = true /\ gwo_defer_root o = 0%N /\ gwo_recursion o = 0%N /\ gwo_used_limit o = 0%N.
Print Assumptions C21_defer_limit_swallowed_old_refuted.

(* non-vacuity of C21_defer_limit_reported: the witness of the former finding, a fragment definition nested
   deeper than the limit (label walk), and a subscription whose other walks already reported the limit *)
Example C21_defer_limit_reported_nonvacuous :
  gwo_defer_truncated (gd_doc_walk_obs ex_typing (ex_defer_doc 10)) = true /\
  gwo_recursion (gd_doc_walk_obs ex_typing (ex_defer_doc 10)) = 1%N /\
  gwo_defer_truncated (gd_doc_walk_obs ex_typing (ex_label_doc 500)) = true /\
  gwo_recursion (gd_doc_walk_obs ex_typing (ex_label_doc 500)) = 1%N /\
  gwo_defer_truncated (gd_doc_walk_obs ex_typing (ex_sub_chain_doc 600)) = true /\
  gwo_recursion (gd_doc_walk_obs ex_typing (ex_sub_chain_doc 600)) = 2%N.
Proof. vm_compute. repeat split. Qed.

(* ---- validate_selection_set at the level of a whole document, for EVERY document and schema: each operation
   whose walk was stopped by the depth limit has its own RecursionError among the diagnostics (by
   C21_guard_depth_selection_validation nothing else cuts the walk short) *)
Theorem C21_selection_limit_reported : forall (swallow : bool) (ty : vs_typing) (d : document),
  let o := gd_doc_walk_obs_with swallow ty d in
  (gwo_sel_limit o <= gwo_recursion o)%N /\
  gwo_sel_limit o
  = fold_right N.add 0%N (map (fun op => gd_b2n (gd_is_limit (snd (vs_doc_walk ty d op)))) (gd_doc_ops d)).
Proof. exact vs_sel_limit_reported. Qed.
Check C21_selection_limit_reported : forall (swallow : bool) (ty : vs_typing) (d : document),
  let o := gd_doc_walk_obs_with swallow ty d in
  (gwo_sel_limit o <= gwo_recursion o)%N /\
  gwo_sel_limit o
  = fold_right N.add 0%N (map (fun op => gd_b2n (gd_is_limit (snd (vs_doc_walk ty d op)))) (gd_doc_ops d)).
Print Assumptions C21_selection_limit_reported.

(* the witnesses of the former finding selection_set_recursion_unguarded under the repaired code: 50 fragments
   of 100 nested fields (or inline fragments) each are stopped at depth 500 and reported, with or without a
   schema; 5 fragments of 98 nested fields (depth 496) validate without any recursion diagnostic, of 99 (501) do not *)
Example C21_selection_limit_reported_nonvacuous :
  ex_sel_obs ex_typing (ex_deep_doc 50 100) = (2, 1)%N /\ ex_sel_obs vs_no_schema (ex_deep_doc 50 100) = (2, 1)%N /\
  ex_sel_obs ex_typing (ex_deep_doc_via false 50 100) = (2, 1)%N /\
  ex_sel_obs ex_typing (ex_deep_doc 5 98) = (0, 0)%N /\ ex_sel_obs ex_typing (ex_deep_doc 5 99) = (2, 1)%N.
Proof. vm_compute. repeat split. Qed.

(* ---- the recursion BEFORE the repair (gd_vss, Valid/Unguarded.v: no guard): validate_selection_set and its
   callees nested as deep as (fragments on a spread path) x (nesting of each definition): 50 fragments of 100
   nested fields each (every definition far below the parser's limit, every fragment passing the cycle check)
   gave 5052 nested activations, 99 fragments 10001 (former finding selection_set_recursion_unguarded: the
   crate overflowed a 1 MiB stack on the first document and an 8 MiB stack at 99 x 400) *)
Theorem C21_selection_depth_unguarded_old_refuted : exists (d : document) (depth : nat),
  gd_doc_vss_depth d = Some depth /\ (depth > 5000)%nat /\
  Forall (fun v => snd v = GvOk) (gd_doc_frag_verdicts d).
Proof.
  exists (ex_deep_doc 50 100), 5052%nat. split; [vm_compute; reflexivity|split; [apply PeanoNat.Nat.ltb_lt; vm_compute; reflexivity|]].
  vm_compute. repeat constructor.
Qed.
Check C21_selection_depth_unguarded_old_refuted : exists (d : document) (depth : nat),
  gd_doc_vss_depth d = Some depth /\ (depth > 5000)%nat /\
  Forall (fun v => snd v = GvOk) (gd_doc_frag_verdicts d).
Print Assumptions C21_selection_depth_unguarded_old_refuted.

(* ---- non-vacuity: concrete graphs at limit and limit + 1 for every guard *)
Example C21_nonvacuous :
  ex_input_verdict 32 false = GvOk /\ ex_input_verdict 33 false = GvLimit /\ ex_input_verdict 32 true = GvCycle /\
  ex_frag_verdict 100 false = GvOk /\ ex_frag_verdict 101 false = GvLimit /\ ex_frag_verdict 100 true = GvCycle /\
  ex_dir_verdict 32 false = GvOk /\ ex_dir_verdict 33 false = GvLimit /\ ex_type_verdict 33 = GvLimit /\
  ex_walk_verdict gd_mode_dedup true 499 = GvOk /\ ex_walk_verdict gd_mode_dedup true 500 = GvLimit /\
  ex_merge_flags 129 = GrOk [false] /\ ex_merge_flags 130 = GrOk [true] /\
  gd_sort_pairs [(Some (2, 5), 1); (None, 2); (Some (1, 9), 3); (Some (2, 5), 4); (None, 5)]%N
  = [(None, 2); (None, 5); (Some (1, 9), 3); (Some (2, 5), 1); (Some (2, 5), 4)]%N.
Proof. vm_compute. repeat split. Qed.
