(* C21 — placeholder while the tie is brought up; replaced by the real theorems. *)
From ApolloVerif Require Import Base.Chars Valid.Guards.

Theorem C21_sort_length_partial : forall (l : list (gd_key * N)), length (gd_sort fst l) = length l.
Proof.
  induction l as [|x l IH]; [reflexivity|]. cbn [gd_sort].
  assert (H : forall y m, length (gd_insert (@fst gd_key N) y m) = S (length m)).
  { intros y m. induction m as [|z m IHm]; [reflexivity|]. cbn [gd_insert].
    destruct (gd_key_le _ _); cbn [length]; [reflexivity|now rewrite IHm]. }
  rewrite H, IH. reflexivity.
Qed.
Check C21_sort_length_partial : forall (l : list (gd_key * N)), length (gd_sort fst l) = length l.
Print Assumptions C21_sort_length_partial.
