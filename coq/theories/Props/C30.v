(* C30 — placeholder while the tie is being brought up; replaced by the real theorems *)
From ApolloVerif Require Import Base.Chars Mem.Heap Mem.NameNode.
Theorem C30_tmp_partial : nn_well_scoped 1 [(0%nat, NnNewHeap 0 [97]); (0%nat, NnDrop 0)] = true.
Proof. vm_compute. reflexivity. Qed.
Check C30_tmp_partial : nn_well_scoped 1 [(0%nat, NnNewHeap 0 [97]); (0%nat, NnDrop 0)] = true.
Print Assumptions C30_tmp_partial.
