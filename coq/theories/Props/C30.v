(* C30 — Names and nodes are memory-safe shared values.
   Property theorems only.  Model: Mem/Heap.v (allocations with strong counts, freed set), Mem/NameNode.v (Name
   and Node<T> handles, 23 operations, histories = lists of (thread, operation), i.e. interleavings in which
   each operation is one atomic step).  nn_well_scoped is Rust's ownership discipline (operands live, targets not
   live, file ids real).  The model expresses counts, liveness, aliasing and contents — not undefined behaviour as
   such (a violation shows up here as HpPanic, a wrong count, or a wrong value read). *)
From ApolloVerif Require Import Base.Chars Mem.FileId Mem.Pack Mem.Heap Mem.HeapProofs Mem.NameNode Mem.NameNodeProofs.

(* no use-after-free, no double free, and strong count = number of live handles, for every location *)
Theorem C30_inv : forall (threads : nat) (h : list (nat * nn_op)),
  nn_well_scoped threads h = true ->
  exists st obs, nn_run (nn_init threads) h = HpOk (st, obs) /\ length obs = length h /\
    forall l, hp_strong_of (nn_heap st) l = nn_refs st l.
Proof. exact nn_safe. Qed.
Check C30_inv : forall (threads : nat) (h : list (nat * nn_op)),
  nn_well_scoped threads h = true ->
  exists st obs, nn_run (nn_init threads) h = HpOk (st, obs) /\ length obs = length h /\
    forall l, hp_strong_of (nn_heap st) l = nn_refs st l.
Print Assumptions C30_inv.

(* after dropping every live variable (and the harness's probes) nothing is allocated *)
Theorem C30_no_leak : forall (threads : nat) (h : list (nat * nn_op)),
  nn_well_scoped threads h = true ->
  exists st obs st', nn_run (nn_init threads) h = HpOk (st, obs) /\ nn_drop_all st = HpOk st' /\
                     hp_live_count (nn_heap st') = 0.
Proof. exact nn_no_leak. Qed.
Check C30_no_leak : forall (threads : nat) (h : list (nat * nn_op)),
  nn_well_scoped threads h = true ->
  exists st obs st', nn_run (nn_init threads) h = HpOk (st, obs) /\ nn_drop_all st = HpOk st' /\
                     hp_live_count (nn_heap st') = 0.
Print Assumptions C30_no_leak.

(* read back, part 1: a freshly created name reads the text supplied, offset 0, no location (file id NONE) *)
Theorem C30_read_back_create : forall st ln ld t i ln' ld' op s arc,
  (op = NnNewHeap i s /\ arc = true) \/ (op = NnFromArc i s /\ arc = true) \/
  (exists k, op = NnNewStatic i k /\ s = nth k nn_statics [] /\ arc = false) ->
  nn_inv st -> nn_agree ln ld st -> nn_ws_step ln ld t op = Some (ln', ld') ->
  exists st', nn_step st t op = HpOk (st', NnONone) /\
              nn_vname st' (nn_nidx t i) = Some (s, 0, tfi_pack arc nn_FILE_NONE).
Proof. exact nn_create_view. Qed.
Check C30_read_back_create : forall st ln ld t i ln' ld' op s arc,
  (op = NnNewHeap i s /\ arc = true) \/ (op = NnFromArc i s /\ arc = true) \/
  (exists k, op = NnNewStatic i k /\ s = nth k nn_statics [] /\ arc = false) ->
  nn_inv st -> nn_agree ln ld st -> nn_ws_step ln ld t op = Some (ln', ld') ->
  exists st', nn_step st t op = HpOk (st', NnONone) /\
              nn_vname st' (nn_nidx t i) = Some (s, 0, tfi_pack arc nn_FILE_NONE).
Print Assumptions C30_read_back_create.

(* part 2: with_location keeps the text and the Arc/static tag and stores exactly the file id and offset given *)
Theorem C30_read_back_with_location : forall st ln ld t i file start ln' ld' s s0 tg,
  nn_inv st -> nn_agree ln ld st -> nn_ws_step ln ld t (NnWithLoc i file start) = Some (ln', ld') ->
  nn_vname st (nn_nidx t i) = Some (s, s0, tg) ->
  exists st', nn_step st t (NnWithLoc i file start) = HpOk (st', NnONone) /\
    nn_vname st' (nn_nidx t i) = Some (s, start, tfi_pack (tfi_tag tg) file) /\
    tfi_file_id (tfi_pack (tfi_tag tg) file) = file /\ tfi_tag (tfi_pack (tfi_tag tg) file) = tfi_tag tg.
Proof. exact nn_with_loc_view. Qed.
Check C30_read_back_with_location : forall st ln ld t i file start ln' ld' s s0 tg,
  nn_inv st -> nn_agree ln ld st -> nn_ws_step ln ld t (NnWithLoc i file start) = Some (ln', ld') ->
  nn_vname st (nn_nidx t i) = Some (s, s0, tg) ->
  exists st', nn_step st t (NnWithLoc i file start) = HpOk (st', NnONone) /\
    nn_vname st' (nn_nidx t i) = Some (s, start, tfi_pack (tfi_tag tg) file) /\
    tfi_file_id (tfi_pack (tfi_tag tg) file) = file /\ tfi_tag (tfi_pack (tfi_tag tg) file) = tfi_tag tg.
Print Assumptions C30_read_back_with_location.

(* part 3: a clone reads what the original reads, and the original still does *)
Theorem C30_read_back_clone : forall st ln ld t i j ln' ld' v,
  nn_inv st -> nn_agree ln ld st -> nn_ws_step ln ld t (NnClone i j) = Some (ln', ld') ->
  nn_vname st (nn_nidx t i) = Some v ->
  exists st', nn_step st t (NnClone i j) = HpOk (st', NnONone) /\
    nn_vname st' (nn_nidx t j) = Some v /\ nn_vname st' (nn_nidx t i) = Some v.
Proof. exact nn_clone_view. Qed.
Check C30_read_back_clone : forall st ln ld t i j ln' ld' v,
  nn_inv st -> nn_agree ln ld st -> nn_ws_step ln ld t (NnClone i j) = Some (ln', ld') ->
  nn_vname st (nn_nidx t i) = Some v ->
  exists st', nn_step st t (NnClone i j) = HpOk (st', NnONone) /\
    nn_vname st' (nn_nidx t j) = Some v /\ nn_vname st' (nn_nidx t i) = Some v.
Print Assumptions C30_read_back_clone.

(* part 4: as_str / location / as_static_str are functions of that view *)
Theorem C30_read_back_observe : forall st t i s start tagged,
  nn_vname st (nn_nidx t i) = Some (s, start, tagged) ->
  nn_step st t (NnRead i) = HpOk (st, NnORead s (nn_loc_of start tagged s) (if tfi_tag tagged then None else Some s)).
Proof. exact nn_read_view. Qed.
Check C30_read_back_observe : forall st t i s start tagged,
  nn_vname st (nn_nidx t i) = Some (s, start, tagged) ->
  nn_step st t (NnRead i) = HpOk (st, NnORead s (nn_loc_of start tagged s) (if tfi_tag tagged then None else Some s)).
Print Assumptions C30_read_back_observe.

(* part 5 (and copy-on-write isolation): through ANY number of operations of ANY threads that do not themselves
   assign, move, drop, relocate or mutate-through variable k, what k reads does not change — names and nodes.
   In particular get_mut / make_mut followed by a write through one node handle changes no other handle's value. *)
Theorem C30_cow_isolation : forall h st ln ld st' obs,
  nn_inv st -> nn_agree ln ld st -> nn_ws ln ld h = true -> nn_run st h = HpOk (st', obs) ->
  (forall k n, nth_error (nn_names st) k = Some (NnLive n) -> nn_untouched_name k h -> nn_vname st' k = nn_vname st k) /\
  (forall a l, nth_error (nn_nodes st) a = Some (NnLive l) -> nn_untouched_node a h -> nn_vnode st' a = nn_vnode st a).
Proof. exact nn_frame_run. Qed.
Check C30_cow_isolation : forall h st ln ld st' obs,
  nn_inv st -> nn_agree ln ld st -> nn_ws ln ld h = true -> nn_run st h = HpOk (st', obs) ->
  (forall k n, nth_error (nn_names st) k = Some (NnLive n) -> nn_untouched_name k h -> nn_vname st' k = nn_vname st k) /\
  (forall a l, nth_error (nn_nodes st) a = Some (NnLive l) -> nn_untouched_node a h -> nn_vnode st' a = nn_vnode st a).
Print Assumptions C30_cow_isolation.

(* the writer itself reads the new value, at the old location *)
Theorem C30_cow_writer : forall st ln ld t a s ln' ld' old sp,
  nn_inv st -> nn_agree ln ld st -> nn_ws_step ln ld t (NdMakeMut a s) = Some (ln', ld') ->
  nn_vnode st (nn_didx t a) = Some (old, sp) ->
  exists st', nn_step st t (NdMakeMut a s) = HpOk (st', NnONone) /\ nn_vnode st' (nn_didx t a) = Some (s, sp).
Proof. exact nn_make_mut_view. Qed.
Check C30_cow_writer : forall st ln ld t a s ln' ld' old sp,
  nn_inv st -> nn_agree ln ld st -> nn_ws_step ln ld t (NdMakeMut a s) = Some (ln', ld') ->
  nn_vnode st (nn_didx t a) = Some (old, sp) ->
  exists st', nn_step st t (NdMakeMut a s) = HpOk (st', NnONone) /\ nn_vnode st' (nn_didx t a) = Some (s, sp).
Print Assumptions C30_cow_writer.

(* equality, hash equality and ordering of names are functions of the two texts: offsets and file ids play no part;
   equality and hash equality of nodes are functions of the two values (and pointer identity): the Header
   locations play no part *)
Theorem C30_eq_hash_ignore_location :
  (forall st t i j a sa ta b sb tb,
     nn_vname st (nn_nidx t i) = Some (a, sa, ta) -> nn_vname st (nn_nidx t j) = Some (b, sb, tb) ->
     nn_step st t (NnCmp i j) = HpOk (st, NnOCmp (nn_str_eqb a b) (nn_str_eqb a b) (nn_str_cmp a b))) /\
  (forall st t a b s1 sp1 s2 sp2,
     nn_vnode st (nn_didx t a) = Some (s1, sp1) -> nn_vnode st (nn_didx t b) = Some (s2, sp2) ->
     exists peq, nn_step st t (NdCmp a b) = HpOk (st, NdOCmp peq (peq || nn_str_eqb s1 s2) (nn_str_eqb s1 s2))) /\
  (forall s, nn_str_eqb s s = true).
Proof.
  split; [exact nn_cmp_view|]. split; [exact nd_cmp_view|].
  intro s. unfold nn_str_eqb. rewrite nn_str_cmp_refl. reflexivity.
Qed.
Check C30_eq_hash_ignore_location :
  (forall st t i j a sa ta b sb tb,
     nn_vname st (nn_nidx t i) = Some (a, sa, ta) -> nn_vname st (nn_nidx t j) = Some (b, sb, tb) ->
     nn_step st t (NnCmp i j) = HpOk (st, NnOCmp (nn_str_eqb a b) (nn_str_eqb a b) (nn_str_cmp a b))) /\
  (forall st t a b s1 sp1 s2 sp2,
     nn_vnode st (nn_didx t a) = Some (s1, sp1) -> nn_vnode st (nn_didx t b) = Some (s2, sp2) ->
     exists peq, nn_step st t (NdCmp a b) = HpOk (st, NdOCmp peq (peq || nn_str_eqb s1 s2) (nn_str_eqb s1 s2))) /\
  (forall s, nn_str_eqb s s = true).
Print Assumptions C30_eq_hash_ignore_location.

(* every interleaving l of any number of threads' histories hs: the same guarantees.  (Immediate, since C30_inv
   and C30_no_leak quantify over all lists of (thread, operation); that one operation is one atomic step is what
   Arc's atomic count provides and is the trusted part.) *)
Theorem C30_interleavings : forall (threads : nat) (hs : list (list (nat * nn_op))) (l : list (nat * nn_op)),
  nn_shuffle hs l -> nn_well_scoped threads l = true ->
  exists st obs st', nn_run (nn_init threads) l = HpOk (st, obs) /\
    (forall x, hp_strong_of (nn_heap st) x = nn_refs st x) /\
    nn_drop_all st = HpOk st' /\ hp_live_count (nn_heap st') = 0.
Proof. exact nn_safe_interleavings. Qed.
Check C30_interleavings : forall (threads : nat) (hs : list (list (nat * nn_op))) (l : list (nat * nn_op)),
  nn_shuffle hs l -> nn_well_scoped threads l = true ->
  exists st obs st', nn_run (nn_init threads) l = HpOk (st, obs) /\
    (forall x, hp_strong_of (nn_heap st) x = nn_refs st x) /\
    nn_drop_all st = HpOk st' /\ hp_live_count (nn_heap st') = 0.
Print Assumptions C30_interleavings.

(* ---- non-vacuity ---- *)
Definition ex_a : str := [97].
Definition ex_b : str := [98].
Definition ex_file : N := 9223372036854775807.
Definition ex_hist : list (nat * nn_op) :=
  [ (0, NnFromArc 0 ex_a); (0, NnWithLoc 0 ex_file 5%N); (0, NnCloneTo 0 1 2); (1, NnRead 2);
    (0, NdNewParsed 0 ex_a 3%N 7%N 2%N); (0, NdCloneTo 0 1 0); (1, NdMakeMut 0 ex_b); (0, NdRead 0); (1, NdRead 0);
    (1, NnIntoArc 2); (0, NnDrop 0) ]%nat.

(* a two-thread history that meets the hypothesis; the clone in thread 1 reads text, file id 2^63-1 and offsets back;
   after thread 1's make_mut thread 0 still reads "a" at 3:7..9 and thread 1 reads "b" at the same location *)
Example C30_nonvacuous :
  nn_well_scoped 2 ex_hist = true /\
  exists st obs, nn_run (nn_init 2) ex_hist = HpOk (st, obs) /\
    nth 3 obs NnONone = NnORead ex_a (Some (9223372036854775807, 5, 6)) None /\
    nth 7 obs NnONone = NdORead ex_a (Some (3, 7, 9)) /\ nth 8 obs NnONone = NdORead ex_b (Some (3, 7, 9)) /\
    nth 9 obs NnONone = NnOArc (Some (ex_a, 3)).
Proof. split; [vm_compute; reflexivity|]. eexists _, _. split; [vm_compute; reflexivity|]. repeat split. Qed.

(* without the ownership discipline the model does panic: a second drop of the same variable frees the string while
   the probe still points to it, and dropping the probe is then a double free; a use after move of the last
   handle is a use after free *)
Example C30_ill_scoped_panics :
  nn_well_scoped 1 [(0, NnFromArc 0 ex_a); (0, NnDrop 0); (0, NnDrop 0)]%nat = false /\
  (exists st obs, nn_run (nn_init 1) [(0, NnFromArc 0 ex_a); (0, NnDrop 0); (0, NnDrop 0)]%nat = HpOk (st, obs) /\
                  nn_drop_all st = HpPanic HpDoubleFree) /\
  nn_run (nn_init 1) [(0, NnNewHeap 0 ex_a); (0, NnDrop 0); (0, NnRead 0)]%nat = HpPanic HpUseAfterFree.
Proof.
  split; [vm_compute; reflexivity|]. split; [|vm_compute; reflexivity].
  eexists _, _. split; vm_compute; reflexivity.
Qed.
