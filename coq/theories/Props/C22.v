(* C22 — Outputs are deterministic across processes.

   Model: a HashMap/HashSet is its content plus an enumeration that is a parameter (any permutation);
   determinism is independence from it (Det/HashOrder.v).  Det/Sites.v is generated from the source tree
   on every run and lists every expression that enumerates a hash-ordered container; Det/Covered.v gives
   each site a claim of one of the three forms.  Strength: partial — the model of the code around each
   site is written by hand, the scanner's type resolution is syntactic, the behaviour of ahash / SipHash
   across processes is only exercised by the tie. *)
From Coq Require Import Sorting.Sorted Sorting.Permutation.
From ApolloVerif Require Import Base.Chars Valid.Guards Valid.SortProofs Det.HashOrder Det.Sites Det.Covered.

(* the build of this file fails when the scanner reports a site that Covered.v does not know *)
Theorem C22_sites_covered : forall s, In s generated_sites -> site_claim s.
Proof. exact sites_covered. Qed.
Check C22_sites_covered : forall s, In s generated_sites -> site_claim s.
Print Assumptions C22_sites_covered.

Theorem C22_sites_complete : forall s : site_id, In s generated_sites.
Proof. exact generated_sites_complete. Qed.
Check C22_sites_complete : forall s : site_id, In s generated_sites.
Print Assumptions C22_sites_complete.

(* validate_unused_variables: whatever the enumeration order of the HashMap of unused variables, the sorted
   diagnostic list is the same, for every list of variable definitions with pairwise distinct locations,
   every set of used names and whatever was pushed before and after *)
Theorem C22_unused_vars_sorted : forall vars used pre post e1 e2,
  NoDup (map snd vars) ->
  hm_enumerates (hv_unused vars used) e1 -> hm_enumerates (hv_unused vars used) e2 ->
  gd_sort fst (pre ++ hv_emit e1 ++ post) = gd_sort fst (pre ++ hv_emit e2 ++ post).
Proof. exact unused_vars_sorted. Qed.
Check C22_unused_vars_sorted : forall vars used pre post e1 e2,
  NoDup (map snd vars) ->
  hm_enumerates (hv_unused vars used) e1 -> hm_enumerates (hv_unused vars used) e2 ->
  gd_sort fst (pre ++ hv_emit e1 ++ post) = gd_sort fst (pre ++ hv_emit e2 ++ post).
Print Assumptions C22_unused_vars_sorted.

(* the hypothesis is needed: with equal keys (documents built by hand carry no locations) the order leaks *)
Theorem C22_unused_vars_without_locations_leak :
  exists vars e1 e2, hm_enumerates (hv_unused vars []) e1 /\ hm_enumerates (hv_unused vars []) e2 /\
    gd_sort fst (hv_emit e1) <> gd_sort fst (hv_emit e2).
Proof. exact unused_vars_without_locations_leak. Qed.
Check C22_unused_vars_without_locations_leak :
  exists vars e1 e2, hm_enumerates (hv_unused vars []) e1 /\ hm_enumerates (hv_unused vars []) e2 /\
    gd_sort fst (hv_emit e1) <> gd_sort fst (hv_emit e2).
Print Assumptions C22_unused_vars_without_locations_leak.

(* a stable sort of a list with pairwise distinct keys does not depend on the order of its input; the same
   for a segment of a longer list *)
Theorem C22_stable_sort_distinct_keys_perm_invariant : forall (A : Type) (key : A -> gd_key) (l l' : list A),
  NoDup (map key l) -> Permutation l l' -> gd_sort key l = gd_sort key l'.
Proof. intros A key l l'. apply gd_sort_perm_invariant. Qed.
Check C22_stable_sort_distinct_keys_perm_invariant : forall (A : Type) (key : A -> gd_key) (l l' : list A),
  NoDup (map key l) -> Permutation l l' -> gd_sort key l = gd_sort key l'.
Print Assumptions C22_stable_sort_distinct_keys_perm_invariant.

Theorem C22_sorted_segment_perm_invariant : forall (A : Type) (key : A -> gd_key) (pre post e1 e2 : list A),
  NoDup (map key e1) -> Permutation e1 e2 ->
  gd_sort key (pre ++ e1 ++ post) = gd_sort key (pre ++ e2 ++ post).
Proof. intros A key. apply sort_segment_perm_invariant. Qed.
Check C22_sorted_segment_perm_invariant : forall (A : Type) (key : A -> gd_key) (pre post e1 e2 : list A),
  NoDup (map key e1) -> Permutation e1 e2 ->
  gd_sort key (pre ++ e1 ++ post) = gd_sort key (pre ++ e2 ++ post).
Print Assumptions C22_sorted_segment_perm_invariant.

(* apollo-smith: the generator threads one Unstructured through pure functions; the only place that enumerated a
   hash-ordered container was the cycle fallback of ImplementsGraph::topo_order_parents_first (finding
   smith_implements_cycle_order, repaired: the fallback now returns the node weights of the graph in index =
   insertion order; the scanner no longer reports a site in apollo-smith).  Over an abstract toposort and an
   abstract node_weights (functions of the graph) and with the enumeration of the `by_name` HashMap as a parameter:
   the returned order does not depend on that enumeration, for every graph, cyclic or not.
   Partial: the full statement "DocumentBuilder::build is a function of the bytes" is this theorem plus the
   scanner's report that no other expression of apollo-smith enumerates a hash-ordered container (trusted, syntactic)
   plus the cross-process tie of c22_smith; petgraph's toposort is abstract. *)
Theorem C22_smith_topo_order_partial :
  forall (G : Type) (toposort : G -> option (list str)) (node_weights : G -> list str) (g : G),
  OrderIrrelevant (smith_topo_order G toposort node_weights g) /\
  (toposort g = None -> forall keys_enum, smith_topo_order G toposort node_weights g keys_enum = node_weights g).
Proof. exact smith_topo_order_both. Qed.
Check C22_smith_topo_order_partial :
  forall (G : Type) (toposort : G -> option (list str)) (node_weights : G -> list str) (g : G),
  OrderIrrelevant (smith_topo_order G toposort node_weights g) /\
  (toposort g = None -> forall keys_enum, smith_topo_order G toposort node_weights g keys_enum = node_weights g).
Print Assumptions C22_smith_topo_order_partial.

(* the code before the repair (`Err(_) => self.by_name.keys().cloned().collect()`): order-independent only without a
   cycle; with a cycle two enumerations of the same HashMap content give two different orders *)
Theorem C22_smith_topo_order_old_refuted : forall (G : Type) (toposort : G -> option (list str)) (g : G),
  (forall ord, toposort g = Some ord -> OrderIrrelevant (smith_topo_order_old G toposort g)) /\
  (toposort g = None -> OrderLeaks (smith_topo_order_old G toposort g)).
Proof. exact smith_topo_old_both. Qed.
Check C22_smith_topo_order_old_refuted : forall (G : Type) (toposort : G -> option (list str)) (g : G),
  (forall ord, toposort g = Some ord -> OrderIrrelevant (smith_topo_order_old G toposort g)) /\
  (toposort g = None -> OrderLeaks (smith_topo_order_old G toposort g)).
Print Assumptions C22_smith_topo_order_old_refuted.

(* non-vacuity: three unused variables enumerated in two orders between other diagnostics *)
Example C22_nonvacuous :
  let vars := [([97], Some (3, 10)); ([98], Some (3, 20)); ([99], Some (3, 30)); ([100], Some (3, 40))]%N in
  let used := [[98]] in
  let pre := [(Some (3, 25), [120]); (None, [121])]%N in
  let post := [(Some (3, 5), [122])]%N in
  NoDup (map snd vars) /\
  hv_unused vars used = [([97], Some (3, 10)); ([99], Some (3, 30)); ([100], Some (3, 40))]%N /\
  gd_sort fst (pre ++ hv_emit [([100], Some (3, 40)); ([97], Some (3, 10)); ([99], Some (3, 30))]%N ++ post)
  = gd_sort fst (pre ++ hv_emit (hv_unused vars used) ++ post).
Proof.
  cbv zeta. split; [|split; vm_compute; reflexivity].
  repeat (constructor; [cbn; intuition discriminate|]). constructor.
Qed.

(* non-vacuity of the apollo-smith statement: a graph (here just its node list) on which the toposort fails; the
   repaired fallback returns the nodes in insertion order whatever the HashMap enumerates, the old one returned
   the enumeration *)
Example C22_smith_nonvacuous :
  let toposort := fun g : list str => match g with [] => Some [] | _ => None end in
  let node_weights := fun g : list str => g in
  let g := [[65]; [66]; [67]]%N in
  toposort g = None /\
  smith_topo_order (list str) toposort node_weights g [[67]; [65]; [66]]%N = g /\
  smith_topo_order (list str) toposort node_weights g [[66]; [67]; [65]]%N = g /\
  smith_topo_order_old (list str) toposort g [[67]; [65]; [66]]%N <> smith_topo_order_old (list str) toposort g g.
Proof. cbv zeta. repeat split. vm_compute. discriminate. Qed.
