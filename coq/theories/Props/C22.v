(* C22 — Outputs are deterministic across processes.

   Model: a HashMap/HashSet is its content plus an enumeration that is a parameter (any permutation);
   determinism is independence from it (Det/HashOrder.v).  Det/Sites.v is generated from the source tree
   on every run and lists every expression that enumerates a hash-ordered container; Det/Covered.v gives
   each site a claim of one of the three forms.  Strength: partial — the model of the code around each
   site is written by hand, the scanner's type resolution is syntactic, the behaviour of ahash / SipHash
   across processes is only exercised by the tie. *)
From Coq Require Import Sorting.Sorted Sorting.Permutation.
From ApolloVerif Require Import Base.Chars Valid.Guards Valid.SortProofs Det.HashOrder Det.Sites Det.Covered.

(* the build of this file fails when the scanner reports a site that Covered.v does not know *)
Theorem C22_sites_covered : forall s, In s generated_sites -> site_claim s.
Proof. exact sites_covered. Qed.
Check C22_sites_covered : forall s, In s generated_sites -> site_claim s.
Print Assumptions C22_sites_covered.

Theorem C22_sites_complete : forall s : site_id, In s generated_sites.
Proof. exact generated_sites_complete. Qed.
Check C22_sites_complete : forall s : site_id, In s generated_sites.
Print Assumptions C22_sites_complete.

(* validate_unused_variables: whatever the enumeration order of the HashMap of unused variables, the sorted
   diagnostic list is the same, for every list of variable definitions with pairwise distinct locations,
   every set of used names and whatever was pushed before and after *)
Theorem C22_unused_vars_sorted : forall vars used pre post e1 e2,
  NoDup (map snd vars) ->
  hm_enumerates (hv_unused vars used) e1 -> hm_enumerates (hv_unused vars used) e2 ->
  gd_sort fst (pre ++ hv_emit e1 ++ post) = gd_sort fst (pre ++ hv_emit e2 ++ post).
Proof. exact unused_vars_sorted. Qed.
Check C22_unused_vars_sorted : forall vars used pre post e1 e2,
  NoDup (map snd vars) ->
  hm_enumerates (hv_unused vars used) e1 -> hm_enumerates (hv_unused vars used) e2 ->
  gd_sort fst (pre ++ hv_emit e1 ++ post) = gd_sort fst (pre ++ hv_emit e2 ++ post).
Print Assumptions C22_unused_vars_sorted.

(* the hypothesis is needed: with equal keys (documents built by hand carry no locations) the order leaks *)
Theorem C22_unused_vars_without_locations_leak :
  exists vars e1 e2, hm_enumerates (hv_unused vars []) e1 /\ hm_enumerates (hv_unused vars []) e2 /\
    gd_sort fst (hv_emit e1) <> gd_sort fst (hv_emit e2).
Proof. exact unused_vars_without_locations_leak. Qed.
Check C22_unused_vars_without_locations_leak :
  exists vars e1 e2, hm_enumerates (hv_unused vars []) e1 /\ hm_enumerates (hv_unused vars []) e2 /\
    gd_sort fst (hv_emit e1) <> gd_sort fst (hv_emit e2).
Print Assumptions C22_unused_vars_without_locations_leak.

(* a stable sort of a list with pairwise distinct keys does not depend on the order of its input; the same
   for a segment of a longer list *)
Theorem C22_stable_sort_distinct_keys_perm_invariant : forall (A : Type) (key : A -> gd_key) (l l' : list A),
  NoDup (map key l) -> Permutation l l' -> gd_sort key l = gd_sort key l'.
Proof. intros A key l l'. apply gd_sort_perm_invariant. Qed.
Check C22_stable_sort_distinct_keys_perm_invariant : forall (A : Type) (key : A -> gd_key) (l l' : list A),
  NoDup (map key l) -> Permutation l l' -> gd_sort key l = gd_sort key l'.
Print Assumptions C22_stable_sort_distinct_keys_perm_invariant.

Theorem C22_sorted_segment_perm_invariant : forall (A : Type) (key : A -> gd_key) (pre post e1 e2 : list A),
  NoDup (map key e1) -> Permutation e1 e2 ->
  gd_sort key (pre ++ e1 ++ post) = gd_sort key (pre ++ e2 ++ post).
Proof. intros A key. apply sort_segment_perm_invariant. Qed.
Check C22_sorted_segment_perm_invariant : forall (A : Type) (key : A -> gd_key) (pre post e1 e2 : list A),
  NoDup (map key e1) -> Permutation e1 e2 ->
  gd_sort key (pre ++ e1 ++ post) = gd_sort key (pre ++ e2 ++ post).
Print Assumptions C22_sorted_segment_perm_invariant.

(* apollo-smith: the generator threads one Unstructured through pure functions; its only enumeration of a
   hash-ordered container is the fallback of topo_order_parents_first.  Over an abstract toposort (a function
   of the graph): with an acyclic implements graph the order does not depend on the HashMap, with a cyclic
   one it does (finding smith_implements_cycle_order: reachable through DocumentBuilder::with_document on a
   document whose interfaces implement each other; full statement "build is a function of the bytes" is
   therefore proved only for acyclic graphs, which DocumentBuilder::new maintains — that invariant is C32's). *)
Theorem C22_smith_topo_order_partial : forall (G : Type) (toposort : G -> option (list str)) (g : G),
  (forall ord, toposort g = Some ord -> OrderIrrelevant (smith_topo_order G toposort g)) /\
  (toposort g = None -> OrderLeaks (smith_topo_order G toposort g)).
Proof.
  exact (sites_covered site_apollo_smith_src_implements_graph_rs_topo_order_parents_first_1
           (generated_sites_complete _)).
Qed.
Check C22_smith_topo_order_partial : forall (G : Type) (toposort : G -> option (list str)) (g : G),
  (forall ord, toposort g = Some ord -> OrderIrrelevant (smith_topo_order G toposort g)) /\
  (toposort g = None -> OrderLeaks (smith_topo_order G toposort g)).
Print Assumptions C22_smith_topo_order_partial.

(* non-vacuity: three unused variables enumerated in two orders between other diagnostics *)
Example C22_nonvacuous :
  let vars := [([97], Some (3, 10)); ([98], Some (3, 20)); ([99], Some (3, 30)); ([100], Some (3, 40))]%N in
  let used := [[98]] in
  let pre := [(Some (3, 25), [120]); (None, [121])]%N in
  let post := [(Some (3, 5), [122])]%N in
  NoDup (map snd vars) /\
  hv_unused vars used = [([97], Some (3, 10)); ([99], Some (3, 30)); ([100], Some (3, 40))]%N /\
  gd_sort fst (pre ++ hv_emit [([100], Some (3, 40)); ([97], Some (3, 10)); ([99], Some (3, 30))]%N ++ post)
  = gd_sort fst (pre ++ hv_emit (hv_unused vars used) ++ post).
Proof.
  cbv zeta. split; [|split; vm_compute; reflexivity].
  repeat (constructor; [cbn; intuition discriminate|]). constructor.
Qed.
