(* C31 — File ids are unique and shared state is thread-safe.
   Property theorems only.  [fileid_programs] is Mem/FileIdProgram.v, GENERATED on every run from the atomic
   operations FileId::new / FileId::reset perform on the real counter (recorded through the hook); the semantics
   (Mem/FileId.v) interprets a program given as data under an arbitrary scheduler.  TAGN = 2^63, W64 = 2^64. *)
From ApolloVerif Require Import Base.Chars Mem.FileId Mem.FileIdProgram Mem.FileIdProofs Mem.Pack Mem.PackProofs
  Mem.OnceInit Mem.OnceInitProofs.

(* any number of threads, any number of FileId::new calls per thread, any schedule, any initial counter:
   if the counter stays below 2^63 during the run, all returned ids are pairwise distinct *)
Theorem C31_unique : forall (calls_per_thread : list nat) (c0 : N) (sched : list nat),
  let s0 := fi_init_state c0 (map (fun k => repeat FiCallNew k) calls_per_thread) in
  Forall (fun c => c < fi_TAGN) (fi_cells fileid_programs s0 sched) ->
  NoDup (fi_all_ids (fi_run fileid_programs s0 sched)).
Proof. exact unique. Qed.
Check C31_unique : forall (calls_per_thread : list nat) (c0 : N) (sched : list nat),
  let s0 := fi_init_state c0 (map (fun k => repeat FiCallNew k) calls_per_thread) in
  Forall (fun c => c < fi_TAGN) (fi_cells fileid_programs s0 sched) ->
  NoDup (fi_all_ids (fi_run fileid_programs s0 sched)).
Print Assumptions C31_unique.

(* any mix of FileId::new and FileId::reset calls in fewer than 2^63 threads, any schedule, any initial counter
   in [3, 2^63] (so wrap-around into the tag bit and the concurrent resets that follow are included):
   every returned id is in [3, 2^63) — never BUILT_IN (1), NONE (2), 0, or a value with the tag bit *)
Theorem C31_never_reserved : forall (todos : list (list fi_call)) (c0 : N) (sched : list nat),
  N.of_nat (length todos) < fi_TAGN -> fi_INITIAL <= c0 -> c0 <= fi_TAGN ->
  Forall (fun id => fi_INITIAL <= id /\ id < fi_TAGN) (fi_all_ids (fi_run fileid_programs (fi_init_state c0 todos) sched)).
Proof. exact never_reserved. Qed.
Check C31_never_reserved : forall (todos : list (list fi_call)) (c0 : N) (sched : list nat),
  N.of_nat (length todos) < fi_TAGN -> fi_INITIAL <= c0 -> c0 <= fi_TAGN ->
  Forall (fun id => fi_INITIAL <= id /\ id < fi_TAGN) (fi_all_ids (fi_run fileid_programs (fi_init_state c0 todos) sched)).
Print Assumptions C31_never_reserved.

(* the rewrite `x <- load; store (x+1); return x` hands out one id twice to two threads under [0;1;0;1], with the
   counter below 2^63 throughout; the schedule search of the model finds exactly that schedule *)
Theorem C31_load_store_refuted :
  let s0 := fi_init_state 3 [[FiCallNew]; [FiCallNew]] in
  let sched := [0; 1; 0; 1]%nat in
  Forall (fun c => c < fi_TAGN) (fi_cells load_store_programs s0 sched) /\
  fi_all_ids (fi_run load_store_programs s0 sched) = [3; 3] /\
  fi_search_from 12 load_store_programs 3 [[FiCallNew]; [FiCallNew]] = Some sched.
Proof. exact load_store_collides. Qed.
Check C31_load_store_refuted :
  let s0 := fi_init_state 3 [[FiCallNew]; [FiCallNew]] in
  let sched := [0; 1; 0; 1]%nat in
  Forall (fun c => c < fi_TAGN) (fi_cells load_store_programs s0 sched) /\
  fi_all_ids (fi_run load_store_programs s0 sched) = [3; 3] /\
  fi_search_from 12 load_store_programs 3 [[FiCallNew]; [FiCallNew]] = Some sched.
Print Assumptions C31_load_store_refuted.

(* TaggedFileId: for every 63-bit non-zero id and either tag *)
Theorem C31_pack : forall (id : N) (tag : bool),
  0 < id -> id < fi_TAGN ->
  tfi_file_id (tfi_pack tag id) = id /\ tfi_tag (tfi_pack tag id) = tag /\ tfi_pack tag id <> 0 /\
  tfi_pack tag id < fi_W64.
Proof. exact pack_roundtrip. Qed.
Check C31_pack : forall (id : N) (tag : bool),
  0 < id -> id < fi_TAGN ->
  tfi_file_id (tfi_pack tag id) = id /\ tfi_tag (tfi_pack tag id) = tag /\ tfi_pack tag id <> 0 /\
  tfi_pack tag id < fi_W64.
Print Assumptions C31_pack.

(* OnceLock::get_or_init: under every interleaving the initialiser runs at most once and every call of every
   thread returns one and the same value, which is the value of some thread's closure *)
Theorem C31_once : forall (inits : nat -> N) (calls : list nat) (sched : list nat),
  let s := once_run inits (once_init calls) sched in
  (os_inits_run s <= 1)%nat /\
  exists v, (exists j, v = inits j) /\ Forall (eq v) (once_all_got s).
Proof. exact once_same_value. Qed.
Check C31_once : forall (inits : nat -> N) (calls : list nat) (sched : list nat),
  let s := once_run inits (once_init calls) sched in
  (os_inits_run s <= 1)%nat /\
  exists v, (exists j, v = inits j) /\ Forall (eq v) (once_all_got s).
Print Assumptions C31_once.

(* with the deterministic initialiser the anchored statics have, that value is the initialiser's *)
Theorem C31_once_deterministic : forall (v0 : N) (calls : list nat) (sched : list nat),
  Forall (eq v0) (once_all_got (once_run (fun _ => v0) (once_init calls) sched)).
Proof. exact once_deterministic. Qed.
Check C31_once_deterministic : forall (v0 : N) (calls : list nat) (sched : list nat),
  Forall (eq v0) (once_all_got (once_run (fun _ => v0) (once_init calls) sched)).
Print Assumptions C31_once_deterministic.

(* ---- non-vacuity ---- *)
(* C31_unique: three threads, two calls each, an interleaved schedule that finishes them all: hypothesis met,
   six ids returned *)
Example C31_unique_nonvacuous :
  let s0 := fi_init_state 3 (map (fun k => repeat FiCallNew k) [2; 2; 2]%nat) in
  let sched := [2; 0; 1; 1; 0; 2]%nat in
  forallb (fun c => c <? fi_TAGN) (fi_cells fileid_programs s0 sched) = true /\
  fi_all_ids (fi_run fileid_programs s0 sched) = [7; 4; 6; 5; 8; 3] /\
  fi_finished (fi_run fileid_programs s0 sched) = true.
Proof. vm_compute. repeat split. Qed.

(* C31_never_reserved: two threads start at 2^63 - 1, both cross into the tag bit and reset concurrently,
   a third thread calls FileId::reset in between; ids 2^63-1, 3, 3 come back (so uniqueness is indeed lost after
   the wrap, and the range claim is what remains) *)
Example C31_never_reserved_nonvacuous :
  let todos := [[FiCallNew; FiCallNew]; [FiCallNew]; [FiCallReset]] in
  let sched := [0; 0; 1; 0; 0; 2; 1; 1]%nat in
  N.of_nat (length todos) < fi_TAGN /\ fi_INITIAL <= 9223372036854775807 /\ 9223372036854775807 <= fi_TAGN /\
  fi_all_ids (fi_run fileid_programs (fi_init_state 9223372036854775807 todos) sched) = [3; 9223372036854775807; 3] /\
  fi_finished (fi_run fileid_programs (fi_init_state 9223372036854775807 todos) sched) = true.
Proof. vm_compute. repeat split; discriminate. Qed.

Example C31_pack_nonvacuous :
  tfi_pack true 9223372036854775807 = 18446744073709551615 /\ tfi_file_id 18446744073709551615 = 9223372036854775807 /\
  tfi_tag 18446744073709551615 = true /\ tfi_pack false 1 = 1 /\ tfi_tag 1 = false.
Proof. vm_compute. repeat split. Qed.

Example C31_once_nonvacuous :
  let s := once_run (fun i => 40 + N.of_nat i) (once_init [2; 1; 1]%nat) [1; 0; 2; 1; 0; 2; 1; 0]%nat in
  os_inits_run s = 1%nat /\ once_all_got s = [41; 41; 41; 41].
Proof. vm_compute. repeat split. Qed.
