(* C01 — Parsing never panics, hangs or overflows the stack (parser part; the lexer's totality is C03's).
   Property theorems only.  `run e dbg rl items` is the parser model on an item list; `lex_for tl s` is the item
   stream of the lexer model for a source string and an optional token limit. *)
From ApolloVerif Require Import Base.Chars Lex.Item Lex.Fun Parse.Outcome Parse.Builder Parse.Limits Parse.Monad
  Parse.Grammar Parse.Entry Parse.LosslessDefs Parse.Lossless Parse.NoPanic Parse.Compose Parse.Terminates.

Inductive entry := EDoc | ESelSet | EType.
Definition run_fuel (e : entry) : nat -> bool -> N -> list item -> poutcome presult :=
  match e with
  | EDoc => parse_document_fuel
  | ESelSet => parse_selection_set_fuel
  | EType => parse_type_fuel
  end.

(* No panic site of the parser is reachable (release flavour: debug_assert! compiled out), for every
   entry, every recursion limit, every amount of fuel, and every item list whose Name tokens carry names:
   Parser::pop on a finished lexer, push_ignored's unreachable!(), rowan's finish_node / start_node_at /
   finish assertions (every started node is finished once, exactly one root node), LimitTracker::decrement
   underflow, document's assert_eq!(recursion_limit.current, 0), validate_name's name[1..]. *)
Theorem C01_parser_no_panic_items : forall e fuel rl items w,
  Forall item_name_ok items -> run_fuel e fuel false rl items <> PPanic w.
Proof.
  intros e fuel rl items w H. destruct e; [apply document_no_panic|apply selection_set_no_panic|apply type_no_panic]; exact H.
Qed.
Check C01_parser_no_panic_items : forall e fuel rl items w,
  Forall item_name_ok items -> run_fuel e fuel false rl items <> PPanic w.
Print Assumptions C01_parser_no_panic_items.

(* ... composed with the lexer model: for every source string, token limit and recursion limit *)
Theorem C01_parser_no_panic : forall e fuel tl rl s w,
  run_fuel e fuel false rl (lex_for tl s) <> PPanic w.
Proof. intros. apply C01_parser_no_panic_items. apply lex_for_names_ok. Qed.
Check C01_parser_no_panic : forall e fuel tl rl s w,
  run_fuel e fuel false rl (lex_for tl s) <> PPanic w.
Print Assumptions C01_parser_no_panic.

Definition run (e : entry) : bool -> N -> list item -> poutcome presult :=
  match e with
  | EDoc => parse_document_items
  | ESelSet => parse_selection_set_items
  | EType => parse_type_items
  end.

(* The parser terminates: the fuel the entries run with (length items + 2: a bound on the nesting depth and on
   the iterations of each loop) is never exhausted -- for every item list, every recursion limit, with or
   without debug assertions.  Proof: no operation increases mu = |items the lexer will still yield| + [a current
   token]; every loop iteration that continues and every nested call of the three recursive families consumes
   at least one item (which is also what peek_while's debug_assert! checks). *)
Theorem C01_parser_terminates : forall e dbg rl items, run e dbg rl items <> POutOfFuel.
Proof.
  intros e dbg rl items. destruct e; [apply document_terminates|apply selection_set_terminates|apply type_terminates].
Qed.
Check C01_parser_terminates : forall e dbg rl items, run e dbg rl items <> POutOfFuel.
Print Assumptions C01_parser_terminates.

(* together: for every source string, token limit and recursion limit, each entry RETURNS a tree and errors *)
Theorem C01_parser_returns : forall e tl rl s, exists r, run e false rl (lex_for tl s) = POk r.
Proof.
  intros e tl rl s. destruct (run e false rl (lex_for tl s)) as [r|w|] eqn:E; [eauto| |].
  - exfalso. destruct e.
    + exact (C01_parser_no_panic EDoc _ tl rl s w E).
    + exact (C01_parser_no_panic ESelSet _ tl rl s w E).
    + exact (C01_parser_no_panic EType _ tl rl s w E).
  - exfalso. revert E. apply C01_parser_terminates.
Qed.
Check C01_parser_returns : forall e tl rl s, exists r, run e false rl (lex_for tl s) = POk r.
Print Assumptions C01_parser_returns.

(* non-vacuity: the inputs that panicked before the repairs of D1 / D2 now return *)
Example C01_nonvacuous :
  (exists r, parse_type_items false 500 (lex_all []) = POk r) /\
  (exists r, parse_type_items false 500 (lex_all [32; 73; 110; 116]) = POk r) /\
  (exists r, parse_selection_set_items false 500 (lex_all [233; 32; 97]) = POk r) /\
  (exists r, parse_document_items false 0 (lex_limited 3 [123; 32; 46; 46; 46]) = POk r).
Proof. repeat split; eexists; vm_compute; reflexivity. Qed.
