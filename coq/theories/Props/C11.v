(* C11 — Source locations and line/column positions are correct.
   Property theorems only.  Models: Loc/LineCol.v — the specification [lc_line_col] (GraphQL LineTerminators
   \n, \r\n, \r; columns count Unicode scalar values) and [lc_impl_line_col], the literal model of
   SourceFile::get_line_column = ariadne 0.6.0 Source::from + lc_get_byte_line; Loc/Spans.v — Name's packed
   location.  [res_of] turns the specification's option into the code's result type. *)
From ApolloVerif Require Import Base.Chars Loc.LineCol Loc.Spans Loc.LineColProofs.

(* The full statement  forall s off, lc_impl_line_col s off = res_of (lc_line_col s off)  is FALSE of the code
   today (finding D9).  Three witnesses, one per known class; each lies in exactly one class. *)

(* "é中🚀" x : the x is at byte offset 12: columns are counted in bytes *)
Definition w_col : str := [34; 233; 20013; 128640; 34; 32; 120].
Theorem C11_line_col_refuted_col :
  lc_impl_line_col w_col 12 = LcSome 1 13 /\ lc_line_col w_col 12 = Some (1, 7) /\
  lc_k_sep w_col 12 = false /\ lc_k_col w_col 12 = true /\ lc_k_eof w_col 12 = false.
Proof. vm_compute. auto 6. Qed.
Check C11_line_col_refuted_col :
  lc_impl_line_col w_col 12 = LcSome 1 13 /\ lc_line_col w_col 12 = Some (1, 7) /\
  lc_k_sep w_col 12 = false /\ lc_k_col w_col 12 = true /\ lc_k_eof w_col 12 = false.
Print Assumptions C11_line_col_refuted_col.

(* #a<FF>b<LF><space>x : the x is at byte offset 6: form feed starts a new line *)
Definition w_sep : str := [35; 97; 12; 98; 10; 32; 120].
Theorem C11_line_col_refuted_sep :
  lc_impl_line_col w_sep 6 = LcSome 3 2 /\ lc_line_col w_sep 6 = Some (2, 2) /\
  lc_k_sep w_sep 6 = true /\ lc_k_col w_sep 6 = false /\ lc_k_eof w_sep 6 = false.
Proof. vm_compute. auto 6. Qed.
Check C11_line_col_refuted_sep :
  lc_impl_line_col w_sep 6 = LcSome 3 2 /\ lc_line_col w_sep 6 = Some (2, 2) /\
  lc_k_sep w_sep 6 = true /\ lc_k_col w_sep 6 = false /\ lc_k_eof w_sep 6 = false.
Print Assumptions C11_line_col_refuted_sep.

(* a<LF> at offset 2 (end of text): no new line is opened after a trailing terminator *)
Definition w_eof : str := [97; 10].
Theorem C11_line_col_refuted_eof :
  lc_impl_line_col w_eof 2 = LcSome 1 3 /\ lc_line_col w_eof 2 = Some (2, 1) /\
  lc_k_sep w_eof 2 = false /\ lc_k_col w_eof 2 = false /\ lc_k_eof w_eof 2 = true.
Proof. vm_compute. auto 6. Qed.
Check C11_line_col_refuted_eof :
  lc_impl_line_col w_eof 2 = LcSome 1 3 /\ lc_line_col w_eof 2 = Some (2, 1) /\
  lc_k_sep w_eof 2 = false /\ lc_k_col w_eof 2 = false /\ lc_k_eof w_eof 2 = true.
Print Assumptions C11_line_col_refuted_eof.

Theorem C11_line_col_refuted : exists s off, lc_impl_line_col s off <> res_of (lc_line_col s off).
Proof. exists w_col, 12. vm_compute. discriminate. Qed.
Check C11_line_col_refuted : exists s off, lc_impl_line_col s off <> res_of (lc_line_col s off).
Print Assumptions C11_line_col_refuted.

(* Outside the three classes the code agrees with the specification, for every text and every byte
   offset (also offsets beyond the end and offsets inside a multi-byte character):
     lc_k_sep : VT, FF, U+0085, U+2028 or U+2029 lies wholly before the offset
     lc_k_col : a multi-byte character starts before the offset on the offset's line
     lc_k_eof : the offset is the end of a text that ends with \n or \r *)
Theorem C11_line_col : forall s off,
  lc_known_c11 s off = false -> lc_impl_line_col s off = res_of (lc_line_col s off).
Proof. exact line_col_correct. Qed.
Check C11_line_col : forall s off,
  lc_known_c11 s off = false -> lc_impl_line_col s off = res_of (lc_line_col s off).
Print Assumptions C11_line_col.

(* the literal two-phase model (line table, then search) equals the one-pass scan [lc_impl_scan];
   in particular the assert! of lc_get_byte_line never fires *)
Theorem C11_impl_is_scan : forall s off, lc_impl_line_col s off = res_of (lc_impl_scan s off 1 1).
Proof. exact impl_line_col_scan. Qed.
Check C11_impl_is_scan : forall s off, lc_impl_line_col s off = res_of (lc_impl_scan s off 1 1).
Print Assumptions C11_impl_is_scan.

Theorem C11_no_panic : forall s off, lc_impl_line_col s off <> LcPanic.
Proof. exact impl_line_col_no_panic. Qed.
Check C11_no_panic : forall s off, lc_impl_line_col s off <> LcPanic.
Print Assumptions C11_no_panic.

(* get_line_column_range / SourceSpan::line_column_range = the pair of the two endpoint conversions *)
Theorem C11_range : forall s a b,
  lc_impl_range s a b =
    match lc_impl_line_col s a, lc_impl_line_col s b with
    | LcSome l1 c1, LcSome l2 c2 => Some ((l1, c1), (l2, c2))
    | _, _ => None
    end.
Proof. exact range_is_pair. Qed.
Check C11_range : forall s a b,
  lc_impl_range s a b =
    match lc_impl_line_col s a, lc_impl_line_col s b with
    | LcSome l1 c1, LcSome l2 c2 => Some ((l1, c1), (l2, c2))
    | _, _ => None
    end.
Print Assumptions C11_range.

(* the specification is defined exactly for offsets up to the end of the text *)
Theorem C11_spec_defined : forall s off, lc_line_col s off = None <-> blen s < off.
Proof. exact line_col_defined. Qed.
Check C11_spec_defined : forall s off, lc_line_col s off = None <-> blen s < off.
Print Assumptions C11_spec_defined.

(* The specification [lc_line_col s off = lc_scan s off 1 1] is a left fold over the text whose steps are the
   GraphQL LineTerminator rule: scanning p ++ q is scanning p and continuing in q (unless the cut splits a
   \r\n), and \n, \r\n, a lone \r each add one line and reset the column to 1, any other scalar value adds
   one column, an offset inside a character or between \r and \n stays before it. *)
Theorem C11_spec_compositional : forall p q o line col,
  crlf_cut p q = false ->
  lc_scan (p ++ q) (blen p + o) line col =
    match lc_scan p (blen p) line col with
    | Some (l, c) => lc_scan q o l c
    | None => None
    end.
Proof. exact line_col_compositional. Qed.
Check C11_spec_compositional : forall p q o line col,
  crlf_cut p q = false ->
  lc_scan (p ++ q) (blen p + o) line col =
    match lc_scan p (blen p) line col with
    | Some (l, c) => lc_scan q o l c
    | None => None
    end.
Print Assumptions C11_spec_compositional.

Theorem C11_spec_steps : forall line col,
  lc_scan [c_lf] 1 line col = Some (line + 1, 1) /\
  lc_scan [c_cr; c_lf] 2 line col = Some (line + 1, 1) /\
  lc_scan [c_cr] 1 line col = Some (line + 1, 1) /\
  lc_scan [c_cr; c_lf] 1 line col = Some (line, col + 1) /\
  (forall c, c <> c_lf -> c <> c_cr -> lc_scan [c] (u8len c) line col = Some (line, col + 1)) /\
  (forall c k, 0 < k -> k < u8len c -> lc_scan [c] k line col = Some (line, col)).
Proof. exact line_col_steps. Qed.
Check C11_spec_steps : forall line col,
  lc_scan [c_lf] 1 line col = Some (line + 1, 1) /\
  lc_scan [c_cr; c_lf] 2 line col = Some (line + 1, 1) /\
  lc_scan [c_cr] 1 line col = Some (line + 1, 1) /\
  lc_scan [c_cr; c_lf] 1 line col = Some (line, col + 1) /\
  (forall c, c <> c_lf -> c <> c_cr -> lc_scan [c] (u8len c) line col = Some (line, col + 1)) /\
  (forall c k, 0 < k -> k < u8len c -> lc_scan [c] k line col = Some (line, col)).
Print Assumptions C11_spec_steps.

(* Spans.  Full statement (DESIGN.md C11_spans_inside / C11_name_span), NOT proved here because it needs
   the parser model (Parse/, built for C01/C02):
     for every node x of convert (tree (parse_document s)):  0 <= start x <= end x <= blen s, both on
     character boundaries, and for every Name n:  slice s (location n) = text n.
   It is covered by the tie only (harness family c11_spans walks ast::Document, Schema and
   ExecutableDocument).  What is proved is the Name side of it: the packed (start_offset, len)
   representation gives back the span it was given, and with_location's debug assertion holds exactly
   when the span's length is the name's byte length. *)
Theorem C11_name_span_partial : forall text s e n',
  lc_name_with_location (lc_name_new text) (s, e) = LcWlOk n' ->
  lc_name_location n' = Some (s, e) /\ lcn_text n' = text /\ e - s = blen text.
Proof. exact name_location_roundtrip. Qed.
Check C11_name_span_partial : forall text s e n',
  lc_name_with_location (lc_name_new text) (s, e) = LcWlOk n' ->
  lc_name_location n' = Some (s, e) /\ lcn_text n' = text /\ e - s = blen text.
Print Assumptions C11_name_span_partial.

(* ---- non-vacuity: a text with multi-byte characters and extra separators on EARLIER lines, CRLF and a
   lone CR, and an offset outside all classes *)
Definition ex_text : str := [233; 12; 10; 97; 13; 10; 98; 13; 99; 100].   (* é FF LF a CR LF b CR c d *)
Example C11_nonvacuous :
  lc_known_c11 [97; 13; 10; 98; 13; 99; 100] 6 = false /\
  lc_impl_line_col [97; 13; 10; 98; 13; 99; 100] 6 = LcSome 3 2 /\
  lc_line_col [97; 13; 10; 98; 13; 99; 100] 6 = Some (3, 2) /\
  lc_known_c11 ex_text 4 = true /\
  lc_name_with_location (lc_name_new [97; 98]) (3, 5) = LcWlOk {| lcn_text := [97; 98]; lcn_start := 3; lcn_has_file := true |}.
Proof. vm_compute. auto 6. Qed.
