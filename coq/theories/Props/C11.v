(* C11 — Source locations and line/column positions are correct. *)
From ApolloVerif Require Import Base.Chars Loc.LineCol.

(* "é中🚀" x : the x is at byte offset 12 *)
Definition w_col : str := [34; 233; 20013; 128640; 34; 32; 120].

Theorem C11_line_col_refuted_col :
  impl_line_col w_col 12 = LcSome 1 13 /\ line_col w_col 12 = Some (1, 7).
Proof. vm_compute. auto. Qed.
Check C11_line_col_refuted_col :
  impl_line_col w_col 12 = LcSome 1 13 /\ line_col w_col 12 = Some (1, 7).
Print Assumptions C11_line_col_refuted_col.
