(* C09 — String values and descriptions survive serialization.
   Property theorems only.  Printer model: Str/Escape.v (ast/serialize.rs: serialize_string_value,
   serialize_block_string, can_be_block_string, serialize_description, State); reader model: Str/Unescape.v;
   lexical validity: Str/Literal.v; specification of the value of a literal: Str/BlockString.v.
   The statements hold for every list of code points s (no bound, no restriction to scalar values). *)
From ApolloVerif Require Import Base.Chars Str.Unescape Str.Literal Str.BlockString Str.Escape
  Str.EscapeProofs.

(* the quoted form is a valid literal whose body decodes to s *)
Theorem C09_quoted : forall s,
  sl_classify_literal (se_quoted_form s) = SlQuoted (flat_map se_escape_char s) /\
  su_unescape_string (flat_map se_escape_char s) = SuOk s /\
  su_string_of_token (se_quoted_form s) = SuOk s.
Proof. exact quoted_form_full. Qed.
Check C09_quoted : forall s,
  sl_classify_literal (se_quoted_form s) = SlQuoted (flat_map se_escape_char s) /\
  su_unescape_string (flat_map se_escape_char s) = SuOk s /\
  su_string_of_token (se_quoted_form s) = SuOk s.
Print Assumptions C09_quoted.

(* the block form, at every whitespace indent prefix and every level, single- or multi-line *)
Theorem C09_block : forall p level s,
  su_is_ws_line p = true -> se_can_be_block_string s = true ->
  exists lit body,
    se_serialize_block_string {| se_prefix := Some p; se_level := level |} (mem c_lf s) s = SuOk lit /\
    sl_classify_literal lit = SlBlock body /\
    su_unescape_block_string body = SuOk s /\
    su_string_of_token lit = SuOk s.
Proof. exact block_form_roundtrip. Qed.
Check C09_block : forall p level s,
  su_is_ws_line p = true -> se_can_be_block_string s = true ->
  exists lit body,
    se_serialize_block_string {| se_prefix := Some p; se_level := level |} (mem c_lf s) s = SuOk lit /\
    sl_classify_literal lit = SlBlock body /\
    su_unescape_block_string body = SuOk s /\
    su_string_of_token lit = SuOk s.
Print Assumptions C09_block.

(* whichever form serialize_string_value chooses (any state: newlines disabled, any prefix made of
   WhiteSpace, any level; value or description): no panic, a valid literal, decoded to s *)
Theorem C09_chooser : forall st is_description s,
  ws_prefix st ->
  exists lit, se_serialize_string_value st is_description s = SuOk lit /\
              valid_literal lit /\ su_string_of_token lit = SuOk s.
Proof. exact string_value_roundtrip. Qed.
Check C09_chooser : forall st is_description s,
  ws_prefix st ->
  exists lit, se_serialize_string_value st is_description s = SuOk lit /\
              valid_literal lit /\ su_string_of_token lit = SuOk s.
Print Assumptions C09_chooser.

Theorem C09_description : forall st d,
  ws_prefix st ->
  exists lit sep, se_serialize_description st (Some d) = SuOk (lit, sep) /\
                  valid_literal lit /\ su_string_of_token lit = SuOk d.
Proof. exact description_roundtrip. Qed.
Check C09_description : forall st d,
  ws_prefix st ->
  exists lit sep, se_serialize_description st (Some d) = SuOk (lit, sep) /\
                  valid_literal lit /\ su_string_of_token lit = SuOk d.
Print Assumptions C09_description.

(* and the value the specification assigns to the chosen literal is s: any conforming parser reads s back *)
Theorem C09_chooser_spec : forall st is_description s,
  ws_prefix st ->
  exists lit, se_serialize_string_value st is_description s = SuOk lit /\ spec_value lit s.
Proof. exact string_value_spec_roundtrip. Qed.
Check C09_chooser_spec : forall st is_description s,
  ws_prefix st ->
  exists lit, se_serialize_string_value st is_description s = SuOk lit /\ spec_value lit s.
Print Assumptions C09_chooser_spec.

(* ---- non-vacuity *)
(* s = a LF space space b quote LF LF c : printed at prefix tab, level 2 as a multi-line block string *)
Definition ex_s : str := [97; 10; 32; 32; 98; 34; 10; 10; 99].
Definition ex_st : se_state := {| se_prefix := Some [9]; se_level := 2 |}.
Example C09_nonvacuous_block :
  su_is_ws_line [9] = true /\ se_can_be_block_string ex_s = true /\ ws_prefix ex_st /\
  se_serialize_string_value ex_st false ex_s =
    SuOk ([34; 34; 34] ++ [10; 9; 9; 97] ++ [10; 9; 9; 32; 32; 98; 34] ++ [10] ++ [10; 9; 9; 99] ++ [10; 9; 9] ++ [34; 34; 34]).
Proof. vm_compute. auto. Qed.

(* a one-line description containing a triple quote, and a string that must stay quoted (CR) *)
Example C09_nonvacuous_single :
  se_can_be_block_string [97; 34; 34; 34; 98] = true /\
  se_serialize_string_value ex_st true [97; 34; 34; 34; 98] = SuOk [34; 34; 34; 97; 92; 34; 34; 34; 98; 34; 34; 34] /\
  se_can_be_block_string [97; 13; 10; 98] = false /\
  se_serialize_string_value ex_st true [97; 13; 10; 98] = SuOk [34; 97; 92; 114; 92; 110; 98; 34] /\
  ws_prefix {| se_prefix := None; se_level := 0 |}.
Proof. vm_compute. auto. Qed.
