(* C09 — String values and descriptions survive serialization.  (work in progress: first obligation) *)
From ApolloVerif Require Import Base.Chars Str.Unescape Str.Literal Str.Escape.

Theorem C09_empty_description_partial :
  forall st, se_serialize_string_value st true [] = SuOk [34; 34].
Proof. intros st. unfold se_serialize_string_value. destruct (se_newlines_enabled st); reflexivity. Qed.
Check C09_empty_description_partial :
  forall st, se_serialize_string_value st true [] = SuOk [34; 34].
Print Assumptions C09_empty_description_partial.
