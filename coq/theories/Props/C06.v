(* C06 — String literals decode to their spec-defined values.
   Property theorems only.  Code model: Str/Unescape.v (cst/node_ext.rs); lexical validity: Str/Literal.v
   (the string states of lexer/mod.rs); specification: Str/BlockString.v (October 2021, 2.9.4). *)
From ApolloVerif Require Import Base.Chars Str.Unescape Str.Literal Str.BlockString
  Str.QuotedProofs Str.BlockProofs Str.LiteralProofs.

(* ---- quoted strings *)

(* every lexically valid body decodes, without panic, to the value of the static semantics *)
Theorem C06_quoted : forall body,
  sl_quoted_body_valid body = true -> exists v, su_unescape_string body = SuOk v /\ StringChars body v.
Proof. exact quoted_decodes. Qed.
Check C06_quoted : forall body,
  sl_quoted_body_valid body = true -> exists v, su_unescape_string body = SuOk v /\ StringChars body v.
Print Assumptions C06_quoted.

(* that value is unique *)
Theorem C06_quoted_value_unique : forall s v v', StringChars s v -> StringChars s v' -> v = v'.
Proof. exact StringChars_fun. Qed.
Check C06_quoted_value_unique : forall s v v', StringChars s v -> StringChars s v' -> v = v'.
Print Assumptions C06_quoted_value_unique.

(* the validity predicate is not too narrow: it holds of every derivation of the grammar whose value
   consists of scalar values (unicode escapes that do not denote a surrogate) *)
Theorem C06_quoted_valid_complete : forall s v,
  StringChars s v -> Forall scalar v -> sl_quoted_body_valid s = true.
Proof. exact StringChars_valid. Qed.
Check C06_quoted_valid_complete : forall s v,
  StringChars s v -> Forall scalar v -> sl_quoted_body_valid s = true.
Print Assumptions C06_quoted_valid_complete.

(* Over what the lexer itself accepts (since the repair 4dbec7a this is the grammar's own rule) *)
Theorem C06_quoted_lexer : forall body,
  sl_quoted_body_lexer_ok body = true ->
  exists v, su_unescape_string body = SuOk v /\ StringChars body v.
Proof. exact quoted_lexer_decodes. Qed.
Check C06_quoted_lexer : forall body,
  sl_quoted_body_lexer_ok body = true ->
  exists v, su_unescape_string body = SuOk v /\ StringChars body v.
Print Assumptions C06_quoted_lexer.

Theorem C06_quoted_no_panic : forall body,
  sl_quoted_body_lexer_ok body = true -> exists v, su_unescape_string body = SuOk v.
Proof. exact quoted_no_panic. Qed.
Check C06_quoted_no_panic : forall body,
  sl_quoted_body_lexer_ok body = true -> exists v, su_unescape_string body = SuOk v.
Print Assumptions C06_quoted_no_panic.

(* Before the repair the lexer accepted a raw line terminator as first character, which is no
   StringCharacter: the statement was false of the old acceptance rule (fixed finding, kept as a witness). *)
Theorem C06_quoted_lexer_old_refuted :
  exists body, sl_quoted_body_lexer_ok_old body = true /\ (forall v, ~ StringChars body v).
Proof.
  exists [10]. split; [reflexivity|]. intros v H. inversion H; subst; congruence.
Qed.
Check C06_quoted_lexer_old_refuted :
  exists body, sl_quoted_body_lexer_ok_old body = true /\ (forall v, ~ StringChars body v).
Print Assumptions C06_quoted_lexer_old_refuted.

Theorem C06_quoted_lexer_old_restricted : forall body,
  sl_quoted_body_lexer_ok_old body = true -> sl_leading_line_terminator body = false ->
  exists v, su_unescape_string body = SuOk v /\ StringChars body v.
Proof. intros body H Hl. apply quoted_decodes. now apply lexer_ok_old_not_leading. Qed.
Check C06_quoted_lexer_old_restricted : forall body,
  sl_quoted_body_lexer_ok_old body = true -> sl_leading_line_terminator body = false ->
  exists v, su_unescape_string body = SuOk v /\ StringChars body v.
Print Assumptions C06_quoted_lexer_old_restricted.

(* ---- block strings *)

(* for every body with a raw value (i.e. every valid body) the code computes bs_BlockStringValue(rawValue) *)
Theorem C06_block : forall body raw,
  BlockRawValue body raw -> su_unescape_block_string body = SuOk (bs_BlockStringValue raw).
Proof. exact block_string_value. Qed.
Check C06_block : forall body raw,
  BlockRawValue body raw -> su_unescape_block_string body = SuOk (bs_BlockStringValue raw).
Print Assumptions C06_block.

(* for every input at all: no panic (the byte slices are always on character boundaries), and replacing the
   escaped triple quote per line after the algorithm equals replacing it in the raw value before *)
Theorem C06_block_total : forall body,
  su_unescape_block_string body = SuOk (bs_BlockStringValue (su_replace_esc3 body)).
Proof. exact block_string_total. Qed.
Check C06_block_total : forall body,
  su_unescape_block_string body = SuOk (bs_BlockStringValue (su_replace_esc3 body)).
Print Assumptions C06_block_total.

(* lexical validity of a block body is derivability in the grammar *)
Theorem C06_block_valid_iff : forall body,
  sl_block_body_valid body = true <-> exists raw, BlockRawValue body raw.
Proof. exact block_body_valid_iff. Qed.
Check C06_block_valid_iff : forall body,
  sl_block_body_valid body = true <-> exists raw, BlockRawValue body raw.
Print Assumptions C06_block_valid_iff.

Theorem C06_block_raw_unique : forall body raw raw',
  BlockRawValue body raw -> BlockRawValue body raw' -> raw = raw'.
Proof. intros body raw raw'. apply BlockChars_fun. Qed.
Check C06_block_raw_unique : forall body raw raw',
  BlockRawValue body raw -> BlockRawValue body raw' -> raw = raw'.
Print Assumptions C06_block_raw_unique.

(* ---- whole tokens: String::from(&StringValue), including the slicing of the quotes *)

Theorem C06_literal_quoted : forall text body,
  sl_classify_literal text = SlQuoted body ->
  exists v, su_string_of_token text = SuOk v /\ StringChars body v.
Proof. exact literal_quoted_value. Qed.
Check C06_literal_quoted : forall text body,
  sl_classify_literal text = SlQuoted body ->
  exists v, su_string_of_token text = SuOk v /\ StringChars body v.
Print Assumptions C06_literal_quoted.

Theorem C06_literal_block : forall text body,
  sl_classify_literal text = SlBlock body ->
  exists raw, BlockRawValue body raw /\ su_string_of_token text = SuOk (bs_BlockStringValue raw).
Proof. exact literal_block_value. Qed.
Check C06_literal_block : forall text body,
  sl_classify_literal text = SlBlock body ->
  exists raw, BlockRawValue body raw /\ su_string_of_token text = SuOk (bs_BlockStringValue raw).
Print Assumptions C06_literal_block.

Theorem C06_literal_no_panic : forall text,
  sl_lexer_accepts_literal text = true -> exists v, su_string_of_token text = SuOk v.
Proof. exact literal_no_panic. Qed.
Check C06_literal_no_panic : forall text,
  sl_lexer_accepts_literal text = true -> exists v, su_string_of_token text = SuOk v.
Print Assumptions C06_literal_no_panic.

(* ---- non-vacuity: concrete literals meeting the hypotheses, with their values *)

(* the quoted literal with body: a, escaped n, unicode escape 00e9, escaped quote *)
Definition ex_quoted : str := [34; 97; 92; 110; 92; 117; 48; 48; 101; 57; 92; 34; 34].
Example C06_nonvacuous_quoted :
  sl_classify_literal ex_quoted = SlQuoted [97; 92; 110; 92; 117; 48; 48; 101; 57; 92; 34] /\
  sl_quoted_body_valid [97; 92; 110; 92; 117; 48; 48; 101; 57; 92; 34] = true /\
  su_string_of_token ex_quoted = SuOk [97; 10; 233; 34].
Proof. vm_compute. auto. Qed.

(* a block string: LF, 4 spaces a, CR LF, 6 spaces, escaped triple quote, b, CR, 2 spaces (blank), LF, 2 spaces *)
Definition ex_block_body : str :=
  [10; 32; 32; 32; 32; 97; 13; 10; 32; 32; 32; 32; 32; 32; 92; 34; 34; 34; 98; 13; 32; 32; 10; 32; 32].
Example C06_nonvacuous_block :
  sl_classify_literal ([34; 34; 34] ++ ex_block_body ++ [34; 34; 34]) = SlBlock ex_block_body /\
  (exists raw, BlockRawValue ex_block_body raw) /\
  su_string_of_token ([34; 34; 34] ++ ex_block_body ++ [34; 34; 34]) = SuOk [97; 10; 32; 32; 34; 34; 34; 98].
Proof.
  split; [vm_compute; reflexivity|]. split; [apply block_body_valid_iff; vm_compute; reflexivity|].
  vm_compute. reflexivity.
Qed.

(* the repaired lexer rejects the former quirk *)
Example C06_nonvacuous_quirk :
  sl_lexer_accepts_literal [34; 10; 97; 34] = false /\ sl_classify_literal [34; 10; 97; 34] = SlInvalid /\
  sl_leading_line_terminator [10; 97] = true /\ sl_quoted_body_lexer_ok_old [10; 97] = true.
Proof. vm_compute. auto. Qed.

(* a derivation with scalar values, for C06_quoted_valid_complete *)
Example C06_nonvacuous_complete :
  StringChars [92; 116; 233] [9; 233] /\ Forall scalar [9; 233].
Proof.
  split.
  - apply SC_escaped; [constructor|]. apply SC_source; try discriminate. constructor.
  - repeat constructor; unfold scalar; lia.
Qed.
