(* C06 — String literals decode to their spec-defined values.  (work in progress: first obligations) *)
From ApolloVerif Require Import Base.Chars Str.Unescape Str.Literal Str.BlockString.

(* The lexer's own acceptance rule admits a body the grammar has no value for. *)
Theorem C06_quoted_lexer_refuted :
  exists body, quoted_body_lexer_ok body = true /\ (forall v, ~ StringChars body v).
Proof.
  exists [10]. split; [reflexivity|]. intros v H. inversion H; subst; congruence.
Qed.
Check C06_quoted_lexer_refuted :
  exists body, quoted_body_lexer_ok body = true /\ (forall v, ~ StringChars body v).
Print Assumptions C06_quoted_lexer_refuted.
