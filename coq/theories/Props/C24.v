(* C24 — introspection agrees with the reference implementation (placeholder while the tie is brought up). *)
From ApolloVerif Require Import Base.Chars Ast.Ast Schema.Model Intro.IrNames Intro.Reference.

Theorem C24_std_query_fuel : ir_doc_fuel ir_standard_query = 77%nat.
Proof. vm_compute. reflexivity. Qed.
Check C24_std_query_fuel : ir_doc_fuel ir_standard_query = 77%nat.
Print Assumptions C24_std_query_fuel.
