(* C24 — Introspection agrees with the reference implementation.
   Strength: PARTIAL by construction.  The reference implementation (graphql-js) is not available; its role is
   played by the executable specification Intro/Reference.v (transcribed from the October 2021 specification,
   section 4, documented choices marked CHOICE/DRAFT there).  apollo-compiler's introspection code is NOT
   modelled: it is compared with the reference by the correspondence run (harness/src/c24.rs, driver/props/c24.py).
   The theorems below are about the reference: it is a sane yardstick (closed under reference, conforming to
   the introspection schema's nullability and the per-kind conventions of 4.2.2, skipping concrete root fields).
   Property theorems only: each closed by `exact <lemma>`, pinned by Check, followed by Print Assumptions. *)
From ApolloVerif Require Import Base.Chars Ast.Ast Schema.Model Intro.IrNames Intro.Reference
  Intro.ReferenceProofs Intro.Conform Intro.ConformProofs.

(* Selecting a concrete root field alongside (at any position among the root selections) leaves the partial
   response unchanged: no key is added and no error appears.  Side conditions: the field's response key is not
   also the key of a meta-field (field merging forbids that), its @skip/@include conditions are literals. *)
Theorem C24_skip_concrete : forall fuel cf s doc r sels1 sels2 alias name args dirs sub,
  ir_concrete_name name = true ->
  ir_skipped dirs <> IrtBad ->
  (forall g, In g (ircs_groups (ir_groups cf s doc (IrnRoot r) (sels1 ++ sels2))) ->
             irg_key g = ir_key alias name -> ir_concrete_name (irg_name g) = true) ->
  ir_exec fuel cf s doc (IrnRoot r) (sels1 ++ SField alias name args dirs sub :: sels2)
  = ir_exec fuel cf s doc (IrnRoot r) (sels1 ++ sels2).
Proof. exact skip_concrete. Qed.
Check C24_skip_concrete : forall fuel cf s doc r sels1 sels2 alias name args dirs sub,
  ir_concrete_name name = true ->
  ir_skipped dirs <> IrtBad ->
  (forall g, In g (ircs_groups (ir_groups cf s doc (IrnRoot r) (sels1 ++ sels2))) ->
             irg_key g = ir_key alias name -> ir_concrete_name (irg_name g) = true) ->
  ir_exec fuel cf s doc (IrnRoot r) (sels1 ++ SField alias name args dirs sub :: sels2)
  = ir_exec fuel cf s doc (IrnRoot r) (sels1 ++ sels2).
Print Assumptions C24_skip_concrete.

(* The response to the standard full introspection query conforms (Intro/Conform.v: `ir_conf`): every object
   has exactly the selected response keys in order; every value has the shape the introspection schema and
   4.2.2 give it for the kind of its object (fields/interfaces non-null lists for OBJECT and INTERFACE and null
   otherwise, possibleTypes for INTERFACE and UNION, enumValues for ENUM, inputFields for INPUT_OBJECT, ofType
   non-null exactly for LIST and NON_NULL and never NON_NULL directly under NON_NULL, name null exactly for the
   wrappers, specifiedByURL only for SCALAR, type/args/isDeprecated/locations non-null ...); no error marker. *)
Theorem C24_kinds_wellformed : forall s,
  ir_wf s = true -> ir_conforms s ir_standard_query (ir_introspect_doc s ir_standard_query) = true.
Proof. exact conforms_std. Qed.
Check C24_kinds_wellformed : forall s,
  ir_wf s = true -> ir_conforms s ir_standard_query (ir_introspect_doc s ir_standard_query) = true.
Print Assumptions C24_kinds_wellformed.

(* the same for every query that is valid against the introspection schema (literal arguments) *)
Theorem C24_kinds_wellformed_any_query : forall s doc,
  ir_wf s = true -> ir_doc_ok s doc = true -> ir_conforms s doc (ir_introspect_doc s doc) = true.
Proof. exact conforms_any_query. Qed.
Check C24_kinds_wellformed_any_query : forall s doc,
  ir_wf s = true -> ir_doc_ok s doc = true -> ir_conforms s doc (ir_introspect_doc s doc) = true.
Print Assumptions C24_kinds_wellformed_any_query.

(* Closed under reference, stated on the response alone: it conforms when "declared type name" is read as
   "name of an element of data.__schema.types of this very response" — the `name` of every `__Type` object of a
   named kind anywhere in it (queryType/mutationType/subscriptionType, the type of every field, argument, input
   field and directive argument down its ofType chain, interfaces, possibleTypes) is listed under `types`. *)
Theorem C24_closed : forall s,
  ir_wf s = true ->
  ir_conforms_closed s ir_standard_query (ir_introspect_doc s ir_standard_query) = true.
Proof. exact conforms_closed_std. Qed.
Check C24_closed : forall s,
  ir_wf s = true ->
  ir_conforms_closed s ir_standard_query (ir_introspect_doc s ir_standard_query) = true.
Print Assumptions C24_closed.

(* ... and `types` lists exactly the schema's types *)
Theorem C24_types_listed : forall s,
  ir_wf s = true ->
  ir_listed_type_names (ir_introspect_doc s ir_standard_query) = map et_name (sch_types s).
Proof. exact std_listed. Qed.
Check C24_types_listed : forall s,
  ir_wf s = true ->
  ir_listed_type_names (ir_introspect_doc s ir_standard_query) = map et_name (sch_types s).
Print Assumptions C24_types_listed.

(* the shape table used by `ir_conf` refines the transcribed introspection schema (`ir_spec_types`): same
   fields per type, and each shape implies the declared type (nullability, list-ness, element type) *)
Theorem C24_shapes_refine_spec : ir_tables_ok = true.
Proof. exact tables_refine_spec. Qed.
Check C24_shapes_refine_spec : ir_tables_ok = true.
Print Assumptions C24_shapes_refine_spec.

(* ---- non-vacuity and the known finding's witness on the reference side ---- *)
Definition ex_Query : str := Eval compute in irk_queryType.   (* any name will do *)
Definition ex_f : str := [102]. Definition ex_l : str := [108]. Definition ex_arg : str := [97].
Definition ex_In : str := [73; 110]. Definition ex_a : str := [97]. Definition ex_b : str := [98].
Definition ex_ping : str := [112; 105; 110; 103].
Definition ex_iv n t d : inputvaldef :=
  {| iv_desc := None; iv_name := n; iv_ty := t; iv_default := d; iv_dirs := [] |}.
Definition ex_schema : schema :=
  {| sch_def := {| sd_desc := None; sd_dirs := []; sd_query := Some (mkcomp ODef ex_Query);
                   sd_mutation := None; sd_subscription := None |};
     sch_dirdefs := ir_spec_directives;
     sch_types := ir_spec_types ++
       [ EScalar None irk_Int [] true; EScalar None irk_String [] true; EScalar None irk_Boolean [] true;
         EObject None ex_Query [] []
           [ mkcomp ODef {| fd_desc := None; fd_name := ex_f;
                            fd_args := [ ex_iv ex_l (TList (TNamed irk_Int)) (Some (VInt [49]));
                                         ex_iv ex_arg (TNamed ex_In)
                                           (Some (VObject [(ex_b, VInt [52]); (ex_a, VInt [50])])) ];
                            fd_ty := TNamed irk_Int; fd_dirs := [] |};
             mkcomp ODef {| fd_desc := None; fd_name := ex_ping; fd_args := []; fd_ty := TNamed irk_String;
                            fd_dirs := [] |} ] false;
         EInput None ex_In []
           [ mkcomp ODef (ex_iv ex_a (TNonNullNamed irk_Int) None);
             mkcomp ODef (ex_iv ex_b (TNamed irk_Int) (Some (VInt [55]))) ] false ] |}.

(* the example schema meets the hypothesis of the theorems, has the specification's built-ins, and the standard
   query is valid *)
Example C24_nonvacuous :
  ir_wf ex_schema = true /\ ir_builtins_check ex_schema = 0 /\ ir_doc_ok ex_schema ir_standard_query = true.
Proof. repeat split; vm_compute; reflexivity. Qed.

(* hypotheses of C24_skip_concrete on a concrete instance: `ping` selected before `__schema` *)
Example C24_skip_nonvacuous :
  ir_concrete_name ex_ping = true /\ ir_skipped [] <> IrtBad /\
  (forall g, In g (ircs_groups (ir_groups 77 ex_schema ir_standard_query (IrnRoot ex_Query)
                                  ([] ++ irq_operation))) ->
             irg_key g = ir_key None ex_ping -> ir_concrete_name (irg_name g) = true) /\
  ir_exec 77 77 ex_schema ir_standard_query (IrnRoot ex_Query)
    ([] ++ SField None ex_ping [] [] [] :: irq_operation)
  = ir_introspect_doc ex_schema ir_standard_query.
Proof.
  split; [vm_compute; reflexivity|]. split; [vm_compute; discriminate|]. split.
  - intros g Hg Hk. vm_compute in Hg. destruct Hg as [<-|[]]. vm_compute in Hk. discriminate Hk.
  - vm_compute. reflexivity.
Qed.

(* the reference's defaultValue for `l: [Int] = 1` is "[1]" and for `arg: In = {b: 4, a: 2}` (with
   `input In { a: Int!  b: Int = 7 }`) is "{a: 2, b: 4}": the coerced default; apollo-compiler reports the
   literals "1" and "{b: 4, a: 2}" (known finding default_value_not_coerced, witness confirmed on the crate) *)
Example C24_default_coerced_witness :
  ir_default_string ex_schema (ex_iv ex_l (TList (TNamed irk_Int)) (Some (VInt [49])))
    = Some (Some [91; 49; 93]) /\
  ir_default_string ex_schema
    (ex_iv ex_arg (TNamed ex_In) (Some (VObject [(ex_b, VInt [52]); (ex_a, VInt [50])])))
    = Some (Some [123; 97; 58; 32; 50; 44; 32; 98; 58; 32; 52; 125]).
Proof. split; vm_compute; reflexivity. Qed.
