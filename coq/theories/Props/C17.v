(* C17 — Executable validation agrees with the specification.
   Property theorems only.  The specification is Exec/Valid.v (xv_exec_valid, one named function per rule of
   section 5 of the October 2021 specification).  The agreement of apollo-compiler with xv_exec_valid on the rules
   other than field merging and fragment cycles is carried by the correspondence check, not by a theorem
   (strength: partial by construction).  For the two rules whose implementation is not the naive algorithm,
   literal models of the code (Exec/MergeXing.v, Exec/FragCycles.v) are related to declarative statements here. *)
From ApolloVerif Require Import Base.Chars Ast.Ast Schema.Model Exec.Compat Exec.Valid Exec.ValidProofs
  Exec.FragCycles Exec.FragCyclesProofs Exec.MergeXing Exec.MergeXingProofs Exec.Known.

(* Within the limit, the literal detection of validation/fragment.rs, anchored at the fragment r, reports a cycle
   iff there is a path of one or more fragment spreads from r back to r.  (<-) is the soundness of the `seen`
   shortcut.  FcFuel (the model's own fuel) never happens: fc_validate_not_fuel, used in the proof. *)
Theorem C17_fragment_cycles : forall frags limit r f,
  xv_assoc r frags = Some f ->
  fc_validate frags limit r (xv_frag_sels f) <> FcLimit ->
  (fc_validate frags limit r (xv_frag_sels f) = FcRecursed <-> fc_cycle frags r).
Proof. exact fc_validate_iff. Qed.
Check C17_fragment_cycles : forall frags limit r f,
  xv_assoc r frags = Some f ->
  fc_validate frags limit r (xv_frag_sels f) <> FcLimit ->
  (fc_validate frags limit r (xv_frag_sels f) = FcRecursed <-> fc_cycle frags r).
Print Assumptions C17_fragment_cycles.

(* same_value (after the D12a fix) is an equivalence relation on values without repeated object keys *)
Theorem C17_same_value_equiv :
  (forall a, xv_value_unique a = true -> mx_same_value a a = true) /\
  (forall a b, xv_value_unique a = true -> xv_value_unique b = true ->
     mx_same_value a b = true -> mx_same_value b a = true) /\
  (forall a b c, xv_value_unique a = true -> xv_value_unique b = true -> xv_value_unique c = true ->
     mx_same_value a b = true -> mx_same_value b c = true -> mx_same_value a c = true).
Proof. exact (conj same_value_refl (conj same_value_sym same_value_trans)). Qed.
Check C17_same_value_equiv :
  (forall a, xv_value_unique a = true -> mx_same_value a a = true) /\
  (forall a b, xv_value_unique a = true -> xv_value_unique b = true ->
     mx_same_value a b = true -> mx_same_value b a = true) /\
  (forall a b c, xv_value_unique a = true -> xv_value_unique b = true -> xv_value_unique c = true ->
     mx_same_value a b = true -> mx_same_value b c = true -> mx_same_value a c = true).
Print Assumptions C17_same_value_equiv.

(* same_value as it was before commit 04e5313 (D12a) was not transitive, and merged [1] with [1, 2] *)
Theorem C17_same_value_old_refuted :
  exists a b c, mx_same_value_old a b = true /\ mx_same_value_old b c = true /\ mx_same_value_old a c = false /\
                mx_same_value_old b a = true /\ mx_same_value b a = false.
Proof.
  exists (VList [ex_one; ex_two]), (VList [ex_one]), (VList [ex_one; ex_three]).
  destruct same_value_old_not_transitive as (H1 & H2 & H3 & H4 & H5). auto.
Qed.
Check C17_same_value_old_refuted :
  exists a b c, mx_same_value_old a b = true /\ mx_same_value_old b c = true /\ mx_same_value_old a c = false /\
                mx_same_value_old b a = true /\ mx_same_value b a = false.
Print Assumptions C17_same_value_old_refuted.

(* two fields (with composite parent types) end in a common group of group_by_common_parents iff the
   specification compares their names and arguments: "the parent types of fieldA and fieldB are equal or
   either is not an Object Type" *)
Theorem C17_xing_groups : forall s fields f g,
  (forall x, In x fields -> xv_composite_name s (mf_parent x) = true) ->
  In f fields -> In g fields ->
  ((exists grp, In grp (mx_group_by_common_parents s fields) /\ In f grp /\ In g grp) <->
   (mf_parent f = mf_parent g \/ xv_object_name s (mf_parent f) = false \/ xv_object_name s (mf_parent g) = false)).
Proof. exact xing_groups. Qed.
Check C17_xing_groups : forall s fields f g,
  (forall x, In x fields -> xv_composite_name s (mf_parent x) = true) ->
  In f fields -> In g fields ->
  ((exists grp, In grp (mx_group_by_common_parents s fields) /\ In f grp /\ In g grp) <->
   (mf_parent f = mf_parent g \/ xv_object_name s (mf_parent f) = false \/ xv_object_name s (mf_parent g) = false)).
Print Assumptions C17_xing_groups.

(* comparing the first element of a group with each other element decides the all-pairs condition when the
   relation is an equivalence on the group *)
Theorem C17_first_vs_rest : forall (rel : mx_fs -> mx_fs -> bool) (group : list mx_fs),
  (forall a, In a group -> rel a a = true) ->
  (forall a b, In a group -> In b group -> rel a b = true -> rel b a = true) ->
  (forall a b c, In a group -> In b group -> In c group -> rel a b = true -> rel b c = true -> rel a c = true) ->
  (mx_first_vs_rest rel group = true <-> forall a b, In a group -> In b group -> rel a b = true).
Proof. exact first_vs_rest_all_pairs. Qed.
Check C17_first_vs_rest : forall (rel : mx_fs -> mx_fs -> bool) (group : list mx_fs),
  (forall a, In a group -> rel a a = true) ->
  (forall a b, In a group -> In b group -> rel a b = true -> rel b a = true) ->
  (forall a b c, In a group -> In b group -> In c group -> rel a b = true -> rel b c = true -> rel a c = true) ->
  (mx_first_vs_rest rel group = true <-> forall a b, In a group -> In b group -> rel a b = true).
Print Assumptions C17_first_vs_rest.

(* ... and the two relations the code uses this way are such equivalences: same_name_and_arguments on fields
   without repeated argument names or object keys (what 5.4.2 and 5.6.3 guarantee), same_output_type_shape on
   fields whose return types are defined *)
Theorem C17_first_vs_rest_arguments : forall group, (forall f, In f group -> args_wf f) ->
  (mx_first_vs_rest mx_same_name_and_arguments group = true <->
   forall a b, In a group -> In b group -> mx_same_name_and_arguments a b = true).
Proof. exact first_vs_rest_arguments. Qed.
Check C17_first_vs_rest_arguments : forall group, (forall f, In f group -> args_wf f) ->
  (mx_first_vs_rest mx_same_name_and_arguments group = true <->
   forall a b, In a group -> In b group -> mx_same_name_and_arguments a b = true).
Print Assumptions C17_first_vs_rest_arguments.

Theorem C17_first_vs_rest_shape : forall s group, (forall f, In f group -> field_ty_defined s f) ->
  (mx_first_vs_rest (mx_same_output_type_shape s) group = true <->
   forall a b, In a group -> In b group -> mx_same_output_type_shape s a b = true).
Proof. exact first_vs_rest_shape. Qed.
Check C17_first_vs_rest_shape : forall s group, (forall f, In f group -> field_ty_defined s f) ->
  (mx_first_vs_rest (mx_same_output_type_shape s) group = true <->
   forall a b, In a group -> In b group -> mx_same_output_type_shape s a b = true).
Print Assumptions C17_first_vs_rest_shape.

(* the verdict is the conjunction of the named rules *)
Theorem C17_verdict_decomposes : forall p s d, xv_exec_valid p s d = true <-> xv_all_rules p s d.
Proof. exact xv_verdict_decomposes. Qed.
Check C17_verdict_decomposes : forall p s d, xv_exec_valid p s d = true <-> xv_all_rules p s d.
Print Assumptions C17_verdict_decomposes.

(* C17_xing_equiv, the full statement, is NOT PROVED:
     forall s d, xv_r_no_fragment_cycles d = true -> xv_r_argument_unique s d = true ->
       xv_r_input_field_unique s d = true -> xv_r_fields_defined s d = true -> xv_r_leaf_selections s d = true ->
       fragment type conditions defined and composite -> within FIELD_DEPTH_LIMIT ->
       mx_document_ok s d = Some (xv_r_fields_merge s d).
   The literal model and the specification's rule are instead compared inside modelrun on every generated case
   that from_ast.rs builds without loss (evidence: literal_merging_vs_spec).
   Proved, exactly: the pairwise tests of the code are the specification's (this theorem: 2bi/2bii of
   FieldsInSetCanMerge, steps 3-6 of SameResponseShape), they are equivalences so that first-against-rest decides
   all pairs (C17_first_vs_rest, _arguments, _shape, C17_same_value_equiv), and the parent grouping is the
   specification's condition (C17_xing_groups).  Missing: expand_selections (queue, one visit per fragment) against
   the specification's collection of fields, the recursion through merged sub-selections (two separate passes in
   the code, one pairwise recursion in the specification), the two memo guards with the cache, the depth limit. *)
Theorem C17_xing_equiv_partial :
  (forall a b, args_wf a -> args_wf b ->
     (mx_same_name_and_arguments a b = true <->
      streq (mf_name a) (mf_name b) && xv_args_same (mf_args a) (mf_args b) = true)) /\
  (forall a b, xv_value_unique a = true -> xv_value_unique b = true ->
     (mx_same_value a b = true <-> xv_value_same a b = true)) /\
  (forall s a b, field_ty_defined s a -> field_ty_defined s b ->
     mx_same_output_type_shape s a b = spec_shape_steps s (fd_ty (mf_def a)) (fd_ty (mf_def b))).
Proof. exact (conj same_name_args_spec (conj same_value_spec same_shape_spec)). Qed.
Check C17_xing_equiv_partial :
  (forall a b, args_wf a -> args_wf b ->
     (mx_same_name_and_arguments a b = true <->
      streq (mf_name a) (mf_name b) && xv_args_same (mf_args a) (mf_args b) = true)) /\
  (forall a b, xv_value_unique a = true -> xv_value_unique b = true ->
     (mx_same_value a b = true <-> xv_value_same a b = true)) /\
  (forall s a b, field_ty_defined s a -> field_ty_defined s b ->
     mx_same_output_type_shape s a b = spec_shape_steps s (fd_ty (mf_def a)) (fd_ty (mf_def b))).
Print Assumptions C17_xing_equiv_partial.

(* ---------- non-vacuity and witnesses ---------- *)
Definition ex_A : str := [65]. Definition ex_B : str := [66]. Definition ex_C : str := [67].
Definition ex_Q : str := [81]. Definition ex_f : str := [102]. Definition ex_a : str := [97]. Definition ex_v : str := [118].
Definition ex_frags : list (str * xv_frag) :=
  [ (ex_A, (ex_Q, [], [SSpread ex_B []; SSpread ex_C []]));
    (ex_B, (ex_Q, [], [SSpread ex_C []]));
    (ex_C, (ex_Q, [], [SInline None [] [SSpread ex_A []]])) ].
(* A -> B -> C -> A: the walk from A marks C as seen inside B's exploration; the cycle is still found;
   anchored at a fragment that is on no cycle (D -> A) nothing is reported *)
Example C17_fragment_cycles_nonvacuous :
  fc_validate ex_frags fc_limit ex_A [SSpread ex_B []; SSpread ex_C []] = FcRecursed /\
  fc_validate ((([68] : str), (ex_Q, [], [SSpread ex_A []])) :: ex_frags) fc_limit [68] [SSpread ex_A []]
    = FcOk [ex_C; ex_B; ex_A].
Proof. vm_compute. split; reflexivity. Qed.

Example C17_same_value_nonvacuous :
  let o1 := VObject [(ex_a, ex_one); (ex_f, VList [ex_two; VNull])] in
  let o2 := VObject [(ex_f, VList [ex_two; VNull]); (ex_a, ex_one)] in
  xv_value_unique o1 = true /\ xv_value_unique o2 = true /\ mx_same_value o1 o2 = true /\ mx_same_value o2 o1 = true.
Proof. vm_compute. repeat split. Qed.

(* a small schema: scalar Int, type Query { f(a: [Int]): Int } *)
Definition ex_schema : schema :=
  {| sch_def := {| sd_desc := None; sd_dirs := []; sd_query := Some (mkcomp ODef ex_Q); sd_mutation := None;
                   sd_subscription := None |};
     sch_dirdefs := [];
     sch_types :=
       [ EScalar None xs_Int [] true;
         EObject None ex_Q [] []
           [ mkcomp ODef {| fd_desc := None; fd_name := ex_f;
                            fd_args := [ {| iv_desc := None; iv_name := ex_a; iv_ty := TList (TNamed xs_Int);
                                            iv_default := None; iv_dirs := [] |} ];
                            fd_ty := TNamed xs_Int; fd_dirs := [] |} ] false ] |}.
(* query($v: [Int]) { f(a: [$v]) } : the class of D12d *)
Definition ex_doc_d12d : document :=
  [ DOperation OpQuery None [ {| v_name := ex_v; v_ty := TList (TNamed xs_Int); v_default := None; v_dirs := [] |} ] []
      [ SField None ex_f [ (ex_a, VList [VVar ex_v]) ] [] [] ] ].
Example C17_known_class_d12d_witness :
  xv_exec_valid xv_apollo_params ex_schema ex_doc_d12d = false /\
  xv_r_variable_usages_allowed ex_schema ex_doc_d12d = false /\
  xk_exec_valid (xk_single 0) xv_apollo_params ex_schema ex_doc_d12d = true /\
  xv_all_rules xv_apollo_params ex_schema
    [ DOperation OpQuery None [ {| v_name := ex_v; v_ty := TNamed xs_Int; v_default := None; v_dirs := [] |} ] []
        [ SField None ex_f [ (ex_a, VList [VVar ex_v]) ] [] [] ] ].
Proof. vm_compute. repeat split. Qed.

Example C17_first_vs_rest_nonvacuous :
  let mk args := {| mf_parent := ex_Q; mf_alias := None; mf_name := ex_f; mf_args := args; mf_dirs := [];
                    mf_def := xv_meta_typename_fd; mf_sub_ty := xs_String; mf_sub := [] |} in
  let g := [mk [(ex_a, ex_one); (ex_f, ex_two)]; mk [(ex_f, ex_two); (ex_a, ex_one)]] in
  mx_first_vs_rest mx_same_name_and_arguments g = true /\
  mx_first_vs_rest mx_same_name_and_arguments (g ++ [mk [(ex_a, ex_two)]]) = false /\
  (forall f, In f g -> args_wf f).
Proof.
  cbn zeta. split; [vm_compute; reflexivity|]. split; [vm_compute; reflexivity|].
  intros f [<-|[<-|[]]]; split; cbn [mf_args map fst].
  - repeat constructor; cbn; intuition discriminate.
  - intros k v [[= <- <-]|[[= <- <-]|[]]]; reflexivity.
  - repeat constructor; cbn; intuition discriminate.
  - intros k v [[= <- <-]|[[= <- <-]|[]]]; reflexivity.
Qed.

Example C17_xing_groups_nonvacuous :
  let mk p := {| mf_parent := p; mf_alias := None; mf_name := ex_f; mf_args := []; mf_dirs := [];
                 mf_def := xv_meta_typename_fd; mf_sub_ty := xs_String; mf_sub := [] |} in
  mx_group_by_common_parents ex_schema [mk ex_Q; mk ex_Q] = [[mk ex_Q; mk ex_Q]] /\
  xv_composite_name ex_schema ex_Q = true.
Proof. vm_compute. split; reflexivity. Qed.
