(* C17 — Executable validation agrees with the specification.  Property theorems only. *)
From ApolloVerif Require Import Base.Chars Ast.Ast Schema.Model Exec.Valid.

Theorem C17_placeholder_verdict : forall p s d,
  xv_exec_valid p s d = forallb (fun b => b) (xv_rule_vector p s d).
Proof. reflexivity. Qed.
Check C17_placeholder_verdict : forall p s d,
  xv_exec_valid p s d = forallb (fun b => b) (xv_rule_vector p s d).
Print Assumptions C17_placeholder_verdict.
