(* C17 — Executable validation agrees with the specification.
   Property theorems only.  The specification is Exec/Valid.v (xv_exec_valid, one named function per rule of
   section 5 of the October 2021 specification).  The agreement of apollo-compiler with xv_exec_valid on the rules
   other than field merging and fragment cycles is carried by the correspondence check, not by a theorem
   (strength: partial by construction).  For the two rules whose implementation is not the naive algorithm,
   literal models of the code (Exec/MergeXing.v, Exec/FragCycles.v) are related to declarative statements here. *)
From ApolloVerif Require Import Base.Chars Ast.Ast Schema.Model Exec.Compat Exec.Valid Exec.ValidProofs
  Exec.FragCycles Exec.FragCyclesProofs Exec.MergeXing Exec.MergeXingProofs Exec.Known Exec.KnownProofs
  Exec.MergeXingEquivExpand Exec.MergeXingEquivBridge Exec.MergeXingEquivSem Exec.MergeXingEquivSpec
  Exec.MergeXingEquivKeys Exec.MergeXingEquivMemo Exec.MergeXingEquivDoc Exec.MergeXingEquivRules Exec.MergeXingEquivFuel.

(* Within the limit, the literal detection of validation/fragment.rs, anchored at the fragment r, reports a cycle
   iff there is a path of one or more fragment spreads from r back to r.  (<-) is the soundness of the `seen`
   shortcut.  FcFuel (the model's own fuel) never happens: fc_validate_not_fuel, used in the proof. *)
Theorem C17_fragment_cycles : forall frags limit r f,
  xv_assoc r frags = Some f ->
  fc_validate frags limit r (xv_frag_sels f) <> FcLimit ->
  (fc_validate frags limit r (xv_frag_sels f) = FcRecursed <-> fc_cycle frags r).
Proof. exact fc_validate_iff. Qed.
Check C17_fragment_cycles : forall frags limit r f,
  xv_assoc r frags = Some f ->
  fc_validate frags limit r (xv_frag_sels f) <> FcLimit ->
  (fc_validate frags limit r (xv_frag_sels f) = FcRecursed <-> fc_cycle frags r).
Print Assumptions C17_fragment_cycles.

(* same_value (after the D12a fix) is an equivalence relation on values without repeated object keys *)
Theorem C17_same_value_equiv :
  (forall a, xv_value_unique a = true -> mx_same_value a a = true) /\
  (forall a b, xv_value_unique a = true -> xv_value_unique b = true ->
     mx_same_value a b = true -> mx_same_value b a = true) /\
  (forall a b c, xv_value_unique a = true -> xv_value_unique b = true -> xv_value_unique c = true ->
     mx_same_value a b = true -> mx_same_value b c = true -> mx_same_value a c = true).
Proof. exact (conj same_value_refl (conj same_value_sym same_value_trans)). Qed.
Check C17_same_value_equiv :
  (forall a, xv_value_unique a = true -> mx_same_value a a = true) /\
  (forall a b, xv_value_unique a = true -> xv_value_unique b = true ->
     mx_same_value a b = true -> mx_same_value b a = true) /\
  (forall a b c, xv_value_unique a = true -> xv_value_unique b = true -> xv_value_unique c = true ->
     mx_same_value a b = true -> mx_same_value b c = true -> mx_same_value a c = true).
Print Assumptions C17_same_value_equiv.

(* same_value as it was before commit 04e5313 (D12a) was not transitive, and merged [1] with [1, 2] *)
Theorem C17_same_value_old_refuted :
  exists a b c, mx_same_value_old a b = true /\ mx_same_value_old b c = true /\ mx_same_value_old a c = false /\
                mx_same_value_old b a = true /\ mx_same_value b a = false.
Proof.
  exists (VList [ex_one; ex_two]), (VList [ex_one]), (VList [ex_one; ex_three]).
  destruct same_value_old_not_transitive as (H1 & H2 & H3 & H4 & H5). auto.
Qed.
Check C17_same_value_old_refuted :
  exists a b c, mx_same_value_old a b = true /\ mx_same_value_old b c = true /\ mx_same_value_old a c = false /\
                mx_same_value_old b a = true /\ mx_same_value b a = false.
Print Assumptions C17_same_value_old_refuted.

(* two fields (with composite parent types) end in a common group of group_by_common_parents iff the
   specification compares their names and arguments: "the parent types of fieldA and fieldB are equal or
   either is not an Object Type" *)
Theorem C17_xing_groups : forall s fields f g,
  (forall x, In x fields -> xv_composite_name s (mf_parent x) = true) ->
  In f fields -> In g fields ->
  ((exists grp, In grp (mx_group_by_common_parents s fields) /\ In f grp /\ In g grp) <->
   (mf_parent f = mf_parent g \/ xv_object_name s (mf_parent f) = false \/ xv_object_name s (mf_parent g) = false)).
Proof. exact xing_groups. Qed.
Check C17_xing_groups : forall s fields f g,
  (forall x, In x fields -> xv_composite_name s (mf_parent x) = true) ->
  In f fields -> In g fields ->
  ((exists grp, In grp (mx_group_by_common_parents s fields) /\ In f grp /\ In g grp) <->
   (mf_parent f = mf_parent g \/ xv_object_name s (mf_parent f) = false \/ xv_object_name s (mf_parent g) = false)).
Print Assumptions C17_xing_groups.

(* comparing the first element of a group with each other element decides the all-pairs condition when the
   relation is an equivalence on the group *)
Theorem C17_first_vs_rest : forall (rel : mx_fs -> mx_fs -> bool) (group : list mx_fs),
  (forall a, In a group -> rel a a = true) ->
  (forall a b, In a group -> In b group -> rel a b = true -> rel b a = true) ->
  (forall a b c, In a group -> In b group -> In c group -> rel a b = true -> rel b c = true -> rel a c = true) ->
  (mx_first_vs_rest rel group = true <-> forall a b, In a group -> In b group -> rel a b = true).
Proof. exact first_vs_rest_all_pairs. Qed.
Check C17_first_vs_rest : forall (rel : mx_fs -> mx_fs -> bool) (group : list mx_fs),
  (forall a, In a group -> rel a a = true) ->
  (forall a b, In a group -> In b group -> rel a b = true -> rel b a = true) ->
  (forall a b c, In a group -> In b group -> In c group -> rel a b = true -> rel b c = true -> rel a c = true) ->
  (mx_first_vs_rest rel group = true <-> forall a b, In a group -> In b group -> rel a b = true).
Print Assumptions C17_first_vs_rest.

(* ... and the two relations the code uses this way are such equivalences: same_name_and_arguments on fields
   without repeated argument names or object keys (what 5.4.2 and 5.6.3 guarantee), same_output_type_shape on
   fields whose return types are defined *)
Theorem C17_first_vs_rest_arguments : forall group, (forall f, In f group -> args_wf f) ->
  (mx_first_vs_rest mx_same_name_and_arguments group = true <->
   forall a b, In a group -> In b group -> mx_same_name_and_arguments a b = true).
Proof. exact first_vs_rest_arguments. Qed.
Check C17_first_vs_rest_arguments : forall group, (forall f, In f group -> args_wf f) ->
  (mx_first_vs_rest mx_same_name_and_arguments group = true <->
   forall a b, In a group -> In b group -> mx_same_name_and_arguments a b = true).
Print Assumptions C17_first_vs_rest_arguments.

Theorem C17_first_vs_rest_shape : forall s group, (forall f, In f group -> field_ty_defined s f) ->
  (mx_first_vs_rest (mx_same_output_type_shape s) group = true <->
   forall a b, In a group -> In b group -> mx_same_output_type_shape s a b = true).
Proof. exact first_vs_rest_shape. Qed.
Check C17_first_vs_rest_shape : forall s group, (forall f, In f group -> field_ty_defined s f) ->
  (mx_first_vs_rest (mx_same_output_type_shape s) group = true <->
   forall a b, In a group -> In b group -> mx_same_output_type_shape s a b = true).
Print Assumptions C17_first_vs_rest_shape.

(* the verdict is the conjunction of the named rules *)
Theorem C17_verdict_decomposes : forall p s d, xv_exec_valid p s d = true <-> xv_all_rules p s d.
Proof. exact xv_verdict_decomposes. Qed.
Check C17_verdict_decomposes : forall p s d, xv_exec_valid p s d = true <-> xv_all_rules p s d.
Print Assumptions C17_verdict_decomposes.

(* The pairwise tests of the code are the specification's (2bi/2bii of FieldsInSetCanMerge, steps 3-6 of
   SameResponseShape).  Kept under its original name; it is one ingredient of C17_xing_equiv below, which also
   covers expand_selections, the recursion through merged sub-selections, the memo guards and the depth limit. *)
Theorem C17_xing_equiv_partial :
  (forall a b, args_wf a -> args_wf b ->
     (mx_same_name_and_arguments a b = true <->
      streq (mf_name a) (mf_name b) && xv_args_same (mf_args a) (mf_args b) = true)) /\
  (forall a b, xv_value_unique a = true -> xv_value_unique b = true ->
     (mx_same_value a b = true <-> xv_value_same a b = true)) /\
  (forall s a b, field_ty_defined s a -> field_ty_defined s b ->
     mx_same_output_type_shape s a b = spec_shape_steps s (fd_ty (mf_def a)) (fd_ty (mf_def b))).
Proof. exact (conj same_name_args_spec (conj same_value_spec same_shape_spec)). Qed.
Check C17_xing_equiv_partial :
  (forall a b, args_wf a -> args_wf b ->
     (mx_same_name_and_arguments a b = true <->
      streq (mf_name a) (mf_name b) && xv_args_same (mf_args a) (mf_args b) = true)) /\
  (forall a b, xv_value_unique a = true -> xv_value_unique b = true ->
     (mx_same_value a b = true <-> xv_value_same a b = true)) /\
  (forall s a b, field_ty_defined s a -> field_ty_defined s b ->
     mx_same_output_type_shape s a b = spec_shape_steps s (fd_ty (mf_def a)) (fd_ty (mf_def b))).
Print Assumptions C17_xing_equiv_partial.

(* ---------- the literal field-merging algorithm = the specification's rule (deepening) ---------- *)

(* expand_selections (queue, one visit per named fragment) always returns: the model's fuel is never exhausted,
   whatever the fragment map (cyclic or not) *)
Theorem C17_mx_expand_total : forall frags sets, mx_expand frags sets <> None.
Proof. exact mx_expand_some. Qed.
Check C17_mx_expand_total : forall frags sets, mx_expand frags sets <> None.
Print Assumptions C17_mx_expand_total.

(* ... and yields exactly the (parent type, field) pairs that expanding every spread where it is written yields
   (mxc_collect: Valid.v's xv_collect transcribed for the executable document).  Equality of members: the two differ
   in order, and in multiplicity when a fragment is spread more than once, neither of which the checks read. *)
Theorem C17_mx_expand_eq_collect : forall frags sets out, mx_expand frags sets = Some out ->
  forall fuel Ls, Forall2 (fun st L => mxc_collect fuel frags (fst st) (snd st) = Some L) sets Ls ->
  forall f, In f out <-> In f (concat Ls).
Proof. exact mx_expand_eq_collect. Qed.
Check C17_mx_expand_eq_collect : forall frags sets out, mx_expand frags sets = Some out ->
  forall fuel Ls, Forall2 (fun st L => mxc_collect fuel frags (fst st) (snd st) = Some L) sets Ls ->
  forall f, In f out <-> In f (concat Ls).
Print Assumptions C17_mx_expand_eq_collect.

(* Against the specification's own collection on the parsed selections: for selections that from_ast.rs builds
   without loss (xb_ok: fields defined, no sub-selection under a leaf field, type conditions defined), the fields
   expand_selections yields, each seen as the specification sees a field (mxb_proj), are exactly the members of
   xv_collect *)
Theorem C17_mx_expand_eq_spec_collect : forall s afrags p sels out fuel L,
  (forall k f, In (k, f) afrags -> xv_is_some (sch_get_type s (xv_frag_cond f)) = true /\
                                    Forall (xb_ok s (xv_frag_cond f)) (xv_frag_sels f)) ->
  Forall (xb_ok s p) sels ->
  mx_expand (mx_fragments s afrags []) [(p, mx_from_ast s p sels)] = Some out ->
  xv_collect fuel s afrags p sels = Some L ->
  forall c, In c L <-> exists f, In f out /\ mxb_proj f = c.
Proof. exact mx_expand_eq_xv_collect. Qed.
Check C17_mx_expand_eq_spec_collect : forall s afrags p sels out fuel L,
  (forall k f, In (k, f) afrags -> xv_is_some (sch_get_type s (xv_frag_cond f)) = true /\
                                    Forall (xb_ok s (xv_frag_cond f)) (xv_frag_sels f)) ->
  Forall (xb_ok s p) sels ->
  mx_expand (mx_fragments s afrags []) [(p, mx_from_ast s p sels)] = Some out ->
  xv_collect fuel s afrags p sels = Some L ->
  forall c, In c L <-> exists f, In f out /\ mxb_proj f = c.
Print Assumptions C17_mx_expand_eq_spec_collect.

(* 5.5.2.2 as Valid.v computes it (xv_reach: S (length frags) rounds of closure) gives the declarative statement
   "no spread path from a fragment back to itself" (completeness of xv_reach); for such fragment maps the
   specification's collection never runs out of its fuel *)
Theorem C17_no_cycles_acyclic : forall d, xv_r_no_fragment_cycles d = true -> forall n, ~ fc_reach (xv_frags d) n n.
Proof. exact xf_no_cycles. Qed.
Check C17_no_cycles_acyclic : forall d, xv_r_no_fragment_cycles d = true -> forall n, ~ fc_reach (xv_frags d) n n.
Print Assumptions C17_no_cycles_acyclic.

Theorem C17_spec_collect_total : forall s frags, (forall n, ~ fc_reach frags n n) ->
  forall p sels, xv_collect (S (length frags)) s frags p sels <> None.
Proof. exact xf_collect_some. Qed.
Check C17_spec_collect_total : forall s frags, (forall n, ~ fc_reach frags n n) ->
  forall p sels, xv_collect (S (length frags)) s frags p sels <> None.
Print Assumptions C17_spec_collect_total.

(* with acyclic fragments the specification's evaluation of 5.3.2 is defined (xv_merge_fuel suffices) *)
Theorem C17_merge_verdict_defined : forall s d, xv_r_no_fragment_cycles d = true -> xv_merge_out_of_fuel s d = false.
Proof. exact xf_verdict_defined. Qed.
Check C17_merge_verdict_defined : forall s d, xv_r_no_fragment_cycles d = true -> xv_merge_out_of_fuel s d = false.
Print Assumptions C17_merge_verdict_defined.

(* The literal algorithm WITHOUT the memo short-cuts (Exec/MergeXingEquivSem.v mxn_document: mx_document_ok with the
   cache and the two OnceBool guards deleted, everything else kept; not extracted) always returns, ... *)
Theorem C17_xing_nomemo_total : forall s d, mxn_document s d <> None.
Proof. exact mxn_document_some. Qed.
Check C17_xing_nomemo_total : forall s d, mxn_document s d <> None.
Print Assumptions C17_xing_nomemo_total.

(* ... and decides the specification's rule, staying within FIELD_DEPTH_LIMIT: over a schema whose field types are
   defined leaf or composite types and whose root operation types are composite (xr_schema_ok), for a document
   that passes 5.3.1, 5.3.3, 5.4.2, 5.6.3, 5.5.1.1-5.5.1.4, 5.5.2.2, has its root operation types defined and is
   within the limits of Valid.v (xv_within_limits) *)
Theorem C17_xing_equiv_nomemo : forall s d b hi,
  xr_schema_ok s ->
  xv_r_fields_defined s d = true -> xv_r_leaf_selections s d = true -> xv_r_argument_unique s d = true ->
  xv_r_input_field_unique s d = true -> xv_r_fragment_type_exists s d = true -> xv_r_fragment_on_composite s d = true ->
  xv_r_root_operation_defined xv_apollo_params s d = true ->
  xv_r_fragment_name_unique d = true -> xv_r_fragments_used d = true -> xv_r_no_fragment_cycles d = true ->
  xv_within_limits d = true ->
  mxn_document s d = Some (b, hi) -> b = xv_r_fields_merge s d /\ (hi <= mx_field_depth_limit)%nat.
Proof. exact xing_equiv_nomemo_full. Qed.
Check C17_xing_equiv_nomemo : forall s d b hi,
  xr_schema_ok s ->
  xv_r_fields_defined s d = true -> xv_r_leaf_selections s d = true -> xv_r_argument_unique s d = true ->
  xv_r_input_field_unique s d = true -> xv_r_fragment_type_exists s d = true -> xv_r_fragment_on_composite s d = true ->
  xv_r_root_operation_defined xv_apollo_params s d = true ->
  xv_r_fragment_name_unique d = true -> xv_r_fragments_used d = true -> xv_r_no_fragment_cycles d = true ->
  xv_within_limits d = true ->
  mxn_document s d = Some (b, hi) -> b = xv_r_fields_merge s d /\ (hi <= mx_field_depth_limit)%nat.
Print Assumptions C17_xing_equiv_nomemo.

(* Memo soundness: the literal algorithm with its two guards and the validator's cache (one cache for all
   operations of the document) gives the verdict of the variant without them, whenever the latter's high water
   mark of the recursion depth stays within FIELD_DEPTH_LIMIT.  No hypothesis on the document: a cache key is a
   function of its field list on every document from_ast.rs builds. *)
Theorem C17_xing_memo_sound : forall s d b hi,
  mxn_document s d = Some (b, hi) -> (hi <= mx_field_depth_limit)%nat -> mx_document_ok s d = Some b.
Proof. exact mx_document_memo_sound. Qed.
Check C17_xing_memo_sound : forall s d b hi,
  mxn_document s d = Some (b, hi) -> (hi <= mx_field_depth_limit)%nat -> mx_document_ok s d = Some b.
Print Assumptions C17_xing_memo_sound.

(* C17_xing_equiv, the full statement: the literal model of selection.rs (expand_selections with its queue,
   grouping, first-against-rest, same_name_and_arguments, same_value, same_output_type_shape, the two memo guards
   with the cache, FIELD_DEPTH_LIMIT) computes exactly the specification's FieldsInSetCanMerge verdict.
   The hypotheses beyond those anticipated in the first version of this file are necessary: fragment names unique
   and every fragment used (apollo validates field merging per operation; the specification's "any selection set
   defined in the document" includes unused and shadowed fragment definitions), root operation types defined
   (apollo drops such operations when building), and the two schema facts of xr_schema_ok. *)
Theorem C17_xing_equiv : forall s d,
  xr_schema_ok s ->
  xv_r_fields_defined s d = true -> xv_r_leaf_selections s d = true -> xv_r_argument_unique s d = true ->
  xv_r_input_field_unique s d = true -> xv_r_fragment_type_exists s d = true -> xv_r_fragment_on_composite s d = true ->
  xv_r_root_operation_defined xv_apollo_params s d = true ->
  xv_r_fragment_name_unique d = true -> xv_r_fragments_used d = true -> xv_r_no_fragment_cycles d = true ->
  xv_within_limits d = true ->
  mx_document_ok s d = Some (xv_r_fields_merge s d).
Proof. exact xing_equiv_full. Qed.
Check C17_xing_equiv : forall s d,
  xr_schema_ok s ->
  xv_r_fields_defined s d = true -> xv_r_leaf_selections s d = true -> xv_r_argument_unique s d = true ->
  xv_r_input_field_unique s d = true -> xv_r_fragment_type_exists s d = true -> xv_r_fragment_on_composite s d = true ->
  xv_r_root_operation_defined xv_apollo_params s d = true ->
  xv_r_fragment_name_unique d = true -> xv_r_fragments_used d = true -> xv_r_no_fragment_cycles d = true ->
  xv_within_limits d = true ->
  mx_document_ok s d = Some (xv_r_fields_merge s d).
Print Assumptions C17_xing_equiv.

(* Two deviations of validation/value.rs from the specification that were known-finding classes of this property
   and are repaired (fixes/fix-c17.patch): the repaired code follows xv_exec_valid on them (carried by the tie, no
   class filters them any more); the deviations as they were (Exec/Known.v, the xk_old definitions) differ from the specification
   on the former witnesses: `{ f(j: {a: $u}) }` with `j: JSON` (an undefined variable inside an object literal
   written for a custom scalar was accepted) and `{ f(j: [null]) }` with `j: JSON!` (a null item in a list literal
   written for a non-null custom scalar was rejected). *)
Theorem C17_scalar_literal_old_refuted :
  (exists s d, xv_r_variables_defined s d = false /\ xv_exec_valid xv_apollo_params s d = false /\
               xk_old_r_variables_defined s d = true) /\
  (exists s d, xv_exec_valid xv_apollo_params s d = true /\ xk_old_r_values_correct_type s d = false).
Proof. exact kx_old_refuted. Qed.
Check C17_scalar_literal_old_refuted :
  (exists s d, xv_r_variables_defined s d = false /\ xv_exec_valid xv_apollo_params s d = false /\
               xk_old_r_variables_defined s d = true) /\
  (exists s d, xv_exec_valid xv_apollo_params s d = true /\ xk_old_r_values_correct_type s d = false).
Print Assumptions C17_scalar_literal_old_refuted.

(* A third repaired deviation (validation/operation.rs validate_subscription, fixes/fix2-c17-1.patch): the root
   selection set of a subscription was walked through inline fragments and named fragments whatever their type
   conditions.  The repaired code follows xv_exec_valid (CollectFields consults DoesFragmentTypeApply; apollo's
   own rule against @skip/@include at the root reads the same walk), carried by the tie with no class filtering
   it; the deviation as it was (Exec/Known.v: xk_old_r_subscription_single_root, xk_old_r_subscription_no_skip_include)
   differs from the specification on the former witness `subscription { b ... on I { ... on O { c } } }` (one root
   field, was rejected as two) and on `subscription { b ... on I { ...F } } fragment F on O { c @skip(if: true) }`. *)
Theorem C17_subscription_conditions_old_refuted :
  (exists s d, xv_exec_valid xv_apollo_params s d = true /\
               xk_old_r_subscription_single_root xv_apollo_params s d = false) /\
  (exists s d, xv_exec_valid xv_apollo_params s d = true /\
               xk_old_r_subscription_single_root xv_apollo_params s d = false /\
               xk_old_r_subscription_no_skip_include xv_apollo_params s d = false).
Proof. exact kx_subscription_old_refuted. Qed.
Check C17_subscription_conditions_old_refuted :
  (exists s d, xv_exec_valid xv_apollo_params s d = true /\
               xk_old_r_subscription_single_root xv_apollo_params s d = false) /\
  (exists s d, xv_exec_valid xv_apollo_params s d = true /\
               xk_old_r_subscription_single_root xv_apollo_params s d = false /\
               xk_old_r_subscription_no_skip_include xv_apollo_params s d = false).
Print Assumptions C17_subscription_conditions_old_refuted.

(* A fourth repaired deviation, D12d (validation/value.rs value_of_correct_type, fixes/fix2-c17-2.patch): a variable
   nested inside a list or input-object literal was compared with its position only by the innermost named type.
   The repaired code applies IsVariableUsageAllowed with the type of the list item / input field and the field's
   default, as xv_r_variable_usages_allowed does (carried by the tie, no class filters it any more).  The verdict as
   it was (Exec/Known.v: xk_old_exec_valid_nested_variable) accepted, against the specification, the former witness
   `query($v: [Int]) { f(j: [$v]) }` with `j: [Int]`, and `query($v: Int) { f(j: {x: $v}) }`,
   `query($v: Int = null) { f(j: {x: $v}) }` with `x: Int!`. *)
Theorem C17_nested_variable_old_refuted :
  (exists s d, xv_r_variable_usages_allowed s d = false /\ xv_exec_valid xv_apollo_params s d = false /\
               xk_old_exec_valid_nested_variable xv_apollo_params s d = true) /\
  (exists s d, xv_r_variable_usages_allowed s d = false /\ xv_exec_valid xv_apollo_params s d = false /\
               xk_old_exec_valid_nested_variable xv_apollo_params s d = true) /\
  (exists s d, xv_r_variable_usages_allowed s d = false /\ xv_exec_valid xv_apollo_params s d = false /\
               xk_old_exec_valid_nested_variable xv_apollo_params s d = true).
Proof. exact kx_nested_variable_old_refuted. Qed.
Check C17_nested_variable_old_refuted :
  (exists s d, xv_r_variable_usages_allowed s d = false /\ xv_exec_valid xv_apollo_params s d = false /\
               xk_old_exec_valid_nested_variable xv_apollo_params s d = true) /\
  (exists s d, xv_r_variable_usages_allowed s d = false /\ xv_exec_valid xv_apollo_params s d = false /\
               xk_old_exec_valid_nested_variable xv_apollo_params s d = true) /\
  (exists s d, xv_r_variable_usages_allowed s d = false /\ xv_exec_valid xv_apollo_params s d = false /\
               xk_old_exec_valid_nested_variable xv_apollo_params s d = true).
Print Assumptions C17_nested_variable_old_refuted.

(* ---------- non-vacuity and witnesses ---------- *)
Definition ex_A : str := [65]. Definition ex_B : str := [66]. Definition ex_C : str := [67].
Definition ex_Q : str := [81]. Definition ex_f : str := [102]. Definition ex_a : str := [97]. Definition ex_v : str := [118].
Definition ex_frags : list (str * xv_frag) :=
  [ (ex_A, (ex_Q, [], [SSpread ex_B []; SSpread ex_C []]));
    (ex_B, (ex_Q, [], [SSpread ex_C []]));
    (ex_C, (ex_Q, [], [SInline None [] [SSpread ex_A []]])) ].
(* A -> B -> C -> A: the walk from A marks C as seen inside B's exploration; the cycle is still found;
   anchored at a fragment that is on no cycle (D -> A) nothing is reported *)
Example C17_fragment_cycles_nonvacuous :
  fc_validate ex_frags fc_limit ex_A [SSpread ex_B []; SSpread ex_C []] = FcRecursed /\
  fc_validate ((([68] : str), (ex_Q, [], [SSpread ex_A []])) :: ex_frags) fc_limit [68] [SSpread ex_A []]
    = FcOk [ex_C; ex_B; ex_A].
Proof. vm_compute. split; reflexivity. Qed.

Example C17_same_value_nonvacuous :
  let o1 := VObject [(ex_a, ex_one); (ex_f, VList [ex_two; VNull])] in
  let o2 := VObject [(ex_f, VList [ex_two; VNull]); (ex_a, ex_one)] in
  xv_value_unique o1 = true /\ xv_value_unique o2 = true /\ mx_same_value o1 o2 = true /\ mx_same_value o2 o1 = true.
Proof. vm_compute. repeat split. Qed.

(* a small schema: scalar Int, type Query { f(a: [Int]): Int } *)
Definition ex_schema : schema :=
  {| sch_def := {| sd_desc := None; sd_dirs := []; sd_query := Some (mkcomp ODef ex_Q); sd_mutation := None;
                   sd_subscription := None |};
     sch_dirdefs := [];
     sch_types :=
       [ EScalar None xs_Int [] true;
         EObject None ex_Q [] []
           [ mkcomp ODef {| fd_desc := None; fd_name := ex_f;
                            fd_args := [ {| iv_desc := None; iv_name := ex_a; iv_ty := TList (TNamed xs_Int);
                                            iv_default := None; iv_dirs := [] |} ];
                            fd_ty := TNamed xs_Int; fd_dirs := [] |} ] false ] |}.
(* query($v: [Int]) { f(a: [$v]) } : the former class of D12d (repaired: C17_nested_variable_old_refuted) *)
Definition ex_doc_d12d : document :=
  [ DOperation OpQuery None [ {| v_name := ex_v; v_ty := TList (TNamed xs_Int); v_default := None; v_dirs := [] |} ] []
      [ SField None ex_f [ (ex_a, VList [VVar ex_v]) ] [] [] ] ].
Example C17_former_class_d12d_witness :
  xv_exec_valid xv_apollo_params ex_schema ex_doc_d12d = false /\
  xv_r_variable_usages_allowed ex_schema ex_doc_d12d = false /\
  xk_old_exec_valid_nested_variable xv_apollo_params ex_schema ex_doc_d12d = true /\
  xv_all_rules xv_apollo_params ex_schema
    [ DOperation OpQuery None [ {| v_name := ex_v; v_ty := TNamed xs_Int; v_default := None; v_dirs := [] |} ] []
        [ SField None ex_f [ (ex_a, VList [VVar ex_v]) ] [] [] ] ].
Proof. vm_compute. repeat split. Qed.

Example C17_first_vs_rest_nonvacuous :
  let mk args := {| mf_parent := ex_Q; mf_alias := None; mf_name := ex_f; mf_args := args; mf_dirs := [];
                    mf_def := xv_meta_typename_fd; mf_sub_ty := xs_String; mf_sub := [] |} in
  let g := [mk [(ex_a, ex_one); (ex_f, ex_two)]; mk [(ex_f, ex_two); (ex_a, ex_one)]] in
  mx_first_vs_rest mx_same_name_and_arguments g = true /\
  mx_first_vs_rest mx_same_name_and_arguments (g ++ [mk [(ex_a, ex_two)]]) = false /\
  (forall f, In f g -> args_wf f).
Proof.
  cbn zeta. split; [vm_compute; reflexivity|]. split; [vm_compute; reflexivity|].
  intros f [<-|[<-|[]]]; split; cbn [mf_args map fst].
  - repeat constructor; cbn; intuition discriminate.
  - intros k v [[= <- <-]|[[= <- <-]|[]]]; reflexivity.
  - repeat constructor; cbn; intuition discriminate.
  - intros k v [[= <- <-]|[[= <- <-]|[]]]; reflexivity.
Qed.

Example C17_xing_groups_nonvacuous :
  let mk p := {| mf_parent := p; mf_alias := None; mf_name := ex_f; mf_args := []; mf_dirs := [];
                 mf_def := xv_meta_typename_fd; mf_sub_ty := xs_String; mf_sub := [] |} in
  mx_group_by_common_parents ex_schema [mk ex_Q; mk ex_Q] = [[mk ex_Q; mk ex_Q]] /\
  xv_composite_name ex_schema ex_Q = true.
Proof. vm_compute. split; reflexivity. Qed.

(* ---------- non-vacuity of the field-merging equivalence ---------- *)
Definition ex_T : str := [84]. Definition ex_x : str := [120]. Definition ex_y : str := [121]. Definition ex_u : str := [117].
Definition ex_t : str := [116]. Definition ex_F : str := [70]. Definition ex_G : str := [71].
Definition ex_mkfd (n : str) (args : list inputvaldef) (t : ty) : comp fielddef :=
  mkcomp ODef {| fd_desc := None; fd_name := n; fd_args := args; fd_ty := t; fd_dirs := [] |}.
(* scalar Int, scalar String, type __Schema, type __Type, type T { x: Int  y: Int  u: T },
   type Query { f(a: [Int]): Int  t: T } *)
Definition ex2_schema : schema :=
  {| sch_def := {| sd_desc := None; sd_dirs := []; sd_query := Some (mkcomp ODef ex_Q); sd_mutation := None;
                   sd_subscription := None |};
     sch_dirdefs := [];
     sch_types :=
       [ EScalar None xs_Int [] true; EScalar None xs_String [] true;
         EObject None xs_Schema_ty [] [] [] true; EObject None xs_Type_ty [] [] [] true;
         EObject None ex_T [] [] [ ex_mkfd ex_x [] (TNamed xs_Int); ex_mkfd ex_y [] (TNamed xs_Int);
                                   ex_mkfd ex_u [] (TNamed ex_T) ] false;
         EObject None ex_Q [] []
           [ ex_mkfd ex_f [ {| iv_desc := None; iv_name := ex_a; iv_ty := TList (TNamed xs_Int); iv_default := None;
                               iv_dirs := [] |} ] (TNamed xs_Int);
             ex_mkfd ex_t [] (TNamed ex_T) ] false ] |}.

Example C17_ex2_schema_ok : xr_schema_ok ex2_schema.
Proof.
  split.
  - intros p n fd. unfold xv_lookup_field, sch_get_type, xv_is_query_root. cbn -[streq].
    repeat (match goal with |- context [streq ?a ?b] => destruct (streq a b) end; cbn -[streq]);
      intros H; try discriminate H; injection H as <-; eexists; split; vm_compute; auto.
  - intros op r. destruct op; vm_compute; intros H; try discriminate H. injection H as <-. reflexivity.
Qed.

(* query { t { a: x ...F } ...G }  fragment F on T { a: x u { y } }  fragment G on Query { t { u { y } } f(a: [1]) } *)
Definition ex2_doc_ok : document :=
  [ DOperation OpQuery None [] []
      [ SField None ex_t [] [] [ SField (Some ex_a) ex_x [] [] []; SSpread ex_F [] ]; SSpread ex_G [] ];
    DFragment ex_F ex_T [] [ SField (Some ex_a) ex_x [] [] []; SField None ex_u [] [] [ SField None ex_y [] [] [] ] ];
    DFragment ex_G ex_Q []
      [ SField None ex_t [] [] [ SField None ex_u [] [] [ SField None ex_y [] [] [] ] ];
        SField None ex_f [ (ex_a, VList [ex_one]) ] [] [] ] ].
(* the same with a conflict two levels down, between the two fragments: u { y } against u { y: x } *)
Definition ex2_doc_bad : document :=
  [ DOperation OpQuery None [] []
      [ SField None ex_t [] [] [ SField (Some ex_a) ex_x [] [] []; SSpread ex_F [] ]; SSpread ex_G [] ];
    DFragment ex_F ex_T [] [ SField (Some ex_a) ex_x [] [] []; SField None ex_u [] [] [ SField None ex_y [] [] [] ] ];
    DFragment ex_G ex_Q []
      [ SField None ex_t [] [] [ SField None ex_u [] [] [ SField (Some ex_y) ex_x [] [] [] ] ];
        SField None ex_f [ (ex_a, VList [ex_one]) ] [] [] ] ].

Definition ex2_hyps (d : document) : bool :=
  xv_r_fields_defined ex2_schema d && xv_r_leaf_selections ex2_schema d && xv_r_argument_unique ex2_schema d
  && xv_r_input_field_unique ex2_schema d && xv_r_fragment_type_exists ex2_schema d
  && xv_r_fragment_on_composite ex2_schema d && xv_r_root_operation_defined xv_apollo_params ex2_schema d
  && xv_r_fragment_name_unique d && xv_r_fragments_used d && xv_r_no_fragment_cycles d && xv_within_limits d.

(* both documents satisfy every hypothesis of C17_xing_equiv; the literal algorithm accepts the first and rejects
   the second, as the specification's rule does *)
Example C17_xing_equiv_nonvacuous :
  xr_schema_ok ex2_schema /\ ex2_hyps ex2_doc_ok = true /\ ex2_hyps ex2_doc_bad = true /\
  mx_document_ok ex2_schema ex2_doc_ok = Some true /\ xv_r_fields_merge ex2_schema ex2_doc_ok = true /\
  mx_document_ok ex2_schema ex2_doc_bad = Some false /\ xv_r_fields_merge ex2_schema ex2_doc_bad = false /\
  mxn_document ex2_schema ex2_doc_ok = Some (true, 2%nat).
Proof. split; [exact C17_ex2_schema_ok|]. vm_compute. repeat split. Qed.

(* expand_selections on a cyclic fragment map with a fragment spread twice: the queue walk visits F once, the
   in-place collection twice (and needs fuel); same members *)
Example C17_mx_expand_nonvacuous :
  let fd := xv_meta_typename_fd in
  let fr : list (str * mx_set) := [ (ex_F, (ex_T, [ MxField None ex_x [] [] fd xs_Int []; MxSpread ex_G [] ]));
                                    (ex_G, (ex_T, [ MxField None ex_y [] [] fd xs_Int [] ])) ] in
  let sets : list mx_set := [ (ex_T, [ MxSpread ex_F []; MxInline None [] ex_T [ MxSpread ex_F [] ] ]) ] in
  option_map (map mf_name) (mx_expand fr sets) = Some [ex_x; ex_y] /\
  option_map (map mf_name) (mxc_collect 3 fr ex_T (snd (hd (ex_T, []) sets))) = Some [ex_x; ex_y; ex_x; ex_y].
Proof. vm_compute. split; reflexivity. Qed.
