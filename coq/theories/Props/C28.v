(* C28 — Variable coercion follows the specification.
   Property theorems only: each closed by `exact <lemma>` (Run/CoerceTheorems.v, Run/CoerceProofs.v), pinned by
   Check, followed by Print Assumptions.

   coerce_variable_values : the model of input_coercion.rs (Run/Coerce.v)
   SpecVars               : CoerceVariableValues + Input Coercion of the GraphQL specification (Run/CoerceSpec.v);
                            order-free: it determines the result up to the order of object keys
   C28_wf                 : what validation and serde_json_bytes guarantee (input field names and variable names
                            unique, JSON object keys unique, integers within [-2^63, 2^64))
   known_default_not_coerced s vars : the decidable known class: some default value (of a variable of the
                            operation or of an input field of the schema) is not already in coerced form (D17)
   (the former second class edge_int — Float rejected +-(2^53-1), ID rejected integers in [2^63, 2^64) — was
   repaired in the code: `<=` and `is_u64`; the model follows the repaired code, C28_iff no longer excludes it) *)
From Coq Require Import ZArith String.
From ApolloVerif Require Import Base.Chars Ast.Ast Schema.Model Run.Json Run.Coerce
  Run.CoerceSpec Run.CoerceProofs Run.CoerceTheorems.
Local Open Scope string_scope.

(* coercion succeeds iff the specification's CoerceVariableValues succeeds, and its result is a result of the
   specification *)
Theorem C28_iff : forall s vars values, C28_wf s vars values -> known_default_not_coerced s vars = false ->
  ((exists r, coerce_variable_values s vars values = CvOk r) <-> (exists r, SpecVars s vars values r)) /\
  (forall r, coerce_variable_values s vars values = CvOk r -> SpecVars s vars values r).
Proof. exact c28_iff. Qed.
Check C28_iff : forall s vars values, C28_wf s vars values -> known_default_not_coerced s vars = false ->
  ((exists r, coerce_variable_values s vars values = CvOk r) <-> (exists r, SpecVars s vars values r)) /\
  (forall r, coerce_variable_values s vars values = CvOk r -> SpecVars s vars values r).
Print Assumptions C28_iff.

(* the fuel of the model is always sufficient *)
Theorem C28_total : forall s vars values, C28_wf s vars values ->
  coerce_variable_values s vars values <> CvOutOfFuel.
Proof. exact c28_total. Qed.
Check C28_total : forall s vars values, C28_wf s vars values ->
  coerce_variable_values s vars values <> CvOutOfFuel.
Print Assumptions C28_total.

(* the result contains exactly the provided or defaulted variables (in the order of the definitions) *)
Theorem C28_domain : forall s vars values r, cv_vars_wf vars = true ->
  coerce_variable_values s vars values = CvOk r ->
  jmap_keys r = map v_name (filter (cv_var_present values) vars).
Proof. exact c28_domain. Qed.
Check C28_domain : forall s vars values r, cv_vars_wf vars = true ->
  coerce_variable_values s vars values = CvOk r ->
  jmap_keys r = map v_name (filter (cv_var_present values) vars).
Print Assumptions C28_domain.

(* every value of the result conforms to the declared type of its variable: lists for list types, input object
   defaults filled in, required fields present, no unknown keys, scalars within their documented ranges *)
Theorem C28_conforms : forall s vars values r, C28_wf s vars values ->
  known_default_not_coerced s vars = false ->
  coerce_variable_values s vars values = CvOk r ->
  forall vd rv, In vd vars -> jmap_get (v_name vd) r = Some rv -> conforms_input s rv (v_ty vd) = true.
Proof. exact c28_conforms. Qed.
Check C28_conforms : forall s vars values r, C28_wf s vars values ->
  known_default_not_coerced s vars = false ->
  coerce_variable_values s vars values = CvOk r ->
  forall vd rv, In vd vars -> jmap_get (v_name vd) r = Some rv -> conforms_input s rv (v_ty vd) = true.
Print Assumptions C28_conforms.

(* The full statement (without the known_default_not_coerced hypothesis) is false of the faithful model.
   D17: default values are converted to JSON but never coerced (witness: ex_schema / ex_vars / {} of
   Run/CoerceTheorems.v, i.e. `query($a: [Int] = 1, $i: I = {y: 2})` with `input I {x: Int = 3, y: [Int]}`) *)
Theorem C28_default_refuted : exists s vars values r,
  C28_wf s vars values /\
  coerce_variable_values s vars values = CvOk r /\
  ~ SpecVars s vars values r /\
  (exists vd rv, In vd vars /\ jmap_get (v_name vd) r = Some rv /\ conforms_input s rv (v_ty vd) = false).
Proof. exact c28_default_refuted. Qed.
Check C28_default_refuted : exists s vars values r,
  C28_wf s vars values /\
  coerce_variable_values s vars values = CvOk r /\
  ~ SpecVars s vars values r /\
  (exists vd rv, In vd vars /\ jmap_get (v_name vd) r = Some rv /\ conforms_input s rv (v_ty vd) = false).
Print Assumptions C28_default_refuted.

(* the boundary integers (the former known class edge_int): the specification accepts +-(2^53-1) at Float and
   2^63, 2^64-1 at ID, and the code now accepts them unchanged (instances of C28_iff, kept as regression anchors) *)
Theorem C28_edge_accepted :
  ex_accepts "Float" j_max_safe_int /\ ex_accepts "Float" (- j_max_safe_int) /\
  ex_accepts "ID" j_two63 /\ ex_accepts "ID" (j_two64 - 1).
Proof. exact c28_edge_accepted. Qed.
Check C28_edge_accepted :
  ex_accepts "Float" j_max_safe_int /\ ex_accepts "Float" (- j_max_safe_int) /\
  ex_accepts "ID" j_two63 /\ ex_accepts "ID" (j_two64 - 1).
Print Assumptions C28_edge_accepted.

(* the behaviour before the repair, kept as cv_scalar_ok_old: the scalar tests rejected these three values that
   the specification accepts (the refuted witnesses of the former class), and the repair only accepts more *)
Theorem C28_edge_old_refuted :
  (SpecScalar rn_Float (JInt j_max_safe_int) /\ cv_scalar_ok_old rn_Float (JInt j_max_safe_int) = false) /\
  (SpecScalar rn_Float (JInt (- j_max_safe_int)) /\ cv_scalar_ok_old rn_Float (JInt (- j_max_safe_int)) = false) /\
  (SpecScalar rn_ID (JInt j_two63) /\ cv_scalar_ok_old rn_ID (JInt j_two63) = false) /\
  (forall n v, cv_scalar_ok_old n v = true -> cv_scalar_ok n v = true).
Proof. exact c28_edge_old_refuted. Qed.
Check C28_edge_old_refuted :
  (SpecScalar rn_Float (JInt j_max_safe_int) /\ cv_scalar_ok_old rn_Float (JInt j_max_safe_int) = false) /\
  (SpecScalar rn_Float (JInt (- j_max_safe_int)) /\ cv_scalar_ok_old rn_Float (JInt (- j_max_safe_int)) = false) /\
  (SpecScalar rn_ID (JInt j_two63) /\ cv_scalar_ok_old rn_ID (JInt j_two63) = false) /\
  (forall n v, cv_scalar_ok_old n v = true -> cv_scalar_ok n v = true).
Print Assumptions C28_edge_old_refuted.

(* non-vacuity: a concrete input meeting the hypotheses of the theorems, outside the known classes:
   query($a: [Int] = [1], $i: I, $f: Float!, $u: ID) with {"i": {"y": 5}, "f": 7} *)
Example C28_nonvacuous :
  C28_wf ex_schema nv_vars nv_values /\ known_default_not_coerced ex_schema nv_vars = false /\
  coerce_variable_values ex_schema nv_vars nv_values =
    CvOk [(ex_s "a", JArr [JInt 1]); (ex_s "i", JObj [(ex_s "y", JArr [JInt 5]); (ex_s "x", JInt 3)]);
          (ex_s "f", JInt 7)] /\
  coerce_variable_values ex_schema nv_vars [(ex_s "f", JStr (ex_s "7"))] = CvErr CvValueError.
Proof. repeat split; vm_compute; reflexivity. Qed.
