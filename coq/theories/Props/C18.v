(* C18 — Executable documents are typed consistently with the schema; the root-field and all-field
   iterators visit exactly the reachable fields, each named fragment once.
   Property theorems only: each closed by `exact <lemma>`, pinned by Check, followed by Print Assumptions.

   Models: Exec/FromAst.v (executable/from_ast.rs, Schema::type_field), Exec/Iter.v (root_fields /
   all_fields as stack machines; XiDfs the declarative walk; XiReach reachability).

   Not a theorem here (the validator with a schema has no model in this property; the sentence is checked
   on the implementation by the oracle of harness/src/c18.rs on every valid generated document):
     C18_valid_guarantees : exec_valid s d = true ->
        every spread names an existing fragment /\ spreads are acyclic /\ every used variable is defined /\
        composite fields have sub-selections and leaf fields have none. *)
From ApolloVerif Require Import Base.Chars Ast.Ast Schema.Model Exec.Doc Exec.FromAst Exec.Iter
  Exec.FromAstProofs Exec.IterProofs.

(* Every node of the document built from ANY AST against ANY schema (or none) — valid or not, with or
   without build errors — is typed as the property says (XwDoc, XwOp, XwFrag, XwSel in FromAstProofs.v):
   a field in a selection set of type T carries type_field(T, name) (the UNKNOWN definition without a
   schema) and its selection set has the inner named type of that definition; an inline fragment's
   selection set has its type condition, or T without one; a fragment has its type condition (a type of the
   schema); an operation has the schema's root type (the default name without a schema). *)
Theorem C18_field_definitions : forall s a d errs, xb_from_ast s a = (d, errs) -> XwDoc s a d.
Proof. intros s a d errs. exact (xb_document_typed s true a d errs). Qed.
Check C18_field_definitions : forall s a d errs, xb_from_ast s a = (d, errs) -> XwDoc s a d.
Print Assumptions C18_field_definitions.

(* the same for field sets (Parser::parse_field_set) *)
Theorem C18_field_set_definitions : forall s ty l out errs,
  xb_field_set s ty l = (out, errs) -> Forall (XwSel (Some s) ty) out.
Proof. exact xb_field_set_typed. Qed.
Check C18_field_set_definitions : forall s ty l out errs,
  xb_field_set s ty l = (out, errs) -> Forall (XwSel (Some s) ty) out.
Print Assumptions C18_field_set_definitions.

(* The iterators, on EVERY document (undefined and cyclic spreads included): the stack machine terminates
   within the fuel the model gives it and yields exactly the declarative pre-order walk that enters each
   named fragment at its first spread only; the walk exists and the function dfs_fields_once computes it. *)
Theorem C18_all_fields : forall d op, exists l seen',
  XiDfs true (xd_frags d) [] (xo_sels op) l seen' /\
  xi_all_fields d op = Some l /\ xi_dfs_fields_once true d (xo_sels op) = Some l.
Proof. exact xi_all_fields_spec. Qed.
Check C18_all_fields : forall d op, exists l seen',
  XiDfs true (xd_frags d) [] (xo_sels op) l seen' /\
  xi_all_fields d op = Some l /\ xi_dfs_fields_once true d (xo_sels op) = Some l.
Print Assumptions C18_all_fields.

Theorem C18_root_fields : forall d op, exists l seen',
  XiDfs false (xd_frags d) [] (xo_sels op) l seen' /\
  xi_root_fields d op = Some l /\ xi_dfs_fields_once false d (xo_sels op) = Some l.
Proof. exact xi_root_fields_spec. Qed.
Check C18_root_fields : forall d op, exists l seen',
  XiDfs false (xd_frags d) [] (xo_sels op) l seen' /\
  xi_root_fields d op = Some l /\ xi_dfs_fields_once false d (xo_sels op) = Some l.
Print Assumptions C18_root_fields.

(* the walk is a function of the document and the start list *)
Theorem C18_walk_deterministic : forall all frags seen l out1 s1 out2 s2,
  XiDfs all frags seen l out1 s1 -> XiDfs all frags seen l out2 s2 -> out1 = out2 /\ s1 = s2.
Proof. intros all frags seen l out1 s1 out2 s2 H1 H2. exact (xi_dfs_deterministic _ _ _ _ _ _ H1 _ _ H2). Qed.
Check C18_walk_deterministic : forall all frags seen l out1 s1 out2 s2,
  XiDfs all frags seen l out1 s1 -> XiDfs all frags seen l out2 s2 -> out1 = out2 /\ s1 = s2.
Print Assumptions C18_walk_deterministic.

(* The iterators visit exactly the reachable fields: f is yielded iff f is reachable from the operation's
   selection set through sub-selections (all_fields only), inline fragments and spreads of defined fragments
   (XiReach).  "Each named fragment once" is the definition of the walk XiDfs the iterators are equal to. *)
Theorem C18_all_fields_exactly_reachable : forall d op l,
  xi_all_fields d op = Some l -> forall f, In f l <-> XiReach true (xd_frags d) (xo_sels op) f.
Proof. intros d op l. exact (xi_iter_exactly_reachable true d (xo_sels op) l). Qed.
Check C18_all_fields_exactly_reachable : forall d op l,
  xi_all_fields d op = Some l -> forall f, In f l <-> XiReach true (xd_frags d) (xo_sels op) f.
Print Assumptions C18_all_fields_exactly_reachable.

Theorem C18_root_fields_exactly_reachable : forall d op l,
  xi_root_fields d op = Some l -> forall f, In f l <-> XiReach false (xd_frags d) (xo_sels op) f.
Proof. intros d op l. exact (xi_iter_exactly_reachable false d (xo_sels op) l). Qed.
Check C18_root_fields_exactly_reachable : forall d op l,
  xi_root_fields d op = Some l -> forall f, In f l <-> XiReach false (xd_frags d) (xo_sels op) f.
Print Assumptions C18_root_fields_exactly_reachable.

(* ---- non-vacuity: a schema, a document with a cyclic spread, an undefined field and meta-fields *)
Definition ex_Q : str := [81]. Definition ex_A : str := [65]. Definition ex_a : str := [97].
Definition ex_F : str := [70]. Definition ex_zz : str := [122;122].
Definition ex_fd (n : str) (t : ty) : comp fielddef :=
  mkcomp ODef {| fd_desc := None; fd_name := n; fd_args := []; fd_ty := t; fd_dirs := [] |}.
Definition ex_schema : schema :=
  {| sch_def := {| sd_desc := None; sd_dirs := []; sd_query := Some (mkcomp ODef ex_Q);
                   sd_mutation := None; sd_subscription := None |};
     sch_dirdefs := [];
     sch_types := [ EObject None ex_Q [] [] [ex_fd ex_a (TNamed ex_A)] false;
                    EObject None ex_A [] [] [ex_fd ex_a (TNonNullList (TNamed ex_A))] false;
                    EScalar None xn_String [] true;
                    EObject None xn_Schema [] [] [] true; EObject None xn_Type [] [] [] true ] |}.
(* { a { ...F zz } __schema { zz } }  fragment F on A { a { ...F __typename } } *)
Definition ex_doc : document :=
  [ DOperation OpQuery None [] []
      [ SField None ex_a [] [] [SSpread ex_F []; SField None ex_zz [] [] []];
        SField None xn_schema [] [] [SField None ex_zz [] [] []] ];
    DFragment ex_F ex_A [] [SField None ex_a [] [] [SSpread ex_F []; SField None xn_typename [] [] []]] ].

Example C18_nonvacuous :
  exists d errs op l,
    xb_from_ast (Some ex_schema) ex_doc = (d, errs) /\ length errs = 2%nat /\ XwDoc (Some ex_schema) ex_doc d /\
    xd_anon d = Some op /\ xi_all_fields d op = Some l /\ length l = 4%nat /\
    xi_root_fields d op <> xi_all_fields d op.
Proof.
  destruct (xb_from_ast (Some ex_schema) ex_doc) as [d errs] eqn:E.
  pose proof (C18_field_definitions _ _ _ _ E) as Hw.
  vm_compute in E. injection E as <- <-.
  eexists _, _, _, _. split; [reflexivity|]. split; [reflexivity|]. split; [exact Hw|].
  split; [reflexivity|]. split; [vm_compute; reflexivity|]. split; [reflexivity|].
  vm_compute. discriminate.
Qed.
