(* C18 — placeholder while the model is tied to the implementation; theorems follow. *)
From ApolloVerif Require Import Base.Chars Ast.Ast Schema.Model Exec.Doc Exec.FromAst Exec.Iter.

Theorem C18_placeholder : xd_ops xd_empty = [].
Proof. reflexivity. Qed.
Check C18_placeholder : xd_ops xd_empty = [].
Print Assumptions C18_placeholder.
