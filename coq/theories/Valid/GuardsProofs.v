(* Proofs about the guarded traversals of Valid/Guards.v.
   For every traversal T, every look-up function (graph) and every limit:
   - safe:   with fuel >= limit + 1 activations T never runs out of fuel (the guard bounds the activation
             depth by limit + 1) and never reaches a Panic (debug_assert! of push, usize underflow);
             on Ok the guard state is what it was on entry (every push is popped, every increment dropped);
   - mono:   more fuel does not change a result that is not GrFuel;
   - raise:  a result other than the limit error is the result under every larger limit with the same fuel
             (nothing was cut off: "never silently truncated"). *)
From ApolloVerif Require Import Base.Chars Ast.Ast Schema.Model Valid.Guards.

Local Open Scope nat_scope.

(* ------------------------------------------------------------------ RecursionStack facts *)

Definition stack_len (s : gd_stack) : nat := length (gds_seen s).

Lemma gd_push_ok s n s' :
  gd_push s n = GpOk s' ->
  gd_mem n (gds_seen s) = false /\ gds_seen s' = gds_seen s ++ [n] /\ gds_limit s' = gds_limit s /\
  S (stack_len s) <= N.to_nat (gds_limit s).
Proof.
  unfold gd_push, stack_len. destruct (gd_mem n (gds_seen s)); [discriminate|].
  destruct (N.ltb _ _) eqn:E; [discriminate|]. intros [= <-]. cbn.
  rewrite app_length in E. cbn [length] in E. repeat split; try reflexivity. lia.
Qed.

Lemma gd_push_panic s n : gd_push s n = GpPanic -> gd_mem n (gds_seen s) = true.
Proof.
  unfold gd_push. destruct (gd_mem n (gds_seen s)); [reflexivity|].
  destruct (N.ltb _ _); discriminate.
Qed.

Lemma gd_push_limit s n :
  gd_push s n = GpLimit -> N.to_nat (gds_limit s) < S (stack_len s).
Proof.
  unfold gd_push, stack_len. destruct (gd_mem n (gds_seen s)); [discriminate|].
  destruct (N.ltb _ _) eqn:E; [|discriminate]. intros _. rewrite app_length in E. cbn [length] in E. lia.
Qed.

Lemma gd_pop_after s n s2 :
  gds_seen s2 = gds_seen s ++ [n] -> gds_seen (gd_pop s2) = gds_seen s.
Proof. intros H. unfold gd_pop. cbn. rewrite H. apply removelast_last. Qed.

(* two stacks are alike when they hold the same names under the same limit (only `high` may differ) *)
Definition stack_like (a b : gd_stack) : Prop := gds_seen a = gds_seen b /\ gds_limit a = gds_limit b.

Lemma stack_like_refl a : stack_like a a. Proof. split; reflexivity. Qed.
Lemma stack_like_len a b : stack_like a b -> stack_len a = stack_len b.
Proof. intros [H _]. unfold stack_len. now rewrite H. Qed.

Lemma pop_like s n s1 s2 :
  gd_push s n = GpOk s1 -> stack_like s2 s1 -> stack_like (gd_pop s2) s.
Proof.
  intros Hp [Hs Hl]. destruct (gd_push_ok _ _ _ Hp) as (_ & Hseen & Hlim & _). split.
  - apply (gd_pop_after s n). now rewrite Hs.
  - unfold gd_pop. cbn. congruence.
Qed.

Lemma gd_contains_like a b n : stack_like a b -> gd_contains a n = gd_contains b n.
Proof. intros [H _]. unfold gd_contains. now rewrite H. Qed.
Lemma gd_first_is_like a b n : stack_like a b -> gd_first_is a n = gd_first_is b n.
Proof. intros [H _]. unfold gd_first_is. now rewrite H. Qed.

(* ------------------------------------------------------------------ fragment cycles *)

Section FragProofs.
  Variable look : str -> option (str * list str).
  (* document.fragments maps every name to the fragment of that name *)
  Hypothesis look_wf : forall s fname body, look s = Some (fname, body) -> fname = s.
  Variable limit : N.
  Let L := N.to_nat limit.

  Definition fr_res := gd_res (gd_stack * list str).

  Definition fr_safe (r : fr_res) (path : gd_stack) : Prop :=
    r <> GrPanic /\ r <> GrFuel /\ forall p s, r = GrOk (p, s) -> stack_like p path.

  Definition fr_rec_ok (k : nat) (rec : list str -> gd_stack -> list str -> fr_res) : Prop :=
    forall body path seen, gds_limit path = limit -> stack_len path <= L -> stack_len path + k >= L + 1 ->
                           fr_safe (rec body path seen) path.

  Lemma fr_safe_like r a b : stack_like a b -> fr_safe r a -> fr_safe r b.
  Proof.
    intros [H1 H2] (Hp & Hf & Hok). split; [exact Hp|split; [exact Hf|]].
    intros p0 s0 H0. destruct (Hok _ _ H0) as [X Y]. split; congruence.
  Qed.

  Ltac fr_triv := split; [discriminate|split; [discriminate|intros ? ? ?; discriminate]].

  Lemma frag_loop_safe k rec : fr_rec_ok k rec ->
    forall spreads path seen, gds_limit path = limit -> stack_len path + k >= L ->
                              fr_safe (gd_frag_loop look rec spreads path seen) path.
  Proof.
    intros Hrec. induction spreads as [|s rest IH]; intros path seen Hlim Hk; cbn [gd_frag_loop].
    - split; [discriminate|split; [discriminate|]]. intros p0 s0 H0. injection H0 as <- <-. apply stack_like_refl.
    - destruct (gd_contains path s) eqn:Ec.
      { destruct (gd_first_is path s); [fr_triv|now apply IH]. }
      destruct (gd_mem s seen); [now apply IH|].
      destruct (look s) as [[fname body]|] eqn:El; [|now apply IH].
      assert (fname = s) by (eapply look_wf; eauto). subst fname.
      destruct (gd_push path s) as [path1| |] eqn:Ep.
      + destruct (gd_push_ok _ _ _ Ep) as (_ & Hseen & Hl1 & Hle).
        assert (Hlen1 : stack_len path1 = S (stack_len path)).
        { unfold stack_len. rewrite Hseen, app_length. cbn. lia. }
        assert (Hsafe : fr_safe (rec body path1 (s :: seen)) path1).
        { apply Hrec; [congruence| |]; rewrite Hlen1; rewrite Hlim in Hle; fold L in Hle; lia. }
        destruct Hsafe as (Hnp & Hnf & Hok).
        destruct (rec body path1 (s :: seen)) as [[path2 seen2]| | | |] eqn:Er;
          try fr_triv; try congruence.
        assert (Hlike : stack_like (gd_pop path2) path) by (eapply pop_like; eauto).
        eapply fr_safe_like; [exact Hlike|]. apply IH.
        * destruct Hlike; congruence.
        * rewrite (stack_like_len _ _ Hlike). exact Hk.
      + fr_triv.
      + apply gd_push_panic in Ep. unfold gd_contains in Ec. congruence.
  Qed.

  Lemma frag_detect_rec_ok k : fr_rec_ok k (gd_frag_detect k look).
  Proof.
    induction k as [|k IH]; intros body path seen Hlim Hle Hk; [lia|].
    cbn [gd_frag_detect]. apply frag_loop_safe with (k := k); auto. lia.
  Qed.

  (* validate_fragment_cycles: limit activations (at least one) are enough *)
  Theorem frag_check_safe k name spreads : S k >= L ->
    fr_safe (gd_frag_check_with limit (S k) look name spreads)
            (gd_stack_with_limit (gd_stack_with_root name) limit).
  Proof.
    intros Hk. unfold gd_frag_check_with. cbn [gd_frag_detect].
    apply frag_loop_safe with (k := k); [apply frag_detect_rec_ok|reflexivity|].
    unfold stack_len. cbn. lia.
  Qed.

  (* more fuel does not change a result *)
  Lemma frag_loop_mono rec1 rec2 :
    (forall b p s r, rec1 b p s = r -> r <> GrFuel -> rec2 b p s = r) ->
    forall spreads path seen r, gd_frag_loop look rec1 spreads path seen = r -> r <> GrFuel ->
                                gd_frag_loop look rec2 spreads path seen = r.
  Proof.
    intros Hrec. induction spreads as [|s rest IH]; intros path seen r; cbn [gd_frag_loop]; [auto|].
    destruct (gd_contains path s); [destruct (gd_first_is path s); auto|].
    destruct (gd_mem s seen); auto.
    destruct (look s) as [[fname body]|]; auto.
    destruct (gd_push path fname) as [path1| |]; auto.
    destruct (rec1 body path1 (s :: seen)) as [[p2 s2]|tr| | |] eqn:E1; intros Hr Hnf.
    - rewrite (Hrec _ _ _ _ E1) by discriminate. now apply IH.
    - rewrite (Hrec _ _ _ _ E1) by discriminate. exact Hr.
    - rewrite (Hrec _ _ _ _ E1) by discriminate. exact Hr.
    - rewrite (Hrec _ _ _ _ E1) by discriminate. exact Hr.
    - congruence.
  Qed.

  Lemma frag_detect_mono k j spreads path seen r :
    gd_frag_detect k look spreads path seen = r -> r <> GrFuel ->
    gd_frag_detect (k + j) look spreads path seen = r.
  Proof.
    revert spreads path seen r. induction k as [|k IH]; intros spreads path seen r; cbn [gd_frag_detect plus].
    - intros <- H. congruence.
    - apply frag_loop_mono. intros b p s r0. apply IH.
  Qed.
End FragProofs.


(* ---- raise: a run under limit la and the same run under a larger limit lb (same fuel) *)

Definition raise_stacks (la lb : N) (p p' : gd_stack) : Prop :=
  gds_seen p = gds_seen p' /\ gds_limit p = la /\ gds_limit p' = lb.

Lemma push_raise la lb a b n : (la <= lb)%N -> raise_stacks la lb a b ->
  match gd_push a n with
  | GpOk a1 => exists b1, gd_push b n = GpOk b1 /\ raise_stacks la lb a1 b1
  | GpLimit => True
  | GpPanic => gd_push b n = GpPanic
  end.
Proof.
  unfold raise_stacks, gd_push. intros Hl (Hs & Ha & Hb). rewrite <- Hs.
  destruct (gd_mem n (gds_seen a)); [reflexivity|].
  destruct (N.ltb (gds_limit a) _) eqn:E; [exact I|].
  destruct (N.ltb (gds_limit b) _) eqn:E'; [lia|].
  eexists. split; [reflexivity|]. cbn. auto.
Qed.

Lemma pop_raise la lb a b : raise_stacks la lb a b -> raise_stacks la lb (gd_pop a) (gd_pop b).
Proof. unfold raise_stacks, gd_pop. intros (Hs & Ha & Hb). cbn. now rewrite Hs. Qed.

Section FragRaise.
  Variable look : str -> option (str * list str).
  Variables la lb : N.
  Hypothesis Hlab : (la <= lb)%N.

  Definition fr_raise_rel (r r' : fr_res) : Prop :=
    match r with
    | GrOk (p, s) => exists p', r' = GrOk (p', s) /\ raise_stacks la lb p p'
    | GrCycle tr => r' = GrCycle tr
    | GrPanic => r' = GrPanic
    | GrLimit | GrFuel => True
    end.

  Lemma frag_loop_raise rec rec' :
    (forall b p p' s, raise_stacks la lb p p' -> fr_raise_rel (rec b p s) (rec' b p' s)) ->
    forall spreads p p' s, raise_stacks la lb p p' ->
      fr_raise_rel (gd_frag_loop look rec spreads p s) (gd_frag_loop look rec' spreads p' s).
  Proof.
    intros Hrec. induction spreads as [|x rest IH]; intros p p' s Hr; cbn [gd_frag_loop].
    - cbn. eexists. split; [reflexivity|exact Hr].
    - assert (Ec : gd_contains p x = gd_contains p' x) by (unfold gd_contains; destruct Hr as [-> _]; reflexivity).
      assert (Ef : gd_first_is p x = gd_first_is p' x) by (unfold gd_first_is; destruct Hr as [-> _]; reflexivity).
      rewrite <- Ec, <- Ef.
      destruct (gd_contains p x); [destruct (gd_first_is p x); [reflexivity|now apply IH]|].
      destruct (gd_mem x s); [now apply IH|].
      destruct (look x) as [[fname body]|]; [|now apply IH].
      pose proof (push_raise la lb p p' fname Hlab Hr) as Hp.
      destruct (gd_push p fname) as [p1| |]; [|exact I|rewrite Hp; reflexivity].
      destruct Hp as (p1' & -> & Hr1).
      specialize (Hrec body p1 p1' (x :: s) Hr1).
      destruct (rec body p1 (x :: s)) as [[p2 s2]|tr| | |]; cbn in Hrec.
      + destruct Hrec as (p2' & -> & Hr2). apply IH. now apply pop_raise.
      + rewrite Hrec. reflexivity.
      + exact I.
      + rewrite Hrec. reflexivity.
      + exact I.
  Qed.

  Lemma frag_detect_raise k spreads p p' s : raise_stacks la lb p p' ->
    fr_raise_rel (gd_frag_detect k look spreads p s) (gd_frag_detect k look spreads p' s).
  Proof.
    revert spreads p p' s. induction k as [|k IH]; intros spreads p p' s Hr; cbn [gd_frag_detect]; [exact I|].
    apply frag_loop_raise; [|exact Hr]. intros b q q' s0 Hq. now apply IH.
  Qed.

  Theorem frag_check_raise k name spreads :
    fr_raise_rel (gd_frag_check_with la k look name spreads) (gd_frag_check_with lb k look name spreads).
  Proof. apply frag_detect_raise. repeat split. Qed.
End FragRaise.

(* ------------------------------------------------------------------ input-object cycles *)

Section InputProofs.
  Variable look : str -> option (list str).
  Variable limit : N.
  Let L := N.to_nat limit.

  Definition in_res := gd_res gd_stack.

  Definition in_safe (r : in_res) (seen : gd_stack) : Prop :=
    r <> GrPanic /\ r <> GrFuel /\ forall p, r = GrOk p -> stack_like p seen.

  Definition in_rec_ok (k : nat) (rec : list str -> gd_stack -> in_res) : Prop :=
    forall body seen, gds_limit seen = limit -> stack_len seen <= L -> stack_len seen + k >= L + 1 ->
                      in_safe (rec body seen) seen.

  Lemma in_safe_like r a b : stack_like a b -> in_safe r a -> in_safe r b.
  Proof.
    intros [H1 H2] (Hp & Hf & Hok). split; [exact Hp|split; [exact Hf|]].
    intros p0 H0. destruct (Hok _ H0) as [X Y]. split; congruence.
  Qed.

  Ltac in_triv := split; [discriminate|split; [discriminate|intros ? ?; discriminate]].

  Lemma input_loop_safe k rec : in_rec_ok k rec ->
    forall fields seen, gds_limit seen = limit -> stack_len seen + k >= L ->
                        in_safe (gd_input_loop look rec fields seen) seen.
  Proof.
    intros Hrec. induction fields as [|n rest IH]; intros seen Hlim Hk; cbn [gd_input_loop].
    - split; [discriminate|split; [discriminate|]]. intros p0 H0. injection H0 as <-. apply stack_like_refl.
    - destruct (gd_contains seen n) eqn:Ec; cbn [negb].
      { destruct (gd_first_is seen n); [in_triv|now apply IH]. }
      destruct (look n) as [body|] eqn:El; [|now apply IH].
      destruct (gd_push seen n) as [s1| |] eqn:Ep.
      + destruct (gd_push_ok _ _ _ Ep) as (_ & Hseen & Hl1 & Hle).
        assert (Hlen1 : stack_len s1 = S (stack_len seen)).
        { unfold stack_len. rewrite Hseen, app_length. cbn. lia. }
        assert (Hsafe : in_safe (rec body s1) s1).
        { apply Hrec; [congruence| |]; rewrite Hlen1; rewrite Hlim in Hle; fold L in Hle; lia. }
        destruct Hsafe as (Hnp & Hnf & Hok).
        destruct (rec body s1) as [s2| | | |] eqn:Er; try in_triv; try congruence.
        assert (Hlike : stack_like (gd_pop s2) seen) by (eapply pop_like; eauto).
        eapply in_safe_like; [exact Hlike|]. apply IH.
        * destruct Hlike; congruence.
        * rewrite (stack_like_len _ _ Hlike). exact Hk.
      + in_triv.
      + apply gd_push_panic in Ep. unfold gd_contains in Ec. congruence.
  Qed.

  Lemma input_detect_rec_ok k : in_rec_ok k (gd_input_detect k look).
  Proof.
    induction k as [|k IH]; intros body seen Hlim Hle Hk; [lia|].
    cbn [gd_input_detect]. apply input_loop_safe with (k := k); auto. lia.
  Qed.

  Theorem input_check_safe k name fields : S k >= L ->
    in_safe (gd_input_check_with limit (S k) look name fields)
            (gd_stack_with_limit (gd_stack_with_root name) limit).
  Proof.
    intros Hk. unfold gd_input_check_with. cbn [gd_input_detect].
    apply input_loop_safe with (k := k); [apply input_detect_rec_ok|reflexivity|].
    unfold stack_len. cbn. lia.
  Qed.

  Lemma input_loop_mono rec1 rec2 :
    (forall b p r, rec1 b p = r -> r <> GrFuel -> rec2 b p = r) ->
    forall fields seen r, gd_input_loop look rec1 fields seen = r -> r <> GrFuel ->
                          gd_input_loop look rec2 fields seen = r.
  Proof.
    intros Hrec. induction fields as [|n rest IH]; intros seen r; cbn [gd_input_loop]; [auto|].
    destruct (negb (gd_contains seen n)); [|destruct (gd_first_is seen n); auto].
    destruct (look n) as [body|]; auto.
    destruct (gd_push seen n) as [s1| |]; auto.
    destruct (rec1 body s1) as [s2|tr| | |] eqn:E1; intros Hr Hnf.
    - rewrite (Hrec _ _ _ E1) by discriminate. now apply IH.
    - rewrite (Hrec _ _ _ E1) by discriminate. exact Hr.
    - rewrite (Hrec _ _ _ E1) by discriminate. exact Hr.
    - rewrite (Hrec _ _ _ E1) by discriminate. exact Hr.
    - congruence.
  Qed.

  Lemma input_detect_mono k j fields seen r :
    gd_input_detect k look fields seen = r -> r <> GrFuel ->
    gd_input_detect (k + j) look fields seen = r.
  Proof.
    revert fields seen r. induction k as [|k IH]; intros fields seen r; cbn [gd_input_detect plus].
    - intros <- H. congruence.
    - apply input_loop_mono. intros b p r0. apply IH.
  Qed.
End InputProofs.

Section InputRaise.
  Variable look : str -> option (list str).
  Variables la lb : N.
  Hypothesis Hlab : (la <= lb)%N.

  Definition in_raise_rel (r r' : in_res) : Prop :=
    match r with
    | GrOk p => exists p', r' = GrOk p' /\ raise_stacks la lb p p'
    | GrCycle tr => r' = GrCycle tr
    | GrPanic => r' = GrPanic
    | GrLimit | GrFuel => True
    end.

  Lemma input_loop_raise rec rec' :
    (forall b p p', raise_stacks la lb p p' -> in_raise_rel (rec b p) (rec' b p')) ->
    forall fields p p', raise_stacks la lb p p' ->
      in_raise_rel (gd_input_loop look rec fields p) (gd_input_loop look rec' fields p').
  Proof.
    intros Hrec. induction fields as [|x rest IH]; intros p p' Hr; cbn [gd_input_loop].
    - cbn. eexists. split; [reflexivity|exact Hr].
    - assert (Ec : gd_contains p x = gd_contains p' x) by (unfold gd_contains; destruct Hr as [-> _]; reflexivity).
      assert (Ef : gd_first_is p x = gd_first_is p' x) by (unfold gd_first_is; destruct Hr as [-> _]; reflexivity).
      rewrite <- Ec, <- Ef.
      destruct (gd_contains p x); cbn [negb]; [destruct (gd_first_is p x); [reflexivity|now apply IH]|].
      destruct (look x) as [body|]; [|now apply IH].
      pose proof (push_raise la lb p p' x Hlab Hr) as Hp.
      destruct (gd_push p x) as [p1| |]; [|exact I|rewrite Hp; reflexivity].
      destruct Hp as (p1' & -> & Hr1).
      specialize (Hrec body p1 p1' Hr1).
      destruct (rec body p1) as [p2|tr| | |]; cbn in Hrec.
      + destruct Hrec as (p2' & -> & Hr2). apply IH. now apply pop_raise.
      + rewrite Hrec. reflexivity.
      + exact I.
      + rewrite Hrec. reflexivity.
      + exact I.
  Qed.

  Lemma input_detect_raise k fields p p' : raise_stacks la lb p p' ->
    in_raise_rel (gd_input_detect k look fields p) (gd_input_detect k look fields p').
  Proof.
    revert fields p p'. induction k as [|k IH]; intros fields p p' Hr; cbn [gd_input_detect]; [exact I|].
    apply input_loop_raise; [|exact Hr]. intros b q q' Hq. now apply IH.
  Qed.

  Theorem input_check_raise k name fields :
    in_raise_rel (gd_input_check_with la k look name fields) (gd_input_check_with lb k look name fields).
  Proof. apply input_detect_raise. repeat split. Qed.
End InputRaise.

(* ------------------------------------------------------------------ directive definition cycles *)

Definition gd_dir_only (items : list gd_item) : Prop :=
  Forall (fun it => match it with GiDir _ => True | GiType _ => False end) items.

Section DirProofs.
  Variable find_dir : str -> option (list gd_item).
  Variable find_type : str -> option (str * bool * list gd_item).
  (* a built-in type is not an input object: its definition only carries directive applications *)
  Hypothesis builtin_dir_only : forall t name body, find_type t = Some (name, true, body) -> gd_dir_only body.
  Variable limit : N.
  Let L := N.to_nat limit.

  Definition dr_res := gd_res (gd_stack * gd_stack).

  (* pushes still possible on the two stacks *)
  Definition dr_room (ds ts : gd_stack) : nat := (L - stack_len ds) + (L - stack_len ts).

  Definition dr_safe (r : dr_res) (ds ts : gd_stack) : Prop :=
    r <> GrPanic /\ r <> GrFuel /\ forall d t, r = GrOk (d, t) -> stack_like d ds /\ stack_like t ts.

  (* fuel needed by an activation over `items`: two per remaining push, one less if a built-in type's items *)
  Definition dr_enough (k : nat) (items : list gd_item) (ds ts : gd_stack) : Prop :=
    k >= 2 * dr_room ds ts + 2 \/ (gd_dir_only items /\ k >= 2 * dr_room ds ts + 1).

  Definition dr_rec_ok (k : nat) (rec : list gd_item -> gd_stack -> gd_stack -> dr_res) : Prop :=
    forall items ds ts, gds_limit ds = limit -> gds_limit ts = limit -> dr_enough k items ds ts ->
                        dr_safe (rec items ds ts) ds ts.

  Lemma dr_safe_like r a b a' b' : stack_like a a' -> stack_like b b' -> dr_safe r a b -> dr_safe r a' b'.
  Proof.
    intros [H1 H2] [H3 H4] (Hp & Hf & Hok). split; [exact Hp|split; [exact Hf|]].
    intros d t H0. destruct (Hok _ _ H0) as [[X Y] [Z W]]. repeat split; congruence.
  Qed.

  Ltac dr_triv := split; [discriminate|split; [discriminate|intros ? ? ?; discriminate]].

  Lemma dr_room_like a b a' b' : stack_like a a' -> stack_like b b' -> dr_room a b = dr_room a' b'.
  Proof. intros Ha Hb. unfold dr_room. now rewrite (stack_like_len _ _ Ha), (stack_like_len _ _ Hb). Qed.

  Lemma dir_loop_safe k rec : dr_rec_ok k rec ->
    forall items ds ts, gds_limit ds = limit -> gds_limit ts = limit -> dr_enough (S k) items ds ts ->
                        dr_safe (gd_dir_loop find_dir find_type rec items ds ts) ds ts.
  Proof.
    intros Hrec. induction items as [|it rest IH]; intros ds ts Hld Hlt Hen; cbn [gd_dir_loop].
    - split; [discriminate|split; [discriminate|]]. intros d t H0. injection H0 as <- <-.
      split; apply stack_like_refl.
    - assert (Hen_rest : dr_enough (S k) rest ds ts).
      { destruct Hen as [H|[Hd H]]; [left; exact H|right; split; [now inversion Hd|exact H]]. }
      destruct it as [d|t].
      + (* a directive application *)
        destruct (gd_contains ds d) eqn:Ec; cbn [negb].
        { destruct (gd_first_is ds d); [dr_triv|now apply IH]. }
        destruct (find_dir d) as [body|]; [|now apply IH].
        destruct (gd_push ds d) as [ds1| |] eqn:Ep.
        * destruct (gd_push_ok _ _ _ Ep) as (_ & Hseen & Hl1 & Hle).
          assert (Hlen1 : stack_len ds1 = S (stack_len ds)).
          { unfold stack_len. rewrite Hseen, app_length. cbn. lia. }
          assert (Hsafe : dr_safe (rec body ds1 ts) ds1 ts).
          { apply Hrec; [congruence|exact Hlt|]. left. unfold dr_enough, dr_room in *. rewrite Hlen1.
            rewrite Hld in Hle. unfold L in *. destruct Hen as [H|[_ H]]; lia. }
          destruct Hsafe as (Hnp & Hnf & Hok).
          destruct (rec body ds1 ts) as [[ds2 ts2]| | | |] eqn:Er; try dr_triv; try congruence.
          destruct (Hok _ _ eq_refl) as [Hd2 Ht2].
          assert (Hlike : stack_like (gd_pop ds2) ds) by (eapply pop_like; eauto).
          eapply dr_safe_like; [exact Hlike|exact Ht2|]. apply IH.
          -- destruct Hlike; congruence.
          -- destruct Ht2; congruence.
          -- unfold dr_enough. rewrite (dr_room_like _ _ _ _ Hlike Ht2). exact Hen_rest.
        * dr_triv.
        * apply gd_push_panic in Ep. unfold gd_contains in Ec. congruence.
      + (* the type of an input value: only in general items *)
        assert (Hgen : S k >= 2 * dr_room ds ts + 2).
        { destruct Hen as [H|[Hd _]]; [exact H|]. inversion Hd as [|? ? F _]; subst. destruct F. }
        destruct (find_type t) as [[[tname built_in] body]|] eqn:Ef; [|now apply IH].
        destruct (gd_contains ts tname) eqn:Ec; [now apply IH|].
        destruct built_in; cbn [negb].
        * (* built-in: no push, the body has only directive applications *)
          assert (Hsafe : dr_safe (rec body ds ts) ds ts).
          { apply Hrec; [exact Hld|exact Hlt|]. right. split; [eapply builtin_dir_only; eauto|].
            unfold dr_room in *. lia. }
          destruct Hsafe as (Hnp & Hnf & Hok).
          destruct (rec body ds ts) as [[ds2 ts2]| | | |] eqn:Er; try dr_triv; try congruence.
          destruct (Hok _ _ eq_refl) as [Hd2 Ht2].
          eapply dr_safe_like; [exact Hd2|exact Ht2|]. apply IH.
          -- destruct Hd2; congruence.
          -- destruct Ht2; congruence.
          -- unfold dr_enough. rewrite (dr_room_like _ _ _ _ Hd2 Ht2). exact Hen_rest.
        * destruct (gd_push ts tname) as [ts1| |] eqn:Ep.
          -- destruct (gd_push_ok _ _ _ Ep) as (_ & Hseen & Hl1 & Hle).
             assert (Hlen1 : stack_len ts1 = S (stack_len ts)).
             { unfold stack_len. rewrite Hseen, app_length. cbn. lia. }
             assert (Hsafe : dr_safe (rec body ds ts1) ds ts1).
             { apply Hrec; [exact Hld|congruence|]. left. unfold dr_room in *. rewrite Hlen1.
               rewrite Hlt in Hle. unfold L in *. lia. }
             destruct Hsafe as (Hnp & Hnf & Hok).
             destruct (rec body ds ts1) as [[ds2 ts2]| | | |] eqn:Er; try dr_triv; try congruence.
             destruct (Hok _ _ eq_refl) as [Hd2 Ht2].
             assert (Hlike : stack_like (gd_pop ts2) ts) by (eapply pop_like; eauto).
             eapply dr_safe_like; [exact Hd2|exact Hlike|]. apply IH.
             ++ destruct Hd2; congruence.
             ++ destruct Hlike; congruence.
             ++ unfold dr_enough. rewrite (dr_room_like _ _ _ _ Hd2 Hlike). exact Hen_rest.
          -- dr_triv.
          -- apply gd_push_panic in Ep. unfold gd_contains in Ec. congruence.
  Qed.

  Lemma dir_detect_rec_ok k : dr_rec_ok k (gd_dir_detect k find_dir find_type).
  Proof.
    induction k as [|k IH]; intros items ds ts Hld Hlt Hen.
    - destruct Hen as [H|[_ H]]; lia.
    - cbn [gd_dir_detect]. apply dir_loop_safe with (k := k); auto.
  Qed.

  (* FindRecursiveDirective::check: 4 * limit + 2 activations are enough *)
  Theorem dir_check_safe k name items : k >= 4 * L + 2 ->
    dr_safe (gd_dir_check_with limit k find_dir find_type name items)
            (gd_stack_with_limit (gd_stack_with_root name) limit) (gd_stack_with_limit gd_stack_new limit).
  Proof.
    intros Hk. unfold gd_dir_check_with. apply dir_detect_rec_ok; [reflexivity|reflexivity|].
    left. unfold dr_room, stack_len. cbn [gd_stack_with_limit gd_stack_with_root gd_stack_new gds_seen length].
    lia.
  Qed.

  Lemma dir_loop_mono rec1 rec2 :
    (forall b p q r, rec1 b p q = r -> r <> GrFuel -> rec2 b p q = r) ->
    forall items ds ts r, gd_dir_loop find_dir find_type rec1 items ds ts = r -> r <> GrFuel ->
                          gd_dir_loop find_dir find_type rec2 items ds ts = r.
  Proof.
    intros Hrec. induction items as [|it rest IH]; intros ds ts r; cbn [gd_dir_loop]; [auto|].
    destruct it as [d|t].
    - destruct (negb (gd_contains ds d)); [|destruct (gd_first_is ds d); auto].
      destruct (find_dir d) as [body|]; auto.
      destruct (gd_push ds d) as [ds1| |]; auto.
      destruct (rec1 body ds1 ts) as [[p2 q2]|tr| | |] eqn:E1; intros Hr Hnf;
        try (rewrite (Hrec _ _ _ _ E1) by discriminate; auto); congruence.
    - destruct (find_type t) as [[[tname built_in] body]|]; auto.
      destruct (gd_contains ts tname); auto.
      destruct (negb built_in).
      + destruct (gd_push ts tname) as [ts1| |]; auto.
        destruct (rec1 body ds ts1) as [[p2 q2]|tr| | |] eqn:E1; intros Hr Hnf;
          try (rewrite (Hrec _ _ _ _ E1) by discriminate; auto); congruence.
      + destruct (rec1 body ds ts) as [[p2 q2]|tr| | |] eqn:E1; intros Hr Hnf;
          try (rewrite (Hrec _ _ _ _ E1) by discriminate; auto); congruence.
  Qed.

  Lemma dir_detect_mono k j items ds ts r :
    gd_dir_detect k find_dir find_type items ds ts = r -> r <> GrFuel ->
    gd_dir_detect (k + j) find_dir find_type items ds ts = r.
  Proof.
    revert items ds ts r. induction k as [|k IH]; intros items ds ts r; cbn [gd_dir_detect plus].
    - intros <- H. congruence.
    - apply dir_loop_mono. intros b p q r0. apply IH.
  Qed.
End DirProofs.

Section DirRaise.
  Variable find_dir : str -> option (list gd_item).
  Variable find_type : str -> option (str * bool * list gd_item).
  Variables la lb : N.
  Hypothesis Hlab : (la <= lb)%N.

  Definition dr_raise_rel (r r' : dr_res) : Prop :=
    match r with
    | GrOk (d, t) => exists d' t', r' = GrOk (d', t') /\ raise_stacks la lb d d' /\ raise_stacks la lb t t'
    | GrCycle tr => r' = GrCycle tr
    | GrPanic => r' = GrPanic
    | GrLimit | GrFuel => True
    end.

  Lemma dir_loop_raise rec rec' :
    (forall b p p' q q', raise_stacks la lb p p' -> raise_stacks la lb q q' ->
                         dr_raise_rel (rec b p q) (rec' b p' q')) ->
    forall items p p' q q', raise_stacks la lb p p' -> raise_stacks la lb q q' ->
      dr_raise_rel (gd_dir_loop find_dir find_type rec items p q) (gd_dir_loop find_dir find_type rec' items p' q').
  Proof.
    intros Hrec. induction items as [|it rest IH]; intros p p' q q' Hp Hq; cbn [gd_dir_loop].
    - cbn. eexists. eexists. split; [reflexivity|split; assumption].
    - destruct it as [d|t].
      + assert (Ec : gd_contains p d = gd_contains p' d) by (unfold gd_contains; destruct Hp as [-> _]; reflexivity).
        assert (Ef : gd_first_is p d = gd_first_is p' d) by (unfold gd_first_is; destruct Hp as [-> _]; reflexivity).
        rewrite <- Ec, <- Ef.
        destruct (gd_contains p d); cbn [negb]; [destruct (gd_first_is p d); [reflexivity|now apply IH]|].
        destruct (find_dir d) as [body|]; [|now apply IH].
        pose proof (push_raise la lb p p' d Hlab Hp) as Hpush.
        destruct (gd_push p d) as [p1| |]; [|exact I|rewrite Hpush; reflexivity].
        destruct Hpush as (p1' & -> & Hp1).
        specialize (Hrec body p1 p1' q q' Hp1 Hq).
        destruct (rec body p1 q) as [[p2 q2]|tr| | |]; cbn in Hrec.
        * destruct Hrec as (p2' & q2' & -> & Hp2 & Hq2). apply IH; [now apply pop_raise|exact Hq2].
        * rewrite Hrec. reflexivity.
        * exact I.
        * rewrite Hrec. reflexivity.
        * exact I.
      + destruct (find_type t) as [[[tname built_in] body]|]; [|now apply IH].
        assert (Ec : gd_contains q tname = gd_contains q' tname)
          by (unfold gd_contains; destruct Hq as [-> _]; reflexivity).
        rewrite <- Ec. destruct (gd_contains q tname); [now apply IH|].
        destruct (negb built_in).
        * pose proof (push_raise la lb q q' tname Hlab Hq) as Hpush.
          destruct (gd_push q tname) as [q1| |]; [|exact I|rewrite Hpush; reflexivity].
          destruct Hpush as (q1' & -> & Hq1).
          specialize (Hrec body p p' q1 q1' Hp Hq1).
          destruct (rec body p q1) as [[p2 q2]|tr| | |]; cbn in Hrec.
          -- destruct Hrec as (p2' & q2' & -> & Hp2 & Hq2). apply IH; [exact Hp2|now apply pop_raise].
          -- rewrite Hrec. reflexivity.
          -- exact I.
          -- rewrite Hrec. reflexivity.
          -- exact I.
        * specialize (Hrec body p p' q q' Hp Hq).
          destruct (rec body p q) as [[p2 q2]|tr| | |]; cbn in Hrec.
          -- destruct Hrec as (p2' & q2' & -> & Hp2 & Hq2). now apply IH.
          -- rewrite Hrec. reflexivity.
          -- exact I.
          -- rewrite Hrec. reflexivity.
          -- exact I.
  Qed.

  Lemma dir_detect_raise k items p p' q q' : raise_stacks la lb p p' -> raise_stacks la lb q q' ->
    dr_raise_rel (gd_dir_detect k find_dir find_type items p q) (gd_dir_detect k find_dir find_type items p' q').
  Proof.
    revert items p p' q q'. induction k as [|k IH]; intros items p p' q q' Hp Hq; cbn [gd_dir_detect]; [exact I|].
    apply dir_loop_raise; auto.
  Qed.

  Theorem dir_check_raise k name items :
    dr_raise_rel (gd_dir_check_with la k find_dir find_type name items)
                 (gd_dir_check_with lb k find_dir find_type name items).
  Proof. apply dir_detect_raise; repeat split. Qed.
End DirRaise.

(* ------------------------------------------------------------------ the DepthCounter walks *)

Section WalkProofs.
  Variable frags : str -> option (list selection).
  Variable m : gd_mode.
  Variable limit : N.
  Let L := N.to_nat limit.

  (* the counter comes back with value v under the same limit *)
  Definition wk_safe (r : gd_wres) (v : N) : Prop :=
    snd r <> GrPanic /\ snd r <> GrFuel /\
    forall c s, snd r = GrOk (c, s) -> gdc_value c = v /\ gdc_limit c = limit.

  Definition wk_rec_ok (k : nat) (rec : list selection -> gd_counter -> list str -> N -> gd_wres) : Prop :=
    forall sub c seen acc, gdc_limit c = limit -> (gdc_value c <= limit)%N ->
                           N.to_nat (gdc_value c) + k >= L + 1 ->
                           wk_safe (rec sub c seen acc) (gdc_value c - 1)%N.

  Ltac wk_triv := split; [discriminate|split; [discriminate|intros ? ? ?; discriminate]].

  Lemma walk_call_safe k rec : wk_rec_ok k rec ->
    forall sub c seen acc, gdc_limit c = limit -> N.to_nat (gdc_value c) + k >= L ->
                           wk_safe (gd_walk_call rec sub c seen acc) (gdc_value c).
  Proof.
    intros Hrec sub c seen acc Hlim Hk. unfold gd_walk_call, gd_increment.
    destruct (N.ltb (gdc_limit c) (gdc_value c + 1)) eqn:E; cbn [negb].
    - cbn. wk_triv.
    - match goal with |- wk_safe (rec sub ?c1 seen acc) _ => pose proof (Hrec sub c1 seen acc) as H end.
      cbn [gdc_value gdc_limit] in H. replace (gdc_value c + 1 - 1)%N with (gdc_value c) in H by lia.
      apply H; [exact Hlim| |]; unfold L in *; lia.
  Qed.

  Lemma walk_loop_safe k rec : wk_rec_ok k rec ->
    forall sels c seen acc, gdc_limit c = limit -> N.to_nat (gdc_value c) + k >= L ->
                            wk_safe (gd_walk_loop frags m rec sels c seen acc) (gdc_value c).
  Proof.
    intros Hrec. induction sels as [|s rest IH]; intros c seen acc Hlim Hk; cbn [gd_walk_loop].
    - split; [discriminate|split; [discriminate|]]. cbn. intros c0 s0 H0. injection H0 as <- <-. auto.
    - destruct (gm_skip m && gd_may_be_excluded (gd_sel_dirs s)); [now apply IH|].
      assert (Hcall : forall sub sn a,
                 wk_safe (match gd_walk_call rec sub c sn a with
                          | (acc', GrOk (c', seen')) => gd_walk_loop frags m rec rest c' seen' acc'
                          | r => r
                          end) (gdc_value c)).
      { intros sub sn a. pose proof (walk_call_safe k rec Hrec sub c sn a Hlim Hk) as (Hp & Hf & Hok).
        destruct (gd_walk_call rec sub c sn a) as [acc' [[c' seen']| | | |]]; cbn [snd] in *;
          try wk_triv; try congruence.
        destruct (Hok _ _ eq_refl) as [Hv Hl]. rewrite <- Hv. apply IH; [exact Hl|]. rewrite Hv. exact Hk. }
      destruct s as [al nm args dirs sub|nm dirs|cond dirs sub].
      + destruct (gm_fields m); [apply Hcall|now apply IH].
      + destruct (gm_spreads m); [|now apply IH].
        destruct (gd_mem nm seen); [now apply IH|].
        destruct (frags nm) as [body|]; [apply Hcall|now apply IH].
      + apply Hcall.
  Qed.

  Lemma walk_body_safe k rec : wk_rec_ok k rec ->
    forall sels c seen acc, gdc_limit c = limit -> N.to_nat (gdc_value c) + k >= L ->
                            wk_safe (gd_walk_body frags m rec sels c seen acc) (gdc_value c - 1)%N.
  Proof.
    intros Hrec sels c seen acc Hlim Hk. unfold gd_walk_body.
    pose proof (walk_loop_safe k rec Hrec sels c seen acc Hlim Hk) as (Hp & Hf & Hok).
    destruct (gd_walk_loop frags m rec sels c seen acc) as [acc' [[c' seen']| | | |]]; cbn [snd] in *;
      try wk_triv; try congruence.
    destruct (Hok _ _ eq_refl) as [Hv Hl].
    split; [discriminate|split; [discriminate|]]. cbn. intros c0 s0 H0. injection H0 as <- <-.
    cbn. split; [now rewrite Hv|exact Hl].
  Qed.

  Lemma walk_rec_ok k : wk_rec_ok k (gd_walk k frags m).
  Proof.
    induction k as [|k IH]; intros sub c seen acc Hlim Hle Hk; [unfold L in *; lia|].
    cbn [gd_walk]. apply walk_body_safe with (k := k); auto. lia.
  Qed.

  (* limit + 1 activations are enough *)
  Theorem walk_top_safe k sels : k >= L ->
    wk_safe (gd_walk_top_with limit (S k) frags m sels) 0%N.
  Proof.
    intros Hk. unfold gd_walk_top_with. cbn [gd_walk].
    change 0%N with (gdc_value (gd_counter_with_limit gd_counter_new limit) - 1)%N.
    apply walk_body_safe with (k := k); [apply walk_rec_ok|reflexivity|]. cbn. lia.
  Qed.

  Lemma walk_loop_mono rec1 rec2 :
    (forall b c s a r, rec1 b c s a = r -> snd r <> GrFuel -> rec2 b c s a = r) ->
    forall sels c seen acc r, gd_walk_loop frags m rec1 sels c seen acc = r -> snd r <> GrFuel ->
                              gd_walk_loop frags m rec2 sels c seen acc = r.
  Proof.
    intros Hrec. induction sels as [|s rest IH]; intros c seen acc r; cbn [gd_walk_loop]; [auto|].
    destruct (gm_skip m && gd_may_be_excluded (gd_sel_dirs s)); [apply IH|].
    assert (Hcall : forall sub sn a r0,
               match gd_walk_call rec1 sub c sn a with
               | (acc', GrOk (c', seen')) => gd_walk_loop frags m rec1 rest c' seen' acc'
               | r1 => r1
               end = r0 -> snd r0 <> GrFuel ->
               match gd_walk_call rec2 sub c sn a with
               | (acc', GrOk (c', seen')) => gd_walk_loop frags m rec2 rest c' seen' acc'
               | r1 => r1
               end = r0).
    { intros sub sn a r0. unfold gd_walk_call. destruct (gd_increment c) as [c1 ok]. destruct ok; [|auto].
      destruct (rec1 sub c1 sn a) as [acc' res] eqn:E1.
      destruct res as [[c' seen']|tr| | |]; intros Hr Hnf;
        try (rewrite (Hrec _ _ _ _ _ E1) by (cbn; discriminate); auto).
      subst r0. cbn in Hnf. congruence. }
    destruct s as [al nm args dirs sub|nm dirs|cond dirs sub].
    - destruct (gm_fields m); [apply Hcall|apply IH].
    - destruct (gm_spreads m); [|apply IH]. destruct (gd_mem nm seen); [apply IH|].
      destruct (frags nm); [apply Hcall|apply IH].
    - apply Hcall.
  Qed.

  Lemma walk_mono k j sels c seen acc r :
    gd_walk k frags m sels c seen acc = r -> snd r <> GrFuel ->
    gd_walk (k + j) frags m sels c seen acc = r.
  Proof.
    revert sels c seen acc r. induction k as [|k IH]; intros sels c seen acc r; cbn [gd_walk plus].
    - intros <- H. cbn in H. congruence.
    - unfold gd_walk_body. intros Hr Hnf.
      destruct (gd_walk_loop frags m (gd_walk k frags m) sels c seen acc) as [acc' res] eqn:E.
      assert (Hnf' : snd (acc', res) <> GrFuel).
      { destruct res; subst r; cbn in *; congruence. }
      rewrite (walk_loop_mono _ _ (fun b c0 s a r0 => IH b c0 s a r0) _ _ _ _ _ E Hnf'). exact Hr.
  Qed.
End WalkProofs.

Section WalkRaise.
  Variable frags : str -> option (list selection).
  Variable m : gd_mode.
  Variables la lb : N.
  Hypothesis Hlab : (la <= lb)%N.

  Definition raise_counters (c c' : gd_counter) : Prop :=
    gdc_value c = gdc_value c' /\ gdc_limit c = la /\ gdc_limit c' = lb.

  (* the visit count is the same up to the point where the lower limit stops the walk *)
  Definition wk_raise_rel (r r' : gd_wres) : Prop :=
    match snd r with
    | GrOk (c, s) => exists c', r' = (fst r, GrOk (c', s)) /\ raise_counters c c'
    | GrCycle tr => True
    | GrPanic => snd r' = GrPanic
    | GrLimit | GrFuel => True
    end.

  Lemma walk_loop_raise rec rec' :
    (forall b c c' s a, raise_counters c c' -> wk_raise_rel (rec b c s a) (rec' b c' s a)) ->
    forall sels c c' s a, raise_counters c c' ->
      wk_raise_rel (gd_walk_loop frags m rec sels c s a) (gd_walk_loop frags m rec' sels c' s a).
  Proof.
    intros Hrec. induction sels as [|x rest IH]; intros c c' s a Hc; cbn [gd_walk_loop].
    - cbn. eexists. split; [reflexivity|exact Hc].
    - destruct (gm_skip m && gd_may_be_excluded (gd_sel_dirs x)); [now apply IH|].
      assert (Hcall : forall sub sn a0,
                 wk_raise_rel (match gd_walk_call rec sub c sn a0 with
                               | (acc', GrOk (c1, seen')) => gd_walk_loop frags m rec rest c1 seen' acc'
                               | r => r
                               end)
                              (match gd_walk_call rec' sub c' sn a0 with
                               | (acc', GrOk (c1, seen')) => gd_walk_loop frags m rec' rest c1 seen' acc'
                               | r => r
                               end)).
      { intros sub sn a0. unfold gd_walk_call, gd_increment. destruct Hc as (Hv & Hla & Hlb).
        rewrite <- Hv, Hla, Hlb.
        destruct (N.ltb la (gdc_value c + 1)) eqn:E; cbn [negb]; [exact I|].
        destruct (N.ltb lb (gdc_value c + 1)) eqn:E'; [lia|]. cbn [negb].
        match goal with |- context [rec sub ?c1 sn a0] =>
          match goal with |- context [rec' sub ?c1' sn a0] =>
            assert (Hc1 : raise_counters c1 c1') by (repeat split; cbn; auto);
            pose proof (Hrec sub c1 c1' sn a0 Hc1) as Hr;
            destruct (rec sub c1 sn a0) as [acc1 res1]; destruct (rec' sub c1' sn a0) as [acc1' res1']
          end end.
        unfold wk_raise_rel in Hr. cbn [fst snd] in Hr.
        destruct res1 as [[c2 s2]|tr| | |].
        - destruct Hr as (c2' & [= -> ->] & Hc2). now apply IH.
        - exact I.
        - exact I.
        - unfold wk_raise_rel. cbn [snd] in *. subst res1'. reflexivity.
        - exact I. }
      destruct x as [al nm args dirs sub|nm dirs|cond dirs sub].
      + destruct (gm_fields m); [apply Hcall|now apply IH].
      + destruct (gm_spreads m); [|now apply IH]. destruct (gd_mem nm s); [now apply IH|].
        destruct (frags nm); [apply Hcall|now apply IH].
      + apply Hcall.
  Qed.

  Lemma walk_raise k sels c c' s a : raise_counters c c' ->
    wk_raise_rel (gd_walk k frags m sels c s a) (gd_walk k frags m sels c' s a).
  Proof.
    revert sels c c' s a. induction k as [|k IH]; intros sels c c' s a Hc; cbn [gd_walk]; [exact I|].
    unfold gd_walk_body.
    pose proof (walk_loop_raise _ _ (fun b c0 c0' s0 a0 H => IH b c0 c0' s0 a0 H) sels c c' s a Hc) as Hr.
    destruct (gd_walk_loop frags m (gd_walk k frags m) sels c s a) as [acc1 res1].
    destruct (gd_walk_loop frags m (gd_walk k frags m) sels c' s a) as [acc1' res1'].
    unfold wk_raise_rel in *. cbn [fst snd] in *.
    destruct res1 as [[c2 s2]|tr| | |]; auto.
    - destruct Hr as (c2' & [= -> ->] & (Hv & Ha & Hb)). eexists. split; [reflexivity|].
      unfold raise_counters, gd_guard_drop. cbn. rewrite Hv. auto.
    - rewrite Hr. reflexivity.
  Qed.

  Theorem walk_top_raise k sels :
    wk_raise_rel (gd_walk_top_with la k frags m sels) (gd_walk_top_with lb k frags m sels).
  Proof. apply walk_raise. repeat split. Qed.
End WalkRaise.

(* ------------------------------------------------------------------ field merging (LimitTracker) *)

Section MergeProofs.
  Variable children : str -> list str.
  Variable limit : N.
  Let L := N.to_nat limit.

  Definition mg_res := gd_res (gd_tracker * list str).

  (* balanced: `current` is what it was; `high` never decreases *)
  Definition mg_safe (r : mg_res) (t : gd_tracker) : Prop :=
    r <> GrPanic /\ r <> GrFuel /\ r <> GrLimit /\ (forall tr, r <> GrCycle tr) /\
    forall t' memo', r = GrOk (t', memo') ->
      gdt_current t' = gdt_current t /\ gdt_limit t' = gdt_limit t /\ (gdt_high t <= gdt_high t')%N.

  Definition mg_rec_ok (k : nat) (rec : str -> gd_tracker -> list str -> mg_res) : Prop :=
    forall node t memo, gdt_limit t = limit -> (gdt_current t <= limit)%N ->
                        N.to_nat (gdt_current t) + k >= L + 1 -> mg_safe (rec node t memo) t.

  Ltac mg_ok := split; [discriminate|split; [discriminate|split; [discriminate|split; [intros ?; discriminate|]]]].

  Lemma merge_loop_safe k rec : mg_rec_ok k rec ->
    forall kids t memo, gdt_limit t = limit -> (gdt_current t <= limit)%N ->
                        N.to_nat (gdt_current t) + k >= L + 1 ->
                        mg_safe (gd_merge_loop rec kids t memo) t.
  Proof.
    intros Hrec. induction kids as [|kd rest IH]; intros t memo Hlim Hle Hk; cbn [gd_merge_loop].
    - mg_ok. intros t' memo' H0. injection H0 as <- <-. repeat split; lia.
    - destruct (Hrec kd t memo Hlim Hle Hk) as (Hp & Hf & Hl & Hc & Hok).
      destruct (rec kd t memo) as [[t1 memo1]|tr| | |]; try congruence; try (exfalso; eapply Hc; reflexivity).
      destruct (Hok _ _ eq_refl) as (Hcur & Hlim1 & Hhigh).
      destruct (IH t1 memo1) as (Hp2 & Hf2 & Hl2 & Hc2 & Hok2); try congruence; try (rewrite Hcur; assumption).
      split; [exact Hp2|split; [exact Hf2|split; [exact Hl2|split; [exact Hc2|]]]].
      intros t' memo' H0. destruct (Hok2 _ _ H0) as (A & B & C). repeat split; try congruence. lia.
  Qed.

  Lemma merge_set_safe k rec : mg_rec_ok k rec ->
    forall node t memo, gdt_limit t = limit -> (gdt_current t <= limit)%N ->
                        N.to_nat (gdt_current t) + k >= L + 1 ->
                        mg_safe (gd_merge_set children rec node t memo) t.
  Proof.
    intros Hrec node t memo Hlim Hle Hk. unfold gd_merge_set.
    destruct (gd_mem node memo); [|now apply merge_loop_safe with (k := k)].
    mg_ok. intros t' memo' H0. injection H0 as <- <-. repeat split; lia.
  Qed.

  Lemma merge_call_safe k rec : mg_rec_ok k rec ->
    forall node t memo, gdt_limit t = limit -> (gdt_current t <= limit)%N ->
                        N.to_nat (gdt_current t) + k >= L ->
                        mg_safe (gd_merge_call children rec node t memo) t.
  Proof.
    intros Hrec node t memo Hlim Hle Hk. unfold gd_merge_call, gd_check_and_increment.
    destruct (N.ltb (gdt_limit t) (gdt_current t + 1)) eqn:E.
    - mg_ok. intros t' memo' H0. injection H0 as <- <-. cbn.
      destruct (N.ltb (gdt_high t) (gdt_current t + 1)) eqn:Eh; repeat split; lia.
    - match goal with |- context [gd_merge_set children rec node ?t1 memo] =>
        pose proof (merge_set_safe k rec Hrec node t1 memo) as H end.
      cbn [gdt_current gdt_limit gdt_high] in H.
      destruct H as (Hp & Hf & Hl & Hc & Hok); [exact Hlim|lia|unfold L in *; lia|].
      match goal with |- context [gd_merge_set children rec node ?t1 memo] =>
        destruct (gd_merge_set children rec node t1 memo) as [[t2 memo2]|tr| | |] end;
        try congruence; try (exfalso; eapply Hc; reflexivity).
      destruct (Hok _ _ eq_refl) as (Hcur & Hlim2 & Hhigh). cbn [gdt_current gdt_limit gdt_high] in *.
      unfold gd_decrement. destruct (N.eqb (gdt_current t2) 0) eqn:Ez; [lia|].
      mg_ok. intros t' memo' H0. injection H0 as <- <-. cbn.
      destruct (N.ltb (gdt_high t) (gdt_current t + 1)) eqn:Eh; repeat split; lia.
  Qed.

  Lemma merge_rec_ok k : mg_rec_ok k (gd_merge k children).
  Proof.
    induction k as [|k IH]; intros node t memo Hlim Hle Hk; [unfold L in *; lia|].
    cbn [gd_merge]. apply merge_call_safe with (k := k); auto. lia.
  Qed.

End MergeProofs.

(* validate_operation: limit + 1 nested validator calls are enough; decrement never underflows;
   the flag is exactly `high > limit` *)
Theorem merge_operation_safe limit k ch1 ch2 root t memo1 memo2 :
  k >= N.to_nat limit + 1 -> gdt_limit t = limit -> gdt_current t = 0%N ->
  exists t' m1 m2,
    gd_merge_operation k ch1 ch2 root t memo1 memo2 = GrOk (t', m1, m2, (limit <? gdt_high t')%N) /\
    gdt_current t' = 0%N /\ gdt_limit t' = limit /\ (gdt_high t <= gdt_high t')%N.
Proof.
  intros Hk Hlim Hcur. unfold gd_merge_operation.
  destruct (merge_set_safe ch1 limit k (gd_merge k ch1) (merge_rec_ok ch1 limit k) root t memo1)
    as (Hp & Hf & Hl & Hc & Hok); [exact Hlim|lia|lia|].
  destruct (gd_merge_set ch1 (gd_merge k ch1) root t memo1) as [[t1 m1]|tr| | |];
    try congruence; try (exfalso; eapply Hc; reflexivity).
  destruct (Hok _ _ eq_refl) as (Hc1 & Hl1 & Hh1).
  destruct (merge_set_safe ch2 limit k (gd_merge k ch2) (merge_rec_ok ch2 limit k) root t1 memo2)
    as (Hp2 & Hf2 & Hl2 & Hc2 & Hok2); [congruence|lia|lia|].
  destruct (gd_merge_set ch2 (gd_merge k ch2) root t1 memo2) as [[t2 m2]|tr| | |];
    try congruence; try (exfalso; eapply Hc2; reflexivity).
  destruct (Hok2 _ _ eq_refl) as (A & B & C).
  exists t2, m1, m2. assert (El : gdt_limit t2 = limit) by congruence. rewrite El.
  repeat split; try congruence; lia.
Qed.

(* ---- never silently truncated: if the high-water mark stayed within the limit, the same run under any
   larger limit visits the same field sets (same memo) and leaves the same tracker *)
Section MergeRaise.
  Variable children : str -> list str.
  Variables la lb : N.
  Hypothesis Hlab : (la <= lb)%N.

  Definition raise_trackers (t t' : gd_tracker) : Prop :=
    gdt_current t = gdt_current t' /\ gdt_high t = gdt_high t' /\ gdt_limit t = la /\ gdt_limit t' = lb.

  Definition mg_raise_rel (r r' : mg_res) : Prop :=
    match r with
    | GrOk (t2, m2) => (gdt_high t2 <= la)%N -> exists t2', r' = GrOk (t2', m2) /\ raise_trackers t2 t2'
    | _ => True
    end.

  (* frame: the high-water mark never decreases, the limit field never changes *)
  Definition mg_high_mono (r : mg_res) (t : gd_tracker) : Prop :=
    forall t2 m2, r = GrOk (t2, m2) -> (gdt_high t <= gdt_high t2)%N /\ gdt_limit t2 = gdt_limit t.

  Lemma merge_loop_high rec : (forall n t memo, mg_high_mono (rec n t memo) t) ->
    forall kids t memo, mg_high_mono (gd_merge_loop rec kids t memo) t.
  Proof.
    intros Hrec. induction kids as [|kd rest IH]; intros t memo t2 m2; cbn [gd_merge_loop].
    - intros [= <- <-]. split; [lia|reflexivity].
    - destruct (rec kd t memo) as [[t1 m1]|tr| | |] eqn:E; try discriminate.
      intros H. destruct (Hrec _ _ _ _ _ E). destruct (IH _ _ _ _ H). split; [lia|congruence].
  Qed.

  Lemma merge_high k : forall n t memo, mg_high_mono (gd_merge k children n t memo) t.
  Proof.
    induction k as [|k IH]; intros n t memo t2 m2; cbn [gd_merge]; [discriminate|].
    unfold gd_merge_call, gd_check_and_increment.
    destruct (N.ltb (gdt_limit t) (gdt_current t + 1)).
    - intros [= <- <-]. cbn. destruct (N.ltb (gdt_high t) (gdt_current t + 1)) eqn:Eh; split; (lia || reflexivity).
    - unfold gd_merge_set. destruct (gd_mem n memo).
      + unfold gd_decrement. cbn. destruct (N.eqb (gdt_current t + 1) 0); [discriminate|].
        intros [= <- <-]. cbn. destruct (N.ltb (gdt_high t) (gdt_current t + 1)) eqn:Eh; split; (lia || reflexivity).
      + match goal with |- context [gd_merge_loop ?r ?ks ?t1 ?mm] =>
          pose proof (merge_loop_high r IH ks t1 mm) as Hm;
          destruct (gd_merge_loop r ks t1 mm) as [[t3 m3]|tr| | |]; try discriminate end.
        destruct (Hm _ _ eq_refl) as [Hm1 Hm2]. cbn in Hm1, Hm2. unfold gd_decrement.
        destruct (N.eqb (gdt_current t3) 0); [discriminate|]. intros [= <- <-]. cbn.
        destruct (N.ltb (gdt_high t) (gdt_current t + 1)) eqn:Eh; split; (lia || assumption).
  Qed.

  Lemma merge_loop_raise rec rec' :
    (forall n t memo, mg_high_mono (rec n t memo) t) ->
    (forall n t t' memo, raise_trackers t t' -> mg_raise_rel (rec n t memo) (rec' n t' memo)) ->
    forall kids t t' memo, raise_trackers t t' ->
      mg_raise_rel (gd_merge_loop rec kids t memo) (gd_merge_loop rec' kids t' memo).
  Proof.
    intros Hmono Hrec. induction kids as [|kd rest IH]; intros t t' memo Ht; cbn [gd_merge_loop].
    - cbn. intros _. eexists. split; [reflexivity|exact Ht].
    - specialize (Hrec kd t t' memo Ht).
      destruct (rec kd t memo) as [[t1 m1]|tr| | |] eqn:E; cbn; auto.
      pose proof (merge_loop_high rec Hmono rest t1 m1) as Hh.
      destruct (gd_merge_loop rec rest t1 m1) as [[t2 m2]|tr| | |] eqn:E2; cbn; auto.
      intros Hle. destruct (Hh _ _ eq_refl) as [Hh1 _]. cbn in Hrec.
      destruct Hrec as (t1' & -> & Ht1); [lia|].
      specialize (IH t1 t1' m1 Ht1). rewrite E2 in IH. cbn in IH. exact (IH Hle).
  Qed.

  Lemma merge_raise k : forall n t t' memo, raise_trackers t t' ->
    mg_raise_rel (gd_merge k children n t memo) (gd_merge k children n t' memo).
  Proof.
    induction k as [|k IH]; intros n t t' memo Ht; cbn [gd_merge]; [exact I|].
    unfold gd_merge_call, gd_check_and_increment. destruct Ht as (Hc & Hh & Ha & Hb).
    rewrite <- Hc, <- Hh, Ha, Hb.
    destruct (N.ltb la (gdt_current t + 1)) eqn:E.
    - (* stopped by the lower limit: the high-water mark exceeds it *)
      cbn. intros Hle. exfalso. destruct (N.ltb (gdt_high t) (gdt_current t + 1)) eqn:Eh; lia.
    - destruct (N.ltb lb (gdt_current t + 1)) eqn:E'; [lia|].
      unfold gd_merge_set. destruct (gd_mem n memo).
      + unfold gd_decrement. cbn. destruct (N.eqb (gdt_current t + 1) 0); [exact I|].
        cbn. intros _. eexists. split; [reflexivity|]. repeat split.
      + match goal with |- mg_raise_rel (match gd_merge_loop ?r ?ks ?t1 ?mm with _ => _ end)
                                        (match gd_merge_loop ?r ?ks ?t1' ?mm with _ => _ end) =>
          assert (Ht1 : raise_trackers t1 t1') by (repeat split);
          pose proof (merge_loop_raise r r (merge_high k) IH ks t1 t1' mm Ht1) as Hl;
          pose proof (merge_loop_high r (merge_high k) ks t1 mm) as Hm;
          destruct (gd_merge_loop r ks t1 mm) as [[t3 m3]|tr| | |] eqn:E3; cbn; auto end.
        unfold gd_decrement. destruct (N.eqb (gdt_current t3) 0) eqn:Ez; cbn; auto.
        intros Hle. cbn in Hl. destruct Hl as (t3' & -> & (A & B & C & D)); [exact Hle|].
        rewrite <- A, Ez. eexists. split; [reflexivity|]. repeat split; cbn; auto.
  Qed.

  Lemma merge_set_raise k n t t' memo : raise_trackers t t' ->
    mg_raise_rel (gd_merge_set children (gd_merge k children) n t memo)
                 (gd_merge_set children (gd_merge k children) n t' memo).
  Proof.
    intros Ht. unfold gd_merge_set. destruct (gd_mem n memo).
    - cbn. intros _. eexists. split; [reflexivity|exact Ht].
    - apply merge_loop_raise; [apply merge_high|apply merge_raise|exact Ht].
  Qed.

  Lemma merge_set_high k n t memo :
    mg_high_mono (gd_merge_set children (gd_merge k children) n t memo) t.
  Proof.
    unfold gd_merge_set. destruct (gd_mem n memo).
    - intros t2 m2 [= <- <-]. split; [lia|reflexivity].
    - apply merge_loop_high. apply merge_high.
  Qed.
End MergeRaise.

(* validate_operation: when no RecursionLimitError is pushed (flag = false) the visited field sets are
   those of the same run under any larger limit *)
Theorem merge_operation_raise la lb k ch1 ch2 root t t' memo1 memo2 t2 m1 m2 :
  (la <= lb)%N -> raise_trackers la lb t t' ->
  gd_merge_operation k ch1 ch2 root t memo1 memo2 = GrOk (t2, m1, m2, false) ->
  exists t2' flag', gd_merge_operation k ch1 ch2 root t' memo1 memo2 = GrOk (t2', m1, m2, flag') /\
                    raise_trackers la lb t2 t2'.
Proof.
  intros Hlab Ht. unfold gd_merge_operation.
  pose proof (merge_set_raise ch1 la lb Hlab k root t t' memo1 Ht) as R1.
  pose proof (merge_set_high ch1 la lb Hlab k root t memo1) as H1.
  destruct (gd_merge_set ch1 (gd_merge k ch1) root t memo1) as [[t1 a]|tr| | |]; try discriminate.
  pose proof (merge_set_high ch2 la lb Hlab k root t1 memo2) as H2.
  destruct (gd_merge_set ch2 (gd_merge k ch2) root t1 memo2) as [[t3 b]|tr| | |] eqn:E2; try discriminate.
  intros H0. injection H0 as -> -> -> Hflag.
  destruct (H1 _ _ eq_refl) as [H1a H1b]. destruct (H2 _ _ eq_refl) as [H2a H2b].
  assert (Hla : gdt_limit t = la) by (destruct Ht as (_ & _ & X & _); exact X).
  assert (Hhigh : (gdt_high t2 <= la)%N) by lia.
  cbn in R1. destruct R1 as (t1' & -> & Ht1); [lia|].
  pose proof (merge_set_raise ch2 la lb Hlab k root t1 t1' memo2 Ht1) as R2.
  rewrite E2 in R2. cbn in R2. destruct R2 as (t3' & -> & Ht3); [exact Hhigh|].
  eexists. eexists. split; [reflexivity|exact Ht3].
Qed.

(* ------------------------------------------------------------------ summary statements (used by Props/C21.v) *)

Definition gd_frag_wf (look : str -> option (str * list str)) : Prop :=
  forall s fname body, look s = Some (fname, body) -> fname = s.

Definition gd_builtin_dir_only (find_type : str -> option (str * bool * list gd_item)) : Prop :=
  forall t name body, find_type t = Some (name, true, body) -> gd_dir_only body.

Lemma ge_split a b : a >= b -> exists j, a = b + j.
Proof. intros H. exists (a - b). lia. Qed.

(* fragment cycles: limit + 1 activations suffice, the result is then independent of the fuel, the debug
   assertion cannot fire, and a verdict other than `limit` is the verdict under every larger limit *)
Theorem gd_frag_depth look limit fuel name spreads :
  gd_frag_wf look -> fuel >= gd_fuel_of limit ->
  let r := gd_frag_check_with limit (gd_fuel_of limit) look name spreads in
  gd_frag_check_with limit fuel look name spreads = r /\ r <> GrFuel /\ r <> GrPanic /\
  forall limit', (limit <= limit')%N -> gd_verdict_of r <> GvLimit ->
    gd_verdict_of (gd_frag_check_with limit' (gd_fuel_of limit) look name spreads) = gd_verdict_of r.
Proof.
  intros Hwf Hfuel r.
  destruct (frag_check_safe look Hwf limit (N.to_nat limit) name spreads) as (Hp & Hf & _); [lia|].
  fold (gd_fuel_of limit) in Hp, Hf. fold r in Hp, Hf.
  destruct (ge_split _ _ Hfuel) as [j ->]. repeat split; auto.
  - unfold gd_frag_check_with. apply frag_detect_mono; [reflexivity|exact Hf].
  - intros limit' Hle Hv. pose proof (frag_check_raise look limit limit' Hle (gd_fuel_of limit) name spreads) as R.
    fold r in R. unfold fr_raise_rel in R.
    destruct r as [[p s]|tr| | |]; cbn in *; try congruence.
    + destruct R as (p' & -> & _). reflexivity.
    + rewrite R. reflexivity.
Qed.

Theorem gd_input_depth look limit fuel name fields :
  fuel >= gd_fuel_of limit ->
  let r := gd_input_check_with limit (gd_fuel_of limit) look name fields in
  gd_input_check_with limit fuel look name fields = r /\ r <> GrFuel /\ r <> GrPanic /\
  forall limit', (limit <= limit')%N -> gd_verdict_of r <> GvLimit ->
    gd_verdict_of (gd_input_check_with limit' (gd_fuel_of limit) look name fields) = gd_verdict_of r.
Proof.
  intros Hfuel r.
  destruct (input_check_safe look limit (N.to_nat limit) name fields) as (Hp & Hf & _); [lia|].
  fold (gd_fuel_of limit) in Hp, Hf. fold r in Hp, Hf.
  destruct (ge_split _ _ Hfuel) as [j ->]. repeat split; auto.
  - unfold gd_input_check_with. apply input_detect_mono; [reflexivity|exact Hf].
  - intros limit' Hle Hv. pose proof (input_check_raise look limit limit' Hle (gd_fuel_of limit) name fields) as R.
    fold r in R. unfold in_raise_rel in R.
    destruct r as [p|tr| | |]; cbn in *; try congruence.
    + destruct R as (p' & -> & _). reflexivity.
    + rewrite R. reflexivity.
Qed.

Definition gd_dir_fuel_of (limit : N) : nat := 4 * N.to_nat limit + 2.

Theorem gd_dir_depth find_dir find_type limit fuel name items :
  gd_builtin_dir_only find_type -> fuel >= gd_dir_fuel_of limit ->
  let r := gd_dir_check_with limit (gd_dir_fuel_of limit) find_dir find_type name items in
  gd_dir_check_with limit fuel find_dir find_type name items = r /\ r <> GrFuel /\ r <> GrPanic /\
  forall limit', (limit <= limit')%N -> gd_verdict_of r <> GvLimit ->
    gd_verdict_of (gd_dir_check_with limit' (gd_dir_fuel_of limit) find_dir find_type name items) = gd_verdict_of r.
Proof.
  intros Hb Hfuel r.
  destruct (dir_check_safe find_dir find_type Hb limit (gd_dir_fuel_of limit) name items) as (Hp & Hf & _);
    [unfold gd_dir_fuel_of; lia|].
  fold r in Hp, Hf.
  destruct (ge_split _ _ Hfuel) as [j ->]. repeat split; auto.
  - unfold gd_dir_check_with. apply dir_detect_mono; [reflexivity|exact Hf].
  - intros limit' Hle Hv.
    pose proof (dir_check_raise find_dir find_type limit limit' Hle (gd_dir_fuel_of limit) name items) as R.
    fold r in R. unfold dr_raise_rel in R.
    destruct r as [[p q]|tr| | |]; cbn in *; try congruence.
    + destruct R as (p' & q' & -> & _). reflexivity.
    + rewrite R. reflexivity.
Qed.

(* the five DepthCounter walks (any mode): an Ok walk visits what the walk under any larger limit visits *)
Theorem gd_walk_depth frags m limit fuel sels :
  fuel >= gd_fuel_of limit ->
  let r := gd_walk_top_with limit (gd_fuel_of limit) frags m sels in
  gd_walk_top_with limit fuel frags m sels = r /\ snd r <> GrFuel /\ snd r <> GrPanic /\
  forall limit' c s, (limit <= limit')%N -> snd r = GrOk (c, s) ->
    exists c', gd_walk_top_with limit' (gd_fuel_of limit) frags m sels = (fst r, GrOk (c', s)).
Proof.
  intros Hfuel r.
  destruct (walk_top_safe frags m limit (N.to_nat limit) sels) as (Hp & Hf & _); [lia|].
  fold (gd_fuel_of limit) in Hp, Hf. fold r in Hp, Hf.
  destruct (ge_split _ _ Hfuel) as [j ->]. repeat split; auto.
  - unfold gd_walk_top_with. apply walk_mono; [reflexivity|exact Hf].
  - intros limit' c s Hle Hok. pose proof (walk_top_raise frags m limit limit' Hle (gd_fuel_of limit) sels) as R.
    fold r in R. unfold wk_raise_rel in R. rewrite Hok in R. destruct R as (c' & -> & _). now exists c'.
Qed.

(* field merging: limit + 1 nested validator calls suffice; LimitTracker::decrement never underflows; a
   RecursionLimitError is pushed exactly when the high-water mark exceeded the limit; and when it is not
   pushed, the field sets visited are those of the same run under every larger limit *)
Theorem gd_merge_depth limit fuel ch1 ch2 root t memo1 memo2 :
  fuel >= gd_fuel_of limit -> gdt_limit t = limit -> gdt_current t = 0%N ->
  exists t' m1 m2,
    gd_merge_operation fuel ch1 ch2 root t memo1 memo2 = GrOk (t', m1, m2, (limit <? gdt_high t')%N) /\
    gdt_current t' = 0%N /\ gdt_limit t' = limit /\ (gdt_high t <= gdt_high t')%N /\
    ((limit <? gdt_high t')%N = false ->
     forall limit' u, (limit <= limit')%N -> raise_trackers limit limit' t u ->
       exists u' flag', gd_merge_operation fuel ch1 ch2 root u memo1 memo2 = GrOk (u', m1, m2, flag')).
Proof.
  intros Hfuel Hlim Hcur.
  destruct (merge_operation_safe limit fuel ch1 ch2 root t memo1 memo2) as (t' & m1 & m2 & E & A & B & C);
    [unfold gd_fuel_of in Hfuel; lia|exact Hlim|exact Hcur|].
  exists t', m1, m2. repeat split; auto.
  intros Hflag limit' u Hle Hu. rewrite Hflag in E.
  destruct (merge_operation_raise limit limit' fuel ch1 ch2 root t u memo1 memo2 t' m1 m2 Hle Hu E)
    as (u' & flag' & E' & _).
  now exists u', flag'.
Qed.

(* ---- the look-up functions derived from real documents and schemas satisfy the hypotheses *)

Lemma gd_lookup_key {A} n (m : list (str * A)) v : gd_lookup n m = Some v -> exists k, In (k, v) m /\ k = n.
Proof.
  induction m as [|[k w] m IH]; cbn [gd_lookup]; [discriminate|].
  destruct (streq n k) eqn:E.
  - intros [= <-]. apply streq_eq in E. exists k. split; [now left|congruence].
  - intros H. destruct (IH H) as (k' & I & Ek). exists k'. split; [now right|exact Ek].
Qed.

Lemma gd_spread_table_wf fr : gd_frag_wf (gd_table_look (gd_spread_table fr)).
Proof.
  intros s fname body H. unfold gd_table_look in H. apply gd_lookup_key in H.
  destruct H as (k & I & <-). unfold gd_spread_table in I. apply in_map_iff in I.
  destruct I as (e & [= <- <- _] & _). reflexivity.
Qed.

(* a schema in which no built-in type is an input object (true of every schema built from text) *)
Definition gd_no_builtin_input (s : schema) : Prop :=
  forall t, In t (sch_types s) -> et_builtin t = true ->
            match t with EInput _ _ _ _ _ => False | _ => True end.

Lemma sch_find_type_in n ts t : sch_find_type n ts = Some t -> In t ts.
Proof.
  induction ts as [|x ts IH]; cbn [sch_find_type]; [discriminate|].
  destruct (streq n (et_name x)); [intros [= <-]; now left|intros H; right; now apply IH].
Qed.

Lemma gd_dir_only_map (l : list str) : gd_dir_only (map GiDir l).
Proof. induction l; constructor; auto. Qed.

Lemma gd_dir_only_app a b : gd_dir_only a -> gd_dir_only b -> gd_dir_only (a ++ b).
Proof. unfold gd_dir_only. intros. apply Forall_app. split; assumption. Qed.

Lemma gd_schema_builtin_dir_only s : gd_no_builtin_input s -> gd_builtin_dir_only (gd_schema_find_type s).
Proof.
  intros Hs t name body. unfold gd_schema_find_type, sch_get_type.
  destruct (sch_find_type t (sch_types s)) as [ty|] eqn:E; [|discriminate].
  intros [= <- Hb <-]. pose proof (Hs ty (sch_find_type_in _ _ _ E) Hb) as Hk.
  destruct ty; cbn [gd_type_items]; try apply gd_dir_only_map; [|contradiction].
  apply gd_dir_only_app; [apply gd_dir_only_map|].
  clear E Hb Hk. induction values as [|v vs IH]; cbn [flat_map]; [constructor|].
  apply gd_dir_only_app; [apply gd_dir_only_map|exact IH].
Qed.
