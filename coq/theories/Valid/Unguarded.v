(* The recursion of validate_selection_set / validate_field / validate_inline_fragment /
   validate_fragment_spread / validate_fragment_definition (validation/selection.rs, field.rs, fragment.rs) AS IT
   WAS BEFORE ITS REPAIR: no guard (the repaired code is vs_walk in Guards.v).  This is its skeleton,
   instrumented with the depth of nested activations of validate_selection_set: a fragment spread descends
   into the fragment definition once per operation (`validated_fragments`), and only if
   validate_fragment_cycles found neither a cycle nor the limit.  So the depth was bounded only by
   (fragments on one path, <= 100 by the cycle guard) x (nesting of one definition, <= the parser's limit):
   former finding selection_set_recursion_unguarded.  Kept for the refuted witness
   C21_selection_depth_unguarded_old_refuted; not extracted. *)
From ApolloVerif Require Import Base.Chars Ast.Ast Valid.Guards.

Section Vss.
  Variable frags : str -> option (list selection).
  Variable cycles_ok : str -> bool.      (* validate_fragment_cycles pushed no diagnostic *)

  (* result: validated_fragments and the deepest nesting of validate_selection_set reached; None = out of fuel *)
  Fixpoint gd_vss (fuel : nat) (sels : list selection) (validated : list str) (depth : nat)
    : option (list str * nat) :=
    match fuel with
    | O => None
    | S f =>
      (fix loop (l : list selection) (validated : list str) (high : nat) : option (list str * nat) :=
         match l with
         | [] => Some (validated, high)
         | SField _ _ _ _ sub :: rest =>
           match gd_vss f sub validated (S depth) with
           | Some (v, h) => loop rest v (Nat.max high h)
           | None => None
           end
         | SInline _ _ sub :: rest =>
           match gd_vss f sub validated (S depth) with
           | Some (v, h) => loop rest v (Nat.max high h)
           | None => None
           end
         | SSpread n _ :: rest =>
           match frags n with
           | Some body =>
             if gd_mem n validated then loop rest validated high
             else if cycles_ok n then
               match gd_vss f body (n :: validated) (S depth) with
               | Some (v, h) => loop rest v (Nat.max high h)
               | None => None
               end
             else loop rest (n :: validated) high
           | None => loop rest validated high
           end
         end) sels validated depth
    end.
End Vss.

Fixpoint gd_sel_size (s : selection) : nat :=
  match s with
  | SField _ _ _ _ sub => S ((fix go (l : list selection) : nat := match l with [] => O | x :: r => (gd_sel_size x + go r)%nat end) sub)
  | SSpread _ _ => 1
  | SInline _ _ sub => S ((fix go (l : list selection) : nat := match l with [] => O | x :: r => (gd_sel_size x + go r)%nat end) sub)
  end.

Definition gd_doc_size (d : document) : nat :=
  fold_right (fun def n => match def with
                           | DOperation _ _ _ _ sels | DFragment _ _ _ sels =>
                             fold_right (fun s m => gd_sel_size s + m)%nat n sels
                           | _ => n
                           end) 1%nat d.

(* the depth reached when validating the first operation of a document *)
Definition gd_doc_vss_depth (d : document) : option nat :=
  let fr := gd_doc_frags d in
  let tbl := gd_spread_table fr in
  let ok n := match gd_lookup n tbl with
              | Some (_, spreads) =>
                match gd_verdict_of (gd_frag_check (gd_fuel_of gd_frag_limit) (gd_table_look tbl) n spreads) with
                | GvOk => true | _ => false
                end
              | None => false
              end in
  match gd_doc_ops d with
  | (_, sels) :: _ =>
    match gd_vss (gd_table_sels fr) ok (S (gd_doc_size d)) sels [] 1 with
    | Some (_, h) => Some h
    | None => None
    end
  | [] => Some O
  end.
