(* C21: the recursion guards of crates/apollo-compiler/src/validation/mod.rs and every traversal
   that uses them, transcribed statement by statement; DiagnosticList::sort.

   Guards:      DepthCounter / DepthGuard (increment, saturating decrement on drop),
                RecursionStack / RecursionGuard (push with its debug_assert!, contains, first, pop on drop),
                apollo_parser::LimitTracker as used by field merging (check_and_increment, decrement).
   Traversals:  validation/fragment.rs   detect_fragment_cycles            (RecursionStack, limit 100)
                validation/operation.rs  walk_selections                   (DepthCounter, limit 500)
                validation/variable.rs   walk_selections_with_deduped_fragments (DepthCounter, 500)
                validation/operation.rs  walk_defers_in_selection_set, forbid_defer_on_root,
                                         forbid_unconditional_defer        (DepthCounter, 500)
                validation/directive.rs  FindRecursiveDirective            (two RecursionStacks, limit 32)
                validation/input_object.rs FindRecursiveInputValue         (RecursionStack, limit 32)
                validation/selection.rs  FieldsInSetCanMerge               (LimitTracker, FIELD_DEPTH_LIMIT 128)
                validation/selection.rs, field.rs, fragment.rs
                                         validate_selection_set and its callees (DepthCounter, limit 500)

   Every traversal is a function of an ARBITRARY definition graph (a look-up function name -> body, so
   cyclic and infinite graphs are included).  A Rust activation (one call of the recursive function) is one
   unit of `fuel`; the loop over the selections / fields of one activation is structural.  `GrFuel` is the
   out-of-fuel value, `GrPanic` a fired debug_assert! / usize underflow; GuardsProofs.v shows neither is
   reachable once fuel >= limit + 1 (i.e. the guards bound the activation depth).
   A `?` after a recursive call propagates the error: the state after an error is never used by the code,
   so error results carry no state.
   Definitions only (this file is extracted); proofs in GuardsProofs.v. *)
From ApolloVerif Require Import Base.Chars Ast.Ast Schema.Model.

Inductive gd_res (S : Type) :=
| GrOk (st : S)                 (* Ok(()) with the threaded state *)
| GrCycle (trace : list str)    (* Err(CycleError::Recursed(trace)) *)
| GrLimit                       (* Err(RecursionLimitError) / Err(CycleError::Limit) *)
| GrPanic                       (* debug_assert! fired / usize underflow *)
| GrFuel.                       (* model artefact: out of fuel *)
Arguments GrOk {S}. Arguments GrCycle {S}. Arguments GrLimit {S}. Arguments GrPanic {S}. Arguments GrFuel {S}.

(* HashSet<&Name> / IndexSet<Name> membership *)
Definition gd_mem (n : str) (l : list str) : bool := existsb (streq n) l.

Fixpoint gd_lookup {A} (k : str) (m : list (str * A)) : option A :=
  match m with
  | [] => None
  | (k', v) :: r => if streq k k' then Some v else gd_lookup k r
  end.

(* ------------------------------------------------------------------ DepthCounter / DepthGuard *)

Definition gd_default_limit : N := 32.          (* DEFAULT_RECURSION_LIMIT *)

Record gd_counter := mk_gdc { gdc_value : N; gdc_high : N; gdc_limit : N }.

Definition gd_counter_new : gd_counter := mk_gdc 0 0 gd_default_limit.
Definition gd_counter_with_limit (c : gd_counter) (l : N) : gd_counter :=
  mk_gdc (gdc_value c) (gdc_high c) l.

(* DepthGuard::increment: value += 1; high = max(high, value); Err if value > limit.
   Returns the counter and `true` for Ok(new guard). *)
Definition gd_increment (c : gd_counter) : gd_counter * bool :=
  let v := gdc_value c + 1 in
  (mk_gdc v (N.max (gdc_high c) v) (gdc_limit c), negb (gdc_limit c <? v)).

(* Drop for DepthGuard: value = value.saturating_sub(1) *)
Definition gd_guard_drop (c : gd_counter) : gd_counter :=
  mk_gdc (gdc_value c - 1) (gdc_high c) (gdc_limit c).

(* ------------------------------------------------------------------ RecursionStack / RecursionGuard *)

Record gd_stack := mk_gds { gds_seen : list str; gds_high : N; gds_limit : N }.

Definition gd_stack_new : gd_stack := mk_gds [] 0 gd_default_limit.
Definition gd_stack_with_root (root : str) : gd_stack := mk_gds [root] 0 gd_default_limit.
Definition gd_stack_with_limit (s : gd_stack) (l : N) : gd_stack := mk_gds (gds_seen s) (gds_high s) l.

Inductive gd_pushres := GpOk (s : gd_stack) | GpLimit | GpPanic.

(* RecursionGuard::push: insert; debug_assert!(new); high = max(high, len); Err if len > limit.
   (In a release build a repeated name is not inserted and the later pop removes another name;
   GuardsProofs.v shows the case does not arise, so both builds behave alike.) *)
Definition gd_push (s : gd_stack) (name : str) : gd_pushres :=
  if gd_mem name (gds_seen s) then GpPanic else
  let seen := gds_seen s ++ [name] in
  let len := N.of_nat (length seen) in
  if gds_limit s <? len then GpLimit
  else GpOk (mk_gds seen (N.max (gds_high s) len) (gds_limit s)).

Definition gd_contains (s : gd_stack) (name : str) : bool := gd_mem name (gds_seen s).

(* `guard.first() == Some(name)` *)
Definition gd_first_is (s : gd_stack) (name : str) : bool :=
  match gds_seen s with x :: _ => streq x name | [] => false end.

(* Drop for RecursionGuard: seen.pop() *)
Definition gd_pop (s : gd_stack) : gd_stack :=
  mk_gds (removelast (gds_seen s)) (gds_high s) (gds_limit s).

(* ------------------------------------------------------------------ fragment.rs: detect_fragment_cycles

   `look n` is `document.fragments.get(n)` as (fragment.name, the names of all fragment spreads in its
   selection set in document order).  The code loops over `nested_fragment_spreads(selection_set)`, an
   iterator that yields the spreads nested anywhere in fields and inline fragments in document order using
   an explicit stack on the heap; gd_spreads below is that sequence (gd_spread_iter is the iterator itself,
   Valid/SpreadIter.v proves that it yields gd_spreads).  The function calls itself only to follow a spread,
   after `push`: one unit of fuel is one native activation, so the bound limit + 1 on the fuel IS the bound
   on the native depth.  (Before its repair the function also called itself for every field and inline
   fragment with the same guard and `seen` set, propagating every error: the same sequence of spreads and
   the same results, but a native depth of (fragments on the path) x (nesting of each definition) — former
   finding fragment_cycles_recursion_unguarded.) *)

Fixpoint gd_spreads_sel (s : selection) : list str :=
  match s with
  | SField _ _ _ _ sels => (fix go (l : list selection) : list str :=
                              match l with [] => [] | x :: r => gd_spreads_sel x ++ go r end) sels
  | SSpread n _ => [n]
  | SInline _ _ sels => (fix go (l : list selection) : list str :=
                           match l with [] => [] | x :: r => gd_spreads_sel x ++ go r end) sels
  end.
Definition gd_spreads (sels : list selection) : list str := flat_map gd_spreads_sel sels.

(* nested_fragment_spreads, collected: `stack` is the Vec of slice iterators, its last element first; one unit
   of fuel is one turn of the `while let` loop *)
Fixpoint gd_spread_iter (fuel : nat) (stack : list (list selection)) : option (list str) :=
  match fuel with
  | O => None
  | S f =>
    match stack with
    | [] => Some []                                             (* stack.last_mut() is None: the iterator ends *)
    | [] :: st => gd_spread_iter f st                           (* selections.next() is None: stack.pop() *)
    | (SSpread n _ :: r) :: st =>                               (* return Some(spread); the next call resumes here *)
      match gd_spread_iter f (r :: st) with Some l => Some (n :: l) | None => None end
    | (SInline _ _ sub :: r) :: st => gd_spread_iter f (sub :: r :: st)
    | (SField _ _ _ _ sub :: r) :: st => gd_spread_iter f (sub :: r :: st)
    end
  end.

Definition gd_frag_limit : N := 100.

Section FragCycle.
  Variable look : str -> option (str * list str).
  Variable rec : list str -> gd_stack -> list str -> gd_res (gd_stack * list str).

  Fixpoint gd_frag_loop (spreads : list str) (path : gd_stack) (seen : list str) {struct spreads}
    : gd_res (gd_stack * list str) :=
    match spreads with
    | [] => GrOk (path, seen)
    | s :: rest =>
      if gd_contains path s then
        if gd_first_is path s then GrCycle [s] else gd_frag_loop rest path seen
      else if gd_mem s seen then gd_frag_loop rest path seen        (* !seen.insert(..) *)
      else
        let seen1 := s :: seen in
        match look s with
        | None => gd_frag_loop rest path seen1
        | Some (fname, body) =>
          match gd_push path fname with                           (* path_from_root.push(&fragment.name)? *)
          | GpPanic => GrPanic
          | GpLimit => GrLimit
          | GpOk path1 =>
            match rec body path1 seen1 with
            | GrOk (path2, seen2) => gd_frag_loop rest (gd_pop path2) seen2
            | GrCycle tr => GrCycle (tr ++ [s])                   (* error.trace(spread) *)
            | GrLimit => GrLimit | GrPanic => GrPanic | GrFuel => GrFuel
            end
          end
        end
    end.
End FragCycle.

Fixpoint gd_frag_detect (fuel : nat) (look : str -> option (str * list str))
  (spreads : list str) (path : gd_stack) (seen : list str) : gd_res (gd_stack * list str) :=
  match fuel with
  | O => GrFuel
  | S f => gd_frag_loop look (gd_frag_detect f look) spreads path seen
  end.

(* validate_fragment_cycles(def): RecursionStack::with_root(def.name).with_limit(100), empty `seen` *)
Definition gd_frag_check_with (limit : N) (fuel : nat) (look : str -> option (str * list str))
  (name : str) (spreads : list str) : gd_res (gd_stack * list str) :=
  gd_frag_detect fuel look spreads (gd_stack_with_limit (gd_stack_with_root name) limit) [].
Definition gd_frag_check := gd_frag_check_with gd_frag_limit.

(* ------------------------------------------------------------------ the DepthCounter walks

   One skeleton, five instances (the code has five copies of it that differ in which selections they
   descend into):
     fields  : recurse into field selection sets (with guard.increment()?)
     spreads : follow fragment spreads, once per fragment name (`seen` / `visited_fragments`)
     skip    : `if selection_may_be_excluded(selection.directives()) { continue }` first
   `frags n` is document.fragments.get(n).selection_set.selections. *)

Definition gd_s_skip : str := [115;107;105;112].
Definition gd_s_include : str := [105;110;99;108;117;100;101].
Definition gd_s_if : str := [105;102].

(* Argument::specified_argument_by_name *)
Fixpoint gd_arg_by_name (n : str) (args : list argument) : option value :=
  match args with
  | [] => None
  | (k, v) :: r => if streq k n then Some v else gd_arg_by_name n r
  end.

(* operation.rs selection_may_be_excluded *)
Fixpoint gd_may_be_excluded (dirs : list directive) : bool :=
  match dirs with
  | [] => false
  | d :: r =>
    if streq (d_name d) gd_s_skip then
      match gd_arg_by_name gd_s_if (d_args d) with
      | Some (VBool false) => gd_may_be_excluded r
      | _ => true
      end
    else if streq (d_name d) gd_s_include then
      match gd_arg_by_name gd_s_if (d_args d) with
      | Some (VBool true) => gd_may_be_excluded r
      | _ => true
      end
    else gd_may_be_excluded r
  end.

Definition gd_sel_dirs (s : selection) : list directive :=
  match s with SField _ _ _ d _ => d | SSpread _ d => d | SInline _ d _ => d end.

Definition gd_walk_limit : N := 500.

Definition gd_s_defer : str := [100;101;102;101;114].

(* operation.rs defer_can_be_disabled *)
Definition gd_defer_can_be_disabled (d : directive) : bool :=
  match gd_arg_by_name gd_s_if (d_args d) with
  | Some (VBool false) | Some (VVar _) => true
  | _ => false
  end.

Definition gd_count (f : directive -> bool) (dirs : list directive) : N :=
  N.of_nat (length (filter f dirs)).
Definition gd_is_defer (d : directive) : bool := streq (d_name d) gd_s_defer.

(* what the walk does with a visited selection, as the number of callback calls / diagnostics pushed:
   walk_selections and walk_selections_with_deduped_fragments call `f(selection)` once;
   walk_defers_in_selection_set calls `f(directive)` for every @defer;
   forbid_defer_on_root reports every @defer of an inline fragment or fragment spread (report_root_defer);
   forbid_unconditional_defer reports every @defer that cannot be disabled. *)
Definition gd_visit_one (s : selection) : N := 1.
Definition gd_visit_defers (s : selection) : N := gd_count gd_is_defer (gd_sel_dirs s).
Definition gd_visit_defer_root (s : selection) : N :=
  match s with
  | SField _ _ _ _ _ => 0
  | _ => gd_count gd_is_defer (gd_sel_dirs s)
  end.
Definition gd_visit_uncond (s : selection) : N :=
  gd_count (fun d => gd_is_defer d && negb (gd_defer_can_be_disabled d)) (gd_sel_dirs s).

Record gd_mode := mk_gdm {
  gm_fields : bool; gm_spreads : bool; gm_skip : bool; gm_visit : selection -> N }.

(* The walks return the number of visits made so far together with the result: the diagnostics pushed
   before a limit error stay in the list (validate_defer only looks at `.is_err()`). *)
Definition gd_wres := (N * gd_res (gd_counter * list str))%type.

Section Walk.
  Variable frags : str -> option (list selection).
  Variable m : gd_mode.
  Variable rec : list selection -> gd_counter -> list str -> N -> gd_wres.

  (* `walk(.., guard.increment()?, ..)?` *)
  Definition gd_walk_call (sub : list selection) (c : gd_counter) (seen : list str) (acc : N) : gd_wres :=
    let (c1, ok) := gd_increment c in
    if ok then rec sub c1 seen acc else (acc, GrLimit).

  Fixpoint gd_walk_loop (sels : list selection) (c : gd_counter) (seen : list str) (acc : N)
    {struct sels} : gd_wres :=
    match sels with
    | [] => (acc, GrOk (c, seen))
    | s :: rest =>
      if gm_skip m && gd_may_be_excluded (gd_sel_dirs s) then gd_walk_loop rest c seen acc else
      let acc := acc + gm_visit m s in
      match s with
      | SField _ _ _ _ sub =>
        if gm_fields m then
          match gd_walk_call sub c seen acc with
          | (acc', GrOk (c', seen')) => gd_walk_loop rest c' seen' acc'
          | r => r
          end
        else gd_walk_loop rest c seen acc
      | SInline _ _ sub =>
        match gd_walk_call sub c seen acc with
        | (acc', GrOk (c', seen')) => gd_walk_loop rest c' seen' acc'
        | r => r
        end
      | SSpread n _ =>
        if gm_spreads m then
          if gd_mem n seen then gd_walk_loop rest c seen acc          (* !seen.insert(..) => continue *)
          else
            match frags n with
            | Some body =>
              match gd_walk_call body c (n :: seen) acc with
              | (acc', GrOk (c', seen')) => gd_walk_loop rest c' seen' acc'
              | r => r
              end
            | None => gd_walk_loop rest c (n :: seen) acc
            end
        else gd_walk_loop rest c seen acc
      end
    end.

  (* one activation: the loop, then the by-value `guard` parameter is dropped *)
  Definition gd_walk_body (sels : list selection) (c : gd_counter) (seen : list str) (acc : N) : gd_wres :=
    match gd_walk_loop sels c seen acc with
    | (acc', GrOk (c', seen')) => (acc', GrOk (gd_guard_drop c', seen'))
    | r => r
    end.
End Walk.

Fixpoint gd_walk (fuel : nat) (frags : str -> option (list selection)) (m : gd_mode)
  (sels : list selection) (c : gd_counter) (seen : list str) (acc : N) : gd_wres :=
  match fuel with
  | O => (acc, GrFuel)
  | S f => gd_walk_body frags m (gd_walk f frags m) sels c seen acc
  end.

Definition gd_mode_walk_selections := mk_gdm false true false gd_visit_one.  (* operation.rs walk_selections *)
Definition gd_mode_dedup := mk_gdm true true false gd_visit_one.   (* variable.rs walk_selections_with_deduped_fragments *)
Definition gd_mode_defers := mk_gdm true false false gd_visit_defers.        (* walk_defers_in_selection_set *)
Definition gd_mode_defer_root := mk_gdm false true false gd_visit_defer_root. (* forbid_defer_on_root *)
Definition gd_mode_uncond_defer := mk_gdm true true true gd_visit_uncond.    (* forbid_unconditional_defer *)

(* `DepthCounter::new().with_limit(500)`, `&mut HashSet::default()`, `depth.guard()` *)
Definition gd_walk_top_with (limit : N) (fuel : nat) (frags : str -> option (list selection))
  (m : gd_mode) (sels : list selection) : gd_wres :=
  gd_walk fuel frags m sels (gd_counter_with_limit gd_counter_new limit) [] 0.
Definition gd_walk_top := gd_walk_top_with gd_walk_limit.

(* ------------------------------------------------------------------ selection.rs / field.rs / fragment.rs:
   validate_selection_set

   validate_selection_set creates `DepthCounter::new().with_limit(500)`, runs validate_nested_selection_set
   with `depth.guard()` and pushes one RecursionError if that returns Err(RecursionLimitError).
   validate_nested_selection_set (by-value guard) loops over the selections and calls validate_field /
   validate_inline_fragment / validate_fragment_spread with `&mut guard`; each of them calls back with
   `guard.increment()?` where it descends: validate_field and validate_inline_fragment around their call of
   validate_nested_selection_set, validate_fragment_spread around validate_fragment_definition (which takes
   the new guard by value, hands it on to validate_nested_selection_set if it descends and drops it otherwise).
   Every `?` propagates.  One unit of fuel is one activation of validate_nested_selection_set; between two
   nested activations of it there are at most two other frames (validate_field | validate_inline_fragment |
   validate_fragment_spread + validate_fragment_definition), none of which recurses otherwise.

   What decides whether the walk descends is modelled in full; the checks that only push diagnostics
   (directives, arguments, values, validate_fragment_spread_type) are left out.  The schema enters through
     vst_schema      context.schema().is_some()
     vst_root        schema.root_operation(operation_type)
     vst_field t f   schema.type_field(t, f).ok().map(|d| d.ty.inner_named_type())
     vst_composite t schema.types.get(t) is an object, interface or union type
   `frags n` is document.fragments.get(n) as (type condition, selections); `cycles_ok n` says that
   validate_fragment_cycles pushed no diagnostic for fragment n; `validated` is context.validated_fragments.
   The count is the number of UndefinedFragment diagnostics pushed (they stay in the list whatever the
   result of the walk). *)

Record vs_typing := mk_vst {
  vst_schema : bool;
  vst_root : optype -> option str;
  vst_field : str -> str -> option str;
  vst_composite : str -> bool }.

Definition vs_sel_limit : N := 500.

Definition vs_is_empty (sub : list selection) : bool := match sub with [] => true | _ => false end.

Section SelWalk.
  Variable frags : str -> option (str * list selection).
  Variable cycles_ok : str -> bool.
  Variable ty : vs_typing.
  Variable rec : option str -> list selection -> gd_counter -> list str -> N -> gd_wres.

  (* validate_fragment_definition(.., guard): type condition, cycles, then the selection set against the
     type condition (`schema.types.contains_key` holds of a composite type) *)
  Definition vs_fragment_definition (n cond : str) (body : list selection) (c : gd_counter)
    (validated : list str) (acc : N) : gd_wres :=
    let has_type_error := vst_schema ty && negb (vst_composite ty cond) in
    let has_cycles := negb (cycles_ok n) in
    if negb has_type_error && negb has_cycles then
      rec (if vst_schema ty then Some cond else None) body c validated acc
    else (acc, GrOk (gd_guard_drop c, validated)).

  Fixpoint vs_loop (against : option str) (sels : list selection) (c : gd_counter) (validated : list str)
    (acc : N) {struct sels} : gd_wres :=
    match sels with
    | [] => (acc, GrOk (c, validated))
    | s :: rest =>
      match s with
      | SField _ name _ _ sub =>                                              (* validate_field *)
        match against with
        | None =>
          match gd_walk_call (rec None) sub c validated acc with
          | (acc', GrOk (c', v')) => vs_loop against rest c' v' acc'
          | r => r
          end
        | Some t =>
          match vst_field ty t name with
          | Some fty =>
            (* validate_leaf_field_selection *)
            if vs_is_empty sub && vst_composite ty fty then vs_loop against rest c validated acc
            else
              match gd_walk_call (rec (Some fty)) sub c validated acc with
              | (acc', GrOk (c', v')) => vs_loop against rest c' v' acc'
              | r => r
              end
          | None => vs_loop against rest c validated acc
          end
        end
      | SInline cond _ sub =>                                                 (* validate_inline_fragment *)
        let has_type_error :=
          vst_schema ty && match cond with Some t => negb (vst_composite ty t) | None => false end in
        if has_type_error then vs_loop against rest c validated acc
        else
          let against' := if vst_schema ty then match cond with Some t => Some t | None => against end
                          else against in
          match gd_walk_call (rec against') sub c validated acc with
          | (acc', GrOk (c', v')) => vs_loop against rest c' v' acc'
          | r => r
          end
      | SSpread n _ =>                                                        (* validate_fragment_spread *)
        match frags n with
        | Some (cond, body) =>
          if gd_mem n validated then vs_loop against rest c validated acc     (* !validated_fragments.insert(..) *)
          else
            match gd_walk_call (vs_fragment_definition n cond) body c (n :: validated) acc with
            | (acc', GrOk (c', v')) => vs_loop against rest c' v' acc'
            | r => r
            end
        | None => vs_loop against rest c validated (acc + 1)                  (* UndefinedFragment *)
        end
      end
    end.

  (* one activation of validate_nested_selection_set: the loop, then the by-value `guard` is dropped *)
  Definition vs_body (against : option str) (sels : list selection) (c : gd_counter) (validated : list str)
    (acc : N) : gd_wres :=
    match vs_loop against sels c validated acc with
    | (acc', GrOk (c', v')) => (acc', GrOk (gd_guard_drop c', v'))
    | r => r
    end.
End SelWalk.

Fixpoint vs_walk (fuel : nat) (frags : str -> option (str * list selection)) (cycles_ok : str -> bool)
  (ty : vs_typing) (against : option str) (sels : list selection) (c : gd_counter) (validated : list str)
  (acc : N) : gd_wres :=
  match fuel with
  | O => (acc, GrFuel)
  | S f => vs_body frags cycles_ok ty (vs_walk f frags cycles_ok ty) against sels c validated acc
  end.

(* validate_selection_set up to its `if walked.is_err() { push RecursionError }`:
   `DepthCounter::new().with_limit(500)`, `depth.guard()`, a fresh OperationValidationContext *)
Definition vs_top_with (limit : N) (fuel : nat) (frags : str -> option (str * list selection))
  (cycles_ok : str -> bool) (ty : vs_typing) (against : option str) (sels : list selection) : gd_wres :=
  vs_walk fuel frags cycles_ok ty against sels (gd_counter_with_limit gd_counter_new limit) [] 0.
Definition vs_top := vs_top_with vs_sel_limit.

(* ------------------------------------------------------------------ directive.rs: FindRecursiveDirective

   A definition is flattened to the items the code visits in order: a directive application (`directive`)
   or the type of an input value (the tail of `input_value`).  type_definition visits the directives of
   every kind of type, then the directives of enum values, then the input values of input-object fields;
   directive_definition visits the input values of its arguments; input_value visits its directives and
   then its type. *)

Inductive gd_item := GiDir (d : str) | GiType (t : str).

Definition gd_dir_names (ds : list directive) : list str := map d_name ds.
Definition gd_sdir_names (ds : sdirs) : list str := map (fun c => d_name (c_val c)) ds.

Definition gd_input_items (iv : inputvaldef) : list gd_item :=
  map GiDir (gd_dir_names (iv_dirs iv)) ++ [GiType (inner_named_type (iv_ty iv))].

Definition gd_dirdef_items (d : dirdef) : list gd_item := flat_map gd_input_items (dd_args d).

Definition gd_type_items (t : ext_type) : list gd_item :=
  match t with
  | EScalar _ _ dirs _ | EObject _ _ _ dirs _ _ | EInterface _ _ _ dirs _ _ | EUnion _ _ dirs _ _ =>
    map GiDir (gd_sdir_names dirs)
  | EEnum _ _ dirs values _ =>
    map GiDir (gd_sdir_names dirs)
    ++ flat_map (fun v => map GiDir (gd_dir_names (ev_dirs (c_val v)))) values
  | EInput _ _ dirs fields _ =>
    map GiDir (gd_sdir_names dirs) ++ flat_map (fun f => gd_input_items (c_val f)) fields
  end.

Section DirCycle.
  Variable find_dir : str -> option (list gd_item).                 (* schema.directive_definitions.get *)
  Variable find_type : str -> option (str * bool * list gd_item).   (* schema.types.get: (name, is_built_in, items) *)
  Variable rec : list gd_item -> gd_stack -> gd_stack -> gd_res (gd_stack * gd_stack).

  Fixpoint gd_dir_loop (items : list gd_item) (ds ts : gd_stack) {struct items}
    : gd_res (gd_stack * gd_stack) :=
    match items with
    | [] => GrOk (ds, ts)
    | GiDir d :: rest =>
      if negb (gd_contains ds d) then
        match find_dir d with
        | Some body =>
          match gd_push ds d with
          | GpPanic => GrPanic
          | GpLimit => GrLimit
          | GpOk ds1 =>
            match rec body ds1 ts with
            | GrOk (ds2, ts2) => gd_dir_loop rest (gd_pop ds2) ts2
            | GrCycle tr => GrCycle (tr ++ [d])
            | GrLimit => GrLimit | GrPanic => GrPanic | GrFuel => GrFuel
            end
          end
        | None => gd_dir_loop rest ds ts
        end
      else if gd_first_is ds d then GrCycle [d]
      else gd_dir_loop rest ds ts
    | GiType t :: rest =>
      match find_type t with
      | Some (tname, built_in, body) =>
        if gd_contains ts tname then gd_dir_loop rest ds ts       (* input type was already processed *)
        else if negb built_in then
          match gd_push ts tname with
          | GpPanic => GrPanic
          | GpLimit => GrLimit
          | GpOk ts1 =>
            match rec body ds ts1 with
            | GrOk (ds2, ts2) => gd_dir_loop rest ds2 (gd_pop ts2)
            | e => e
            end
          end
        else
          match rec body ds ts with
          | GrOk (ds2, ts2) => gd_dir_loop rest ds2 ts2
          | e => e
          end
      | None => gd_dir_loop rest ds ts
      end
    end.
End DirCycle.

Fixpoint gd_dir_detect (fuel : nat) (find_dir : str -> option (list gd_item))
  (find_type : str -> option (str * bool * list gd_item))
  (items : list gd_item) (ds ts : gd_stack) : gd_res (gd_stack * gd_stack) :=
  match fuel with
  | O => GrFuel
  | S f => gd_dir_loop find_dir find_type (gd_dir_detect f find_dir find_type) items ds ts
  end.

(* FindRecursiveDirective::check *)
Definition gd_dir_check_with (limit : N) (fuel : nat) (find_dir : str -> option (list gd_item))
  (find_type : str -> option (str * bool * list gd_item)) (name : str) (items : list gd_item)
  : gd_res (gd_stack * gd_stack) :=
  gd_dir_detect fuel find_dir find_type items
    (gd_stack_with_limit (gd_stack_with_root name) limit) (gd_stack_with_limit gd_stack_new limit).
Definition gd_dir_check := gd_dir_check_with gd_default_limit.

Definition gd_schema_find_dir (s : schema) (n : str) : option (list gd_item) :=
  match sch_find_dirdef n (sch_dirdefs s) with Some d => Some (gd_dirdef_items d) | None => None end.
Definition gd_schema_find_type (s : schema) (n : str) : option (str * bool * list gd_item) :=
  match sch_get_type s n with
  | Some t => Some (et_name t, et_builtin t, gd_type_items t)
  | None => None
  end.

(* ------------------------------------------------------------------ input_object.rs: FindRecursiveInputValue

   `look n` is schema.get_input_object(n) as the list of the names `T` of its fields of type `T!`
   (ast::Type::NonNullNamed), in field order; other field types are skipped by the code. *)

Section InputCycle.
  Variable look : str -> option (list str).
  Variable rec : list str -> gd_stack -> gd_res gd_stack.

  Fixpoint gd_input_loop (fields : list str) (seen : gd_stack) {struct fields} : gd_res gd_stack :=
    match fields with
    | [] => GrOk seen
    | name :: rest =>
      if negb (gd_contains seen name) then
        match look name with
        | Some body =>
          match gd_push seen name with
          | GpPanic => GrPanic
          | GpLimit => GrLimit
          | GpOk s1 =>
            match rec body s1 with
            | GrOk s2 => gd_input_loop rest (gd_pop s2)
            | GrCycle tr => GrCycle (tr ++ [name])
            | e => e
            end
          end
        | None => gd_input_loop rest seen
        end
      else if gd_first_is seen name then GrCycle [name]
      else gd_input_loop rest seen
    end.
End InputCycle.

Fixpoint gd_input_detect (fuel : nat) (look : str -> option (list str)) (fields : list str)
  (seen : gd_stack) : gd_res gd_stack :=
  match fuel with
  | O => GrFuel
  | S f => gd_input_loop look (gd_input_detect f look) fields seen
  end.

(* FindRecursiveInputValue::check *)
Definition gd_input_check_with (limit : N) (fuel : nat) (look : str -> option (list str))
  (name : str) (fields : list str) : gd_res gd_stack :=
  gd_input_detect fuel look fields (gd_stack_with_limit (gd_stack_with_root name) limit).
Definition gd_input_check := gd_input_check_with gd_default_limit.

Definition gd_nonnull_targets (fields : list (comp inputvaldef)) : list str :=
  flat_map (fun f => match iv_ty (c_val f) with TNonNullNamed n => [n] | _ => [] end) fields.
Definition gd_schema_input (s : schema) (n : str) : option (list str) :=
  match sch_get_type s n with
  | Some (EInput _ _ _ fields _) => Some (gd_nonnull_targets fields)
  | _ => None
  end.

(* ------------------------------------------------------------------ selection.rs: FieldsInSetCanMerge

   apollo_parser::LimitTracker and the two mutually recursive layers
     FieldsInSetCanMerge::same_*_by_name  (check_and_increment / lookup / decrement)
     MergedFieldSet::same_*_by_name       (OnceBool, then one call per group with nested selections)
   over an abstract graph of merged field sets: `children n` are the merged sets of the nested selection
   sets of the groups of set n, in group order; `memo` is the set of field sets whose OnceBool is on
   (the `cache` maps equal selections to one MergedFieldSet). *)

Definition gd_field_depth_limit : N := 128.     (* FIELD_DEPTH_LIMIT *)

Record gd_tracker := mk_gdt { gdt_current : N; gdt_high : N; gdt_limit : N }.
Definition gd_tracker_new (limit : N) : gd_tracker := mk_gdt 0 0 limit.

(* LimitTracker::check_and_increment: returns the tracker and `reached` *)
Definition gd_check_and_increment (t : gd_tracker) : gd_tracker * bool :=
  let cur := gdt_current t + 1 in
  let high := if gdt_high t <? cur then cur else gdt_high t in
  let reached := gdt_limit t <? cur in
  (mk_gdt (if reached then cur - 1 else cur) high (gdt_limit t), reached).

(* LimitTracker::decrement: `self.current -= 1` (usize: underflow panics with overflow checks) *)
Definition gd_decrement (t : gd_tracker) : option gd_tracker :=
  if gdt_current t =? 0 then None
  else Some (mk_gdt (gdt_current t - 1) (gdt_high t) (gdt_limit t)).

Section Merge.
  Variable children : str -> list str.
  Variable rec : str -> gd_tracker -> list str -> gd_res (gd_tracker * list str).

  Fixpoint gd_merge_loop (kids : list str) (t : gd_tracker) (memo : list str) {struct kids}
    : gd_res (gd_tracker * list str) :=
    match kids with
    | [] => GrOk (t, memo)
    | k :: rest =>
      match rec k t memo with
      | GrOk (t', memo') => gd_merge_loop rest t' memo'
      | e => e
      end
    end.

  (* MergedFieldSet::same_*_by_name *)
  Definition gd_merge_set (node : str) (t : gd_tracker) (memo : list str)
    : gd_res (gd_tracker * list str) :=
    if gd_mem node memo then GrOk (t, memo)                (* already_done() *)
    else gd_merge_loop (children node) t (node :: memo).

  (* FieldsInSetCanMerge::same_*_by_name *)
  Definition gd_merge_call (node : str) (t : gd_tracker) (memo : list str)
    : gd_res (gd_tracker * list str) :=
    let (t1, reached) := gd_check_and_increment t in
    if reached then GrOk (t1, memo)
    else
      match gd_merge_set node t1 memo with
      | GrOk (t2, memo2) =>
        match gd_decrement t2 with
        | Some t3 => GrOk (t3, memo2)
        | None => GrPanic
        end
      | e => e
      end.
End Merge.

Fixpoint gd_merge (fuel : nat) (children : str -> list str) (node : str) (t : gd_tracker)
  (memo : list str) : gd_res (gd_tracker * list str) :=
  match fuel with
  | O => GrFuel
  | S f => gd_merge_call children (gd_merge f children) node t memo
  end.

(* FieldsInSetCanMerge::validate_operation: the two walks from the operation's field set, then
   `if self.recursion_limit.high > self.recursion_limit.limit { push RecursionLimitError }`.
   The tracker and both memo sets belong to the validator, which is shared by all operations. *)
Definition gd_merge_operation (fuel : nat) (shape_children parent_children : str -> list str)
  (root : str) (t : gd_tracker) (memo1 memo2 : list str)
  : gd_res (gd_tracker * list str * list str * bool) :=
  match gd_merge_set shape_children (gd_merge fuel shape_children) root t memo1 with
  | GrOk (t1, memo1') =>
    match gd_merge_set parent_children (gd_merge fuel parent_children) root t1 memo2 with
    | GrOk (t2, memo2') => GrOk (t2, memo1', memo2', gdt_limit t2 <? gdt_high t2)
    | GrCycle tr => GrCycle tr | GrLimit => GrLimit | GrPanic => GrPanic | GrFuel => GrFuel
    end
  | GrCycle tr => GrCycle tr | GrLimit => GrLimit | GrPanic => GrPanic | GrFuel => GrFuel
  end.

(* ------------------------------------------------------------------ DiagnosticList::sort

   `sort_by_key(|err| err.location.map(|loc| (loc.file_id(), loc.offset())))`: a stable sort by
   Option<(file id, offset)> with None first (derived Ord of Option and of tuples).  The standard
   library's sort_by_key is trusted to be a stable sort; its model is insertion sort. *)

Definition gd_key := option (N * N).

Definition gd_key_le (a b : gd_key) : bool :=
  match a, b with
  | None, _ => true
  | Some _, None => false
  | Some (f1, o1), Some (f2, o2) => (f1 <? f2) || ((f1 =? f2) && (o1 <=? o2))
  end.

Section Sort.
  Context {A : Type}.
  Variable key : A -> gd_key.

  (* insert x in front of the first element whose key is not smaller: x came earlier in the input *)
  Fixpoint gd_insert (x : A) (l : list A) : list A :=
    match l with
    | [] => [x]
    | y :: r => if gd_key_le (key x) (key y) then x :: y :: r else y :: gd_insert x r
    end.

  Fixpoint gd_sort (l : list A) : list A :=
    match l with
    | [] => []
    | x :: r => gd_insert x (gd_sort r)
    end.

  Fixpoint gd_is_sorted (l : list A) : bool :=
    match l with
    | [] => true
    | x :: r => match r with [] => true | y :: _ => gd_key_le (key x) (key y) && gd_is_sorted r end
    end.
End Sort.

(* ------------------------------------------------------------------ entry points used by the tie *)

(* fuel used by the extracted runners: GuardsProofs.v proves limit + 1 activations suffice *)
Definition gd_fuel_of (limit : N) : nat := S (N.to_nat limit).

(* executable::ExecutableDocument::fragments as built from an ast::Document: the first definition of a name wins *)
Fixpoint gd_doc_frags (d : document) : list (str * list selection) :=
  match d with
  | [] => []
  | DFragment n _ _ sels :: r =>
    (n, sels) :: filter (fun e => negb (streq (fst e) n)) (gd_doc_frags r)
  | _ :: r => gd_doc_frags r
  end.

(* look-up tables are built once per document (`let`), not once per look-up *)
Definition gd_frag_table := list (str * list selection).

Definition gd_table_look (fr : list (str * (str * list str))) (n : str) : option (str * list str) :=
  gd_lookup n fr.
Definition gd_spread_table (fr : gd_frag_table) : list (str * (str * list str)) :=
  map (fun e => (fst e, (fst e, gd_spreads (snd e)))) fr.

Definition gd_table_sels (fr : gd_frag_table) (n : str) : option (list selection) := gd_lookup n fr.

Inductive gd_verdict := GvOk | GvCycle | GvLimit | GvPanic | GvFuel.
Definition gd_verdict_of {S} (r : gd_res S) : gd_verdict :=
  match r with GrOk _ => GvOk | GrCycle _ => GvCycle | GrLimit => GvLimit | GrPanic => GvPanic | GrFuel => GvFuel end.

(* validate_fragment_cycles for every fragment of the document, in `fragments` order *)
Definition gd_doc_frag_verdicts (d : document) : list (str * gd_verdict) :=
  let fr := gd_doc_frags d in
  let tbl := gd_spread_table fr in
  map (fun e => (fst e, gd_verdict_of (gd_frag_check (gd_fuel_of gd_frag_limit) (gd_table_look tbl)
                                         (fst e) (snd (snd e)))))
      tbl.

(* the operations of a document, in order *)
Fixpoint gd_doc_ops (d : document) : list (optype * list selection) :=
  match d with
  | [] => []
  | DOperation ty _ _ _ sels :: r => (ty, sels) :: gd_doc_ops r
  | _ :: r => gd_doc_ops r
  end.

Definition gd_is_limit {S} (r : gd_res S) : bool := match r with GrLimit => true | _ => false end.
Definition gd_optype_eqb (a b : optype) : bool :=
  match a, b with
  | OpQuery, OpQuery | OpMutation, OpMutation | OpSubscription, OpSubscription => true
  | _, _ => false
  end.

Definition gd_doc_walk (m : gd_mode) (fr : gd_frag_table) (sels : list selection) : gd_wres :=
  gd_walk_top (gd_fuel_of gd_walk_limit) (gd_table_sels fr) m sels.

(* document.fragments with the type conditions: the first definition of a name wins *)
Fixpoint vs_doc_frags (d : document) : list (str * (str * list selection)) :=
  match d with
  | [] => []
  | DFragment n cond _ sels :: r =>
    (n, (cond, sels)) :: filter (fun e => negb (streq (fst e) n)) (vs_doc_frags r)
  | _ :: r => vs_doc_frags r
  end.

(* validate_fragment_cycles(def) pushed nothing: neither RecursiveFragmentDefinition nor DeeplyNestedType *)
Definition vs_cycles_ok (tbl : list (str * (str * list str))) (n : str) : bool :=
  match gd_lookup n tbl with
  | Some (_, spreads) =>
    match gd_verdict_of (gd_frag_check (gd_fuel_of gd_frag_limit) (gd_table_look tbl) n spreads) with
    | GvOk => true
    | _ => false
    end
  | None => false
  end.

(* validate_operation: validate_selection_set of the operation against its root type *)
Definition vs_doc_walk (ty : vs_typing) (doc : document) (op : optype * list selection) : gd_wres :=
  let fr := vs_doc_frags doc in
  let tbl := gd_spread_table (gd_doc_frags doc) in
  vs_top (gd_fuel_of vs_sel_limit) (fun n => gd_lookup n fr) (vs_cycles_ok tbl) ty
         (if vst_schema ty then vst_root ty (fst op) else None) (snd op).

(* What the guarded walks of executable validation leave in the diagnostics of a document, in the order
   executable/validation.rs runs them:
   - validate_operation_definitions, for every operation: validate_unused_variables pushes one RecursionError
     if its deduplicating walk fails, then validate_selection_set pushes one RecursionError if its walk fails
     (and UndefinedFragment for every spread of an undefined fragment it visits);
   - validate_fragments_used pushes one RecursionLimitError without location when collect_used_fragments
     fails (the `?` stops at the first failing operation);
   - validate_defer: validate_defer_labels runs walk_defers_in_selection_set over every operation and every
     fragment definition, forbid_defer_on_root runs for mutations and subscriptions,
     forbid_unconditional_defer for subscriptions; their diagnostics stay whatever the result of the walk;
     if some walk ended with the limit error (`limit_reached`) and the list holds no RecursionError /
     RecursionLimitError yet (`!diagnostics.has_recursion_error()`: only the walks above can have pushed
     one into a list that had none when validation started), one RecursionError is pushed;
   - validate_with_schema: validate_subscription pushes one RecursionError for every subscription whose
     walk_selections fails.
   `swallow = true` is validate_defer as it was before its repair: the results of its walks were
   discarded (`let _ =`) and it never pushed a RecursionError. *)
Record gd_walk_obs := mk_gwo {
  gwo_recursion : N; gwo_used_limit : N; gwo_defer_root : N; gwo_uncond : N;
  gwo_defer_truncated : bool;   (* `limit_reached`: some @defer walk ended with the limit error *)
  gwo_sel_limit : N;            (* operations whose validate_selection_set ended with the limit error *)
  gwo_undefined : N             (* UndefinedFragment diagnostics *) }.

Definition gd_b2n (b : bool) : N := if b then 1 else 0.

Definition gd_doc_walk_obs_with (swallow : bool) (ty : vs_typing) (doc : document) : gd_walk_obs :=
  let d := gd_doc_frags doc in
  let ops := gd_doc_ops doc in
  let dedup_limit := map (fun o => gd_is_limit (snd (gd_doc_walk gd_mode_dedup d (snd o)))) ops in
  let sel := map (vs_doc_walk ty doc) ops in
  let sel_limit := map (fun r => gd_is_limit (snd r)) sel in
  let sub_limit := map (fun o => gd_optype_eqb (fst o) OpSubscription
                                 && gd_is_limit (snd (gd_doc_walk gd_mode_walk_selections d (snd o)))) ops in
  let limit_reached :=
    existsb (fun o => gd_is_limit (snd (gd_doc_walk gd_mode_defers d (snd o)))) ops
    || existsb (fun f => gd_is_limit (snd (gd_doc_walk gd_mode_defers d (snd f)))) d
    || existsb (fun o => (negb (gd_optype_eqb (fst o) OpQuery)
                          && gd_is_limit (snd (gd_doc_walk gd_mode_defer_root d (snd o))))
                         || (gd_optype_eqb (fst o) OpSubscription
                             && gd_is_limit (snd (gd_doc_walk gd_mode_uncond_defer d (snd o))))) ops in
  (* has_recursion_error() when validate_defer asks: a RecursionError of validate_unused_variables (and then
     also the RecursionLimitError of validate_fragments_used, which runs the same walk) or of
     validate_selection_set *)
  let reported_before := existsb (fun b => b) dedup_limit || existsb (fun b => b) sel_limit in
  mk_gwo
    (fold_right N.add 0 (map gd_b2n dedup_limit)
     + fold_right N.add 0 (map gd_b2n sel_limit)
     + gd_b2n (negb swallow && limit_reached && negb reported_before)
     + fold_right N.add 0 (map gd_b2n sub_limit))
    (gd_b2n (existsb (fun b => b) dedup_limit))
    (fold_right N.add 0 (map (fun o => if gd_optype_eqb (fst o) OpQuery then 0
                                       else fst (gd_doc_walk gd_mode_defer_root d (snd o))) ops))
    (fold_right N.add 0 (map (fun o => if gd_optype_eqb (fst o) OpSubscription
                                       then fst (gd_doc_walk gd_mode_uncond_defer d (snd o)) else 0) ops))
    limit_reached
    (fold_right N.add 0 (map gd_b2n sel_limit))
    (fold_right N.add 0 (map fst sel)).

Definition gd_doc_walk_obs : vs_typing -> document -> gd_walk_obs := gd_doc_walk_obs_with false.
(* validate_defer before its repair (kept for the refuted witness of the former finding defer_walk_limit_swallowed) *)
Definition gd_doc_walk_obs_old : vs_typing -> document -> gd_walk_obs := gd_doc_walk_obs_with true.

(* the typing functions of a built schema *)
Definition vs_s_typename : str := [95;95;116;121;112;101;110;97;109;101].     (* __typename *)
Definition vs_s_schema : str := [95;95;115;99;104;101;109;97].                 (* __schema *)
Definition vs_s_type : str := [95;95;116;121;112;101].                          (* __type *)
Definition vs_s_String : str := [83;116;114;105;110;103].
Definition vs_s_Schema : str := [95;95;83;99;104;101;109;97].                   (* __Schema *)
Definition vs_s_Type : str := [95;95;84;121;112;101].                            (* __Type *)

Definition vs_schema_composite (s : schema) (t : str) : bool :=
  match sch_get_type s t with
  | Some (EObject _ _ _ _ _ _) | Some (EInterface _ _ _ _ _ _) | Some (EUnion _ _ _ _ _) => true
  | _ => false
  end.

Definition vs_schema_root (s : schema) (op : optype) : option str :=
  let r := match op with
           | OpQuery => sd_query (sch_def s)
           | OpMutation => sd_mutation (sch_def s)
           | OpSubscription => sd_subscription (sch_def s)
           end in
  match r with Some c => Some (c_val c) | None => None end.

Fixpoint vs_find_field (f : str) (fs : list (comp fielddef)) : option str :=
  match fs with
  | [] => None
  | c :: r => if streq f (fd_name (c_val c)) then Some (inner_named_type (fd_ty (c_val c))) else vs_find_field f r
  end.

(* Schema::type_field: explicit fields of objects and interfaces, then the meta fields *)
Definition vs_schema_field (s : schema) (t f : str) : option str :=
  match sch_get_type s t with
  | None => None
  | Some et =>
    let explicit := match et with
                    | EObject _ _ _ _ fs _ | EInterface _ _ _ _ fs _ => vs_find_field f fs
                    | _ => None
                    end in
    match explicit with
    | Some r => Some r
    | None =>
      if streq f vs_s_typename && vs_schema_composite s t then Some vs_s_String
      else if match vs_schema_root s OpQuery with Some q => streq q t | None => false end then
        if streq f vs_s_schema then Some vs_s_Schema
        else if streq f vs_s_type then Some vs_s_Type
        else None
      else None
    end
  end.

Definition vs_typing_of_schema (s : schema) : vs_typing :=
  mk_vst true (vs_schema_root s) (vs_schema_field s) (vs_schema_composite s).

(* validate_standalone_executable: no schema *)
Definition vs_no_schema : vs_typing := mk_vst false (fun _ => None) (fun _ _ => None) (fun _ => false).

(* FindRecursiveInputValue::check for every input object, FindRecursiveDirective::check for every
   directive definition, in schema order *)
Definition gd_schema_input_verdicts (s : schema) : list (str * gd_verdict) :=
  flat_map (fun t => match t with
                     | EInput _ n _ fields _ =>
                       [(n, gd_verdict_of (gd_input_check (gd_fuel_of gd_default_limit) (gd_schema_input s)
                                             n (gd_nonnull_targets fields)))]
                     | _ => []
                     end) (sch_types s).

(* two stacks of 32 and the unpushed built-in types: 2 * (32 + 32) + 2 activations suffice *)
Definition gd_dir_fuel : nat := 130.

Definition gd_schema_dir_verdicts (s : schema) : list (str * gd_verdict) :=
  map (fun d => (dd_name d, gd_verdict_of (gd_dir_check gd_dir_fuel (gd_schema_find_dir s)
                                             (gd_schema_find_type s) (dd_name d) (gd_dirdef_items d))))
      (sch_dirdefs s).

(* validate_with_schema: one FieldsInSetCanMerge for all operations; one flag per operation
   (RecursionLimitError pushed at that operation) *)
Fixpoint gd_merge_ops (fuel : nat) (shape_children parent_children : str -> list str)
  (roots : list str) (t : gd_tracker) (memo1 memo2 : list str) : gd_res (list bool) :=
  match roots with
  | [] => GrOk []
  | root :: rest =>
    match gd_merge_operation fuel shape_children parent_children root t memo1 memo2 with
    | GrOk (t', memo1', memo2', flag) =>
      match gd_merge_ops fuel shape_children parent_children rest t' memo1' memo2' with
      | GrOk flags => GrOk (flag :: flags)
      | e => e
      end
    | GrCycle tr => GrCycle tr | GrLimit => GrLimit | GrPanic => GrPanic | GrFuel => GrFuel
    end
  end.

Definition gd_merge_document (shape_children parent_children : str -> list str) (roots : list str)
  : gd_res (list bool) :=
  gd_merge_ops (gd_fuel_of gd_field_depth_limit) shape_children parent_children roots
    (gd_tracker_new gd_field_depth_limit) [] [].

(* the sort on (key, payload) pairs, as the tie uses it *)
Definition gd_sort_pairs (l : list (gd_key * N)) : list (gd_key * N) := gd_sort fst l.
