(* The guarded recursion of validate_selection_set and its callees (the vs_ definitions of Guards.v): the DepthGuard bounds the
   number of nested activations of validate_nested_selection_set by limit + 1 for EVERY fragment table (cyclic
   or not), every verdict of the cycle check and every schema; more fuel never changes the result; the counter
   comes back to its start value; a walk that returns Ok returns the same under every larger limit. *)
From Coq Require Import List NArith Bool Lia.
From ApolloVerif Require Import Base.Chars Ast.Ast Schema.Model Valid.Guards Valid.GuardsProofs.
Import ListNotations.
Local Open Scope nat_scope.

Section VsProofs.
  Variable frags : str -> option (str * list selection).
  Variable cycles_ok : str -> bool.
  Variable ty : vs_typing.
  Variable limit : N.
  Let L := N.to_nat limit.

  Definition vs_rec_ok (k : nat)
    (rec : option str -> list selection -> gd_counter -> list str -> N -> gd_wres) : Prop :=
    forall ag, wk_rec_ok limit k (rec ag).

  Ltac vs_triv := split; [discriminate|split; [discriminate|intros ? ? ?; discriminate]].

  (* validate_fragment_definition hands its guard on or drops it *)
  Lemma vs_fragdef_rec_ok k rec n cond : vs_rec_ok k rec ->
    wk_rec_ok limit k (vs_fragment_definition cycles_ok ty rec n cond).
  Proof.
    intros Hrec sub c seen acc Hlim Hle Hk. unfold vs_fragment_definition.
    destruct (negb (vst_schema ty && negb (vst_composite ty cond)) && negb (negb (cycles_ok n))).
    - apply Hrec; assumption.
    - split; [discriminate|split; [discriminate|]]. cbn [snd]. intros c0 s0 H0. injection H0 as <- <-.
      cbn. split; [reflexivity|exact Hlim].
  Qed.

  Lemma vs_loop_safe k rec : vs_rec_ok k rec ->
    forall sels against c v acc, gdc_limit c = limit -> N.to_nat (gdc_value c) + k >= L ->
      wk_safe limit (vs_loop frags cycles_ok ty rec against sels c v acc) (gdc_value c).
  Proof.
    intros Hrec. induction sels as [|s rest IH]; intros against c v acc Hlim Hk; cbn [vs_loop].
    - split; [discriminate|split; [discriminate|]]. cbn. intros c0 s0 H0. injection H0 as <- <-. auto.
    - assert (Hcall : forall r0 sub sn a, wk_rec_ok limit k r0 ->
                 wk_safe limit (match gd_walk_call r0 sub c sn a with
                                | (acc', GrOk (c', v')) => vs_loop frags cycles_ok ty rec against rest c' v' acc'
                                | r => r
                                end) (gdc_value c)).
      { intros r0 sub sn a Hr0.
        pose proof (walk_call_safe limit k r0 Hr0 sub c sn a Hlim Hk) as (Hp & Hf & Hok).
        destruct (gd_walk_call r0 sub c sn a) as [acc' [[c' seen']| | | |]]; cbn [snd] in *;
          try vs_triv; try congruence.
        destruct (Hok _ _ eq_refl) as [Hv Hl]. rewrite <- Hv. apply IH; [exact Hl|]. rewrite Hv. exact Hk. }
      destruct s as [al nm args dirs sub|nm dirs|cond dirs sub].
      + destruct against as [t|]; [|apply Hcall, Hrec].
        destruct (vst_field ty t nm) as [fty|]; [|now apply IH].
        destruct (vs_is_empty sub && vst_composite ty fty); [now apply IH|apply Hcall, Hrec].
      + destruct (frags nm) as [[cond body]|]; [|now apply IH].
        destruct (gd_mem nm v); [now apply IH|]. apply Hcall. now apply vs_fragdef_rec_ok.
      + destruct (vst_schema ty && match cond with Some t => negb (vst_composite ty t) | None => false end);
          [now apply IH|apply Hcall, Hrec].
  Qed.

  Lemma vs_body_safe k rec : vs_rec_ok k rec ->
    forall against sels c v acc, gdc_limit c = limit -> N.to_nat (gdc_value c) + k >= L ->
      wk_safe limit (vs_body frags cycles_ok ty rec against sels c v acc) (gdc_value c - 1)%N.
  Proof.
    intros Hrec against sels c v acc Hlim Hk. unfold vs_body.
    pose proof (vs_loop_safe k rec Hrec sels against c v acc Hlim Hk) as (Hp & Hf & Hok).
    destruct (vs_loop frags cycles_ok ty rec against sels c v acc) as [acc' [[c' seen']| | | |]]; cbn [snd] in *;
      try vs_triv; try congruence.
    destruct (Hok _ _ eq_refl) as [Hv Hl].
    split; [discriminate|split; [discriminate|]]. cbn. intros c0 s0 H0. injection H0 as <- <-.
    cbn. split; [now rewrite Hv|exact Hl].
  Qed.

  Lemma vs_walk_rec_ok k : vs_rec_ok k (vs_walk k frags cycles_ok ty).
  Proof.
    induction k as [|k IH]; intros ag sub c seen acc Hlim Hle Hk; [unfold L in *; lia|].
    cbn [vs_walk]. apply vs_body_safe with (k := k); auto. unfold L in *. lia.
  Qed.

  (* limit + 1 nested activations of validate_nested_selection_set are enough *)
  Theorem vs_top_safe k against sels : k >= L ->
    wk_safe limit (vs_top_with limit (S k) frags cycles_ok ty against sels) 0%N.
  Proof.
    intros Hk. unfold vs_top_with. cbn [vs_walk].
    change 0%N with (gdc_value (gd_counter_with_limit gd_counter_new limit) - 1)%N.
    apply vs_body_safe with (k := k); [apply vs_walk_rec_ok|reflexivity|]. cbn. unfold L in *. lia.
  Qed.

  Definition vs_rec_mono (rec1 rec2 : list selection -> gd_counter -> list str -> N -> gd_wres) : Prop :=
    forall b c s a r, rec1 b c s a = r -> snd r <> GrFuel -> rec2 b c s a = r.

  Lemma vs_fragdef_mono rec1 rec2 n cond : (forall ag, vs_rec_mono (rec1 ag) (rec2 ag)) ->
    vs_rec_mono (vs_fragment_definition cycles_ok ty rec1 n cond) (vs_fragment_definition cycles_ok ty rec2 n cond).
  Proof.
    intros Hrec b c s a r. unfold vs_fragment_definition.
    destruct (negb (vst_schema ty && negb (vst_composite ty cond)) && negb (negb (cycles_ok n))); [apply Hrec|auto].
  Qed.

  Lemma vs_loop_mono rec1 rec2 : (forall ag, vs_rec_mono (rec1 ag) (rec2 ag)) ->
    forall sels against c v acc r, vs_loop frags cycles_ok ty rec1 against sels c v acc = r -> snd r <> GrFuel ->
                                   vs_loop frags cycles_ok ty rec2 against sels c v acc = r.
  Proof.
    intros Hrec. induction sels as [|s rest IH]; intros against c v acc r; cbn [vs_loop]; [auto|].
    assert (Hcall : forall r1 r2 sub sn a r0, vs_rec_mono r1 r2 ->
               match gd_walk_call r1 sub c sn a with
               | (acc', GrOk (c', v')) => vs_loop frags cycles_ok ty rec1 against rest c' v' acc'
               | x => x
               end = r0 -> snd r0 <> GrFuel ->
               match gd_walk_call r2 sub c sn a with
               | (acc', GrOk (c', v')) => vs_loop frags cycles_ok ty rec2 against rest c' v' acc'
               | x => x
               end = r0).
    { intros r1 r2 sub sn a r0 H12. unfold gd_walk_call. destruct (gd_increment c) as [c1 ok]. destruct ok; [|auto].
      destruct (r1 sub c1 sn a) as [acc' res] eqn:E1.
      destruct res as [[c' seen']|tr| | |]; intros Hr Hnf;
        try (rewrite (H12 _ _ _ _ _ E1) by (cbn; discriminate); auto).
      subst r0. cbn in Hnf. congruence. }
    destruct s as [al nm args dirs sub|nm dirs|cond dirs sub].
    - destruct against as [t|]; [|apply Hcall, Hrec].
      destruct (vst_field ty t nm) as [fty|]; [|apply IH].
      destruct (vs_is_empty sub && vst_composite ty fty); [apply IH|apply Hcall, Hrec].
    - destruct (frags nm) as [[cond body]|]; [|apply IH].
      destruct (gd_mem nm v); [apply IH|]. apply Hcall. now apply vs_fragdef_mono.
    - destruct (vst_schema ty && match cond with Some t => negb (vst_composite ty t) | None => false end);
        [apply IH|apply Hcall, Hrec].
  Qed.

  Lemma vs_mono k j against sels c v acc r :
    vs_walk k frags cycles_ok ty against sels c v acc = r -> snd r <> GrFuel ->
    vs_walk (k + j) frags cycles_ok ty against sels c v acc = r.
  Proof.
    revert against sels c v acc r. induction k as [|k IH]; intros against sels c v acc r; cbn [vs_walk plus].
    - intros <- H. cbn in H. congruence.
    - unfold vs_body. intros Hr Hnf.
      destruct (vs_loop frags cycles_ok ty (vs_walk k frags cycles_ok ty) against sels c v acc) as [acc' res] eqn:E.
      assert (Hnf' : snd (acc', res) <> GrFuel).
      { destruct res; subst r; cbn in *; congruence. }
      rewrite (vs_loop_mono _ _ (fun ag b c0 s a r0 => IH ag b c0 s a r0) _ _ _ _ _ _ E Hnf'). exact Hr.
  Qed.
End VsProofs.

Section VsRaise.
  Variable frags : str -> option (str * list selection).
  Variable cycles_ok : str -> bool.
  Variable ty : vs_typing.
  Variables la lb : N.
  Hypothesis Hlab : (la <= lb)%N.

  Definition vs_rec_raise (rec rec' : list selection -> gd_counter -> list str -> N -> gd_wres) : Prop :=
    forall b c c' s a, raise_counters la lb c c' -> wk_raise_rel la lb (rec b c s a) (rec' b c' s a).

  Lemma vs_fragdef_raise rec rec' n cond : (forall ag, vs_rec_raise (rec ag) (rec' ag)) ->
    vs_rec_raise (vs_fragment_definition cycles_ok ty rec n cond) (vs_fragment_definition cycles_ok ty rec' n cond).
  Proof.
    intros Hrec b c c' s a Hc. unfold vs_fragment_definition.
    destruct (negb (vst_schema ty && negb (vst_composite ty cond)) && negb (negb (cycles_ok n))); [now apply Hrec|].
    unfold wk_raise_rel. cbn [fst snd]. eexists. split; [reflexivity|].
    destruct Hc as (Hv & Ha & Hb). unfold raise_counters, gd_guard_drop. cbn. rewrite Hv. auto.
  Qed.

  Lemma vs_loop_raise rec rec' : (forall ag, vs_rec_raise (rec ag) (rec' ag)) ->
    forall sels against c c' s a, raise_counters la lb c c' ->
      wk_raise_rel la lb (vs_loop frags cycles_ok ty rec against sels c s a)
                         (vs_loop frags cycles_ok ty rec' against sels c' s a).
  Proof.
    intros Hrec. induction sels as [|x rest IH]; intros against c c' s a Hc; cbn [vs_loop].
    - cbn. eexists. split; [reflexivity|exact Hc].
    - assert (Hcall : forall r0 r0' sub sn a0, vs_rec_raise r0 r0' ->
                 wk_raise_rel la lb
                   (match gd_walk_call r0 sub c sn a0 with
                    | (acc', GrOk (c1, v')) => vs_loop frags cycles_ok ty rec against rest c1 v' acc'
                    | r => r
                    end)
                   (match gd_walk_call r0' sub c' sn a0 with
                    | (acc', GrOk (c1, v')) => vs_loop frags cycles_ok ty rec' against rest c1 v' acc'
                    | r => r
                    end)).
      { intros r0 r0' sub sn a0 H0. unfold gd_walk_call, gd_increment. destruct Hc as (Hv & Hla & Hlb).
        rewrite <- Hv, Hla, Hlb.
        destruct (N.ltb la (gdc_value c + 1)) eqn:E; cbn [negb]; [exact I|].
        destruct (N.ltb lb (gdc_value c + 1)) eqn:E'; [apply N.ltb_lt in E'; apply N.ltb_ge in E; lia|]. cbn [negb].
        match goal with |- context [r0 sub ?c1 sn a0] =>
          match goal with |- context [r0' sub ?c1' sn a0] =>
            assert (Hc1 : raise_counters la lb c1 c1') by (repeat split; cbn; auto);
            pose proof (H0 sub c1 c1' sn a0 Hc1) as Hr;
            destruct (r0 sub c1 sn a0) as [acc1 res1]; destruct (r0' sub c1' sn a0) as [acc1' res1']
          end end.
        unfold wk_raise_rel in Hr. cbn [fst snd] in Hr.
        destruct res1 as [[c2 s2]|tr| | |].
        - destruct Hr as (c2' & [= -> ->] & Hc2). now apply IH.
        - exact I.
        - exact I.
        - unfold wk_raise_rel. cbn [snd] in *. subst res1'. reflexivity.
        - exact I. }
      destruct x as [al nm args dirs sub|nm dirs|cond dirs sub].
      + destruct against as [t|]; [|apply Hcall, Hrec].
        destruct (vst_field ty t nm) as [fty|]; [|now apply IH].
        destruct (vs_is_empty sub && vst_composite ty fty); [now apply IH|apply Hcall, Hrec].
      + destruct (frags nm) as [[cond body]|]; [|now apply IH].
        destruct (gd_mem nm s); [now apply IH|]. apply Hcall. now apply vs_fragdef_raise.
      + destruct (vst_schema ty && match cond with Some t => negb (vst_composite ty t) | None => false end);
          [now apply IH|apply Hcall, Hrec].
  Qed.

  Lemma vs_raise k against sels c c' s a : raise_counters la lb c c' ->
    wk_raise_rel la lb (vs_walk k frags cycles_ok ty against sels c s a)
                       (vs_walk k frags cycles_ok ty against sels c' s a).
  Proof.
    revert against sels c c' s a. induction k as [|k IH]; intros against sels c c' s a Hc; cbn [vs_walk]; [exact I|].
    unfold vs_body.
    pose proof (vs_loop_raise _ _ (fun ag b c0 c0' s0 a0 H => IH ag b c0 c0' s0 a0 H) sels against c c' s a Hc) as Hr.
    destruct (vs_loop frags cycles_ok ty (vs_walk k frags cycles_ok ty) against sels c s a) as [acc1 res1].
    destruct (vs_loop frags cycles_ok ty (vs_walk k frags cycles_ok ty) against sels c' s a) as [acc1' res1'].
    unfold wk_raise_rel in *. cbn [fst snd] in *.
    destruct res1 as [[c2 s2]|tr| | |]; auto.
    - destruct Hr as (c2' & [= -> ->] & (Hv & Ha & Hb)). eexists. split; [reflexivity|].
      unfold raise_counters, gd_guard_drop. cbn. rewrite Hv. auto.
    - rewrite Hr. reflexivity.
  Qed.

  Theorem vs_top_raise k against sels :
    wk_raise_rel la lb (vs_top_with la k frags cycles_ok ty against sels)
                       (vs_top_with lb k frags cycles_ok ty against sels).
  Proof. apply vs_raise. repeat split. Qed.
End VsRaise.

(* validate_selection_set: limit + 1 nested activations suffice whatever the document and the schema, more
   fuel changes nothing, no debug assertion can fire, and an Ok walk is the walk under any larger limit
   (same UndefinedFragment count, same validated fragments): only GrLimit cuts anything off, and that is
   what validate_selection_set reports *)
Theorem vs_walk_depth frags cycles_ok ty limit fuel against sels :
  (fuel >= gd_fuel_of limit)%nat ->
  let r := vs_top_with limit (gd_fuel_of limit) frags cycles_ok ty against sels in
  vs_top_with limit fuel frags cycles_ok ty against sels = r /\ snd r <> GrFuel /\ snd r <> GrPanic /\
  forall limit' c s, (limit <= limit')%N -> snd r = GrOk (c, s) ->
    exists c', vs_top_with limit' (gd_fuel_of limit) frags cycles_ok ty against sels = (fst r, GrOk (c', s)).
Proof.
  intros Hfuel r. unfold gd_fuel_of in *.
  destruct (vs_top_safe frags cycles_ok ty limit (N.to_nat limit) against sels) as (Hp & Hf & _); [lia|].
  fold r in Hp, Hf.
  split; [|split; [exact Hf|split; [exact Hp|]]].
  - replace fuel with (S (N.to_nat limit) + (fuel - S (N.to_nat limit)))%nat by lia.
    unfold vs_top_with. apply vs_mono; [reflexivity|exact Hf].
  - intros limit' c s Hle Hok.
    pose proof (vs_top_raise frags cycles_ok ty limit limit' Hle (S (N.to_nat limit)) against sels) as R.
    unfold wk_raise_rel in R. fold r in R. rewrite Hok in R.
    destruct R as (c' & E & _). exists c'. exact E.
Qed.

(* ---- document level: every operation whose validate_selection_set walk ended with the limit error has its
   RecursionError in the diagnostics *)
Theorem vs_sel_limit_reported : forall swallow ty doc,
  let o := gd_doc_walk_obs_with swallow ty doc in
  (gwo_sel_limit o <= gwo_recursion o)%N /\
  gwo_sel_limit o
  = fold_right N.add 0%N (map (fun op => gd_b2n (gd_is_limit (snd (vs_doc_walk ty doc op)))) (gd_doc_ops doc)).
Proof.
  intros swallow ty doc. unfold gd_doc_walk_obs_with. cbn [gwo_sel_limit gwo_recursion]. split; [lia|].
  rewrite !map_map. reflexivity.
Qed.
