(* The DepthCounter walks (Valid/Guards.v, gd_walk) visit exactly what is reachable, or fail with the limit
   error: when a walk returns Ok, its `seen` set is exactly the set of fragment names spread anywhere in the
   selection sets reachable from the start (through field selection sets if the walk descends into fields,
   through inline fragments, through the definitions of spread fragments).  For
   walk_selections_with_deduped_fragments this says that collect_used_fragments -- hence every UnusedFragment
   diagnostic -- is exact unless a RecursionLimitError is reported.  (Walks that follow fragment spreads and
   have no `skip` test: walk_selections, the deduplicating walk, forbid_defer_on_root.) *)
From ApolloVerif Require Import Base.Chars Ast.Ast Valid.Guards Valid.GuardsProofs Valid.CycleExact.

Section WalkExact.
  Variable frags : str -> option (list selection).
  Variable m : gd_mode.
  Hypothesis no_skip : gm_skip m = false.
  Hypothesis spreads_on : gm_spreads m = true.

  (* the names spread directly in a selection set: through field selection sets (if descended into) and
     inline fragments, not through fragment definitions *)
  Fixpoint direct_sel (s : selection) : list str :=
    match s with
    | SField _ _ _ _ sub =>
      if gm_fields m then (fix go (l : list selection) : list str :=
                             match l with [] => [] | x :: r => direct_sel x ++ go r end) sub
      else []
    | SSpread n _ => [n]
    | SInline _ _ sub => (fix go (l : list selection) : list str :=
                            match l with [] => [] | x :: r => direct_sel x ++ go r end) sub
    end.
  Definition direct (sels : list selection) : list str := flat_map direct_sel sels.

  Lemma direct_field a n args dirs sub :
    direct_sel (SField a n args dirs sub) = if gm_fields m then direct sub else [].
  Proof.
    cbn [direct_sel]. destruct (gm_fields m); [|reflexivity].
    unfold direct. induction sub as [|x r IH]; cbn [flat_map]; [reflexivity|now rewrite IH].
  Qed.

  Lemma direct_inline c dirs sub : direct_sel (SInline c dirs sub) = direct sub.
  Proof.
    cbn [direct_sel]. unfold direct. induction sub as [|x r IH]; cbn [flat_map]; [reflexivity|now rewrite IH].
  Qed.

  (* names reachable from a list of root names through fragment definitions *)
  Inductive reach_from (roots : list str) : str -> Prop :=
  | rf_root n : In n roots -> reach_from roots n
  | rf_step k body n : reach_from roots k -> frags k = Some body -> In n (direct body) -> reach_from roots n.

  Lemma reach_from_mono r1 r2 n : incl r1 r2 -> reach_from r1 n -> reach_from r2 n.
  Proof. intros Hi. induction 1; [apply rf_root; auto|eapply rf_step; eauto]. Qed.

  Lemma reach_from_lift k body n : frags k = Some body -> reach_from (direct body) n -> reach_from [k] n.
  Proof.
    intros Hk. induction 1 as [n Hn|j b n Hj IH Hb Hn].
    - eapply rf_step; [apply rf_root; now left|exact Hk|exact Hn].
    - eapply rf_step; eauto.
  Qed.

  Definition post (seen0 roots seen1 : list str) : Prop :=
    incl seen0 seen1 /\
    (forall n, In n roots -> In n seen1) /\
    (forall n, In n seen1 -> ~ In n seen0 -> forall b, frags n = Some b -> forall k, In k (direct b) -> In k seen1) /\
    (forall n, In n seen1 -> In n seen0 \/ reach_from roots n).

  Lemma post_refl seen : post seen [] seen.
  Proof.
    split; [apply incl_refl|split; [intros n []|split; [intros n H1 H2; contradiction|intros n H; now left]]].
  Qed.

  Lemma post_compose s0 ra sa rb s1 : post s0 ra sa -> post sa rb s1 -> post s0 (ra ++ rb) s1.
  Proof.
    intros (A1 & A2 & A3 & A4) (B1 & B2 & B3 & B4). split; [eapply incl_tran; eauto|split; [|split]].
    - intros n Hn. apply in_app_or in Hn. destruct Hn; auto.
    - intros n Hn Hn0 b Hb k Hk. destruct (in_dec (list_eq_dec N.eq_dec) n sa) as [Ha|Ha].
      + apply B1. eapply A3; eauto.
      + eapply B3; eauto.
    - intros n Hn. destruct (B4 n Hn) as [Ha|Hr].
      + destruct (A4 n Ha) as [H0|Hr]; [now left|right]. eapply reach_from_mono; [|exact Hr]. apply incl_appl, incl_refl.
      + right. eapply reach_from_mono; [|exact Hr]. apply incl_appr, incl_refl.
  Qed.

  Definition rec_post (rec : list selection -> gd_counter -> list str -> N -> gd_wres) : Prop :=
    forall sub c seen acc acc' c' seen', rec sub c seen acc = (acc', GrOk (c', seen')) -> post seen (direct sub) seen'.

  Lemma call_post rec : rec_post rec -> forall sub c seen acc acc' c' seen',
    gd_walk_call rec sub c seen acc = (acc', GrOk (c', seen')) -> post seen (direct sub) seen'.
  Proof.
    intros Hrec sub c seen acc acc' c' seen'. unfold gd_walk_call. destruct (gd_increment c) as [c1 ok].
    destruct ok; [apply Hrec|discriminate].
  Qed.

  Lemma walk_loop_post rec : rec_post rec -> forall sels c seen acc acc' c' seen',
    gd_walk_loop frags m rec sels c seen acc = (acc', GrOk (c', seen')) -> post seen (direct sels) seen'.
  Proof.
    intros Hrec. induction sels as [|s rest IH]; intros c seen acc acc' c' seen'; cbn [gd_walk_loop].
    - intros [= _ _ <-]. apply post_refl.
    - rewrite no_skip. cbn [andb].
      change (direct (s :: rest)) with (direct_sel s ++ direct rest).
      assert (Hskip : forall sn, post seen (direct_sel s) sn -> forall a,
                 gd_walk_loop frags m rec rest c sn a = (acc', GrOk (c', seen')) ->
                 post seen (direct_sel s ++ direct rest) seen').
      { intros sn Hp a Hr. eapply post_compose; [exact Hp|eapply IH; exact Hr]. }
      destruct s as [al nm args dirs sub|nm dirs|cond dirs sub].
      + rewrite direct_field in *. destruct (gm_fields m).
        * destruct (gd_walk_call rec sub c seen _) as [acc1 [[c1 seen1]|tr| | |]] eqn:E; try discriminate.
          intros Hr. eapply post_compose; [eapply call_post; eauto|eapply IH; exact Hr].
        * apply Hskip. apply post_refl.
      + rewrite spreads_on. cbn [direct_sel] in *.
        destruct (gd_mem nm seen) eqn:Em.
        * apply Hskip. apply (gd_mem_in nm seen) in Em.
          split; [apply incl_refl|split; [intros n [<-|[]]; exact Em|split; [intros n H1 H2; contradiction|intros n H; now left]]].
        * assert (Hns : ~ In nm seen) by (intros Hi; apply (gd_mem_in nm seen) in Hi; congruence).
          destruct (frags nm) as [body|] eqn:Ef.
          -- destruct (gd_walk_call rec body c (nm :: seen) _) as [acc1 [[c1 seen1]|tr| | |]] eqn:E; try discriminate.
             intros Hr. eapply post_compose; [|eapply IH; exact Hr].
             destruct (call_post rec Hrec _ _ _ _ _ _ _ E) as (P1 & P2 & P3 & P4).
             split; [intros x Hx; apply P1; now right|split; [|split]].
             ++ intros n [<-|[]]. apply P1. now left.
             ++ intros x Hx Hx0 b Hb k Hk. destruct (list_eq_dec N.eq_dec x nm) as [->|Hne].
                ** rewrite Ef in Hb. injection Hb as <-. apply P2. exact Hk.
                ** eapply P3; eauto. intros [E1|E1]; [congruence|contradiction].
             ++ intros x Hx. destruct (P4 x Hx) as [[<-|H0]|Hr'].
                ** right. apply rf_root. now left.
                ** now left.
                ** right. eapply reach_from_lift; eauto.
          -- apply Hskip.
             split; [intros x Hx; now right|split; [intros n [<-|[]]; now left|split]].
             ++ intros x [<-|Hx] Hx0 b Hb; [congruence|contradiction].
             ++ intros x [<-|Hx]; [right; apply rf_root; now left|now left].
      + rewrite direct_inline in *.
        destruct (gd_walk_call rec sub c seen _) as [acc1 [[c1 seen1]|tr| | |]] eqn:E; try discriminate.
        intros Hr. eapply post_compose; [eapply call_post; eauto|eapply IH; exact Hr].
  Qed.

  Lemma walk_rec_post k : rec_post (gd_walk k frags m).
  Proof.
    induction k as [|k IH]; intros sub c seen acc acc' c' seen'; cbn [gd_walk]; [discriminate|].
    unfold gd_walk_body.
    destruct (gd_walk_loop frags m (gd_walk k frags m) sub c seen acc) as [a1 [[c1 s1]|tr| | |]] eqn:E; try discriminate.
    intros [= _ _ <-]. eapply walk_loop_post; eauto.
  Qed.

  (* a walk from the empty `seen` set that returns Ok has seen exactly the reachable spread names *)
  Theorem walk_seen_exact limit fuel sels acc c seen :
    gd_walk_top_with limit fuel frags m sels = (acc, GrOk (c, seen)) ->
    forall n, In n seen <-> reach_from (direct sels) n.
  Proof.
    unfold gd_walk_top_with. intros H. destruct (walk_rec_post fuel _ _ _ _ _ _ _ H) as (_ & P2 & P3 & P4).
    intros n. split.
    - intros Hn. destruct (P4 n Hn) as [[]|Hr]; exact Hr.
    - induction 1 as [n Hn|k body n Hk IH Hb Hn]; [now apply P2|].
      eapply P3; eauto.
  Qed.
End WalkExact.
