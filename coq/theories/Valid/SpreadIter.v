(* nested_fragment_spreads (validation/fragment.rs, the explicit-stack iterator that detect_fragment_cycles loops
   over since its repair) yields exactly the pre-order sequence of fragment spreads that the model of
   detect_fragment_cycles works on (gd_spreads), for every selection set. *)
From Coq Require Import List NArith Bool Lia.
From ApolloVerif Require Import Base.Chars Ast.Ast Valid.Guards.
Import ListNotations.
Local Open Scope nat_scope.

(* turns of the loop: one per selection, one more per selection set that is pushed, one per pop *)
Fixpoint si_sel (s : selection) : nat :=
  match s with
  | SField _ _ _ _ sub => 2 + (fix go (l : list selection) : nat := match l with [] => 0 | x :: r => si_sel x + go r end) sub
  | SSpread _ _ => 1
  | SInline _ _ sub => 2 + (fix go (l : list selection) : nat := match l with [] => 0 | x :: r => si_sel x + go r end) sub
  end.
Definition si_list (l : list selection) : nat := fold_right (fun s n => si_sel s + n) 0 l.
Definition si_stack (st : list (list selection)) : nat := fold_right (fun l n => 1 + si_list l + n) 0 st.

Lemma si_go_list : forall l,
  (fix go (l : list selection) : nat := match l with [] => 0 | x :: r => si_sel x + go r end) l = si_list l.
Proof. induction l as [|x r IH]; [reflexivity|]. unfold si_list in *. cbn [fold_right]. rewrite <- IH. reflexivity. Qed.

Lemma si_go_spreads : forall l,
  (fix go (l : list selection) : list str := match l with [] => [] | x :: r => gd_spreads_sel x ++ go r end) l
  = gd_spreads l.
Proof. induction l as [|x r IH]; [reflexivity|]. unfold gd_spreads in *. cbn [flat_map]. rewrite <- IH. reflexivity. Qed.

Lemma si_spreads_cons : forall s r, gd_spreads (s :: r) = gd_spreads_sel s ++ gd_spreads r.
Proof. reflexivity. Qed.

Theorem spread_iter_spreads : forall fuel stack, si_stack stack < fuel ->
  gd_spread_iter fuel stack = Some (flat_map gd_spreads stack).
Proof.
  induction fuel as [|f IH]; intros stack Hm; [lia|].
  destruct stack as [|l st]; [reflexivity|].
  destruct l as [|s r].
  - cbn [gd_spread_iter]. rewrite IH; [reflexivity|]. unfold si_stack, si_list in *. cbn [fold_right] in Hm. lia.
  - destruct s as [al nm args dirs sub|nm dirs|cond dirs sub]; cbn [gd_spread_iter].
    + rewrite IH.
      * cbn [flat_map]. rewrite si_spreads_cons. cbn [gd_spreads_sel]. f_equal. exact (app_assoc (gd_spreads sub) (gd_spreads r) (flat_map gd_spreads st)).
      * unfold si_stack, si_list in *. cbn [fold_right si_sel] in *. rewrite si_go_list in Hm. unfold si_list in Hm. lia.
    + rewrite IH.
      * cbn [flat_map]. rewrite si_spreads_cons. reflexivity.
      * unfold si_stack, si_list in *. cbn [fold_right si_sel] in *. lia.
    + rewrite IH.
      * cbn [flat_map]. rewrite si_spreads_cons. cbn [gd_spreads_sel]. f_equal. exact (app_assoc (gd_spreads sub) (gd_spreads r) (flat_map gd_spreads st)).
      * unfold si_stack, si_list in *. cbn [fold_right si_sel] in *. rewrite si_go_list in Hm. unfold si_list in Hm. lia.
Qed.

(* the iterator over one selection set: enough turns, the spreads in document order *)
Corollary spread_iter_top : forall sels,
  gd_spread_iter (S (S (si_list sels))) [sels] = Some (gd_spreads sels).
Proof.
  intros sels. rewrite spread_iter_spreads; [cbn [flat_map]; rewrite app_nil_r; reflexivity|].
  cbn [si_stack fold_right]. lia.
Qed.
