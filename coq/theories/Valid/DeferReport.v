(* validate_defer after its repair: a limit error of one of its walks always leaves a recursion diagnostic
   in the list, and the repair changes nothing else of what the guarded walks of a document report. *)
From Coq Require Import List NArith Bool Lia.
From ApolloVerif Require Import Base.Chars Ast.Ast Schema.Model Valid.Guards.
Import ListNotations.
Local Open Scope N_scope.

Lemma gd_b2n_sum_pos : forall l : list bool,
  existsb (fun b => b) l = true -> 1 <= fold_right N.add 0 (map gd_b2n l).
Proof.
  induction l as [|b l IH]; cbn [existsb map fold_right]; [discriminate|].
  destruct b; cbn [orb gd_b2n]; [lia|]. intros H. specialize (IH H). lia.
Qed.

(* the components of gd_doc_walk_obs_with, named *)
Definition dr_dedup (doc : document) : list bool :=
  map (fun o => gd_is_limit (snd (gd_doc_walk gd_mode_dedup (gd_doc_frags doc) (snd o)))) (gd_doc_ops doc).

Lemma dr_obs_shape : forall swallow doc,
  let o := gd_doc_walk_obs_with swallow doc in
  exists subs : N,
    gwo_recursion o
    = fold_right N.add 0 (map gd_b2n (dr_dedup doc))
      + gd_b2n (negb swallow && gwo_defer_truncated o && negb (existsb (fun b => b) (dr_dedup doc)))
      + subs
    /\ gwo_used_limit o = gd_b2n (existsb (fun b => b) (dr_dedup doc))
    /\ (forall swallow', let o' := gd_doc_walk_obs_with swallow' doc in
          gwo_recursion o'
          = fold_right N.add 0 (map gd_b2n (dr_dedup doc))
            + gd_b2n (negb swallow' && gwo_defer_truncated o' && negb (existsb (fun b => b) (dr_dedup doc)))
            + subs
          /\ gwo_used_limit o' = gwo_used_limit o /\ gwo_defer_root o' = gwo_defer_root o
          /\ gwo_uncond o' = gwo_uncond o /\ gwo_defer_truncated o' = gwo_defer_truncated o).
Proof.
  intros swallow doc. unfold gd_doc_walk_obs_with, dr_dedup.
  cbn [gwo_recursion gwo_used_limit gwo_defer_root gwo_uncond gwo_defer_truncated].
  eexists. split; [reflexivity|]. split; [reflexivity|].
  intros swallow'. cbn [gwo_recursion gwo_used_limit gwo_defer_root gwo_uncond gwo_defer_truncated].
  repeat split; reflexivity.
Qed.

(* a @defer walk that ended with the limit error is never swallowed *)
Theorem defer_limit_reported : forall doc,
  gwo_defer_truncated (gd_doc_walk_obs doc) = true -> 1 <= gwo_recursion (gd_doc_walk_obs doc).
Proof.
  intros doc Ht. unfold gd_doc_walk_obs in *.
  destruct (dr_obs_shape false doc) as (subs & Hr & _ & _).
  cbv zeta in Hr. rewrite Hr, Ht. cbn [negb andb].
  destruct (existsb (fun b => b) (dr_dedup doc)) eqn:E.
  - pose proof (gd_b2n_sum_pos _ E). lia.
  - cbn [negb gd_b2n]. lia.
Qed.

(* the repair adds that one diagnostic and nothing else *)
Theorem defer_repair_conservative : forall doc,
  let o := gd_doc_walk_obs doc in
  let o' := gd_doc_walk_obs_old doc in
  gwo_used_limit o = gwo_used_limit o' /\ gwo_defer_root o = gwo_defer_root o' /\
  gwo_uncond o = gwo_uncond o' /\ gwo_defer_truncated o = gwo_defer_truncated o' /\
  gwo_recursion o = gwo_recursion o' + gd_b2n (gwo_defer_truncated o' && (gwo_used_limit o' =? 0)).
Proof.
  intros doc. unfold gd_doc_walk_obs, gd_doc_walk_obs_old. cbv zeta.
  destruct (dr_obs_shape true doc) as (subs & Hr & Hu & Hall). cbv zeta in Hr, Hu, Hall.
  destruct (Hall false) as (Hr' & Hu' & Hd' & Hc' & Ht').
  repeat split; try assumption.
  rewrite Hr', Hr, Ht', Hu. cbn [negb andb gd_b2n].
  destruct (gwo_defer_truncated (gd_doc_walk_obs_with true doc));
    destruct (existsb (fun b => b) (dr_dedup doc)); cbn [negb andb gd_b2n];
    generalize (fold_right N.add 0 (map gd_b2n (dr_dedup doc))); intros k;
    change (1 =? 0) with false; change (0 =? 0) with true; cbn [gd_b2n]; lia.
Qed.
