(* validate_defer after its repair: a limit error of one of its walks always leaves a recursion diagnostic
   in the list, and the repair changes nothing else of what the guarded walks of a document report. *)
From Coq Require Import List NArith Bool Lia.
From ApolloVerif Require Import Base.Chars Ast.Ast Schema.Model Valid.Guards.
Import ListNotations.
Local Open Scope N_scope.

Lemma gd_b2n_sum_pos : forall l : list bool,
  existsb (fun b => b) l = true -> 1 <= fold_right N.add 0 (map gd_b2n l).
Proof.
  induction l as [|b l IH]; cbn [existsb map fold_right]; [discriminate|].
  destruct b; cbn [orb gd_b2n]; [lia|]. intros H. specialize (IH H). lia.
Qed.

Lemma gd_b2n_sum_zero : forall l : list bool,
  (fold_right N.add 0 (map gd_b2n l) =? 0) = negb (existsb (fun b => b) l).
Proof.
  induction l as [|b l IH]; cbn [existsb map fold_right]; [reflexivity|].
  destruct b; cbn [orb gd_b2n negb].
  - apply N.eqb_neq. lia.
  - rewrite N.add_0_l. exact IH.
Qed.

(* the components of gd_doc_walk_obs_with, named *)
Definition dr_dedup (doc : document) : list bool :=
  map (fun o => gd_is_limit (snd (gd_doc_walk gd_mode_dedup (gd_doc_frags doc) (snd o)))) (gd_doc_ops doc).
Definition dr_sel (ty : vs_typing) (doc : document) : list bool :=
  map (fun r => gd_is_limit (snd r)) (map (vs_doc_walk ty doc) (gd_doc_ops doc)).

Lemma dr_obs_shape : forall swallow ty doc,
  let o := gd_doc_walk_obs_with swallow ty doc in
  let before := existsb (fun b => b) (dr_dedup doc) || existsb (fun b => b) (dr_sel ty doc) in
  exists subs : N,
    gwo_recursion o
    = fold_right N.add 0 (map gd_b2n (dr_dedup doc)) + fold_right N.add 0 (map gd_b2n (dr_sel ty doc))
      + gd_b2n (negb swallow && gwo_defer_truncated o && negb before)
      + subs
    /\ gwo_used_limit o = gd_b2n (existsb (fun b => b) (dr_dedup doc))
    /\ gwo_sel_limit o = fold_right N.add 0 (map gd_b2n (dr_sel ty doc))
    /\ (forall swallow', let o' := gd_doc_walk_obs_with swallow' ty doc in
          gwo_recursion o'
          = fold_right N.add 0 (map gd_b2n (dr_dedup doc)) + fold_right N.add 0 (map gd_b2n (dr_sel ty doc))
            + gd_b2n (negb swallow' && gwo_defer_truncated o' && negb before)
            + subs
          /\ gwo_used_limit o' = gwo_used_limit o /\ gwo_defer_root o' = gwo_defer_root o
          /\ gwo_uncond o' = gwo_uncond o /\ gwo_defer_truncated o' = gwo_defer_truncated o
          /\ gwo_sel_limit o' = gwo_sel_limit o /\ gwo_undefined o' = gwo_undefined o).
Proof.
  intros swallow ty doc. unfold gd_doc_walk_obs_with, dr_dedup, dr_sel.
  cbn [gwo_recursion gwo_used_limit gwo_defer_root gwo_uncond gwo_defer_truncated gwo_sel_limit gwo_undefined].
  eexists. split; [reflexivity|]. split; [reflexivity|]. split; [reflexivity|].
  intros swallow'.
  cbn [gwo_recursion gwo_used_limit gwo_defer_root gwo_uncond gwo_defer_truncated gwo_sel_limit gwo_undefined].
  repeat split; reflexivity.
Qed.

(* a @defer walk that ended with the limit error is never swallowed *)
Theorem defer_limit_reported : forall ty doc,
  gwo_defer_truncated (gd_doc_walk_obs ty doc) = true -> 1 <= gwo_recursion (gd_doc_walk_obs ty doc).
Proof.
  intros ty doc Ht. unfold gd_doc_walk_obs in *.
  destruct (dr_obs_shape false ty doc) as (subs & Hr & _ & _).
  cbv zeta in Hr. rewrite Hr, Ht. cbn [negb andb].
  destruct (existsb (fun b => b) (dr_dedup doc)) eqn:E.
  - pose proof (gd_b2n_sum_pos _ E). lia.
  - destruct (existsb (fun b => b) (dr_sel ty doc)) eqn:E2.
    + pose proof (gd_b2n_sum_pos _ E2). lia.
    + cbn [orb negb gd_b2n]. lia.
Qed.

(* the repair of validate_defer adds that one diagnostic and nothing else *)
Theorem defer_repair_conservative : forall ty doc,
  let o := gd_doc_walk_obs ty doc in
  let o' := gd_doc_walk_obs_old ty doc in
  gwo_used_limit o = gwo_used_limit o' /\ gwo_defer_root o = gwo_defer_root o' /\
  gwo_uncond o = gwo_uncond o' /\ gwo_defer_truncated o = gwo_defer_truncated o' /\
  gwo_sel_limit o = gwo_sel_limit o' /\ gwo_undefined o = gwo_undefined o' /\
  gwo_recursion o
  = gwo_recursion o' + gd_b2n (gwo_defer_truncated o' && (gwo_used_limit o' =? 0) && (gwo_sel_limit o' =? 0)).
Proof.
  intros ty doc. unfold gd_doc_walk_obs, gd_doc_walk_obs_old. cbv zeta.
  destruct (dr_obs_shape true ty doc) as (subs & Hr & Hu & Hs & Hall). cbv zeta in Hr, Hu, Hs, Hall.
  destruct (Hall false) as (Hr' & Hu' & Hd' & Hc' & Ht' & Hs' & Hx').
  repeat split; try assumption.
  rewrite Hr', Hr, Ht', Hu, Hs, gd_b2n_sum_zero. cbn [negb andb gd_b2n].
  destruct (gwo_defer_truncated (gd_doc_walk_obs_with true ty doc));
    destruct (existsb (fun b => b) (dr_dedup doc)); destruct (existsb (fun b => b) (dr_sel ty doc));
    cbn [negb andb orb gd_b2n];
    generalize (fold_right N.add 0 (map gd_b2n (dr_dedup doc))); intros k;
    generalize (fold_right N.add 0 (map gd_b2n (dr_sel ty doc))); intros k2;
    change (1 =? 0) with false; change (0 =? 0) with true; cbn [negb andb gd_b2n]; lia.
Qed.
