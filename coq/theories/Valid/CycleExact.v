(* The verdict of FindRecursiveInputValue (Valid/Guards.v, gd_input_check) is exact whenever it is not the
   limit error: for every graph and every limit,
     GrCycle  ->  the root lies on a cycle of `T!` references,
     GrOk     ->  it does not.
   (So the recursion limit can only turn a verdict into `limit`, never into a wrong `ok` or `cycle`.) *)
From ApolloVerif Require Import Base.Chars Valid.Guards Valid.GuardsProofs.

Section InputExact.
  Variable look : str -> option (list str).
  Variable root : str.

  (* a -> ... -> root by one or more edges *)
  Inductive reaches : str -> Prop :=
  | reaches_here a body : look a = Some body -> In root body -> reaches a
  | reaches_step a body b : look a = Some body -> In b body -> reaches b -> reaches a.

  (* the same, none of the nodes before the final root being in S *)
  Inductive to_root (S : list str) : str -> Prop :=
  | tr_here a body : ~ In a S -> look a = Some body -> In root body -> to_root S a
  | tr_step a body b : ~ In a S -> look a = Some body -> In b body -> to_root S b -> to_root S a.

  Lemma to_root_head S a : to_root S a -> ~ In a S.
  Proof. destruct 1; assumption. Qed.

  Lemma to_root_reaches S a : to_root S a -> reaches a.
  Proof. induction 1; [eapply reaches_here|eapply reaches_step]; eauto. Qed.

  (* first return to the root *)
  Lemma reaches_first_return a : reaches a -> a = root \/ to_root [root] a.
  Proof.
    induction 1 as [a body Hl Hin|a body b Hl Hin Hr IH].
    - destruct (list_eq_dec N.eq_dec a root) as [->|Hne]; [now left|right].
      eapply tr_here; eauto. intros [E|[]]; congruence.
    - destruct (list_eq_dec N.eq_dec a root) as [->|Hne]; [now left|right].
      assert (Hni : ~ In a [root]) by (intros [E|[]]; congruence).
      destruct IH as [->|IH]; [eapply tr_here|eapply tr_step]; eauto.
  Qed.

  (* last visit of f on a path that avoids S *)
  Definition final_from (S : list str) (f : str) : Prop :=
    exists body g, look f = Some body /\ In g body /\ (g = root \/ to_root (S ++ [f]) g).

  Lemma to_root_decomp S f a : to_root S a -> to_root (S ++ [f]) a \/ final_from S f.
  Proof.
    induction 1 as [a body Hni Hl Hin|a body b Hni Hl Hin Hb IH].
    - destruct (list_eq_dec N.eq_dec a f) as [->|Hne].
      + right. exists body, root. auto.
      + left. eapply tr_here; eauto. intros Hi. apply in_app_or in Hi. destruct Hi as [Hi|[E|[]]]; [auto|congruence].
    - destruct IH as [IH|IH]; [|now right].
      destruct (list_eq_dec N.eq_dec a f) as [->|Hne].
      + right. exists body, b. auto.
      + left. eapply tr_step; eauto. intros Hi. apply in_app_or in Hi. destruct Hi as [Hi|[E|[]]]; [auto|congruence].
  Qed.

  Lemma gd_mem_in n l : gd_mem n l = true <-> In n l.
  Proof.
    unfold gd_mem. rewrite existsb_exists. split.
    - intros (x & Hx & E). apply Ast.streq_eq in E. now subst.
    - intros H. exists n. split; [exact H|apply Ast.streq_refl].
  Qed.

  Definition rooted (s : gd_stack) : Prop := exists rest, gds_seen s = root :: rest.

  Lemma first_is_root s n : rooted s -> gd_first_is s n = true <-> n = root.
  Proof.
    intros [rest E]. unfold gd_first_is. rewrite E. rewrite Ast.streq_eq. split; congruence.
  Qed.

  (* what a result says about the fields it was computed for *)
  Definition exact_res (r : gd_res gd_stack) (fields : list str) (S : list str) : Prop :=
    match r with
    | GrOk _ => forall f, In f fields -> f <> root /\ ~ to_root S f
    | GrCycle _ => exists f, In f fields /\ (f = root \/ reaches f)
    | _ => True
    end.

  Definition exact_rec (rec : list str -> gd_stack -> gd_res gd_stack) : Prop :=
    forall body s, rooted s -> exact_res (rec body s) body (gds_seen s) /\
                   forall s', rec body s = GrOk s' -> gds_seen s' = gds_seen s.

  Lemma input_loop_exact rec : exact_rec rec ->
    forall fields s, rooted s ->
      exact_res (gd_input_loop look rec fields s) fields (gds_seen s) /\
      forall s', gd_input_loop look rec fields s = GrOk s' -> gds_seen s' = gds_seen s.
  Proof.
    intros Hrec. induction fields as [|n rest IH]; intros s Hroot; cbn [gd_input_loop].
    - split; [intros f []|intros s' [= <-]; reflexivity].
    - (* the result for the rest of the fields extends to n :: rest given a fact about n *)
      assert (Hext : forall s2, gds_seen s2 = gds_seen s -> (n <> root /\ ~ to_root (gds_seen s) n) ->
                exact_res (gd_input_loop look rec rest s2) (n :: rest) (gds_seen s) /\
                forall s', gd_input_loop look rec rest s2 = GrOk s' -> gds_seen s' = gds_seen s).
      { intros s2 E2 Hn. assert (Hr2 : rooted s2) by (destruct Hroot as [r E]; exists r; congruence).
        destruct (IH s2 Hr2) as [A B]. rewrite E2 in *. split; [|exact B].
        destruct (gd_input_loop look rec rest s2); cbn in *; auto.
        - intros f [<-|Hf]; auto.
        - destruct A as (f & Hf & Hc). exists f. auto. }
      destruct (gd_contains s n) eqn:Ec; cbn [negb].
      + unfold gd_contains in Ec. apply gd_mem_in in Ec.
        destruct (gd_first_is s n) eqn:Ef.
        * apply (first_is_root s n Hroot) in Ef. subst n. split; [|discriminate].
          cbn. exists root. split; [now left|now left].
        * apply Hext; [reflexivity|]. split.
          -- intros E. apply (first_is_root s n Hroot) in E. congruence.
          -- intros Ht. apply to_root_head in Ht. contradiction.
      + assert (Hnotin : ~ In n (gds_seen s)).
        { intros Hi. apply gd_mem_in in Hi. unfold gd_contains in Ec. congruence. }
        assert (Hne : n <> root).
        { intros ->. destruct Hroot as [r E]. apply Hnotin. rewrite E. now left. }
        destruct (look n) as [body|] eqn:El.
        * destruct (gd_push s n) as [s1| |] eqn:Ep; [|split; [exact I|discriminate]|split; [exact I|discriminate]].
          destruct (gd_push_ok _ _ _ Ep) as (_ & Hseen1 & _ & _).
          assert (Hr1 : rooted s1).
          { destruct Hroot as [r E]. exists (r ++ [n]). rewrite Hseen1, E. reflexivity. }
          destruct (Hrec body s1 Hr1) as [Hex Hkeep].
          destruct (rec body s1) as [s2|tr| | |] eqn:Er; try (split; [exact I|discriminate]).
          -- (* the callee found nothing: n does not lead back to the root *)
             apply Hext.
             ++ rewrite (gd_pop_after s n s2); [reflexivity|]. rewrite (Hkeep s2 eq_refl). exact Hseen1.
             ++ split; [exact Hne|]. intros Ht.
                destruct (to_root_decomp _ n n Ht) as [Hd|(body' & g & Hl' & Hg & Hc)].
                ** apply to_root_head in Hd. apply Hd. apply in_or_app. right. now left.
                ** rewrite El in Hl'. injection Hl' as <-. cbn in Hex. rewrite Hseen1 in Hex.
                   destruct (Hex g Hg) as [G1 G2]. destruct Hc as [->|Hc]; [congruence|contradiction].
          -- (* the callee found the root *)
             split; [|discriminate]. cbn. cbn in Hex. destruct Hex as (g & Hg & Hc).
             exists n. split; [now left|right]. destruct Hc as [->|Hc].
             ++ eapply reaches_here; eauto.
             ++ eapply reaches_step; eauto.
        * apply Hext; [reflexivity|]. split; [exact Hne|].
          intros Ht. destruct Ht as [a body _ Hl _|a body b _ Hl _ _]; congruence.
  Qed.

  Lemma input_detect_exact k : exact_rec (gd_input_detect k look).
  Proof.
    induction k as [|k IH]; intros body s Hroot; cbn [gd_input_detect].
    - split; [exact I|discriminate].
    - now apply input_loop_exact.
  Qed.
End InputExact.

(* The verdict of FindRecursiveInputValue::check for the input object `name` whose `T!` fields are `fields`,
   under any limit and with any fuel:
   - GrCycle: some field leads back to `name` (or is `name`): `name` is on a cycle;
   - GrOk:    no field is `name` and none leads back to it: `name` is on no cycle through these fields. *)
Theorem input_check_exact look limit fuel name fields :
  match gd_input_check_with limit fuel look name fields with
  | GrCycle _ => exists f, In f fields /\ (f = name \/ reaches look name f)
  | GrOk _ => forall f, In f fields -> f <> name /\ ~ reaches look name f
  | _ => True
  end.
Proof.
  unfold gd_input_check_with.
  assert (Hroot : rooted name (gd_stack_with_limit (gd_stack_with_root name) limit)) by (exists []; reflexivity).
  destruct (input_detect_exact look name fuel fields _ Hroot) as [H _].
  destruct (gd_input_detect fuel look fields _) as [s|tr| | |]; cbn in *; auto.
  intros f Hf. destruct (H f Hf) as [A B]. split; [exact A|].
  intros Hr. destruct (reaches_first_return look name f Hr) as [E|Ht]; [congruence|contradiction].
Qed.

(* ------------------------------------------------------------------ fragment cycles (with the `seen` set)

   detect_fragment_cycles deduplicates: a fragment already walked (black) is not walked again, whatever the
   depth at which it is met again.  The verdict is exact all the same: the set `seen` is closed under
   "spreads" once the walk is over, and it never contains a fragment that spreads the root. *)
Section FragExact.
  Variable look : str -> option (str * list str).
  Hypothesis look_wf : gd_frag_wf look.
  Variable root : str.

  Definition flook (a : str) : option (list str) :=
    match look a with Some (_, body) => Some body | None => None end.

  (* every walked fragment that is not on the path has all its spreads in `seen`, none of them the root *)
  Definition closed (seen S : list str) : Prop :=
    forall b, In b seen -> ~ In b S -> forall body, flook b = Some body ->
              forall g, In g body -> g <> root /\ In g seen.

  Definition gray_seen (seen S : list str) : Prop := forall a, In a S -> a = root \/ In a seen.

  Definition fexact_res (r : gd_res (gd_stack * list str)) (spreads seen S : list str) : Prop :=
    match r with
    | GrOk (_, seen') => incl seen seen' /\ closed seen' S /\ forall f, In f spreads -> f <> root /\ In f seen'
    | GrCycle _ => exists f, In f spreads /\ (f = root \/ reaches flook root f)
    | _ => True
    end.

  Definition fexact_rec (rec : list str -> gd_stack -> list str -> gd_res (gd_stack * list str)) : Prop :=
    forall body s seen, rooted root s -> closed seen (gds_seen s) -> gray_seen seen (gds_seen s) ->
      fexact_res (rec body s seen) body seen (gds_seen s) /\
      forall s' seen', rec body s seen = GrOk (s', seen') -> gds_seen s' = gds_seen s.

  Lemma frag_loop_exact rec : fexact_rec rec ->
    forall spreads s seen, rooted root s -> closed seen (gds_seen s) -> gray_seen seen (gds_seen s) ->
      fexact_res (gd_frag_loop look rec spreads s seen) spreads seen (gds_seen s) /\
      forall s' seen', gd_frag_loop look rec spreads s seen = GrOk (s', seen') -> gds_seen s' = gds_seen s.
  Proof.
    intros Hrec. induction spreads as [|n rest IH]; intros s seen Hroot Hcl Hgray; cbn [gd_frag_loop].
    - split; [|intros s' seen' [= <- <-]; reflexivity]. cbn. split; [apply incl_refl|split; [exact Hcl|intros f []]].
    - (* continue with the rest from a state (s2, seen2) in which n is accounted for *)
      assert (Hext : forall s2 seen2, gds_seen s2 = gds_seen s -> incl seen seen2 ->
                closed seen2 (gds_seen s) -> gray_seen seen2 (gds_seen s) -> (n <> root /\ In n seen2) ->
                fexact_res (gd_frag_loop look rec rest s2 seen2) (n :: rest) seen (gds_seen s) /\
                forall s' seen', gd_frag_loop look rec rest s2 seen2 = GrOk (s', seen') -> gds_seen s' = gds_seen s).
      { intros s2 seen2 E2 Hinc Hcl2 Hg2 Hn.
        assert (Hr2 : rooted root s2) by (destruct Hroot as [r E]; exists r; congruence).
        rewrite <- E2 in Hcl2, Hg2. destruct (IH s2 seen2 Hr2 Hcl2 Hg2) as [A B]. rewrite E2 in *. split; [|exact B].
        destruct (gd_frag_loop look rec rest s2 seen2) as [[s3 seen3]|tr| | |]; cbn in *; auto.
        - destruct A as (A1 & A2 & A3). split; [eapply incl_tran; eauto|split; [exact A2|]].
          intros f [<-|Hf]; [split; [tauto|apply A1; tauto]|auto].
        - destruct A as (f & Hf & Hc). exists f. auto. }
      destruct (gd_contains s n) eqn:Ec.
      + unfold gd_contains in Ec. apply gd_mem_in in Ec.
        destruct (gd_first_is s n) eqn:Ef.
        * apply (first_is_root root s n Hroot) in Ef. subst n. split; [|discriminate].
          cbn. exists root. split; [now left|now left].
        * assert (Hne : n <> root) by (intros E; apply (first_is_root root s n Hroot) in E; congruence).
          apply Hext; auto using incl_refl. split; [exact Hne|]. destruct (Hgray n Ec); [contradiction|assumption].
      + assert (Hnotin : ~ In n (gds_seen s)).
        { intros Hi. apply gd_mem_in in Hi. unfold gd_contains in Ec. congruence. }
        assert (Hne : n <> root).
        { intros ->. destruct Hroot as [r E]. apply Hnotin. rewrite E. now left. }
        destruct (gd_mem n seen) eqn:Em.
        * apply gd_mem_in in Em. apply Hext; auto using incl_refl.
        * assert (Hns : ~ In n seen) by (intros Hi; apply gd_mem_in in Hi; congruence).
          assert (Hinc1 : incl seen (n :: seen)) by (intros x Hx; now right).
          destruct (look n) as [[fname body]|] eqn:El.
          -- assert (fname = n) by (eapply look_wf; eauto). subst fname.
             assert (Hfl : flook n = Some body) by (unfold flook; now rewrite El).
             destruct (gd_push s n) as [s1| |] eqn:Ep; [|split; [exact I|discriminate]|split; [exact I|discriminate]].
             destruct (gd_push_ok _ _ _ Ep) as (_ & Hseen1 & _ & _).
             assert (Hr1 : rooted root s1).
             { destruct Hroot as [r E]. exists (r ++ [n]). rewrite Hseen1, E. reflexivity. }
             assert (Hcl1 : closed (n :: seen) (gds_seen s1)).
             { intros b Hb Hnb bd Hbd g Hg. rewrite Hseen1 in Hnb.
               destruct Hb as [<-|Hb]; [exfalso; apply Hnb; apply in_or_app; right; now left|].
               destruct (Hcl b Hb (fun H => Hnb (in_or_app _ _ _ (or_introl H))) bd Hbd g Hg) as [G1 G2].
               split; [exact G1|now right]. }
             assert (Hg1 : gray_seen (n :: seen) (gds_seen s1)).
             { intros a Ha. rewrite Hseen1 in Ha. apply in_app_or in Ha.
               destruct Ha as [Ha|[<-|[]]]; [destruct (Hgray a Ha); [now left|right; now right]|right; now left]. }
             destruct (Hrec body s1 (n :: seen) Hr1 Hcl1 Hg1) as [Hex Hkeep].
             destruct (rec body s1 (n :: seen)) as [[s2 seen2]|tr| | |] eqn:Er; try (split; [exact I|discriminate]).
             ++ cbn in Hex. destruct Hex as (X1 & X2 & X3).
                apply Hext.
                ** rewrite (gd_pop_after s n s2); [reflexivity|]. rewrite (Hkeep s2 seen2 eq_refl). exact Hseen1.
                ** eapply incl_tran; eauto.
                ** (* n turns black: its spreads are all in seen2 and none is the root *)
                   intros b Hb Hnb bd Hbd g Hg.
                   destruct (list_eq_dec N.eq_dec b n) as [->|Hbn].
                   --- rewrite Hfl in Hbd. injection Hbd as <-. apply X3. exact Hg.
                   --- apply (X2 b Hb) with (body := bd); auto.
                       rewrite Hseen1. intros Hi. apply in_app_or in Hi. destruct Hi as [Hi|[E|[]]]; [auto|congruence].
                ** intros a Ha. destruct (Hgray a Ha); [now left|right; apply X1; now right].
                ** split; [exact Hne|apply X1; now left].
             ++ split; [|discriminate]. cbn. cbn in Hex. destruct Hex as (g & Hg & Hc).
                exists n. split; [now left|right]. destruct Hc as [->|Hc].
                ** eapply reaches_here; eauto.
                ** eapply reaches_step; eauto.
          -- apply Hext; auto.
             ++ intros b Hb Hnb bd Hbd g Hg. destruct Hb as [<-|Hb].
                ** unfold flook in Hbd. rewrite El in Hbd. discriminate.
                ** destruct (Hcl b Hb Hnb bd Hbd g Hg). split; [assumption|now right].
             ++ intros a Ha. destruct (Hgray a Ha); [now left|right; now right].
             ++ split; [exact Hne|now left].
  Qed.

  Lemma frag_detect_exact k : fexact_rec (gd_frag_detect k look).
  Proof.
    induction k as [|k IH]; intros body s seen Hroot Hcl Hg; cbn [gd_frag_detect].
    - split; [exact I|discriminate].
    - now apply frag_loop_exact.
  Qed.

  (* a closed set that never spreads the root does not reach it *)
  Lemma closed_no_reach seen : closed seen [root] ->
    forall a, In a seen -> a <> root -> ~ reaches flook root a.
  Proof.
    intros Hcl a Ha Hne Hr. revert Ha Hne.
    induction Hr as [a body Hl Hin|a body b Hl Hin Hr IH]; intros Ha Hne.
    - destruct (Hcl a Ha (fun H => match H with or_introl E => Hne (eq_sym E) | or_intror F => F end) body Hl root Hin).
      congruence.
    - destruct (Hcl a Ha (fun H => match H with or_introl E => Hne (eq_sym E) | or_intror F => F end) body Hl b Hin).
      now apply IH.
  Qed.
End FragExact.

(* validate_fragment_cycles for the fragment `name` whose selection set spreads `spreads`: *)
Theorem frag_check_exact look limit fuel name spreads : gd_frag_wf look ->
  match gd_frag_check_with limit fuel look name spreads with
  | GrCycle _ => exists f, In f spreads /\ (f = name \/ reaches (flook look) name f)
  | GrOk _ => forall f, In f spreads -> f <> name /\ ~ reaches (flook look) name f
  | _ => True
  end.
Proof.
  intros Hwf. unfold gd_frag_check_with.
  assert (Hroot : rooted name (gd_stack_with_limit (gd_stack_with_root name) limit)) by (exists []; reflexivity).
  destruct (frag_detect_exact look Hwf name fuel spreads _ [] Hroot) as [H _].
  - intros b [].
  - intros a [<-|[]]. now left.
  - destruct (gd_frag_detect fuel look spreads _ []) as [[s seen]|tr| | |]; cbn in *; auto.
    destruct H as (_ & Hcl & Hsp). intros f Hf. destruct (Hsp f Hf) as [A B]. split; [exact A|].
    eapply closed_no_reach; eauto.
Qed.

(* ------------------------------------------------------------------ directive definition cycles

   Nodes are the items themselves: a directive (its definition's items) or a type (its items).  Two path
   stacks, no `seen` set; built-in types are entered without being pushed. *)
Section DirExact.
  Variable find_dir : str -> option (list gd_item).
  Variable find_type : str -> option (str * bool * list gd_item).
  (* schema.types maps every name to the type of that name *)
  Hypothesis type_wf : forall t n b body, find_type t = Some (n, b, body) -> n = t.
  Variable root : str.

  Definition dnext (x : gd_item) : option (list gd_item) :=
    match x with
    | GiDir d => find_dir d
    | GiType t => match find_type t with Some (_, _, body) => Some body | None => None end
    end.

  Inductive dreaches : gd_item -> Prop :=
  | dr_here x body : dnext x = Some body -> In (GiDir root) body -> dreaches x
  | dr_step x body y : dnext x = Some body -> In y body -> dreaches y -> dreaches x.

  (* a path to the root none of whose nodes (before the final root) satisfies P *)
  Inductive dto_root (P : gd_item -> Prop) : gd_item -> Prop :=
  | dtr_here x body : ~ P x -> dnext x = Some body -> In (GiDir root) body -> dto_root P x
  | dtr_step x body y : ~ P x -> dnext x = Some body -> In y body -> dto_root P y -> dto_root P x.

  Lemma dto_root_head P x : dto_root P x -> ~ P x.
  Proof. destruct 1; assumption. Qed.

  Lemma dto_root_ext P Q x : (forall y, P y <-> Q y) -> dto_root P x -> dto_root Q x.
  Proof.
    intros E. induction 1; [eapply dtr_here|eapply dtr_step]; eauto; rewrite <- E; assumption.
  Qed.

  Lemma gd_item_eq_dec (x y : gd_item) : {x = y} + {x <> y}.
  Proof. decide equality; apply (list_eq_dec N.eq_dec). Qed.

  Lemma dto_root_decomp P f a : dto_root P a ->
    dto_root (fun y => P y \/ y = f) a \/
    exists body g, dnext f = Some body /\ In g body /\ (g = GiDir root \/ dto_root (fun y => P y \/ y = f) g).
  Proof.
    induction 1 as [a body Hni Hl Hin|a body b Hni Hl Hin Hb IH].
    - destruct (gd_item_eq_dec a f) as [->|Hne].
      + right. exists body, (GiDir root). auto.
      + left. eapply dtr_here; eauto. intros [H|H]; auto.
    - destruct IH as [IH|IH]; [|now right].
      destruct (gd_item_eq_dec a f) as [->|Hne].
      + right. exists body, b. auto.
      + left. eapply dtr_step; eauto. intros [H|H]; auto.
  Qed.

  Lemma dreaches_first_return x : dreaches x -> x = GiDir root \/ dto_root (fun y => y = GiDir root) x.
  Proof.
    induction 1 as [a body Hl Hin|a body b Hl Hin Hr IH].
    - destruct (gd_item_eq_dec a (GiDir root)) as [->|Hne]; [now left|right]. eapply dtr_here; eauto.
    - destruct (gd_item_eq_dec a (GiDir root)) as [->|Hne]; [now left|right].
      destruct IH as [->|IH]; [eapply dtr_here|eapply dtr_step]; eauto.
  Qed.

  Definition on_stacks (ds ts : list str) (x : gd_item) : Prop :=
    match x with GiDir d => In d ds | GiType t => In t ts end.

  Definition dexact_res (r : gd_res (gd_stack * gd_stack)) (items : list gd_item) (ds ts : list str) : Prop :=
    match r with
    | GrOk _ => forall x, In x items -> x <> GiDir root /\ ~ dto_root (on_stacks ds ts) x
    | GrCycle _ => exists x, In x items /\ (x = GiDir root \/ dreaches x)
    | _ => True
    end.

  Definition dexact_rec (rec : list gd_item -> gd_stack -> gd_stack -> gd_res (gd_stack * gd_stack)) : Prop :=
    forall body ds ts, rooted root ds ->
      dexact_res (rec body ds ts) body (gds_seen ds) (gds_seen ts) /\
      forall ds' ts', rec body ds ts = GrOk (ds', ts') -> gds_seen ds' = gds_seen ds /\ gds_seen ts' = gds_seen ts.

  Lemma dir_loop_exact rec : dexact_rec rec ->
    forall items ds ts, rooted root ds ->
      dexact_res (gd_dir_loop find_dir find_type rec items ds ts) items (gds_seen ds) (gds_seen ts) /\
      forall ds' ts', gd_dir_loop find_dir find_type rec items ds ts = GrOk (ds', ts') ->
                      gds_seen ds' = gds_seen ds /\ gds_seen ts' = gds_seen ts.
  Proof.
    intros Hrec. induction items as [|it rest IH]; intros ds ts Hroot; cbn [gd_dir_loop].
    - split; [intros x []|intros ds' ts' [= <- <-]; auto].
    - assert (Hext : forall ds2 ts2, gds_seen ds2 = gds_seen ds -> gds_seen ts2 = gds_seen ts ->
                (it <> GiDir root /\ ~ dto_root (on_stacks (gds_seen ds) (gds_seen ts)) it) ->
                dexact_res (gd_dir_loop find_dir find_type rec rest ds2 ts2) (it :: rest) (gds_seen ds) (gds_seen ts) /\
                forall ds' ts', gd_dir_loop find_dir find_type rec rest ds2 ts2 = GrOk (ds', ts') ->
                                gds_seen ds' = gds_seen ds /\ gds_seen ts' = gds_seen ts).
      { intros ds2 ts2 E2 E3 Hn. assert (Hr2 : rooted root ds2) by (destruct Hroot as [r E]; exists r; congruence).
        destruct (IH ds2 ts2 Hr2) as [A B]. rewrite E2, E3 in *. split; [|exact B].
        destruct (gd_dir_loop find_dir find_type rec rest ds2 ts2) as [[a b]|tr| | |]; cbn in *; auto.
        - intros x [<-|Hx]; auto.
        - destruct A as (x & Hx & Hc). exists x. auto. }
      assert (Hrootin : In root (gds_seen ds)) by (destruct Hroot as [r E]; rewrite E; now left).
      destruct it as [d|t].
      + (* a directive application *)
        destruct (gd_contains ds d) eqn:Ec; cbn [negb].
        * unfold gd_contains in Ec. apply gd_mem_in in Ec. destruct (gd_first_is ds d) eqn:Ef.
          -- apply (first_is_root root ds d Hroot) in Ef. subst d. split; [|discriminate].
             cbn. exists (GiDir root). split; [now left|now left].
          -- apply Hext; auto. split.
             ++ intros [= E]. apply (first_is_root root ds d Hroot) in E. congruence.
             ++ intros Ht. apply dto_root_head in Ht. apply Ht. exact Ec.
        * assert (Hnotin : ~ In d (gds_seen ds)).
          { intros Hi. apply gd_mem_in in Hi. unfold gd_contains in Ec. congruence. }
          assert (Hne : GiDir d <> GiDir root) by (intros [= ->]; contradiction).
          destruct (find_dir d) as [body|] eqn:El.
          -- destruct (gd_push ds d) as [ds1| |] eqn:Ep; [|split; [exact I|discriminate]|split; [exact I|discriminate]].
             destruct (gd_push_ok _ _ _ Ep) as (_ & Hseen1 & _ & _).
             assert (Hr1 : rooted root ds1).
             { destruct Hroot as [r E]. exists (r ++ [d]). rewrite Hseen1, E. reflexivity. }
             destruct (Hrec body ds1 ts Hr1) as [Hex Hkeep].
             destruct (rec body ds1 ts) as [[ds2 ts2]|tr| | |] eqn:Er; try (split; [exact I|discriminate]).
             ++ destruct (Hkeep _ _ eq_refl) as [K1 K2]. apply Hext.
                ** rewrite (gd_pop_after ds d ds2); [reflexivity|]. rewrite K1. exact Hseen1.
                ** exact K2.
                ** split; [exact Hne|]. intros Ht.
                   destruct (dto_root_decomp _ (GiDir d) _ Ht) as [Hd|(body' & g & Hl' & Hg & Hc)].
                   --- apply dto_root_head in Hd. apply Hd. now right.
                   --- cbn [dnext] in Hl'. rewrite El in Hl'. injection Hl' as <-. cbn in Hex.
                       destruct (Hex g Hg) as [G1 G2]. destruct Hc as [->|Hc]; [congruence|].
                       apply G2. eapply dto_root_ext; [|exact Hc]. intros y. rewrite Hseen1.
                       destruct y as [d'|t']; cbn [on_stacks].
                       +++ rewrite in_app_iff. cbn. split; [intros [H|[= <-]]; auto|intros [H|[<-|[]]]; auto].
                       +++ split; [intros [H|H]; [exact H|discriminate]|auto].
             ++ split; [|discriminate]. cbn. cbn in Hex. destruct Hex as (g & Hg & Hc).
                exists (GiDir d). split; [now left|right]. destruct Hc as [->|Hc].
                ** eapply dr_here; eauto.
                ** eapply dr_step; eauto.
          -- apply Hext; auto. split; [exact Hne|].
             intros Ht. inversion Ht as [a body _ Hl _|a body b _ Hl _ _]; subst; cbn [dnext] in Hl; congruence.
      + (* the type of an input value *)
        assert (Hne : GiType t <> GiDir root) by discriminate.
        destruct (find_type t) as [[[tname built_in] body]|] eqn:Ef.
        * assert (tname = t) by (eapply type_wf; eauto). subst tname.
          assert (Hnext : dnext (GiType t) = Some body) by (cbn [dnext]; now rewrite Ef).
          destruct (gd_contains ts t) eqn:Ec.
          -- unfold gd_contains in Ec. apply gd_mem_in in Ec. apply Hext; auto. split; [exact Hne|].
             intros Ht. apply dto_root_head in Ht. apply Ht. exact Ec.
          -- destruct built_in; cbn [negb].
             ++ (* not pushed: the same stacks below *)
                destruct (Hrec body ds ts Hroot) as [Hex Hkeep].
                destruct (rec body ds ts) as [[ds2 ts2]|tr| | |] eqn:Er; try (split; [exact I|discriminate]).
                ** destruct (Hkeep _ _ eq_refl) as [K1 K2]. apply Hext; auto. split; [exact Hne|].
                   cbn in Hex. intros Ht.
                   inversion Ht as [a bd _ Hl Hin|a bd b _ Hl Hin Hb]; subst; rewrite Hnext in Hl; injection Hl as <-.
                   --- destruct (Hex _ Hin) as [G _]. congruence.
                   --- destruct (Hex _ Hin) as [_ G]. contradiction.
                ** split; [|discriminate]. cbn. cbn in Hex. destruct Hex as (g & Hg & Hc).
                   exists (GiType t). split; [now left|right]. destruct Hc as [->|Hc].
                   --- eapply dr_here; eauto.
                   --- eapply dr_step; eauto.
             ++ destruct (gd_push ts t) as [ts1| |] eqn:Ep; [|split; [exact I|discriminate]|split; [exact I|discriminate]].
                destruct (gd_push_ok _ _ _ Ep) as (_ & Hseen1 & _ & _).
                destruct (Hrec body ds ts1 Hroot) as [Hex Hkeep].
                destruct (rec body ds ts1) as [[ds2 ts2]|tr| | |] eqn:Er; try (split; [exact I|discriminate]).
                ** destruct (Hkeep _ _ eq_refl) as [K1 K2]. apply Hext.
                   --- exact K1.
                   --- rewrite (gd_pop_after ts t ts2); [reflexivity|]. rewrite K2. exact Hseen1.
                   --- split; [exact Hne|]. intros Ht.
                       destruct (dto_root_decomp _ (GiType t) _ Ht) as [Hd|(body' & g & Hl' & Hg & Hc)].
                       +++ apply dto_root_head in Hd. apply Hd. now right.
                       +++ rewrite Hnext in Hl'. injection Hl' as <-. cbn in Hex.
                           destruct (Hex g Hg) as [G1 G2]. destruct Hc as [->|Hc]; [congruence|].
                           apply G2. eapply dto_root_ext; [|exact Hc]. intros y. rewrite Hseen1.
                           destruct y as [d'|t']; cbn [on_stacks].
                           *** split; [intros [H|H]; [exact H|discriminate]|auto].
                           *** rewrite in_app_iff. cbn. split; [intros [H|[= <-]]; auto|intros [H|[<-|[]]]; auto].
                ** split; [|discriminate]. cbn. cbn in Hex. destruct Hex as (g & Hg & Hc).
                   exists (GiType t). split; [now left|right]. destruct Hc as [->|Hc].
                   --- eapply dr_here; eauto.
                   --- eapply dr_step; eauto.
        * apply Hext; auto. split; [exact Hne|].
          intros Ht. inversion Ht as [a body _ Hl _|a body b _ Hl _ _]; subst; cbn [dnext] in Hl; rewrite Ef in Hl; discriminate.
  Qed.

  Lemma dir_detect_exact k : dexact_rec (gd_dir_detect k find_dir find_type).
  Proof.
    induction k as [|k IH]; intros body ds ts Hroot; cbn [gd_dir_detect].
    - split; [exact I|discriminate].
    - now apply dir_loop_exact.
  Qed.
End DirExact.

(* FindRecursiveDirective::check for the directive `name` whose definition visits `items` *)
Theorem dir_check_exact find_dir find_type limit fuel name items :
  (forall t n b body, find_type t = Some (n, b, body) -> n = t) ->
  match gd_dir_check_with limit fuel find_dir find_type name items with
  | GrCycle _ => exists x, In x items /\ (x = GiDir name \/ dreaches find_dir find_type name x)
  | GrOk _ => forall x, In x items -> x <> GiDir name /\ ~ dreaches find_dir find_type name x
  | _ => True
  end.
Proof.
  intros Hwf. unfold gd_dir_check_with.
  assert (Hroot : rooted name (gd_stack_with_limit (gd_stack_with_root name) limit)) by (exists []; reflexivity).
  destruct (dir_detect_exact find_dir find_type Hwf name fuel items _ (gd_stack_with_limit gd_stack_new limit) Hroot)
    as [H _].
  destruct (gd_dir_detect fuel find_dir find_type items _ _) as [[a b]|tr| | |]; cbn in *; auto.
  intros x Hx. destruct (H x Hx) as [A B]. split; [exact A|].
  intros Hr. destruct (dreaches_first_return find_dir find_type name x Hr) as [E|Ht]; [congruence|].
  apply B. eapply dto_root_ext; [|exact Ht]. intros y. destruct y as [d|t]; cbn.
  - split; [intros [= ->]; now left|intros [->|[]]; reflexivity].
  - split; [discriminate|intros []].
Qed.
