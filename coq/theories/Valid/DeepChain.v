(* "deep graph => recursion-limit error", for every limit, on an unbounded chain of input objects
   I0 { f: I1! }, I1 { f: I2! }, ...: FindRecursiveInputValue::check(I0) ends with the limit error whatever the
   limit is (and with any fuel that is enough for limit + 1 activations). *)
From ApolloVerif Require Import Base.Chars Ast.Ast Valid.Guards Valid.GuardsProofs Valid.CycleExact.

Definition dc_name (k : nat) : str := [N.of_nat k].

Definition dc_chain (s : str) : option (list str) :=
  match s with
  | [k] => Some [[(k + 1)%N]]
  | _ => None
  end.

Definition dc_stack (j : nat) : list str := map dc_name (seq 0 (S j)).

Lemma dc_not_on_stack j : gd_mem (dc_name (S j)) (dc_stack j) = false.
Proof.
  destruct (gd_mem (dc_name (S j)) (dc_stack j)) eqn:E; [|reflexivity].
  apply (gd_mem_in (dc_name (S j)) (dc_stack j)) in E. unfold dc_stack in E. apply in_map_iff in E.
  destruct E as (i & Ei & Hi). apply in_seq in Hi. unfold dc_name in Ei. injection Ei as Ei. lia.
Qed.

Lemma dc_look j : dc_chain (dc_name j) = Some [dc_name (S j)].
Proof. unfold dc_chain, dc_name. do 3 f_equal. lia. Qed.

Lemma dc_stack_snoc j : dc_stack j ++ [dc_name (S j)] = dc_stack (S j).
Proof.
  unfold dc_stack. rewrite (seq_S (S j) 0), map_app. reflexivity.
Qed.

Lemma dc_loop_limit limit : forall r j fuel seen,
  gds_limit seen = limit -> gds_seen seen = dc_stack j -> (N.to_nat limit - S j = r)%nat -> (fuel >= S r)%nat ->
  gd_input_detect fuel dc_chain [dc_name (S j)] seen = GrLimit.
Proof.
  induction r as [|r IH]; intros j fuel seen Hlim Hseen Hr Hfuel;
    (destruct fuel as [|fuel]; [lia|]); cbn [gd_input_detect gd_input_loop];
    unfold gd_contains; rewrite Hseen, dc_not_on_stack; cbn [negb]; rewrite dc_look;
    unfold gd_push; rewrite Hseen, dc_not_on_stack, dc_stack_snoc, Hlim;
    unfold dc_stack at 1; rewrite map_length, seq_length.
  - destruct (N.ltb limit (N.of_nat (S (S j)))) eqn:E; [reflexivity|lia].
  - destruct (N.ltb limit (N.of_nat (S (S j)))) eqn:E; [reflexivity|].
    rewrite (IH (S j) fuel); [reflexivity|reflexivity|reflexivity|lia|lia].
Qed.

Theorem deep_chain_limit limit fuel : (fuel >= gd_fuel_of limit)%nat ->
  gd_input_check_with limit fuel dc_chain (dc_name 0) [dc_name 1] = GrLimit.
Proof.
  intros Hfuel. unfold gd_input_check_with.
  apply (dc_loop_limit limit (N.to_nat limit - 1) 0); try reflexivity. unfold gd_fuel_of in Hfuel. lia.
Qed.
