(* Proofs about the model of DiagnosticList::sort (Valid/Guards.v, gd_sort):
   sorted, a permutation, stable; it is THE stable sort (any sorted stable permutation equals it);
   on lists with pairwise distinct keys the result does not depend on the order of the input. *)
From Coq Require Import Sorting.Sorted Sorting.Permutation.
From ApolloVerif Require Import Base.Chars Valid.Guards.

Lemma gd_key_le_refl k : gd_key_le k k = true.
Proof. destruct k as [[f o]|]; cbn; [|reflexivity]. lia. Qed.

Lemma gd_key_le_trans a b c : gd_key_le a b = true -> gd_key_le b c = true -> gd_key_le a c = true.
Proof.
  destruct a as [[f1 o1]|], b as [[f2 o2]|], c as [[f3 o3]|]; cbn; try reflexivity; try discriminate; lia.
Qed.

Lemma gd_key_le_total a b : gd_key_le a b = true \/ gd_key_le b a = true.
Proof. destruct a as [[f1 o1]|], b as [[f2 o2]|]; cbn; auto; lia. Qed.

Lemma gd_key_le_antisym a b : gd_key_le a b = true -> gd_key_le b a = true -> a = b.
Proof.
  destruct a as [[f1 o1]|], b as [[f2 o2]|]; cbn; try reflexivity; try discriminate.
  intros H1 H2. assert (f1 = f2 /\ o1 = o2) as [-> ->] by lia. reflexivity.
Qed.

Definition gd_key_eqb (a b : gd_key) : bool := gd_key_le a b && gd_key_le b a.

Lemma gd_key_eqb_eq a b : gd_key_eqb a b = true <-> a = b.
Proof.
  unfold gd_key_eqb. rewrite andb_true_iff. split.
  - intros [H1 H2]. now apply gd_key_le_antisym.
  - intros ->. split; apply gd_key_le_refl.
Qed.

Section SortProofs.
  Context {A : Type}.
  Variable key : A -> gd_key.

  Definition gd_le (x y : A) : Prop := gd_key_le (key x) (key y) = true.

  Lemma gd_insert_perm x l : Permutation (x :: l) (gd_insert key x l).
  Proof.
    induction l as [|y l IH]; cbn [gd_insert]; [apply Permutation_refl|].
    destruct (gd_key_le (key x) (key y)); [apply Permutation_refl|].
    eapply perm_trans; [apply perm_swap|]. now apply perm_skip.
  Qed.

  Lemma gd_sort_perm l : Permutation l (gd_sort key l).
  Proof.
    induction l as [|x l IH]; cbn [gd_sort]; [constructor|].
    eapply perm_trans; [apply perm_skip, IH|apply gd_insert_perm].
  Qed.

  Lemma gd_insert_hdrel x y l : gd_le y x -> HdRel gd_le y l -> HdRel gd_le y (gd_insert key x l).
  Proof.
    intros Hyx H. destruct l as [|z l]; cbn [gd_insert]; [now constructor|].
    inversion H; subst. destruct (gd_key_le (key x) (key z)); now constructor.
  Qed.

  Lemma gd_insert_sorted x l : Sorted gd_le l -> Sorted gd_le (gd_insert key x l).
  Proof.
    induction 1 as [|y l Hs IH Hd]; cbn [gd_insert]; [repeat constructor|].
    destruct (gd_key_le (key x) (key y)) eqn:E.
    - constructor; [now constructor|]. now constructor.
    - constructor; [exact IH|]. apply gd_insert_hdrel; [|exact Hd].
      unfold gd_le. destruct (gd_key_le_total (key x) (key y)) as [H|H]; [congruence|exact H].
  Qed.

  Lemma gd_sort_sorted l : Sorted gd_le (gd_sort key l).
  Proof. induction l as [|x l IH]; cbn [gd_sort]; [constructor|now apply gd_insert_sorted]. Qed.

  (* stability: for every key the elements carrying it keep their relative order *)
  Definition gd_with_key (k : gd_key) (l : list A) : list A := filter (fun x => gd_key_eqb (key x) k) l.

  Lemma gd_insert_with_key k x l :
    gd_with_key k (gd_insert key x l) =
    if gd_key_eqb (key x) k then x :: gd_with_key k l else gd_with_key k l.
  Proof.
    induction l as [|y l IH]; cbn [gd_insert gd_with_key filter]; [reflexivity|].
    destruct (gd_key_le (key x) (key y)) eqn:E; cbn [filter]; [reflexivity|].
    fold (gd_with_key k (gd_insert key x l)). fold (gd_with_key k l). rewrite IH.
    destruct (gd_key_eqb (key x) k) eqn:Ex; [|reflexivity].
    destruct (gd_key_eqb (key y) k) eqn:Ey; [|reflexivity].
    apply gd_key_eqb_eq in Ex, Ey. rewrite Ex, Ey, gd_key_le_refl in E. discriminate.
  Qed.

  Lemma gd_sort_stable l k : gd_with_key k (gd_sort key l) = gd_with_key k l.
  Proof.
    induction l as [|x l IH]; cbn [gd_sort]; [reflexivity|].
    rewrite gd_insert_with_key, IH. unfold gd_with_key at 3. cbn [filter].
    destruct (gd_key_eqb (key x) k); reflexivity.
  Qed.

  Lemma gd_is_sorted_spec l : gd_is_sorted key l = true <-> Sorted gd_le l.
  Proof.
    induction l as [|x l IH]; cbn [gd_is_sorted]; [split; [constructor|reflexivity]|].
    destruct l as [|y l].
    - split; [repeat constructor|reflexivity].
    - rewrite andb_true_iff, IH. split.
      + intros [H1 H2]. constructor; [exact H2|now constructor].
      + intros H. inversion H as [|? ? Hs Hd]; subst. inversion Hd; subst. split; assumption.
  Qed.

  (* ---- uniqueness: a sorted, stable arrangement of l is gd_sort l *)

  Lemma gd_le_trans x y z : gd_le x y -> gd_le y z -> gd_le x z.
  Proof. apply gd_key_le_trans. Qed.

  Lemma sorted_strongly l : Sorted gd_le l -> StronglySorted gd_le l.
  Proof. apply Sorted_StronglySorted. intros x y z. apply gd_le_trans. Qed.

  (* two sorted lists that agree on every key class are equal *)
  Lemma sorted_classes_eq l1 l2 :
    Sorted gd_le l1 -> Sorted gd_le l2 ->
    (forall k, gd_with_key k l1 = gd_with_key k l2) -> l1 = l2.
  Proof.
    intros H1 H2. apply sorted_strongly in H1. apply sorted_strongly in H2.
    revert l2 H2. induction H1 as [|x l1 Hs1 IH Hall1]; intros l2 H2 Hk.
    - destruct l2 as [|y l2]; [reflexivity|]. specialize (Hk (key y)).
      unfold gd_with_key in Hk. cbn [filter] in Hk.
      assert (E : gd_key_eqb (key y) (key y) = true) by now apply gd_key_eqb_eq.
      rewrite E in Hk. discriminate.
    - destruct H2 as [|y l2 Hs2 Hall2].
      + specialize (Hk (key x)). unfold gd_with_key in Hk. cbn [filter] in Hk.
        assert (E : gd_key_eqb (key x) (key x) = true) by now apply gd_key_eqb_eq.
        rewrite E in Hk. discriminate.
      + (* heads have the same key, hence are the same element *)
        assert (Hxy : key x = key y).
        { assert (Ix : In x (gd_with_key (key x) (y :: l2))).
          { rewrite <- Hk. unfold gd_with_key. cbn [filter].
            assert (E : gd_key_eqb (key x) (key x) = true) by now apply gd_key_eqb_eq.
            rewrite E. now left. }
          assert (Iy : In y (gd_with_key (key y) (x :: l1))).
          { rewrite Hk. unfold gd_with_key. cbn [filter].
            assert (E : gd_key_eqb (key y) (key y) = true) by now apply gd_key_eqb_eq.
            rewrite E. now left. }
          unfold gd_with_key in Ix, Iy. apply filter_In in Ix, Iy.
          destruct Ix as [Ix _], Iy as [Iy _].
          apply gd_key_le_antisym.
          - destruct Iy as [->|Iy]; [apply gd_key_le_refl|].
            rewrite Forall_forall in Hall1. apply (Hall1 _ Iy).
          - destruct Ix as [->|Ix]; [apply gd_key_le_refl|].
            rewrite Forall_forall in Hall2. apply (Hall2 _ Ix). }
        pose proof (Hk (key x)) as Hkx. unfold gd_with_key in Hkx. cbn [filter] in Hkx.
        assert (E : gd_key_eqb (key x) (key x) = true) by now apply gd_key_eqb_eq.
        rewrite E in Hkx. rewrite <- Hxy, E in Hkx. injection Hkx as -> Hrest.
        f_equal. apply IH; [exact Hs2|]. intros k. specialize (Hk k).
        unfold gd_with_key in Hk |- *. cbn [filter] in Hk.
        destruct (gd_key_eqb (key y) k); [now injection Hk|exact Hk].
  Qed.

  Theorem gd_sort_unique l l' :
    Sorted gd_le l' -> (forall k, gd_with_key k l' = gd_with_key k l) -> l' = gd_sort key l.
  Proof.
    intros Hs Hk. apply sorted_classes_eq; [exact Hs|apply gd_sort_sorted|].
    intros k. now rewrite Hk, gd_sort_stable.
  Qed.

  (* ---- distinct keys: the order of the input does not matter *)

  Lemma with_key_nodup_perm l l' k :
    NoDup (map key l) -> Permutation l l' -> gd_with_key k l = gd_with_key k l'.
  Proof.
    intros Hnd Hp.
    (* a key class of a list with distinct keys has at most one element *)
    assert (Hone : forall m, NoDup (map key m) -> forall a b, In a (gd_with_key k m) -> In b (gd_with_key k m) -> a = b).
    { intros m. induction m as [|z m IHm]; cbn [map gd_with_key filter]; intros Hn a b Ia Ib; [contradiction|].
      inversion Hn as [|? ? Hnotin Hn']; subst.
      assert (Hin_key : forall c, In c (gd_with_key k m) -> In (key c) (map key m) /\ key c = k).
      { intros c Ic. unfold gd_with_key in Ic. apply filter_In in Ic. destruct Ic as [Ic Ek].
        split; [now apply in_map|now apply gd_key_eqb_eq]. }
      destruct (gd_key_eqb (key z) k) eqn:Ez.
      - apply gd_key_eqb_eq in Ez.
        destruct Ia as [<-|Ia], Ib as [<-|Ib]; try reflexivity.
        + destruct (Hin_key _ Ib) as [I E]. rewrite E, <- Ez in I. contradiction.
        + destruct (Hin_key _ Ia) as [I E]. rewrite E, <- Ez in I. contradiction.
        + now apply IHm.
      - now apply IHm. }
    assert (Hnd' : NoDup (map key l')).
    { eapply Permutation_NoDup; [apply Permutation_map, Hp|exact Hnd]. }
    assert (Hlen : forall m, NoDup (map key m) -> (length (gd_with_key k m) <= 1)%nat).
    { intros m Hn. destruct (gd_with_key k m) as [|a [|b r]] eqn:E; cbn [length]; try lia.
      exfalso. assert (a = b) by (apply (Hone m Hn); rewrite E; cbn; auto). subst b.
      (* a occurs twice in the class, hence twice in m: its key occurs twice *)
      assert (Hnd2 : NoDup (gd_with_key k m)).
      { unfold gd_with_key. apply NoDup_filter. eapply NoDup_map_inv. exact Hn. }
      rewrite E in Hnd2. inversion Hnd2 as [|? ? Hni _]; subst. apply Hni. now left. }
    pose proof (Hlen l Hnd) as L1. pose proof (Hlen l' Hnd') as L2.
    assert (Hsame : forall c, In c (gd_with_key k l) <-> In c (gd_with_key k l')).
    { intros c. unfold gd_with_key. rewrite !filter_In. split; intros [I E]; split; auto.
      - eapply Permutation_in; eauto.
      - eapply Permutation_in; [apply Permutation_sym|]; eauto. }
    destruct (gd_with_key k l) as [|a [|? ?]] eqn:E1, (gd_with_key k l') as [|b [|? ?]] eqn:E2;
      cbn [length] in L1, L2; try lia; try reflexivity.
    - exfalso. apply (Hsame b). now left.
    - exfalso. apply (proj1 (Hsame a)). now left.
    - assert (In a [b]) as [->|[]] by (apply Hsame; now left). reflexivity.
  Qed.

  Theorem gd_sort_perm_invariant l l' :
    NoDup (map key l) -> Permutation l l' -> gd_sort key l = gd_sort key l'.
  Proof.
    intros Hnd Hp. apply gd_sort_unique; [apply gd_sort_sorted|].
    intros k. rewrite gd_sort_stable. now apply with_key_nodup_perm.
  Qed.
End SortProofs.
