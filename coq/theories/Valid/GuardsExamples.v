(* Concrete graphs for the boundary behaviour of every guard (limit exactly reached / exceeded by one),
   the witness of the formerly discarded @defer limit error, and the parametric "deep chain => limit error". *)
From ApolloVerif Require Import Base.Chars Ast.Ast Schema.Model Valid.Guards Valid.GuardsProofs.


Definition ex_name (k : nat) : str := [N.of_nat k].

(* ---- input objects: I0 -> I1 -> ... -> I(n-1), optionally closed back to I0 *)
Definition ex_input_chain (n : nat) (close : bool) (s : str) : option (list str) :=
  match s with
  | [k] => let k := N.to_nat k in
           if Nat.ltb (S k) n then Some [ex_name (S k)]
           else if Nat.ltb k n then Some (if close then [ex_name 0] else [])
           else None
  | _ => None
  end.

Definition ex_input_verdict (n : nat) (close : bool) : gd_verdict :=
  gd_verdict_of (gd_input_check (gd_fuel_of gd_default_limit) (ex_input_chain n close) (ex_name 0)
                                (match ex_input_chain n close (ex_name 0) with Some l => l | None => [] end)).

Example ex_input_boundary :
  ex_input_verdict 32 false = GvOk /\ ex_input_verdict 33 false = GvLimit /\
  ex_input_verdict 32 true = GvCycle /\ ex_input_verdict 33 true = GvLimit /\
  ex_input_verdict 1 true = GvCycle /\ ex_input_verdict 320 false = GvLimit.
Proof. vm_compute. repeat split. Qed.

(* ---- fragments: F0 -> F1 -> ... *)
Definition ex_frag_chain (n : nat) (close : bool) (s : str) : option (str * list str) :=
  match ex_input_chain n close s with Some l => Some (s, l) | None => None end.

Definition ex_frag_verdict (n : nat) (close : bool) : gd_verdict :=
  gd_verdict_of (gd_frag_check (gd_fuel_of gd_frag_limit) (ex_frag_chain n close) (ex_name 0)
                               (match ex_input_chain n close (ex_name 0) with Some l => l | None => [] end)).

Example ex_frag_boundary :
  ex_frag_verdict 100 false = GvOk /\ ex_frag_verdict 101 false = GvLimit /\
  ex_frag_verdict 100 true = GvCycle /\ ex_frag_verdict 101 true = GvLimit.
Proof. vm_compute. repeat split. Qed.

(* ---- directive definitions: @d0(a: Int @d1) ...  and  @d(a: T0), input T0 { f: T1 } ... *)
Definition ex_dir_chain (n : nat) (close : bool) (s : str) : option (list gd_item) :=
  match ex_input_chain n close s with Some l => Some (map GiDir l) | None => None end.
Definition ex_no_types (s : str) : option (str * bool * list gd_item) := None.

Definition ex_dir_verdict (n : nat) (close : bool) : gd_verdict :=
  gd_verdict_of (gd_dir_check gd_dir_fuel (ex_dir_chain n close) ex_no_types (ex_name 0)
                              (match ex_dir_chain n close (ex_name 0) with Some l => l | None => [] end)).

Definition ex_type_chain (n : nat) (s : str) : option (str * bool * list gd_item) :=
  match ex_input_chain n false s with Some l => Some (s, false, map GiType l) | None => None end.
Definition ex_one_dir (s : str) : option (list gd_item) := None.

Definition ex_type_verdict (n : nat) : gd_verdict :=
  gd_verdict_of (gd_dir_check gd_dir_fuel ex_one_dir (ex_type_chain n) [100] [GiType (ex_name 0)]).

Example ex_dir_boundary :
  ex_dir_verdict 32 false = GvOk /\ ex_dir_verdict 33 false = GvLimit /\
  ex_dir_verdict 32 true = GvCycle /\ ex_dir_verdict 33 true = GvLimit /\
  ex_type_verdict 32 = GvOk /\ ex_type_verdict 33 = GvLimit.
Proof. vm_compute. repeat split. Qed.

(* ---- walks: n nested inline fragments / fields *)
Fixpoint ex_nest (field : bool) (n : nat) (inner : list selection) : list selection :=
  match n with
  | O => inner
  | S k => [if field then SField None [97] [] [] (ex_nest field k inner) else SInline None [] (ex_nest field k inner)]
  end.
Definition ex_leaf : list selection := [SField None [120] [] [] []].
Definition ex_no_frags (s : str) : option (list selection) := None.

Definition ex_walk_verdict (m : gd_mode) (field : bool) (n : nat) : gd_verdict :=
  gd_verdict_of (snd (gd_walk_top (gd_fuel_of gd_walk_limit) ex_no_frags m (ex_nest field n ex_leaf))).

Example ex_walk_boundary :
  (* a leaf field is one more level: `walk(.., &field.selection_set, .., guard.increment()?, ..)` for every field *)
  ex_walk_verdict gd_mode_dedup true 499 = GvOk /\ ex_walk_verdict gd_mode_dedup true 500 = GvLimit /\
  ex_walk_verdict gd_mode_walk_selections false 500 = GvOk /\ ex_walk_verdict gd_mode_walk_selections false 501 = GvLimit /\
  ex_walk_verdict gd_mode_walk_selections true 5000 = GvOk /\
  ex_walk_verdict gd_mode_defers true 501 = GvLimit /\ ex_walk_verdict gd_mode_defer_root false 501 = GvLimit /\
  ex_walk_verdict gd_mode_uncond_defer false 499 = GvOk /\ ex_walk_verdict gd_mode_uncond_defer false 500 = GvLimit.
Proof. vm_compute. repeat split. Qed.

(* ---- field merging: a chain of n nested field sets below the operation's set *)
Definition ex_merge_children (n : nat) (s : str) : list str :=
  match s with [k] => if Nat.ltb (S (N.to_nat k)) n then [ex_name (S (N.to_nat k))] else [] | _ => [] end.

Definition ex_merge_flags (n : nat) : gd_res (list bool) :=
  gd_merge_document (ex_merge_children n) (ex_merge_children n) [ex_name 0].

Example ex_merge_boundary :
  ex_merge_flags 129 = GrOk [false] /\ ex_merge_flags 130 = GrOk [true] /\ ex_merge_flags 300 = GrOk [true].
Proof. vm_compute. repeat split. Qed.

(* the high-water mark belongs to the validator: once exceeded, every later operation is flagged *)
Example ex_merge_sticky :
  gd_merge_document (ex_merge_children 130) (ex_merge_children 130) [ex_name 0; ex_name 128] = GrOk [true; true] /\
  (* ... and the cache belongs to it too: sets already checked are not descended into again *)
  gd_merge_document (ex_merge_children 130) (ex_merge_children 130) [ex_name 128; ex_name 0] = GrOk [false; false] /\
  gd_merge_document (ex_merge_children 130) (ex_merge_children 130) [ex_name 129; ex_name 0] = GrOk [false; true].
Proof. vm_compute. repeat split. Qed.

(* ---- the schema of the document-level examples:
   type Q { a: Q x: Int }  type M { a: Q x: Int m: M }  type S { a: Q x: Int } as query / mutation / subscription roots *)
Definition ex_is_root (t : str) : bool := streq t [81] || streq t [77] || streq t [83].
Definition ex_typing : vs_typing :=
  mk_vst true
         (fun op => Some (match op with OpQuery => [81] | OpMutation => [77] | OpSubscription => [83] end))
         (fun t f => if negb (ex_is_root t) then None
                     else if streq f [97] then Some [81]
                     else if streq f [120] then Some [73;110;116]
                     else if streq f [109] && streq t [77] then Some [77]
                     else None)
         ex_is_root.

(* ---- the limit error of the @defer walks (former finding defer_walk_limit_swallowed, repaired)

   mutation { m { ...F } ...G1 }
   fragment Gi on Mutation { (49 nested inline fragments) ...G(i+1) }   i = 1..10,  G10 ends in ...F
   fragment F on Mutation { ... @defer { x } }

   The deduplicating walk sees F first below the field `m` at depth 2, so it never walks F at depth 501;
   forbid_defer_on_root does not descend into fields, reaches F only through G1..G10 at depth 501 and stops
   with the limit error: the @defer on a root selection is not reported.  Before the repair validate_defer
   discarded that error and the document carried no recursion-limit diagnostic at all (gd_doc_walk_obs_old);
   now it pushes the RecursionError. *)
Definition ex_s (c : N) : str := [c].
Definition ex_G (i : nat) : str := [71; N.of_nat i].
Definition ex_F : str := [70].
Definition ex_defer_dir : directive := {| d_name := gd_s_defer; d_args := [] |}.

Definition ex_defer_doc (n : nat) : document :=
  DOperation OpMutation None [] []
             [SField None [109] [] [] [SSpread ex_F []]; SSpread (ex_G 1) []]
  :: DFragment ex_F [77] [] [SInline None [ex_defer_dir] ex_leaf]
  :: map (fun i => DFragment (ex_G i) [77] []
                             (ex_nest false 49 [SSpread (if Nat.ltb i n then ex_G (S i) else ex_F) []]))
         (seq 1 n).

Example ex_defer_swallowed_old :
  let o := gd_doc_walk_obs_old ex_typing (ex_defer_doc 10) in
  gwo_defer_truncated o = true /\ gwo_defer_root o = 0%N /\ gwo_recursion o = 0%N /\ gwo_used_limit o = 0%N.
Proof. vm_compute. repeat split. Qed.

(* the same document after the repair: one RecursionError *)
Example ex_defer_limit_reported :
  let o := gd_doc_walk_obs ex_typing (ex_defer_doc 10) in
  gwo_defer_truncated o = true /\ gwo_defer_root o = 0%N /\ gwo_recursion o = 1%N /\ gwo_used_limit o = 0%N.
Proof. vm_compute. repeat split. Qed.

(* one fragment less: the same @defer is reported, before and after the repair *)
Example ex_defer_reported :
  let o := gd_doc_walk_obs ex_typing (ex_defer_doc 9) in
  gwo_defer_truncated o = false /\ gwo_defer_root o = 1%N /\ gwo_recursion o = 0%N /\
  gd_doc_walk_obs_old ex_typing (ex_defer_doc 9) = o.
Proof. vm_compute. repeat split. Qed.

(* the label walk (validate_defer_labels) does not follow spreads: a fragment definition that no operation
   uses, nested deeper than the limit (n inline fragments and the leaf field's own empty selection set), is
   the document in which only that walk reaches the limit *)
Definition ex_label_doc (n : nat) : document :=
  [DOperation OpQuery None [] [] ex_leaf; DFragment ex_F [81] [] (ex_nest false n ex_leaf)].

Example ex_label_limit_reported :
  gwo_defer_truncated (gd_doc_walk_obs ex_typing (ex_label_doc 499)) = false /\
  gwo_recursion (gd_doc_walk_obs ex_typing (ex_label_doc 499)) = 0%N /\
  gwo_defer_truncated (gd_doc_walk_obs ex_typing (ex_label_doc 500)) = true /\
  gwo_recursion (gd_doc_walk_obs ex_typing (ex_label_doc 500)) = 1%N /\
  gwo_recursion (gd_doc_walk_obs_old ex_typing (ex_label_doc 500)) = 0%N.
Proof. vm_compute. repeat split. Qed.

(* nothing is reported twice by validate_defer: a subscription whose deduplicating walk already failed keeps
   its three diagnostics (unused-variable walk, fragments-used walk, subscription walk) *)
Definition ex_sub_chain_doc (n : nat) : document :=
  DOperation OpSubscription None [] [] [SSpread (ex_G 1) []]
  :: map (fun i => DFragment (ex_G i) [83] [] (if Nat.ltb i n then [SSpread (ex_G (S i)) []] else ex_leaf))
         (seq 1 n).

Example ex_sub_chain_not_duplicated :
  let o := gd_doc_walk_obs ex_typing (ex_sub_chain_doc 600) in
  gwo_defer_truncated o = true /\ gwo_recursion o = 2%N /\ gwo_used_limit o = 1%N /\
  gd_doc_walk_obs_old ex_typing (ex_sub_chain_doc 600) = o.
Proof. vm_compute. repeat split. Qed.

(* ---- validate_selection_set (former finding selection_set_recursion_unguarded, repaired): nf fragments, each
   nesting k fields or inline fragments around the spread of the next one.  Every fragment passes the cycle check and
   every definition is far below the parser's limit, but the walk nests nf * (k + 1) deep. *)
Definition ex_deep_doc_via (field : bool) (nf k : nat) : document :=
  DOperation OpQuery None [] [] [SSpread (ex_G 0) []]
  :: map (fun i => DFragment (ex_G i) [81] []
                             (ex_nest field k (if Nat.ltb (S i) nf then [SSpread (ex_G (S i)) []] else ex_leaf)))
         (seq 0 nf).
Definition ex_deep_doc := ex_deep_doc_via true.

(* per document: (RecursionError diagnostics, of which by validate_selection_set) *)
Definition ex_sel_obs (t : vs_typing) (d : document) : N * N :=
  let o := gd_doc_walk_obs t d in (gwo_recursion o, gwo_sel_limit o).

Example ex_sel_limit_reported :
  (* the witnesses of the former finding: the walk stops at depth 500 and says so (next to validate_unused_variables) *)
  ex_sel_obs ex_typing (ex_deep_doc 50 100) = (2, 1)%N /\ ex_sel_obs ex_typing (ex_deep_doc_via false 50 100) = (2, 1)%N /\
  ex_sel_obs vs_no_schema (ex_deep_doc 50 100) = (2, 1)%N /\
  (* boundary: 5 fragments of 99 levels, the leaf field at level 500 and its empty selection set *)
  ex_sel_obs ex_typing (ex_deep_doc 5 98) = (0, 0)%N /\ ex_sel_obs ex_typing (ex_deep_doc 5 99) = (2, 1)%N /\
  (* a field that the schema does not have is not descended into (`b`), nor a fragment on a type that is not composite *)
  ex_sel_obs ex_typing [DOperation OpQuery None [] [] [SField None [98] [] [] (ex_nest true 600 ex_leaf)]] = (1, 0)%N /\
  ex_sel_obs vs_no_schema [DOperation OpQuery None [] [] [SField None [98] [] [] (ex_nest true 600 ex_leaf)]] = (2, 1)%N.
Proof. vm_compute. repeat split. Qed.

(* a spread of an undefined fragment is counted once per visit; a fragment is validated once per operation *)
Example ex_sel_undefined :
  gwo_undefined (gd_doc_walk_obs ex_typing
    [DOperation OpQuery None [] [] [SSpread [85] []; SSpread ex_F []; SSpread ex_F []];
     DFragment ex_F [81] [] [SSpread [85] []]]) = 2%N.
Proof. vm_compute. reflexivity. Qed.
