#!/bin/bash
# Extract the Gallina models and compile build/modelrun.  Re-run only when sources changed.
set -e
cd "$(dirname "$0")"
OUT=../build/ocaml
mkdir -p $OUT
stamp=$OUT/.stamp
newest=$(find theories extract ocaml -type f \( -name '*.v' -o -name '*.ml' \) -newer $stamp 2>/dev/null | head -1 || true)
if [ -f $stamp ] && [ -x ../build/modelrun ] && [ -z "$newest" ]; then exit 0; fi
( cd $OUT && timeout 900 coqc -Q ../../coq/theories ApolloVerif -o Extract.vo ../../coq/extract/Extract.v >/dev/null )
cp ocaml/*.ml $OUT/
( cd $OUT && ocamlfind ocamlopt -w -a -o ../modelrun model.mli model.ml util.ml $(ls fam_*.ml | sort) driver.ml )
touch $stamp
