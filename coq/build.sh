#!/bin/bash
# Full .vo build of the Coq development (never -vos), every coqc under a shell timeout.
# usage: build.sh [target ...]   (default: all)
set -e
cd "$(dirname "$0")"
{ echo "-Q theories ApolloVerif"; echo "-arg -w -arg -notation-overridden,-deprecated-hint-without-locality,-deprecated-instance-without-locality"; find theories -name '*.v' | sort; } > _CoqProject.new
if ! cmp -s _CoqProject.new _CoqProject || [ ! -f Makefile ]; then
  mv _CoqProject.new _CoqProject
  coq_makefile -f _CoqProject -o Makefile >/dev/null
else
  rm -f _CoqProject.new
fi
export TIMEOUT="timeout 1500"
exec make -j16 TIMED= COQC="timeout 1500 coqc" "$@"
