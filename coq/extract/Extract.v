(* One extraction command for every executable model; ExtrOcamlBasic only, no Extract Constant. *)
From Coq Require Import ExtrOcamlBasic.
From ApolloVerif Require Import Base.Chars Ast.Coord.
Extraction Language OCaml.
Extraction "model.ml"
  is_valid_name parse_coord print_coord lookup.
