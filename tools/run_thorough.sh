#!/bin/bash
# run every claimed check in the thorough tier, $1 lanes in parallel (default 2), each under a time limit ($2 seconds, default 2400);
# evidence goes to evidence/<id>.thorough.json-style scratch dir so that the quick-tier evidence stays in place
cd "$(dirname "$0")/.."
lanes=${1:-2}; limit=${2:-2400}; out=${3:-/tmp/thorough-logs}; mkdir -p $out
python3 -c "import json; print('\n'.join(c['property_id'] for c in json.load(open('MANIFEST.json'))['checks']))" | \
xargs -P $lanes -I{} bash -c 's=$(date +%s); VERIF_EVIDENCE_DIR='$out'/ev timeout '$limit' ./check {} --tier thorough > '$out'/{}.log 2>&1; rc=$?; e=$(date +%s); echo "{} rc=$rc $((e-s))s viol=$(grep -c "^VIOLATION" '$out'/{}.log) known=$(grep -c "^KNOWN-FINDING" '$out'/{}.log) $(grep -m1 "^ERROR" '$out'/{}.log | cut -c1-120)"'
