#!/usr/bin/env python3
"""mark_seeded.py <id> <violation line> <note>: record a re-trial after strengthening"""
import json, sys, shutil, re
sid, line, note = sys.argv[1], sys.argv[2], sys.argv[3]
p = f"/verif/seeded/{sid}/meta.json"
m = json.load(open(p))
m["integrator_ran"] = m.get("integrator_ran", []) + [note]
m["detected_by_check"] = True
m["detected_only_after_strengthening"] = True
m["first_violation_line"] = line
json.dump(m, open(p, "w"), indent=1, ensure_ascii=False)
r = re.search(r"replay=(\S+)", line)
if r:
    shutil.copy(r.group(1), f"/verif/seeded/{sid}/replay.json")
