#!/usr/bin/env python3
"""Regenerate MANIFEST.json from manifest.d/Cnn.json ({text, note, technique, design_ref[, reason]})."""
import json, glob, os
V = os.path.dirname(os.path.dirname(os.path.abspath(__file__)))
props = [json.loads(l) for l in open(f"{V}/properties.jsonl")]
claims = {}
for f in sorted(glob.glob(f"{V}/manifest.d/C*.json")):
    claims[os.path.basename(f)[:-5]] = json.load(open(f))
checks, na = [], []
for p in props:
    pid = p["id"]
    c = claims.get(pid)
    if c and "text" in c:
        checks.append({
            "property_id": pid, "quick_cmd": f"./check {pid} --tier quick", "thorough_cmd": f"./check {pid} --tier thorough",
            "evidence_file": f"/verif/evidence/{pid}.json", "replay_cmd_template": f"./check {pid} --replay {{path}}",
            "engine": "coq-correspondence",
            "level_claimed": {"category": "proof", "text": c["text"], "design_ref": c.get("design_ref", f"4 {pid}")},
            "level_note": c["note"], "technique": c["technique"]})
    else:
        na.append({"property_id": pid, "reason": (c or {}).get("reason", "not yet built in this framework (planned, DESIGN.md section 7); no claim is made")})
m = {"version": 1, "setup_cmd": "./setup.sh",
     "hooks": {"guard": "apollo_rs_verif", "enable": "RUSTFLAGS=\"--cfg apollo_rs_verif\" (set by driver/common.py build_impl, used by setup.sh)",
               "baseline_off_cmd": "cd /repo && cargo test --workspace --no-fail-fast --offline",
               "source_commits": json.load(open(f"{V}/manifest.d/hooks.json")) if os.path.exists(f"{V}/manifest.d/hooks.json") else [], "add_only": True},
     "engines": [{"name": "coq-correspondence", "path": "/verif/check", "serves_properties": [c["property_id"] for c in checks],
                  "kind_free_text": "Coq 8.16 theorems over hand-written Gallina models; models extracted to OCaml (build/modelrun) and compared with the real crates (harness/implrun, rebuilt from /repo's working tree) on generated cases; property oracles on the implementation"}],
     "checks": checks, "not_applicable": na,
     "notes": "See DESIGN.md. exit 2 / a line starting with ERROR means the machinery failed, not a violation."}
json.dump(m, open(f"{V}/MANIFEST.json", "w"), indent=1, ensure_ascii=False)
print("claimed", len(checks), "not_applicable", len(na))
