#!/usr/bin/env python3
"""Print the prompt for a seeding sub-agent: only the property text and its scratch worktree."""
import sys
pid = sys.argv[1]
n = sys.argv[2] if len(sys.argv) > 2 else "a"
prop = open(f"/tmp/prop-{pid}.txt").read()
wt = f"/tmp/mut-{pid}{n}"
print(f"""You are helping to test a verification tool by mutation. The Rust project apollographql/apollo-rs (crates apollo-parser, apollo-compiler, apollo-smith) is checked out for you in your own scratch git worktree at {wt} (a worktree of /repo at its current HEAD). Work ONLY inside {wt} and write your deliverables to {wt}-out/ (create it). Do not touch /repo, /verif or any other directory. There is no network; use `--offline` with cargo and set CARGO_TARGET_DIR={wt}/target and `-j 6` for every cargo command.

This semantic property of apollo-rs is supposed to hold:

{prop}
Your job: make ONE realistic change to the apollo-rs source code (a plausible bug a developer could introduce: a wrong boundary, a dropped branch or check, a reordered step, a cache/memo keyed wrongly, a condition that is slightly too weak or too strong, two sites that each look fine alone but disagree) such that
  1. the workspace still compiles and the existing test suite still passes completely: `cd {wt} && cargo test --workspace --no-fail-fast --offline -j 6` (iterate with `cargo test -p <crate>`; run the full workspace once at the end; snapshot tests under crates/*/test_data must not need regeneration);
  2. the property above is violated, but only for inputs/sequences that need something specific to manifest — an unusual input, a particular multi-step sequence, a boundary value, a specific interleaving or configuration — NOT something ordinary use or the first obvious input would expose at once;
  3. the change is small (a few lines) and does not add debug output, feature flags, randomness, sleeps, or `unsafe`, and does not touch tests or test data.
First read the code that makes the property hold (find it yourself from the property text), think about which inputs the existing tests exercise (look at the tests), then pick a change that slips through them.

Deliverables in {wt}-out/:
  - patch.diff : `git -C {wt} diff` of your change (source files only).
  - demo.rs : a self-contained Rust integration test file (uses only the public API of the crate under test plus std; `#[test] fn demo() {{ ... }}`) that PASSES on the unchanged code and FAILS with your change, demonstrating a concrete violation of the property. It will be copied to crates/<demo_crate>/tests/seeded_demo.rs and run with `cargo test -p <demo_crate> --test seeded_demo`. Verify both directions yourself. NEVER use `git stash` (the stash is shared by all worktrees of the repository and other agents work in parallel): use `git -C {wt} diff > {wt}-out/patch.diff; git -C {wt} apply -R {wt}-out/patch.diff; <run demo>; git -C {wt} apply {wt}-out/patch.diff`. Note apollo-compiler has `autotests = false`: to run the demo there, temporarily append `[[test]]` / `name = "seeded_demo"` to crates/apollo-compiler/Cargo.toml and revert it afterwards (it must not be part of patch.diff; the validator adds it itself).
  - meta.json : {{"property": "{pid}", "demo_crate": "apollo-compiler" | "apollo-parser" | "apollo-smith", "summary": "<one sentence: what was changed>", "needs": "<what specific input / sequence / configuration is needed for the violation to manifest>", "files": ["..."], "ran": ["<the commands you ran and their outcome, e.g. cargo test --workspace: N passed 0 failed; demo passes clean, fails patched>"]}}
When done, leave the worktree with your change applied, and reply with the content of meta.json. If an attempted change makes existing tests fail, pick a different change. Work autonomously; do not ask questions.""")
