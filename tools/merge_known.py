#!/usr/bin/env python3
"""Rebuild known_findings.json (committed; never written by a check) from known_findings.d/:
_fixed.json (`fixed:` records, suppress nothing) and Cnn.json (finding classes)."""
import json, glob, os
V = os.path.dirname(os.path.dirname(os.path.abspath(__file__)))
out = []
for f in [f"{V}/known_findings.d/_fixed.json"] + sorted(glob.glob(f"{V}/known_findings.d/C*.json")):
    for e in json.load(open(f)):
        if "fixed" in e and not f.endswith("_fixed.json"):
            continue  # fixed records live in _fixed.json only
        if e not in out:
            out.append(e)
open(f"{V}/known_findings.json", "w").write("[\n" + ",\n".join(" " + json.dumps(e, ensure_ascii=False) for e in out) + "\n]\n")
print(len(out), "entries")
