#!/bin/bash
# usage: try_seeded.sh <out dir of a seeding agent> <seeded id, e.g. C25a>
# validates the change, runs the property's quick check against the patched scratch tree, stores everything
# under /verif/seeded/<id>/ and removes the scratch worktrees.
set -u
out=$(realpath "$1"); id=$2
pid=$(python3 -c "import json; print(json.load(open('$out/meta.json'))['property'])")
cd /verif
log=$(mktemp)
tools/validate_seeded.sh "$out" > $log 2>&1; vrc=$?
tail -4 $log
name=$(basename "$out"); wt=/tmp/val-$name
detected=no; viol=""
if [ $vrc = 0 ]; then
  mkdir -p seeded/$id; VERIF_EVIDENCE_DIR=/verif/seeded/$id VERIF_REPO=$wt ./check $pid > $log.check 2>&1; crc=$?
  viol=$(grep -m1 "^VIOLATION" $log.check)
  [ $crc = 1 ] && [ -n "$viol" ] && detected=yes
  echo "check rc=$crc $viol"
  grep -m2 "^ERROR" $log.check
fi
mkdir -p seeded/$id
cp "$out/patch.diff" "$out/demo.rs" seeded/$id/
rp=$(echo "$viol" | sed -n 's/.*replay=\([^ ]*\).*/\1/p')
[ -n "$rp" ] && [ -f "$rp" ] && cp "$rp" seeded/$id/replay.json
python3 - "$out/meta.json" seeded/$id/meta.json "$vrc" "$detected" "$viol" <<'PY'
import json, sys
m = json.load(open(sys.argv[1]))
m["validated_by_integrator"] = (sys.argv[3] == "0")
m["integrator_ran"] = ["tools/validate_seeded.sh: demo passes on the unchanged tree; with the patch the workspace builds, existing tests pass, demo fails" if sys.argv[3] == "0" else "validation FAILED",
                       f"VERIF_REPO=<patched scratch worktree> ./check {m['property']} --tier quick"]
m["detected_by_check"] = sys.argv[4] == "yes"
m["first_violation_line"] = sys.argv[5]
json.dump(m, open(sys.argv[2], "w"), indent=1, ensure_ascii=False)
PY
git -C /repo worktree remove --force $wt 2>/dev/null
rm -rf build/cargo-$(python3 -c "import hashlib;print(hashlib.md5('$wt'.encode()).hexdigest()[:8])")
# restore evidence for the unchanged tree is the caller's business (re-run ./check)
echo "seeded/$id: validated=$vrc detected=$detected"
