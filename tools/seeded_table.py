#!/usr/bin/env python3
"""Regenerate the table of DESIGN.md section 9 from seeded/*/meta.json (between the markers)."""
import json, glob, os, re
V = "/verif"
rows = []
for d in sorted(glob.glob(f"{V}/seeded/*/meta.json")):
    sid = os.path.basename(os.path.dirname(d))
    m = json.load(open(d))
    def cell(x):
        return " ".join(str(x).replace("|", "\\|").split())[:420]
    det = "yes" if m.get("detected_by_check") else "NO"
    if m.get("detected_only_after_strengthening"):
        det = "yes, after strengthening the generator"
    if not m.get("validated_by_integrator", True):
        det = "(change not validated)"
    fam = ""
    rp = os.path.join(os.path.dirname(d), "replay.json")
    if os.path.exists(rp):
        try:
            r = json.load(open(rp))
            fam = f"; first replay: family `{r.get('family','-')}`, {('oracle ' + str(r['oracle'])) if r.get('oracle') not in (None, 'ok') else 'model/implementation disagreement'}"
        except Exception:
            pass
    rows.append(f"| {sid} | {m['property']} | {cell(m.get('summary',''))} | {cell(m.get('needs',''))} | {det}{fam} |")
table = "| id | property | change | needs | detected by `./check <property>` (quick tier) |\n|---|---|---|---|---|\n" + "\n".join(rows)
p = f"{V}/DESIGN.md"
s = open(p).read()
b, e = "<!-- seeded-table-begin -->", "<!-- seeded-table-end -->"
if b in s:
    s = s[:s.index(b) + len(b)] + "\n" + table + "\n" + s[s.index(e):]
else:
    # replace the hand-written table of section 9
    i = s.index("| id | property | change | needs | caught by |")
    j = s.index("\n\n", i) if "\n\n" in s[i:] else len(s)
    s = s[:i] + b + "\n" + table + "\n" + e + s[j:]
open(p, "w").write(s)
print(len(rows), "rows")
