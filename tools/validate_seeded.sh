#!/bin/bash
# usage: validate_seeded.sh <dir with patch.diff, demo.rs, meta.json(crate)> 
# Confirms in a scratch worktree of /repo: (1) demo passes without the patch, (2) with the patch the
# workspace builds, the existing tests pass, and the demo fails.  Leaves the patched worktree at /tmp/val-<name>
# (remove with: git -C /repo worktree remove --force /tmp/val-<name>).
set -u
d=$(realpath "$1"); name=$(basename "$d")
crate=$(python3 -c "import json,sys; print(json.load(open('$d/meta.json')).get('demo_crate','apollo-compiler'))")
wt=/tmp/val-$name
git -C /repo worktree remove --force $wt 2>/dev/null
git -C /repo worktree add -q --detach $wt || exit 2
export CARGO_NET_OFFLINE=true CARGO_TARGET_DIR=$wt/target
cp "$d/demo.rs" $wt/crates/$crate/tests/seeded_demo.rs
if grep -q "^autotests = false" $wt/crates/$crate/Cargo.toml; then printf '\n[[test]]\nname = "seeded_demo"\n' >> $wt/crates/$crate/Cargo.toml; fi
cd $wt
echo "== demo without patch"
if timeout 1800 cargo test -q -p $crate --test seeded_demo --offline >$wt/demo_clean.log 2>&1; then echo "PASS (as required)"; else echo "FAIL: demo does not pass on the unchanged tree"; tail -20 $wt/demo_clean.log; exit 1; fi
git apply "$d/patch.diff" || { echo "patch does not apply"; exit 1; }
echo "== existing tests with patch"
timeout 3000 cargo test --workspace --no-fail-fast --offline >$wt/tests_patched.log 2>&1
grep -E "^test .* FAILED|^error" $wt/tests_patched.log | grep -v "seeded_demo" | head
nfail=$(grep -E "^test .* FAILED" $wt/tests_patched.log | grep -vc "seeded_demo\|^test demo")
failed_targets=$(grep -E "^error: test failed" $wt/tests_patched.log | grep -v seeded_demo | wc -l)
if grep -q "^error\[" $wt/tests_patched.log; then echo "FAIL: does not compile"; exit 1; fi
if [ "$failed_targets" != "0" ]; then echo "FAIL: existing tests fail with the patch"; grep -E "^error: test failed" $wt/tests_patched.log; exit 1; fi
echo "existing tests pass"
echo "== demo with patch"
if timeout 1800 cargo test -q -p $crate --test seeded_demo --offline >$wt/demo_patched.log 2>&1; then echo "FAIL: demo still passes with the patch"; exit 1; else echo "FAILS (as required)"; fi
echo "OK seeded change $name validated; patched tree at $wt"
