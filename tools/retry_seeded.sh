#!/bin/bash
# retry_seeded.sh <id> <patch> : apply patch in a scratch worktree and run the property's quick check (no validation)
id=$1; patch=$(realpath $2); pid=${id%?}
wt=/tmp/val-$id
git -C /repo worktree remove --force $wt 2>/dev/null
git -C /repo worktree add -q --detach $wt && git -C $wt apply $patch || { echo "patch does not apply"; exit 2; }
cd /verif
VERIF_EVIDENCE_DIR=/tmp/ev-$id VERIF_REPO=$wt ./check $pid 2>&1 | grep -m3 "^VIOLATION\|^ERROR"
git -C /repo worktree remove --force $wt; rm -rf /verif/build/cargo-*
