#!/bin/bash
# run every claimed check (quick tier) and summarise
cd "$(dirname "$0")/.."
for p in $(python3 -c "import json; print(' '.join(c['property_id'] for c in json.load(open('MANIFEST.json'))['checks']))"); do
  s=$(date +%s); out=$(./check $p --tier ${1:-quick} 2>&1); rc=$?; e=$(date +%s)
  echo "$p rc=$rc $((e-s))s viol=$(echo "$out" | grep -c '^VIOLATION') known=$(echo "$out" | grep -c '^KNOWN-FINDING') $(echo "$out" | grep -m1 '^ERROR' | cut -c1-120)"
done
