use std::collections::{HashMap, HashSet};
use crate::collections::IndexMap;
pub struct S { pub names: HashSet<String>, ordered: IndexMap<String, HashSet<u8>>, lazy: std::sync::OnceLock<HashMap<u8, u8>>, v: Vec<u8> }
fn returns_set() -> Result<HashSet<u8>, ()> { Ok(HashSet::new()) }
impl S {
    fn a(&self) -> Vec<String> { self.names.iter().cloned().collect() }                 // site 1
    fn b(&self, extra: &HashMap<u8, u8>) -> usize { let mut n = 0; for (k, v) in extra { n += *k as usize + *v as usize; } n } // site
    fn c(&mut self) { self.names.retain(|x| x.len() > 1); }                              // site
    fn d(&self) -> bool { self.names.contains("x") && self.v.iter().any(|x| *x == 1) }   // not a site
    fn e(&self) { for (k, set) in &self.ordered { let _ = (k, set.len()); } }            // not a site (IndexMap)
    fn f(&self) -> Vec<u8> { let m = self.lazy.get_or_init(Default::default); m.keys().copied().collect() } // missed? (m untyped)
    fn g() -> Vec<u8> { let Ok(s) = returns_set() else { return vec![] }; let mut v: Vec<u8> = Vec::new(); v.extend(s); v } // site (extend)
    fn h() -> Vec<u8> { let s: HashSet<u8> = [1u8, 2].into_iter().collect(); Vec::from_iter(s) } // site (from_iter)
    fn i(x: Vec<u8>) -> usize { let x: HashSet<u8> = x.iter().copied().collect(); x.len() } // not a site (shadowing)
    fn j() { let mut m = HashMap::<u8, u8>::default(); m.insert(1, 2); for v in m.values_mut() { *v += 1; } let _ = m.drain().count(); } // 2 sites
    fn k(&self) -> usize { returns_set().unwrap().into_iter().count() }                  // site (call result)
}
#[cfg(test)]
mod tests { use super::*; fn t(s: &S) { for n in &s.names { let _ = n; } } }
