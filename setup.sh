#!/bin/bash
# MANIFEST.setup_cmd: build everything from files on disk, offline.
set -e
cd "$(dirname "$0")"
export CARGO_NET_OFFLINE=true
mkdir -p build evidence replay
( cd coq && ./build.sh ) > build/coq-build.log 2>&1 || { tail -50 build/coq-build.log; echo "ERROR coq build failed"; exit 1; }
( cd coq && ./build_model.sh ) || { echo "ERROR model build failed"; exit 1; }
python3 -c "import sys; sys.path.insert(0,'driver'); import common; common.build_impl()" || { echo "ERROR harness build failed"; exit 1; }
echo "setup ok"
