"""Shared machinery of ./check: builds, runners, correspondence, evidence, known findings.

A check decides in three parts (DESIGN.md section 0):
  (A) the Coq obligations of the property build, with allow-listed Print Assumptions and no Admitted/Axiom;
  (B) model (extracted Gallina, build/modelrun) and implementation (harness/implrun, rebuilt from /repo's
      working tree) agree on every generated case;
  (C) the property's own oracle, evaluated on the implementation, finds no failing input.
"""
import hashlib
import json
import os
import random
import re
import subprocess
import sys
import time
from concurrent.futures import ThreadPoolExecutor
from pathlib import Path

VERIF = Path(__file__).resolve().parent.parent
BUILD = VERIF / "build"
COQ = VERIF / "coq"
REPO = Path("/repo")
GUARD = "apollo_rs_verif"

AXIOM_ALLOW = {
    # standard-library axioms that may appear; each use is named in the evidence
    "functional_extensionality_dep",
    "FunctionalExtensionality.functional_extensionality_dep",
    "Eqdep.Eq_rect_eq.eq_rect_eq",
    "Coq.Logic.FunctionalExtensionality.functional_extensionality_dep",
    "Coq.Logic.Eqdep.Eq_rect_eq.eq_rect_eq",
}

FORBIDDEN = re.compile(
    r"\b(Admitted|admit|Axiom|Axioms|Parameter|Parameters|Conjecture|Admit Obligations|bypass_check)\b|Unset Guard Checking|Unset Positivity Checking|Unset Universe Checking|type-in-type|impredicative-set"
)


class MachineryError(Exception):
    pass


def sh(cmd, timeout=3600, cwd=None, env=None, inp=None):
    e = dict(os.environ)
    e.setdefault("CARGO_NET_OFFLINE", "true")
    if env:
        e.update(env)
    try:
        p = subprocess.run(
            cmd, shell=isinstance(cmd, str), cwd=cwd, env=e, input=inp,
            stdout=subprocess.PIPE, stderr=subprocess.STDOUT, timeout=timeout, text=True,
        )
        return p.returncode, p.stdout
    except subprocess.TimeoutExpired as ex:
        out = ex.stdout or ""
        if isinstance(out, bytes):
            out = out.decode("utf-8", "replace")
        return 124, out + "\n[timeout]"


# --------------------------------------------------------------------------- Coq side (A)

def strip_comments(src):
    out, depth, i = [], 0, 0
    while i < len(src):
        if src.startswith("(*", i):
            depth += 1
            i += 2
        elif src.startswith("*)", i) and depth > 0:
            depth -= 1
            i += 2
        else:
            if depth == 0:
                out.append(src[i])
            i += 1
    return "".join(out)


def coq_closure(vfile):
    """Transitive closure of ApolloVerif modules a .v file requires (by reading Require lines)."""
    seen, todo = set(), [Path(vfile)]
    while todo:
        f = todo.pop()
        if f in seen or not f.exists():
            continue
        seen.add(f)
        src = strip_comments(f.read_text())
        for m in re.finditer(r"From\s+ApolloVerif\s+Require\s+(?:Import|Export)?\s*([^.]*(?:\.[A-Za-z_][^.\s]*)*)\.", src):
            for mod in m.group(1).split():
                todo.append(COQ / "theories" / (mod.replace(".", "/") + ".v"))
    return sorted(seen)


def build_coq(targets=None, timeout=3000):
    args = " ".join(targets) if targets else ""
    rc, out = sh(f"./build.sh {args}", cwd=COQ, timeout=timeout)
    return rc == 0, out


def check_props(pid):
    """(A): build the closure of Props/<pid>.v, re-check the property file itself capturing its output,
    and audit statements, assumptions and forbidden vernacular.  Returns a dict."""
    res = {"obligations": 0, "discharged": 0, "theorems": [], "axioms": {}, "ok": False, "log": "", "broken": []}
    pfile = COQ / "theories" / "Props" / f"{pid}.v"
    if not pfile.exists():
        res["log"] = f"{pfile} missing"
        return res
    src = strip_comments(pfile.read_text())
    names = re.findall(r"^\s*(?:Theorem|Lemma|Corollary)\s+([A-Za-z0-9_']+)", src, re.M)
    res["obligations"] = len(names)
    res["theorems"] = names
    ok, log = build_coq([f"theories/Props/{pid}.vo"])
    if not ok:
        res["log"] = log[-4000:]
        res["broken"] = names
        m = re.search(r'File "\./([^"]+)", line (\d+)', log)
        if m:
            res["broken_at"] = f"{m.group(1)}:{m.group(2)}"
        return res
    outdir = BUILD / "props"
    outdir.mkdir(parents=True, exist_ok=True)
    rc, out = sh(
        f"timeout 900 coqc -Q theories ApolloVerif -w -notation-overridden -o {outdir}/{pid}.vo theories/Props/{pid}.v",
        cwd=COQ, timeout=1000,
    )
    (outdir / f"{pid}.out").write_text(out)
    if rc != 0:
        res["log"] = out[-4000:]
        res["broken"] = names
        return res
    # Print Assumptions blocks: every theorem must have one, closed or allow-listed
    blocks = {}
    for name in names:
        if not re.search(r"Print\s+Assumptions\s+" + re.escape(name) + r"\s*\.", src):
            res["broken"].append(name)
            res["log"] += f"no Print Assumptions for {name}\n"
        if not re.search(r"Check\s+" + re.escape(name) + r"\s*:", src):
            res["broken"].append(name)
            res["log"] += f"no Check pin for {name}\n"
    # split the output into assumption reports in order of appearance
    reports = re.findall(r"(Closed under the global context|Axioms:\n(?:.+\n?)+?(?=\n\S|\Z))", out)
    pa_names = re.findall(r"Print\s+Assumptions\s+([A-Za-z0-9_']+)\s*\.", src)
    if len(reports) != len(pa_names):
        res["log"] += f"could not match {len(reports)} assumption reports to {len(pa_names)} commands\n"
        res["broken"] = names
        return res
    for name, rep in zip(pa_names, reports):
        if rep.startswith("Closed"):
            blocks[name] = []
        else:
            ax = re.findall(r"^([A-Za-z_][A-Za-z0-9_.']*)\s*:", rep, re.M)
            blocks[name] = ax
            bad = [a for a in ax if a not in AXIOM_ALLOW]
            if bad:
                res["broken"].append(name)
                res["log"] += f"{name} depends on non-allow-listed axioms {bad}\n"
    res["axioms"] = blocks
    # forbidden vernacular anywhere in the closure
    for f in coq_closure(pfile):
        body = strip_comments(f.read_text())
        m = FORBIDDEN.search(body)
        if m:
            res["broken"] = names
            res["log"] += f"forbidden vernacular {m.group(0)!r} in {f}\n"
    if os.environ.get("VERIF_TIER") == "thorough" or "--tier thorough" in " ".join(sys.argv) or ("thorough" in sys.argv):
        # independent re-check of the compiled closure; lists the axioms of every loaded library
        rc, out = sh(f"timeout 1500 coqchk -silent -o -Q theories ApolloVerif ApolloVerif.Props.{pid}", cwd=COQ, timeout=1600)
        m = re.search(r"\* Axioms:\s*(.*?)\n\s*\n", out, re.S)
        res["coqchk"] = {"rc": rc, "axioms": (m.group(1).strip() if m else "?")}
        if rc != 0:
            res["broken"] = names
            res["log"] += "coqchk failed:\n" + out[-1500:]
    res["discharged"] = len([n for n in names if n not in set(res["broken"])])
    res["ok"] = not res["broken"] and res["obligations"] > 0
    return res


def build_model():
    rc, out = sh("./build_model.sh", cwd=COQ, timeout=2400)
    if rc != 0:
        raise MachineryError("modelrun build failed:\n" + out[-3000:])
    return BUILD / "modelrun"


# --------------------------------------------------------------------------- implementation side

def build_impl(profile="release"):
    """Rebuild harness/implrun against the current working tree of /repo (or $VERIF_REPO, used only to
    try the checks on scratch worktrees), hooks enabled."""
    h = VERIF / "harness"
    repo = Path(os.environ.get("VERIF_REPO", str(REPO)))
    toml = (h / "Cargo.toml.in").read_text().replace("@REPO@", str(repo))
    if not (h / "Cargo.toml").exists() or (h / "Cargo.toml").read_text() != toml:
        (h / "Cargo.toml").write_text(toml)
    lock = h / "Cargo.lock"
    if not lock.exists():
        lock.write_text((repo / "Cargo.lock").read_text())
    tdir = BUILD / ("cargo" if repo == REPO else "cargo-" + hashlib.md5(str(repo).encode()).hexdigest()[:8])
    flag = "--release" if profile == "release" else ""
    env = {"CARGO_TARGET_DIR": str(tdir), "RUSTFLAGS": f"--cfg {GUARD}", "CARGO_NET_OFFLINE": "true"}
    rc, out = sh(f"cargo build {flag} --offline", cwd=h, env=env, timeout=3000)
    if rc != 0 and "Cargo.lock" in out:
        lock.write_text((repo / "Cargo.lock").read_text())
        rc, out = sh(f"cargo build {flag} --offline", cwd=h, env=env, timeout=3000)
    if rc != 0:
        raise MachineryError("implrun does not build against the repository's working tree:\n" + out[-4000:])
    return tdir / ("release" if profile == "release" else "debug") / "implrun"


def run_family(binary, family, lines, shards=16, timeout=1800, env=None):
    """Run `binary family` over the case lines (sharded), return one output line per case."""
    lines = list(lines)
    if not lines:
        return []
    shards = max(1, min(shards, (len(lines) + 199) // 200))
    size = (len(lines) + shards - 1) // shards
    chunks = [lines[i:i + size] for i in range(0, len(lines), size)]

    def one(chunk, tmo=None):
        tmo = tmo or timeout
        rc, out = sh([str(binary), family], inp="\n".join(chunk) + "\n", timeout=tmo, env=env)
        outs = out.split("\n")
        if outs and outs[-1] == "":
            outs.pop()
        if rc == 0 and len(outs) == len(chunk):
            return outs
        # the runner died (stack overflow, abort, timeout): find the case(s) by bisection, so that one bad case
        # among n costs O(log n) further runs, not n
        if len(chunk) == 1:
            if rc == 124:
                return ["timeout"]
            return [f"died rc={rc}"]
        half = len(chunk) // 2
        sub = max(60, tmo // 2) if len(chunk) > 64 else 60 * min(len(chunk), 4)
        return one(chunk[:half], sub) + one(chunk[half:], sub)

    with ThreadPoolExecutor(max_workers=len(chunks)) as ex:
        res = list(ex.map(one, chunks))
    return [o for r in res for o in r]


ORACLE_RE = re.compile(r" oracle=(\S+)$")


def split_oracle(line):
    m = ORACLE_RE.search(line)
    if m:
        return line[: m.start()], m.group(1)
    return line, None


# --------------------------------------------------------------------------- bookkeeping

def known_findings():
    f = VERIF / "known_findings.json"
    if not f.exists():
        return []
    return json.loads(f.read_text())


class Ctx:
    def __init__(self, pid, tier, seed):
        self.pid, self.tier, self.seed = pid, tier, seed
        self.rng = random.Random(seed)
        self.t0 = time.time()
        self.violations = []     # (replay_path, suffix)
        self.known_hits = {}     # class -> (what, count)
        self.cov = {"evaluations": 0, "distinct_nontrivial": 0, "samples": [], "families": {}}
        self.assumptions = []
        self.known = [k for k in known_findings() if k.get("property") == pid and "class" in k]
        self._distinct = set()
        self.disagreements = 0
        self.oracle_failures = 0

    # ---- reporting
    def violation(self, replay, no_input=False):
        rdir = VERIF / "replay"
        rdir.mkdir(exist_ok=True)
        h = hashlib.sha1(json.dumps(replay, sort_keys=True).encode()).hexdigest()[:10]
        path = rdir / f"{self.pid}-{h}.json"
        replay = dict(replay, property=self.pid, seed=self.seed, tier=self.tier)
        path.write_text(json.dumps(replay, indent=1, ensure_ascii=False))
        if len(self.violations) < 8:
            print(f"VIOLATION property={self.pid} replay={path}" + (" no-failing-input-found" if no_input else ""))
        self.violations.append(str(path))

    def known_hit(self, cls):
        for k in self.known:
            if k["class"] == cls:
                w, c = self.known_hits.get(cls, (k["what"], 0))
                self.known_hits[cls] = (w, c + 1)
                return True
        return False

    def note_case(self, case, nontrivial=True):
        self.cov["evaluations"] += 1
        if nontrivial:
            self._distinct.add(hashlib.md5(case.encode()).digest()[:8])

    def sample(self, x, limit=6):
        if len(self.cov["samples"]) < limit:
            self.cov["samples"].append(x)

    # ---- the generic (B)+(C) step for one family
    def correspond(self, impl, model, family, cases, classify=None, nontrivial=None, describe=None,
                   compare=None, model_family=None):
        """Run impl and model on `cases`, compare observations.
        classify(case, impl_obs, model_obs) -> known-finding class or None.
        Returns list of (case, impl_obs, model_obs)."""
        cases = list(cases)
        iout = run_family(impl, family, cases)
        mout = run_family(model, model_family or family, cases)
        fam = self.cov["families"].setdefault(family, {"cases": 0, "agree": 0, "known": 0})
        rows = []
        for c, io, mo in zip(cases, iout, mout):
            iobs, oracle = split_oracle(io)
            self.note_case(family + " " + c, nontrivial(c, iobs) if nontrivial else True)
            fam["cases"] += 1
            rows.append((c, iobs, mo))
            agree = compare(iobs, mo) if compare else (iobs == mo)
            bad_oracle = oracle is not None and oracle != "ok"
            if agree and not bad_oracle:
                fam["agree"] += 1
                continue
            cls = classify(c, iobs, mo) if classify else None
            if cls and self.known_hit(cls):
                fam["known"] += 1
                continue
            if mo.startswith("model-"):
                raise MachineryError(f"model runner failed on {family} {c}: {mo}")
            if not agree:
                self.disagreements += 1
            if bad_oracle:
                self.oracle_failures += 1
            if len(self.violations) < 8:
                self.violation({
                    "family": family, "case": c, "case_readable": describe(c) if describe else c,
                    "impl": iobs, "model": mo, "oracle": oracle,
                    "what": ("the implementation's observation differs from the model's "
                             "(the model satisfies the property by the theorems of Props/%s.v)" % self.pid)
                            if not agree else "the property's oracle fails on the implementation",
                })
            else:
                self.violations.append("(not written)")
        return rows

    # ---- end of run
    def finish(self, props, level_text_extra=None):
        for cls, (what, n) in sorted(self.known_hits.items()):
            print(f"KNOWN-FINDING: property={self.pid} {what} [class {cls}, {n} case(s) this run]")
        if not props["ok"] and not self.violations:
            # (A) broke and no failing input was found by (B)/(C)
            self.violation({
                "what": "Coq obligations of the property no longer check",
                "theorems_not_checked": props["broken"], "at": props.get("broken_at"),
                "log_tail": props["log"][-1500:],
            }, no_input=True)
        cov = self.cov
        cov["distinct_nontrivial"] = len(self._distinct)
        # schema hygiene: `exhaustive` is a boolean, counts are integers, samples is a non-empty list
        if "exhaustive" in cov and not isinstance(cov["exhaustive"], bool):
            cov["exhaustive_note"] = str(cov["exhaustive"])
            cov["exhaustive"] = False
        for k in ("states", "transitions", "programs", "disagreements_checked"):
            if k in cov and not isinstance(cov[k], int):
                cov[k + "_note"] = str(cov.pop(k))
        if not cov["samples"]:
            cov["samples"] = ["(no sample recorded by this run)"]
        cov["obligations"] = props["obligations"]
        cov["discharged"] = props["discharged"]
        cov["theorems"] = props["theorems"]
        cov["axioms_per_theorem"] = props["axioms"]
        if "coqchk" in props:
            cov["coqchk"] = props["coqchk"]
        cov["checker_cmd"] = (f"cd /verif/coq && ./build.sh theories/Props/{self.pid}.vo && "
                              f"coqc -Q theories ApolloVerif theories/Props/{self.pid}.v  (full .vo build, Coq 8.16.1)")
        cov["trusted_base"] = [
            "Coq 8.16.1 kernel and coqc; vm_compute for closed examples; no native_compute",
            "axioms: " + (", ".join(sorted({a for v in props["axioms"].values() for a in v})) or "none (every theorem closed under the global context)"),
            "extraction with ExtrOcamlBasic only (no Extract Constant/Inductive of our own); ocamlfind ocamlopt 4.13.1; coq/ocaml/util.ml, fam_*.ml, driver.ml (hex/UTF-8 glue, printing)",
            "harness/src/*.rs (how the public API is called and observed), driver/*.py (generation, diff, known-finding filter)",
            "the models are hand-written: the theorems are about the models; the tie to /repo is the correspondence run counted below",
            "rustc/cargo, third-party crates, the OS",
        ]
        cov["correspondence_disagreements"] = self.disagreements
        cov["oracle_failures"] = self.oracle_failures
        cov["traces_validated_against_impl"] = cov["evaluations"]
        ev = {
            "property_id": self.pid, "tier": self.tier, "seed": self.seed, "level": "proof",
            "coverage": cov, "assumptions": self.assumptions,
            "wall_s": round(time.time() - self.t0, 2), "violations": len(self.violations),
        }
        edir = Path(os.environ.get("VERIF_EVIDENCE_DIR", str(VERIF / "evidence")))
        edir.mkdir(exist_ok=True)
        (edir / f"{self.pid}.json").write_text(json.dumps(ev, indent=1, ensure_ascii=False) + "\n")
        return 1 if self.violations else 0


def hexs(s):
    return s.encode("utf-8").hex() or "-"


def unhexs(h):
    return "" if h == "-" else bytes.fromhex(h).decode("utf-8")


def all_strings(alphabet, maxlen):
    level = [""]
    yield ""
    for _ in range(maxlen):
        nxt = []
        for p in level:
            for a in alphabet:
                s = p + a
                nxt.append(s)
                yield s
        level = nxt
