#!/usr/bin/env python3-vt
"""Validate MANIFEST.json and evidence/*.json against the schemas (developer aid)."""
import json, sys, glob, jsonschema
jsonschema.validate(json.load(open('/verif/MANIFEST.json')), json.load(open('/root/.vp/MANIFEST.schema.json')))
es = json.load(open('/root/.vp/EVIDENCE.schema.json'))
for f in sorted(glob.glob('/verif/evidence/*.json')):
    jsonschema.validate(json.load(open(f)), es)
    print('ok', f)
ids = {json.loads(l)['id'] for l in open('/verif/properties.jsonl')}
m = json.load(open('/verif/MANIFEST.json'))
cl = {c['property_id'] for c in m['checks']}; na = {c['property_id'] for c in m.get('not_applicable', [])}
assert cl | na == ids and not (cl & na), (ids - cl - na, cl & na)
print('manifest ok: claimed', len(cl), 'not_applicable', len(na))
