"""C27 — async execution does not depend on the schedule.

The cases of C26 (documents x resolver worlds) x schedules: await point i (a resolver future or the `next()` of a
list stream, in the order they are reached) answers Pending k_i times.  The harness drives
Execution::execute_async with a hand-written single-threaded waker-driven executor (c27.rs); the model runs
AsyncExec.execute_request_async.  Observation: response, resolver call log, deadlock flag (the number of polls is
not compared).  Oracle: the same case through execute_sync gives the same response and call log."""
import itertools
import json
from common import *
from props.run_util import *
from props import c26


def pick_cases(ctx):
    """a few worlds per document: the all-correct one, one-site variations, random ones"""
    per_doc = 6 if ctx.tier == "quick" else 25
    out = []
    for schema, types, ids, docs in ((c26.SCHEMA, c26.TYPES, c26.OBJ_ID, c26.DOCS),):
        for entry in docs:
            doc, varss = entry[0], entry[1]
            root = entry[2] if len(entry) > 2 else "Query"
            ws, _, _ = c26.worlds_for(ctx, types, ids, doc, root, 0, per_doc)
            chosen = [ws[0]] + ctx.rng.sample(ws[1:], min(per_doc, len(ws) - 1))
            # always: every world in which exactly one site answers null or an error (the completion of a null in a
            # non-null position and error propagation are where a sync/async split of the code could differ)
            for w in ws[1:]:
                diff = [b for (_, _, b), (_, _, b0) in zip(w, ws[0]) if b != b0]
                if len(diff) == 1 and diff[0] in (("leaf", "null"), "err") and w not in chosen:
                    chosen.append(w)
            for v in varss[:2]:
                for w in chosen:
                    out.append((schema, doc, v, w))
    return out


def run(ctx):
    props = check_props(ctx.pid)
    model = build_model()
    impl = build_impl()
    base = pick_cases(ctx)
    exhaustive_upto = 6 if ctx.tier == "quick" else 8
    budget = 40000 if ctx.tier == "quick" else 300000
    triples0, skipped, invalid_pairs = exec_triples(impl, base)
    points = [int(x) for x in run_family(model, "exec_points", [t[1] for t in triples0])]
    # schedules
    cases = []
    small = [(c, n) for c, n in zip(base, points) if 0 < n <= exhaustive_upto]
    small.sort(key=lambda x: x[1])
    used, n_exh = 0, 0
    for c, n in small:
        if used + 3 ** n > budget * 0.7:
            continue
        for ks in itertools.product("012", repeat=n):
            cases.append(c + (",".join(ks),))
        used += 3 ** n
        n_exh += 1
    for c, n in zip(base, points):
        cases.append(c + ("-",))
        for _ in range(3 if ctx.tier == "quick" else 10):
            cases.append(c + (",".join(str(ctx.rng.randint(0, 5)) for _ in range(n + 2)) or "-",))
    triples, skipped2, _ = exec_triples(impl, cases)
    rows = correspond_pairs(ctx, impl, model, "exec_async", triples, nontrivial=lambda rd, o: True,
                            classify=lambda rd, i, m: None)     # C26 has no known class any more
    # oracle: execute_sync on the same case (schedule dropped)
    sync_in = sorted({t[0].rsplit(" ", 1)[0] for t in triples})
    sync_out = dict(zip(sync_in, run_family(impl, "exec_sync", sync_in)))
    fam = ctx.cov["families"]["exec_async"]
    ofam = ctx.cov["families"].setdefault("async_vs_sync", {"cases": 0, "agree": 0, "known": 0})
    for ic, iobs, mo, rd in rows:
        ofam["cases"] += 1
        want = sync_out[ic.rsplit(" ", 1)[0]]
        want = want + " dl=0" if want.startswith("ok ") else want
        if iobs == want:
            ofam["agree"] += 1
            continue
        ctx.oracle_failures += 1
        if len(ctx.violations) < 8:
            ctx.violation({"family": "exec_async", "case": ic, "case_readable": rd, "impl": iobs, "sync": want,
                           "what": "execute_async under this schedule differs from execute_sync (response, resolver "
                                   "call log) or deadlocks"})
        else:
            ctx.violations.append("(not written)")
    fam["base_cases"] = len(base)
    fam["exhaustive_schedule_cases"] = n_exh
    fam["exhaustive_upto_points"] = exhaustive_upto
    fam["max_points"] = max(points) if points else 0
    fam["deadlocks"] = sum(1 for _, i, _, _ in rows if i.startswith("deadlock"))
    fam["mutations"] = sum(1 for _, _, _, rd in rows if "'mutation" in rd)
    for r in rows[:: max(1, len(rows) // 6)]:
        ctx.sample({"family": "exec_async", "case": r[3][-300:], "impl": r[1][:300], "model": r[2][:300]}, limit=6)
    ctx.cov["rule"] = (
        f"exec_async: {len(base)} (document, variables, world) cases of C26 (the all-correct world, and random worlds over "
        "the rich behaviour alphabet, for each of C26's documents incl. mutations with 2-4 root fields and lists "
        f"resolved as streams) x schedules: every assignment of 0/1/2 pending polls to the await points of the cases with "
        f"at most {exhaustive_upto} await points ({n_exh} cases, smallest first, within the budget), and for every case the "
        "all-zero schedule and random schedules with up to 5 pending polls per point. Non-trivial: every case.")
    ctx.cov["exhaustive"] = False
    ctx.assumptions += [
        "real executors (multi-threaded, work-stealing) are represented by one single-threaded waker-driven executor",
        "an await point becomes ready only through the waker it was last polled with; a lost wake-up is observed as `deadlock`",
        "the number of polls is not compared",
    ]
    return ctx.finish(props)


def replay(ctx, path):
    r = json.load(open(path))
    model = build_model()
    impl = build_impl()
    print("case :", r.get("case_readable", r["case"]))
    print("impl :", run_family(impl, r["family"], [r["case"]])[0])
    if "model_case" in r:
        print("model:", run_family(model, r["family"], [r["model_case"]])[0])
    return 0
