"""C05 — syntax acceptance matches the GraphQL grammar.

Observation compared: `errors empty?` and, if so, the (kind, name) list of `cst::Document::definitions()`
(family c05_accept of harness/src/c05.rs) against `rg_parse_source` (Lex.Fun.lex_all, then the reference
recogniser Parse/RefGrammar.v) in the extracted model.  Cases: grammar-directed documents (every optional part
of every production on and off), each mutated at token level systematically, plus the parser test files of
the repository.  A disagreement is shrunk by token deletion before it is classified or reported."""
import json
import os
from collections import Counter, defaultdict
from pathlib import Path

from common import *
from props import c05_gen as G

FAMILY = "c05_accept"


def repo_dir():
    return Path(os.environ.get("VERIF_REPO", str(REPO)))


# ---------------------------------------------------------------------------------- known-finding classes
# A known-finding class is a *repair*: a deterministic rewriting of the significant token list that undoes one
# specific leniency of the parser (e.g. inserts the missing `: value` after an argument name).  A disagreement
# is inside the known classes iff the parser accepts the document, the reference rejects it, some repair applies,
# and the reference accepts the repaired document with exactly the definitions the parser reported for the
# original.  Everything else is a violation.  known_findings.d/C05.json describes the same classes.
OPTYPES = ("query", "mutation", "subscription")


def is_name(t):
    return G.kind_of(t) == "name"


def repair_root_operation(toks):
    """class root_operation_without_type: `query :` (mutation, subscription) directly followed by `}`;
    repaired by inserting a type name"""
    out, hits = [], set()
    for i, t in enumerate(toks):
        out.append(t)
        if t == ":" and i > 0 and toks[i - 1] in OPTYPES and i + 1 < len(toks) and toks[i + 1] == "}":
            out.append("T")
            hits.add("root_operation_without_type")
    return out, hits


# The classes argument_without_value, object_field_without_value, description_before_fragment and
# schema_extension_empty_block were repaired in /repo (fix2-c05-1..4): a document of those shapes that the parser
# accepts is a VIOLATION again.
REPAIRS = [repair_root_operation]


def repair(toks):
    hits = set()
    for r in REPAIRS:
        toks, h = r(toks)
        hits |= h
    return toks, hits


def classify_batch(model_bin, items):
    """items: list of (tokens or None, impl_obs, model_obs) -> list of (set of classes or None)"""
    res, todo = [None] * len(items), []
    for k, (toks, i, m) in enumerate(items):
        if toks is None or not (i.startswith("acc") and m == "rej"):
            continue
        fixed, hits = repair(toks)
        if hits:
            todo.append((k, hexs(G.render(fixed)), hits))
    if todo:
        outs = run_family(model_bin, FAMILY, [c for _, c, _ in todo])
        for (k, _, hits), o in zip(todo, outs):
            if o == items[k][1]:
                res[k] = hits
    return res


def no_pattern(toks):
    return not repair(toks)[1]


# ---------------------------------------------------------------------------------- shrinking
def shrink(impl_bin, model_bin, toks, still_bad):
    """greedy token deletion (single tokens, then adjacent pairs) while `still_bad(tokens, impl_obs, model_obs)` holds"""
    changed = True
    while changed and len(toks) > 1:
        changed = False
        for width in (1, 2, 3):
            cands = [toks[:i] + toks[i + width:] for i in range(len(toks) - width + 1)]
            cands = [c for c in cands if c]
            if not cands:
                continue
            cases = [hexs(G.render(c)) for c in cands]
            io = [split_oracle(x)[0] for x in run_family(impl_bin, FAMILY, cases)]
            mo = run_family(model_bin, FAMILY, cases)
            for c, i, m in zip(cands, io, mo):
                if still_bad(c, i, m):
                    toks, changed = c, True
                    break
            if changed:
                break
    return toks


def direction(i, m):
    if i == m:
        return "agree"
    if i.startswith("acc") and m == "rej":
        return "impl-accepts"
    if i == "rej" and m.startswith("acc"):
        return "impl-rejects"
    if i.startswith("acc") and m.startswith("acc"):
        return "definitions-differ"
    return "other"


def correspond(ctx, impl, model, cases, labels, stats):
    """(B) for one batch; like Ctx.correspond, plus: per-production accepted/rejected split, and every
    disagreement outside the known classes is shrunk by token deletion before it is reported."""
    cases = list(cases)
    iout = run_family(impl, FAMILY, cases)
    mout = run_family(model, FAMILY, cases)
    fam = ctx.cov["families"].setdefault(FAMILY, {"cases": 0, "agree": 0, "known": 0})
    bad, dis = [], []
    for c, io, mo in zip(cases, iout, mout):
        iobs, _ = split_oracle(io)
        ctx.note_case(FAMILY + " " + c, True)
        fam["cases"] += 1
        lab = labels.get(c, ("?", "?"))
        stats[lab[0]]["accepted" if mo.startswith("acc") else "rejected"] += 1
        stats[lab[0]]["cases"] += 1
        if mo.startswith("model-"):
            raise MachineryError(f"model runner failed on {FAMILY} {c}: {mo}")
        if iobs == mo:
            fam["agree"] += 1
            continue
        dis.append((c, iobs, mo, lab))
    classes = classify_batch(model, [(G.tokenize(unhexs(c)), i, m) for c, i, m, _ in dis])
    for (c, iobs, mo, lab), cls in zip(dis, classes):
        if cls and all([ctx.known_hit(k) for k in sorted(cls)]):
            fam["known"] += 1
            stats[lab[0]]["known"] += 1
            continue
        bad.append((c, iobs, mo, lab))
    # shrink and report
    seen = set()
    for k, (c, iobs, mo, lab) in enumerate(bad):
        ctx.disagreements += 1
        if len(seen) >= 8 or k >= 24:
            ctx.violations.append("(not written)")
            continue
        text = unhexs(c)
        toks = G.tokenize(text)
        d = direction(iobs, mo)
        small, si, sm = text, iobs, mo
        if toks is not None and len(toks) <= 400:
            st = shrink(impl, model, toks, lambda t, i, m: direction(i, m) == d and no_pattern(t))
            small = G.render(st)
            si = split_oracle(run_family(impl, FAMILY, [hexs(small)])[0])[0]
            sm = run_family(model, FAMILY, [hexs(small)])[0]
        if small in seen:
            ctx.violations.append("(duplicate of a reported shrunk case)")
            continue
        seen.add(small)
        ctx.violation({
            "family": FAMILY, "case": hexs(small), "case_readable": small, "impl": si, "model": sm,
            "direction": d, "original_case": text, "generated_from": list(lab),
            "what": "the parser's verdict (or its list of definitions) differs from the reference grammar's "
                    "(the reference is the grammar by the theorems of Props/C05.v)",
        })
    return list(zip(cases, iout, mout))


# ---------------------------------------------------------------------------------- case generation
def build_cases(ctx):
    gen = G.Gen(ctx.rng)
    quick = ctx.tier == "quick"
    bases = []                                   # (production label, tokens)
    bases += G.systematic_docs(gen, per_combo=1 if quick else 3)
    for _ in range(100 if quick else 600):
        d = gen.document()
        if d is not None:
            bases.append(("random-document", d))
    labels, cases = {}, []

    def add(label, kind, text):
        h = hexs(text)
        if h not in labels:
            labels[h] = (label, kind)
            cases.append(h)

    n_mut = Counter()
    budget = 1500 if quick else 10 ** 9          # mutants per base document in the quick tier (sampled evenly)
    for label, toks in bases:
        add(label, "base", G.render(toks))
        for sep in G.SEPARATORS[1:]:
            add(label, "base-separator", G.render(toks, sep))
        if len(toks) > 40:
            continue
        ms = list(G.mutants(toks))
        if len(ms) > budget:
            step = len(ms) / budget
            ms = [ms[int(k * step)] for k in range(budget)]
        for kind, m in ms:
            if m:
                n_mut[kind] += 1
                add(label, kind, G.render(m))
    # the repository's parser test files, and their single-token deletions when small
    tdir = repo_dir() / "crates/apollo-parser/test_data/parser"
    nfiles = 0
    for sub in ("ok", "err"):
        for f in sorted((tdir / sub).glob("*.graphql")):
            text = f.read_text()
            nfiles += 1
            add("test_data/" + sub, "file", text)
            toks = G.tokenize(text)
            if toks and len(toks) <= 40:
                add("test_data/" + sub, "file-retokenized", G.render(toks))
                for kind, m in G.mutants(toks, replacements=G.PUNCT, inserts=[]):
                    if m:
                        add("test_data/" + sub, kind, G.render(m))
    for f in sorted((VERIF / "corpus" / "C05").glob("*.graphql")):
        add("corpus", "file", f.read_text())
    # hand-written probes, one document per line, with their mutants
    for f in sorted((VERIF / "corpus" / "C05").glob("*.txt")):
        for line in f.read_text().split("\n"):
            if not line.strip():
                continue
            add("corpus", "file", line)
            toks = G.tokenize(line)
            if toks and len(toks) <= 40:
                for kind, m in G.mutants(toks, replacements=[] if quick else G.REPLACEMENTS,
                                         inserts=[] if quick else G.PUNCT):
                    if m:
                        add("corpus", kind, G.render(m))
    return gen, bases, labels, cases, n_mut, nfiles


def run(ctx):
    props = check_props(ctx.pid)
    model = build_model()
    impl = build_impl()
    gen, bases, labels, cases, n_mut, nfiles = build_cases(ctx)
    stats = defaultdict(Counter)
    corpus_first = [c for c in cases if labels[c][0] == "corpus"]
    rest = [c for c in cases if labels[c][0] != "corpus"]
    rows = correspond(ctx, impl, model, corpus_first + rest, labels, stats)
    # sanity of the generator: every base document is in the grammar according to the reference
    base_rej = [unhexs(c) for c, _, m in rows if labels[c][1] == "base" and not m.startswith("acc")]
    fam = ctx.cov["families"][FAMILY]
    fam["base_documents"] = len(bases)
    fam["base_documents_rejected_by_reference"] = len(base_rej)
    if base_rej:
        fam["base_rejected_samples"] = base_rej[:3]
    fam["mutants_by_mutator"] = dict(n_mut)
    fam["parser_test_files"] = nfiles
    fam["accepted"] = sum(1 for _, _, m in rows if m.startswith("acc"))
    fam["rejected"] = sum(1 for _, _, m in rows if m == "rej")
    fam["split_per_production"] = {k: dict(v) for k, v in sorted(stats.items())}
    fam["production_coverage"] = dict(sorted(gen.cov.items()))
    for c, i, m in rows:
        if labels[c][1] in ("base", "delete", "replace", "file") and len(c) < 200:
            ctx.sample({"family": FAMILY, "input": unhexs(c), "impl": i, "model": m,
                        "from": list(labels[c])}, limit=8)
    ctx.cov["rule"] = (
        "grammar-directed documents: every on/off combination of the optional parts of every production "
        "(systematic_docs) plus random documents of 1-3 definitions; each document of at most 40 tokens is "
        "mutated with every mutator at every position (delete, duplicate, swap with the right neighbour, replace by "
        "each of %d punctuators/keywords/token kinds, insert each of %d punctuators; in the quick tier an even sample "
        "of at most 1500 mutants per document); every base document is also rendered with 5 other separators (comma, "
        "newline, comment, BOM); the %d files of crates/apollo-parser/test_data/parser/{ok,err} and, for those of at "
        "most 40 tokens, their punctuator mutants.  Every case counts (distinct by text)."
        % (len(G.REPLACEMENTS), len(G.PUNCT), nfiles))
    ctx.cov["exhaustive"] = False
    ctx.assumptions += [
        "documents are parsed with the default recursion limit (500) and no token limit; generated documents nest "
        "at most 4 levels, so the limits (C04) are never reached; the reference has no limits",
        "lexing on the model side is Lex.Fun.lex_all (C03); a lexical error rejects the document on both sides",
        "only the top-level observation is compared: error emptiness and the (variant, name) list of "
        "cst::Document::definitions(); error messages, error counts and the inner tree are not compared",
    ]
    return ctx.finish(props)


def replay(ctx, path):
    r = json.load(open(path))
    model = build_model()
    impl = build_impl()
    case = r["case"]
    print("case :", r.get("case_readable", case))
    print("impl :", run_family(impl, FAMILY, [case])[0])
    print("model:", run_family(model, FAMILY, [case])[0])
    return 0
