"""Generators for C21 (and the pipeline corpus shared with C22): GraphQL texts with long chains, cycles and
deep nesting around every internal limit, malformed token sequences, renderer corner cases."""

ALL_LOCS = ("SCALAR | OBJECT | FIELD_DEFINITION | ARGUMENT_DEFINITION | INTERFACE | UNION | ENUM | ENUM_VALUE | "
            "INPUT_OBJECT | INPUT_FIELD_DEFINITION")

LIMITS = {"input": 32, "directive": 32, "fragment": 100, "merge": 128, "walk": 500, "parser": 500}


def lengths(limit):
    return [limit - 1, limit, limit + 1, limit + 2, 10 * limit]


# ----------------------------------------------------------------------------- input objects

def input_schema(nodes, extra=""):
    """nodes: list of (name, [field type strings])"""
    out = ["type Query { x: Int }", "enum E { V }", "scalar S"]
    for n, fields in nodes:
        fs = " ".join(f"f{i}: {t}" for i, t in enumerate(fields))
        out.append(f"input {n} {{ z: Int {fs} }}")
    return "\n".join(out) + "\n" + extra


def input_chain(n, close=None, prefix="I"):
    """I0 -> I1 -> ... -> I(n-1) [-> I<close>] by non-null fields"""
    nodes = []
    for k in range(n):
        if k + 1 < n:
            nodes.append((f"{prefix}{k}", [f"{prefix}{k + 1}!"]))
        else:
            nodes.append((f"{prefix}{k}", [f"{prefix}{close}!"] if close is not None else []))
    return nodes


def input_dag(depth, branching):
    """layered DAG: every field of level k points to level k+1 (O1: branching ** depth paths)"""
    nodes = []
    for k in range(depth):
        tgt = [f"L{k + 1}!"] * branching if k + 1 < depth else []
        nodes.append((f"L{k}", tgt))
    return nodes


def input_random(rng, n):
    names = [f"R{i}" for i in range(n)]
    nodes = []
    for nm in names:
        fields = []
        for _ in range(rng.randint(0, 3)):
            t = rng.choice(names)
            shape = rng.choice(["{}!", "{}!", "{}!", "{}", "[{}!]!", "[{}]", "[{}!]"])
            alt = rng.choice([None, None, None, "Int!", "Zz!", "Query!", "E!", "S!"])
            fields.append(alt if alt else shape.format(t))
        nodes.append((nm, fields))
    return nodes


def input_sources(rng, quick):
    out = []
    L = LIMITS["input"]
    for n in lengths(L):
        out.append(("input-chain-%d" % n, input_schema(input_chain(n))))
        out.append(("input-cycle-%d" % n, input_schema(input_chain(n, close=0))))
        out.append(("input-lasso-%d" % n, input_schema(input_chain(n, close=max(0, n - 3)))))
        out.append(("input-self-tail-%d" % n, input_schema(input_chain(n, close=n - 1))))
    for n in (1, 2, 3):
        out.append(("input-cycle-%d" % n, input_schema(input_chain(n, close=0))))
    # O1: bound branching ** depth
    for depth, b in ((12, 2), (7, 3), (5, 5), (31, 1), (33, 1)) + (() if quick else ((14, 2), (9, 3))):
        out.append((f"input-dag-{depth}x{b}", input_schema(input_dag(depth, b))))
    for i in range(30 if quick else 400):
        out.append((f"input-random-{i}", input_schema(input_random(rng, rng.randint(1, 7)))))
    # not edges: nullable / list references to self
    out.append(("input-nullable-self", input_schema([("A", ["A", "[A!]!", "[A]"])])))
    out.append(("input-two-cycles", input_schema([("A", ["B!", "C!"]), ("B", ["A!"]), ("C", ["C!"])])))
    return out


# ----------------------------------------------------------------------------- directive definitions

def dir_schema(dirs, types):
    """dirs: list of (name, [(argtype, [applied directive names])]);
    types: list of (kind, name, [type-level directives], [(member name, member type or None, [directives])])"""
    out = ["type Query { x: Int }"]
    for name, args in dirs:
        a = ""
        if args:
            a = "(" + ", ".join(
                f"a{i}: {t}" + "".join(f" @{d}" for d in ds) for i, (t, ds) in enumerate(args)) + ")"
        out.append(f"directive @{name}{a} on {ALL_LOCS}")
    for kind, name, tdirs, members in types:
        td = "".join(f" @{d}" for d in tdirs)
        if kind == "scalar":
            out.append(f"scalar {name}{td}")
        elif kind == "enum":
            ms = " ".join(m + "".join(f" @{d}" for d in ds) for m, _, ds in members) or "V"
            out.append(f"enum {name}{td} {{ {ms} }}")
        elif kind == "input":
            ms = " ".join(f"{m}: {t}" + "".join(f" @{d}" for d in ds) for m, t, ds in members) or "z: Int"
            out.append(f"input {name}{td} {{ {ms} }}")
        elif kind == "object":
            ms = " ".join(f"{m}: {t}" + "".join(f" @{d}" for d in ds) for m, t, ds in members) or "z: Int"
            out.append(f"type {name}{td} {{ {ms} }}")
        elif kind == "union":
            out.append(f"union {name}{td} = Query")
    return "\n".join(out) + "\n"


def dir_chain(n, close=None):
    """@d0(a: Int @d1) ... through argument directives"""
    dirs = []
    for k in range(n):
        nxt = [f"d{k + 1}"] if k + 1 < n else ([f"d{close}"] if close is not None else [])
        dirs.append((f"d{k}", [("Int", nxt)]))
    return dir_schema(dirs, [])


def dir_type_chain(n, close=None, via="input"):
    """@d(a: T0), input T0 { f: T1 } ... the type stack; closing edge: T(n-1) field directive @d"""
    types = []
    for k in range(n):
        members = [("f", f"T{k + 1}" if k + 1 < n else "Int", ["d"] if (k + 1 == n and close) else [])]
        types.append(("input", f"T{k}", [], members))
    return dir_schema([("d", [("T0", [])])], types)


def dir_alternating(n, close=False):
    """@d0(a: T0) ; input T0 { f: Int @d1 } ; @d1(a: T1) ... : both stacks grow"""
    dirs, types = [], []
    for k in range(n):
        dirs.append((f"d{k}", [(f"T{k}", [])]))
        nxt = [f"d{k + 1}"] if k + 1 < n else (["d0"] if close else [])
        types.append(("input", f"T{k}", [], [("f", "Int", nxt)]))
    return dir_schema(dirs, types)


EDGE_KINDS = ["arg", "argtype-scalar", "argtype-enum", "argtype-enumvalue", "argtype-input", "argtype-inputfield",
              "argtype-object", "argtype-union", "argtype-list"]


def dir_cycle_via(kinds):
    """a cycle d0 -> d1 -> ... -> d0 whose k-th edge has the given kind"""
    n = len(kinds)
    dirs, types = [], []
    for k, kind in enumerate(kinds):
        nxt = f"d{(k + 1) % n}"
        if kind == "arg":
            dirs.append((f"d{k}", [("Int", [nxt])]))
        else:
            t = f"T{k}"
            argty = f"[{t}!]!" if kind == "argtype-list" else t
            dirs.append((f"d{k}", [(argty, [])]))
            if kind in ("argtype-scalar", "argtype-list"):
                types.append(("scalar", t, [nxt], []))
            elif kind == "argtype-enum":
                types.append(("enum", t, [nxt], []))
            elif kind == "argtype-enumvalue":
                types.append(("enum", t, [], [("A", None, []), ("B", None, [nxt])]))
            elif kind == "argtype-input":
                types.append(("input", t, [nxt], []))
            elif kind == "argtype-inputfield":
                types.append(("input", t, [], [("g", "Int", []), ("f", "Int", [nxt])]))
            elif kind == "argtype-object":
                types.append(("object", t, [nxt], []))
            elif kind == "argtype-union":
                types.append(("union", t, [nxt], []))
    return dir_schema(dirs, types)


def dir_random(rng):
    nd, nt = rng.randint(1, 5), rng.randint(0, 5)
    dn = [f"d{i}" for i in range(nd)]
    tn = [f"T{i}" for i in range(nt)]
    anyty = tn + ["Int", "String", "Boolean", "Zz", "Query"]
    pick_dirs = lambda: rng.sample(dn + ["undefinedDir", "deprecated"], rng.randint(0, 2))
    dirs = []
    for d in dn:
        args = []
        for _ in range(rng.randint(0, 3)):
            t = rng.choice(anyty)
            t = rng.choice(["{}", "{}!", "[{}]", "[{}!]!"]).format(t)
            args.append((t, [x for x in pick_dirs() if x != "deprecated"]))
        dirs.append((d, args))
    types = []
    for t in tn:
        kind = rng.choice(["scalar", "enum", "input", "input", "object", "union"])
        members = []
        if kind == "enum":
            members = [(f"V{i}", None, [x for x in pick_dirs()]) for i in range(rng.randint(1, 3))]
        elif kind in ("input", "object"):
            members = [(f"f{i}", rng.choice(anyty), [x for x in pick_dirs() if x != "deprecated" or kind == "object"])
                       for i in range(rng.randint(1, 3))]
        types.append((kind, t, [x for x in pick_dirs() if x != "deprecated"], members))
    return dir_schema(dirs, types)


def dir_sources(rng, quick):
    out = []
    L = LIMITS["directive"]
    for n in lengths(L):
        out.append((f"dir-chain-{n}", dir_chain(n)))
        out.append((f"dir-cycle-{n}", dir_chain(n, close=0)))
        out.append((f"dir-lasso-{n}", dir_chain(n, close=max(0, n - 2))))
        out.append((f"dir-typechain-{n}", dir_type_chain(n)))
        out.append((f"dir-typechain-closed-{n}", dir_type_chain(n, close=True)))
    for n in (15, 16, 17, 30, 31, 32, 33, 34):
        out.append((f"dir-alternating-{n}", dir_alternating(n)))
        out.append((f"dir-alternating-closed-{n}", dir_alternating(n, close=True)))
    # cycles reached through every combination of edge kinds (length 1 and 2; length 3 sampled)
    for a in EDGE_KINDS:
        out.append((f"dir-via-{a}", dir_cycle_via([a])))
        for b in EDGE_KINDS:
            out.append((f"dir-via-{a}+{b}", dir_cycle_via([a, b])))
    for _ in range(10 if quick else 300):
        ks = [rng.choice(EDGE_KINDS) for _ in range(3)]
        out.append(("dir-via-" + "+".join(ks), dir_cycle_via(ks)))
    for i in range(40 if quick else 600):
        out.append((f"dir-random-{i}", dir_random(rng)))
    # a type that refers to itself is skipped by the type stack, not an error
    out.append(("dir-type-self", dir_schema([("d", [("T", [])])], [("input", "T", [], [("f", "T", [])])])))
    return out


# ----------------------------------------------------------------------------- fragments / selection walks

def nest(kinds, inner):
    """wrap `inner` in nested selections; kinds is a string over f (field a), i (inline), c (inline on Query)"""
    open_ = {"f": "a { ", "i": "... { ", "c": "... on Query { ", "b": "b { "}
    return "".join(open_[k] for k in kinds) + inner + " }" * len(kinds)


def frag_doc(frags, op=None, optype="query"):
    """frags: list of (name, body text, type condition)"""
    names = [f[0] for f in frags]
    if op is None:
        op = " ".join(f"...{n}" for n in names) or "x"
    out = [f"{optype} {{ {op} }}" if optype != "query" else f"{{ {op} }}"]
    for f in frags:
        name, body = f[0], f[1]
        cond = f[2] if len(f) > 2 else "Query"
        out.append(f"fragment {name} on {cond} {{ {body} }}")
    return "\n".join(out) + "\n"


def frag_chain(n, close=None, via=""):
    frags = []
    for k in range(n):
        if k + 1 < n:
            body = nest(via, f"...F{k + 1}")
        else:
            body = nest(via, f"...F{close}") if close is not None else "x"
        frags.append((f"F{k}", body))
    return frags


def frag_random(rng, n):
    names = [f"F{i}" for i in range(n)]

    def body(depth):
        sels = []
        for _ in range(rng.randint(1, 3)):
            r = rng.random()
            if r < 0.45 or depth > 3:
                sels.append("..." + rng.choice(names + ["Undefined"]))
            elif r < 0.6:
                sels.append("x")
            else:
                sels.append(nest(rng.choice("fic"), body(depth + 1)))
        return " ".join(sels)
    return [(nm, body(0)) for nm in names]


VIA = ["", "f", "i", "c", "fi", "if", "ff", "ic", "fic", "cfi"]


def frag_sources(rng, quick):
    out = []
    L = LIMITS["fragment"]
    for n in lengths(L):
        out.append((f"frag-chain-{n}", frag_doc(frag_chain(n))))
        out.append((f"frag-cycle-{n}", frag_doc(frag_chain(n, close=0))))
        out.append((f"frag-lasso-{n}", frag_doc(frag_chain(n, close=max(0, n - 2)))))
    for via in VIA:
        for n in (1, 2, 3):
            out.append((f"frag-cycle-{n}-via-{via or 'spread'}", frag_doc(frag_chain(n, close=0, via=via))))
        out.append((f"frag-chain-101-via-{via or 'spread'}", frag_doc(frag_chain(101, via=via))))
    # the `seen` set: a fragment first reached on a short path is not walked again on a long one
    diamond = [("A", "...B ...C"), ("B", "...D"), ("C", "...D"), ("D", "...A")]
    out.append(("frag-diamond", frag_doc(diamond)))
    out.append(("frag-diamond-rev", frag_doc(list(reversed(diamond)))))
    long_then_short = [("R", "...S " + "...L0"), ("S", "x")] + [
        (f"L{k}", f"...L{k + 1}" if k < 99 else "...S ...R") for k in range(100)]
    out.append(("frag-seen-shortcut", frag_doc(long_then_short)))
    for i in range(40 if quick else 800):
        out.append((f"frag-random-{i}", frag_doc(frag_random(rng, rng.randint(1, 7)))))
    return out


def frag_pipeline_only():
    """documents whose operation spreads only the head of the chain (the per-fragment verdict of the others is then
    not observable, so these go to the pipeline family only)"""
    out = []
    for n in lengths(LIMITS["fragment"]):
        out.append((f"frag-chain-head-{n}", frag_doc(frag_chain(n), op="...F0")))
        out.append((f"frag-cycle-head-{n}", frag_doc(frag_chain(n, close=0), op="...F0")))
    return out


def deep_chain(optype, nfrag, per, via, tail="x", head=""):
    """operation -> F0 -> F1 ... each fragment adds `per` nesting levels of kind `via` (cycled)"""
    cond = {"query": "Query", "mutation": "Mutation", "subscription": "Subscription"}[optype]
    frags = []
    for k in range(nfrag):
        kinds = "".join(via[(j + k) % len(via)] for j in range(per))
        inner = f"...F{k + 1}" if k + 1 < nfrag else tail
        # below a field the type is Query
        c = cond if k == 0 else (cond if "f" not in via and "c" not in via else "Query")
        frags.append((f"F{k}", nest(kinds, inner), c))
    return frag_doc(frags, op=(head + " ...F0").strip(), optype=optype)


def walk_sources(rng, quick):
    out = []
    W = LIMITS["walk"]
    # total depth = nfrag * (per + 1) (each spread counts one level)
    for optype in ("query", "mutation", "subscription"):
        for via in ("f", "i", "fi"):
            if optype != "query" and "f" in via:
                pass
            for total in (W - 1, W, W + 1, W + 2):
                per = 49
                nfrag, rem = divmod(total, per + 1)
                doc = deep_chain(optype, nfrag, per, via)
                if rem:
                    # pad the last fragment's tail with `rem` more inline levels
                    doc = deep_chain(optype, nfrag, per, via, tail=nest("i" * rem, "x"))
                out.append((f"walk-{optype}-{via}-{total}", doc))
    # defer diagnostics below and above the limit, with and without an earlier shallow visit of the fragment
    for n in (9, 10):
        for first in ("", "m { ...F } "):
            chain = "\n".join(
                f"fragment G{i} on Mutation {{ {nest('i' * 49, '...G%d' % (i + 1) if i < n else '...F')} }}"
                for i in range(1, n + 1))
            out.append((f"walk-defer-root-{n}-{'shallow-first' if first else 'plain'}",
                        f"mutation {{ {first}...G1 }}\n{chain}\nfragment F on Mutation {{ ... @defer {{ x }} }}\n"))
            chain = "\n".join(
                f"fragment G{i} on Subscription {{ {nest('i' * 49, '...G%d' % (i + 1) if i < n else '...F')} }}"
                for i in range(1, n + 1))
            out.append((f"walk-defer-uncond-{n}-{'shallow-first' if first else 'plain'}",
                        f"subscription {{ {first.replace('m {', 's {')}...G1 }}\n{chain}\n"
                        "fragment F on Subscription { ... @defer { x } ... @defer(if: false) { x } }\n"))
    # validate_defer reports the limit error of its walks once, and only if no recursion diagnostic is in the list yet
    for n in (9, 10):
        gchain = "\n".join(
            f"fragment G{i} on Subscription {{ {nest('i' * 49, '...G%d' % (i + 1) if i < n else '...F')} }}"
            for i in range(1, n + 1))
        # only forbid_unconditional_defer gets deep: it skips the selection through which the others see F first
        out.append((f"walk-defer-uncond-{n}-skip-hidden",
                    f"subscription {{ s @skip(if: true) {{ ...F }} s {{ ...G1 }} }}\n{gchain}\n"
                    "fragment F on Subscription { ... @defer { x } ... @defer(if: false) { x } }\n"))
        mchain = "\n".join(
            f"fragment G{i} on Mutation {{ {nest('i' * 49, '...G%d' % (i + 1) if i < n else '...F')} }}"
            for i in range(1, n + 1))
        witness = f"mutation M {{ m {{ ...F }} ...G1 }}\n{mchain}\nfragment F on Mutation {{ ... @defer {{ x }} }}\n"
        # a second mutation with the same shape: still one diagnostic for the document
        out.append((f"walk-defer-root-{n}-two-operations", witness + "mutation M2 { m { ...F } ...G1 }\n"))
        # another operation whose deduplicating walk fails: the recursion error is in the list already
        dchain = "\n".join(
            f"fragment D{i} on Query {{ {nest('i' * 49, '...D%d' % (i + 1) if i < 11 else 'x')} }}"
            for i in range(1, 12))
        out.append((f"walk-defer-root-{n}-reported-before", f"query Q {{ ...D1 }}\n{dchain}\n" + witness))
        out.append((f"walk-defer-root-{n}-reported-before-rev", witness + f"query Q {{ ...D1 }}\n{dchain}\n"))
    # validate_defer_labels does not follow spreads: definitions nested around the limit, used or not
    for total in (W - 1, W, W + 1, W + 2):
        for via in ("i", "f", "fi"):
            kinds = "".join(via[j % len(via)] for j in range(total))
            deep = nest(kinds, '... @defer(label: "l") { x } ... @defer(label: "l") { x }')
            out.append((f"walk-defer-label-unused-fragment-{via}-{total}",
                        f"{{ x }}\nfragment U on Query {{ {deep} }}\n"))
            out.append((f"walk-defer-label-two-unused-fragments-{via}-{total}",
                        f"{{ x }}\nfragment U on Query {{ {deep} }}\nfragment V on Query {{ {deep} }}\n"))
            out.append((f"walk-defer-label-operation-{via}-{total}", f"{{ {deep} }}\n"))
    # validate_selection_set (DepthGuard 500, same counting as the deduplicating walk): where it must NOT descend,
    # what it visits once, what it counts
    for total in (W - 1, W, W + 1, W + 2):
        # `a` without sub-selection at nesting `total`: MissingSubselection, no descent (the deduplicating walk
        # counts the empty selection set of every field, this walk only of the fields it descends into)
        for via in ("f", "i"):
            out.append((f"walk-sel-missing-subselection-{via}-{total}", "{ " + nest(via * (total - 1), "a") + " }\n"))
            out.append((f"walk-sel-leaf-{via}-{total}", "{ " + nest(via * (total - 1), "x") + " }\n"))
            out.append((f"walk-sel-typename-{via}-{total}", "{ " + nest(via * (total - 1), "__typename") + " }\n"))
        # the spread of a fragment that is validated already, of an undefined one, and of a new one at the limit
        out.append((f"walk-sel-spread-validated-{total}",
                    "{ ...F " + nest("i" * (total - 1), "...F") + " }\nfragment F on Query { x }\n"))
        out.append((f"walk-sel-spread-undefined-{total}", "{ " + nest("i" * (total - 1), "...U ...U") + " }\n"))
        out.append((f"walk-sel-spread-new-{total}",
                    "{ " + nest("f" * (total - 1), "...F") + " }\nfragment F on Query { ...U }\n"))
        out.append((f"walk-sel-spread-new-cyclic-{total}",
                    "{ " + nest("f" * (total - 1), "...F") + " }\nfragment F on Query { a { ...F } }\n"))
    deep = nest("i" * 600, "...U")
    out.append(("walk-sel-inline-on-scalar", "{ ... on Int { " + deep + " } x }\n"))
    out.append(("walk-sel-inline-on-query", "{ ... on Query { " + deep + " } x }\n"))
    out.append(("walk-sel-fragment-on-scalar", "{ ...F x }\nfragment F on Int { " + deep + " }\n"))
    out.append(("walk-sel-fragment-on-query", "{ ...F x }\nfragment F on Query { " + deep + " }\n"))
    out.append(("walk-sel-fragment-cyclic", "{ ...A x }\nfragment A on Query { " + nest("i" * 600, "...A") + " }\n"))
    out.append(("walk-sel-fragment-cyclic-pair",
                "{ ...A x }\nfragment A on Query { " + nest("i" * 300, "...B") + " }\n"
                "fragment B on Query { " + nest("f" * 300, "...A") + " }\n"))
    out.append(("walk-sel-undefined-counted", "{ ...U ...F ...F a { ...U } }\nfragment F on Query { ...U ...V }\n"))
    for nfrag, per in ((11, 49), (6, 99)):
        frs = [(f"F{i}", nest("f" * per, f"...F{i + 1}" if i + 1 < nfrag else "x")) for i in range(nfrag)]
        # leaf first: every fragment is validated at a shallow depth first
        out.append((f"walk-sel-leaf-first-{nfrag}x{per}",
                    frag_doc(frs, op=" ".join(f"...F{i}" for i in reversed(range(nfrag))))))
        # validated_fragments belongs to the operation: each of the two operations reports
        body = "\n".join(f"fragment {n} on Query {{ {b} }}" for n, b in frs)
        out.append((f"walk-sel-two-operations-{nfrag}x{per}", "query A { ...F0 }\nquery B { x ...F0 }\n" + body + "\n"))
        out.append((f"walk-sel-second-operation-shallow-{nfrag}x{per}",
                    "query A { ...F0 }\nquery B { ...F%d }\n" % (nfrag - 1) + body + "\n"))
    # a fragment seen first on a short path is not validated again on a long one
    out.append(("walk-sel-shallow-first",
                "{ a { ...F } " + nest("i" * 450, "...F") + " }\nfragment F on Query { " + nest("f" * 100, "x") + " }\n"))
    out.append(("walk-sel-deep-first",
                "{ " + nest("i" * 450, "...F") + " a { ...F } }\nfragment F on Query { " + nest("f" * 100, "x") + " }\n"))
    # random small documents with defer / skip / include
    dirs = ["", "", " @defer", " @defer(if: false)", " @defer(if: true)", " @defer(if: $v)", " @skip(if: false)",
            " @skip(if: true)", " @include(if: true)", " @include(if: false)", " @skip(if: $v)", " @defer(label: \"l\")",
            " @skip(if: false) @defer", " @include(if: true) @defer(if: true)"]
    for i in range(50 if quick else 1000):
        optype = rng.choice(["query", "mutation", "subscription", "subscription"])
        cond = {"query": "Query", "mutation": "Mutation", "subscription": "Subscription"}[optype]
        names = [f"F{j}" for j in range(rng.randint(0, 4))]

        def body(depth, root):
            sels = []
            for _ in range(rng.randint(1, 3)):
                r = rng.random()
                d = rng.choice(dirs)
                if r < 0.3 and names:
                    sels.append("..." + rng.choice(names) + d)
                elif r < 0.5 or depth > 3:
                    sels.append("x" + (d if "defer" not in d else ""))
                elif r < 0.75:
                    sels.append(f"...{d} {{ {body(depth + 1, root)} }}")
                else:
                    sels.append(f"a{d if 'defer' not in d else ''} {{ {body(depth + 1, False)} }}")
            return " ".join(sels)
        text = f"{optype} Op($v: Boolean) {{ {body(0, True)} }}\n"
        for nm in names:
            text += f"fragment {nm} on {rng.choice([cond, cond, 'Query'])} {{ {body(1, True)} }}\n"
        out.append((f"walk-random-{i}", text))
    return out


# ----------------------------------------------------------------------------- field merging

def merge_graph(doc_ops, frags):
    """An independent computation of the graph of merged field sets of simple documents over one object type
    (every parent type is the same object type, so both recursions of FieldsInSetCanMerge see the same groups).
    Selections: ('f', alias, name, [subselections]) | ('s', fragment name) | ('i', [subselections]).
    Returns (edges: {id: [child ids]}, roots: [id])."""
    ids = {}
    edges = {}

    def canon(sel):
        if sel[0] == "f":
            return "f(%s:%s){%s}" % (sel[1], sel[2], ",".join(canon(s) for s in sel[3]))
        if sel[0] == "s":
            return "s(%s)" % sel[1]
        return "i{%s}" % ",".join(canon(s) for s in sel[1])

    def expand(sets):
        fields, queue, seen = [], list(sets), set()
        while queue:
            cur = queue.pop(0)
            for sel in cur:
                if sel[0] == "f":
                    fields.append(sel)
                elif sel[0] == "i":
                    queue.append(sel[1])
                elif sel[1] not in seen:
                    seen.add(sel[1])
                    if sel[1] in frags:
                        queue.append(frags[sel[1]])
        return fields

    def node(fields):
        key = "|".join(canon(f) for f in fields)
        if key in ids:
            return ids[key]
        i = ids[key] = len(ids)
        groups = {}
        for f in fields:
            groups.setdefault(f[1], []).append(f)
        kids = []
        for alias, fs in groups.items():
            nested = [f[3] for f in fs if f[3]]
            if nested:
                kids.append(("pending", nested))
        edges[i] = []
        for _, nested in kids:
            edges[i].append(node(expand(nested)))
        return i

    roots = [node(expand([op])) for op in doc_ops]
    return edges, roots


def render_sel(sel):
    if sel[0] == "f":
        head = sel[2] if sel[1] == sel[2] else f"{sel[1]}: {sel[2]}"
        return head + (" { " + " ".join(render_sel(s) for s in sel[3]) + " }" if sel[3] else "")
    if sel[0] == "s":
        return "..." + sel[1]
    return "... { " + " ".join(render_sel(s) for s in sel[1]) + " }"


def merge_case(ops, frags):
    edges, roots = merge_graph(ops, frags)
    g = ";".join(f"{i}:{','.join(map(str, k))}" for i, k in sorted(edges.items())) + "@" + ",".join(map(str, roots))
    text = "\n".join("query Q%d { %s }" % (i, " ".join(render_sel(s) for s in op)) for i, op in enumerate(ops))
    for n, body in frags.items():
        text += "\nfragment %s on Query { %s }" % (n, " ".join(render_sel(s) for s in body))
    return g, text + "\n"


def merge_nest(n, leaf=("f", "x", "x", []), name="a"):
    sel = leaf
    for _ in range(n):
        sel = ("f", name, name, [sel])
    return sel


def merge_sources(rng, quick):
    out = []
    M = LIMITS["merge"]
    for n in (M - 1, M, M + 1, M + 2, 300):
        out.append((f"merge-nest-{n}", merge_case([[merge_nest(n)]], {})))
        # the high-water mark stays: a shallow second operation is flagged too
        out.append((f"merge-nest-{n}-then-shallow", merge_case([[merge_nest(n)], [merge_nest(2, name="b")]], {})))
        out.append((f"merge-shallow-then-nest-{n}", merge_case([[merge_nest(2, name="b")], [merge_nest(n)]], {})))
        # depth through fragments
        half = n // 2
        frags = {"F": [merge_nest(n - half)]}
        out.append((f"merge-frag-{n}", merge_case([[merge_nest(half, leaf=("s", "F"))]], frags)))
        out.append((f"merge-two-aliases-{n}",
                    merge_case([[merge_nest(n), ("f", "a", "a", [merge_nest(n - 1, name="b")])]], {})))
    # cyclic fragments: termination comes from the cache, not from the limit
    out.append(("merge-cyclic", merge_case([[("f", "a", "a", [("s", "F")])]], {"F": [("f", "a", "a", [("s", "F")])]})))
    out.append(("merge-cyclic-2", merge_case([[("s", "F")]], {"F": [("f", "a", "a", [("s", "G")])],
                                                             "G": [("f", "b", "b", [("s", "F")]), ("f", "x", "x", [])]})))
    for i in range(30 if quick else 500):
        names = [f"F{j}" for j in range(rng.randint(0, 3))]

        def body(depth):
            sels = []
            for _ in range(rng.randint(1, 3)):
                r = rng.random()
                if r < 0.2 and names:
                    sels.append(("s", rng.choice(names)))
                elif r < 0.4 or depth > 4:
                    sels.append(("f", "x", "x", []))
                elif r < 0.5:
                    sels.append(("i", body(depth + 1)))
                else:
                    nm = rng.choice(["a", "b", "c"])
                    sels.append(("f", rng.choice([nm, nm, "k"]), nm, body(depth + 1)))
            return sels
        frags = {nm: body(1) for nm in names}
        out.append((f"merge-random-{i}", merge_case([body(0) for _ in range(rng.randint(1, 2))], frags)))
    return out


# ----------------------------------------------------------------------------- sort

def sort_sources(rng, quick):
    """pairs of schema texts with many build and validation errors, several at one offset"""
    pieces = [
        "type Query { x: Int }", "type Query { y: Int }", "type A { f: Zz g: Yy }", "type A { f: Int }",
        "input I { a: I! }", "input I { }", "enum E { }", "scalar Int", "extend type Nope { f: Int }",
        "directive @d(a: Int @d) on FIELD", "union U = A | Zz | Int", "interface If { f: Int }",
        "type B implements If { g: Int }", "type C implements Zz & If { f: String }", "{ a }", "fragment F on A { f }",
        "type __Bad { __f: Int }", "schema { query: Nope }", "schema { query: Query mutation: Zz }", "type é { }",
        "extend schema @undefined", "enum E2 { A A B }", "input J { f: Int f: Int g: A }", "type D { f(a: Int, a: Int): Int }",
    ]
    out = []
    for i in range(60 if quick else 600):
        a = " ".join(rng.sample(pieces, rng.randint(1, 8)))
        b = " ".join(rng.sample(pieces, rng.randint(0, 8)))
        order = "".join(str(x) for x in rng.sample(range(6), rng.randint(1, 6)))
        out.append((order, a, b))
    return out


# ----------------------------------------------------------------------------- pipeline extras

TOKENS = ["{", "}", "(", ")", "[", "]", ":", "!", "=", "@", "$", "...", "|", "&", "a", "type", "query", "fragment",
          "on", "\"s\"", "1", "#c\n", "é", "\"\"\"b", "input", "extend", "schema", "directive", "1.5e", "\"\\u"]


def malformed_sources(rng, quick):
    out = []
    toks = TOKENS
    # every sequence of length <= 2, and length 3 over a smaller alphabet
    seqs = [[]] + [[a] for a in toks] + [[a, b] for a in toks for b in toks]
    small = ["{", "}", "(", ":", "!", "@", "$", "...", "a", "type", "on", "\"s\"", "[", "="]
    seqs += [[a, b, c] for a in small for b in small for c in small]
    if quick:
        seqs = seqs[:: max(1, len(seqs) // 600)]
    for s in seqs:
        out.append(" ".join(s))
    # one-token deletions / duplications of valid documents
    base = ["type Query { a(x: [Int!]! = [1, 2] @d): Query @d x: Int }", "directive @d(a: I = {a: 1}) repeatable on FIELD | OBJECT",
            "query Q($v: [Int!] = [1] @d) @d { a(x: $v) @d { ...F ... on Query @d { x } } }", "fragment F on Query @d { x: x }",
            "extend type Query implements A & B @d { y: Int }", "union U @d = | A | B", "enum E @d { A @d B }",
            "input I @d { a: Int = 1 @d }", "\"\"\"d\"\"\" schema @d { query: Query }", "subscription { a { x } }"]
    for b in base:
        ts = b.split(" ")
        for i in range(len(ts)):
            out.append(" ".join(ts[:i] + ts[i + 1:]))
            if not quick:
                out.append(" ".join(ts[:i] + [ts[i]] + ts[i:]))
    return out


def deep_sources():
    """deep nesting of selection sets, values and types around the parser's recursion limit"""
    P = LIMITS["parser"]
    out = []
    for n in (P - 3, P - 2, P - 1, P, P + 1, P + 2, 5000):
        out.append((f"deep-selection-{n}", "type Query { a: Query x: Int }", "{ " + "a { " * n + "x" + " }" * n + " }"))
        out.append((f"deep-inline-{n}", "type Query { a: Query x: Int }", "{ " + "... { " * n + "x" + " }" * n + " }"))
        out.append((f"deep-list-value-{n}", "type Query { a(l: Int): Int }", "{ a(l: " + "[" * n + "1" + "]" * n + ") }"))
        out.append((f"deep-object-value-{n}", "type Query { a(l: Int): Int }",
                    "{ a(l: " + "{a: " * n + "1" + "}" * n + ") }"))
        out.append((f"deep-type-{n}", "type Query { a: " + "[" * n + "Int" + "]" * n + " }", "{ a }"))
        out.append((f"deep-default-{n}", "type Query { a(l: Int = " + "[" * n + "1" + "]" * n + "): Int }", "{ a }"))
        out.append((f"deep-variable-type-{n}", "type Query { a: Int }", "query($v: " + "[" * n + "Int" + "]" * n + ") { a }"))
    for n in (32, 33, 128, 129, 130, 200):
        out.append((f"deep-list-coercion-{n}", "type Query { a(l: " + "[" * n + "Int" + "]" * n + "): Int }",
                    "{ a(l: " + "[" * n + "1" + "]" * n + ") b: a(l: 1) }"))
        out.append((f"deep-input-literal-{n}", "type Query { a(i: I): Int } input I { i: I x: Int }",
                    "{ a(i: " + "{i: " * n + "{x: 1}" + "}" * n + ") }"))
    return out


def renderer_sources():
    """spans at EOF, zero-width spans, multi-byte lines, CR/LF variants, tabs, long lines"""
    s = "type Query { x: Int }"
    docs = [
        "", "﻿", "{", "{ a", "{ a(", "{ a(x:", "query(", "query($", "{ ...", "{ ... on", "\"", "\"\"\"", "\"\"\"abc",
        "{ a }\n{", "é", "{ é }", "{ a # 中文\U0001F680\n b(", "# \U0001F680\n{ \U0001F680 }",
        "{ a }\r\n{ b }\r\n}", "{\ta\t(\t}", "{ a\r b\r c(", "{ \"ééé\" }", "fragment on on on { a }",
        "{ " + "a " * 3000 + "( }", "{ a(x: \"\\u{1F680}\\uD83D\") }", "{ a(x: \"\\uD83D\\uDE80\\uZZZZ\") }",
        "query Q { x } query Q { x } query { x } { x }", "\n\n\n\n{ zz }\n\n\n", "{ x x: zz } { y }",
        "{ a(b: 1e) }", "{ a(b: 01) }", "{ a(b: 1.) }", "{ a(b: -) }", "{ a(b: .5) }",
        "é中\U0001F680 { zz } \U0001F680", "{ zz } # é" + "é" * 200,
    ]
    sch = [
        s, "type Query { x: Int } type Query { y: Int }", "type Query { é: Int }", "type Query { x: Zzé }",
        "type Query { x: Int } \"\"\"中文\"\"\" type Té { a: Int }", "type Query { x: Int } extend type",
        "type Query { x: Int }\r\nextend type Zz { a: Int }\r\n", "type Query { x: Int } # \U0001F680\n type A { f: Undefined }",
        "schema { query: Q }", "type Query { x: Int } scalar Int scalar String", "", "﻿",
    ]
    out = []
    for d in docs:
        out.append(("render-doc", s, d))
    for x in sch:
        out.append(("render-schema", x, "{ x }"))
        out.append(("render-schema", x, "{ zz }"))
    return out


def overflow_sources(quick):
    """the product of fragment-chain length (<= 100 by the cycle guard) and per-fragment nesting (<= 500 by the
    parser): validate_selection_set used to recurse through all of it without a guard (50 x 100 overflowed a 1 MiB
    stack, 99 x 400 an 8 MiB stack); its DepthGuard now stops it at 500"""
    out = []
    for nf, k, via in ((10, 100, "f"), (50, 100, "f"), (99, 100, "f"), (20, 480, "f"), (50, 100, "i"), (99, 400, "f")):
        if quick and nf * k > 10000 and (nf, k) != (50, 100):
            continue
        frs = [(f"F{i}", nest(via * k, f"...F{i + 1}" if i + 1 < nf else "x")) for i in range(nf)]
        out.append((f"overflow-{via}-{nf}x{k}", "type Query { a: Query x: Int }", frag_doc(frs, op="...F0"), nf * k))
        # the same fragments spread leaf-first: every fragment is first seen at a shallow depth, so no guarded
        # walk reports excessive depth
        rev = " ".join(f"...F{i}" for i in reversed(range(nf)))
        out.append((f"overflow-leaf-first-{via}-{nf}x{k}", "type Query { a: Query x: Int }", frag_doc(frs, op=rev), nf * k))
    return out


def valid_sources():
    """valid schemas and documents: the whole pipeline (serialization x3, re-validation, introspection) runs on them"""
    sch = '''"""
The schema — "quoted", \\"""block\\""", unicode é 中 \U0001F680
"""
schema @sd(a: 1) { query: Q mutation: M subscription: S }
extend schema @sd(a: 2)
directive @sd(a: Int) repeatable on SCHEMA
directive @t repeatable on SCALAR | ENUM | ENUM_VALUE | INPUT_OBJECT | INPUT_FIELD_DEFINITION | ARGUMENT_DEFINITION
directive @d(s: String = "x\\ny", l: [Int!] = [1, 2], i: In = {a: 1, b: [{a: 2}]}, e: E = A) repeatable on
  | QUERY | MUTATION | SUBSCRIPTION | FIELD | FRAGMENT_DEFINITION | FRAGMENT_SPREAD | INLINE_FRAGMENT | VARIABLE_DEFINITION
  | SCALAR | OBJECT | FIELD_DEFINITION | ARGUMENT_DEFINITION | INTERFACE | UNION | ENUM | ENUM_VALUE | INPUT_OBJECT | INPUT_FIELD_DEFINITION
"a scalar" scalar Url @specifiedBy(url: "https://example.org/é") @t
interface Node @d { "the id" id: ID! @d }
interface Named implements Node { id: ID! name(upper: Boolean = false @d): String @deprecated(reason: "r\\"é") }
type Q implements Node & Named @d { id: ID! name(upper: Boolean = false): String q: Q list: [[Q!]]! u: U e(e: E = B): E
  f(x: Float = 1.5e3, i: In, l: [In!] = []): Float url: Url other: Other }
extend type Q @d(s: "ext") { ext: Int }
type Other implements Node { id: ID! o: Int @deprecated }
type M { set(i: In!): Q }
type S { tick(n: Int = 1): Q }
union U @d = Q | Other
extend union U = M
enum E @t { A @t B @deprecated(reason: null) C }
extend enum E { D }
input In @t { a: Int! = 1 @t b: [In!] c: E = A d: Url }
extend input In { z: String = "z" }
'''
    docs = [
        "{ id }",
        "query Q1($i: In = {a: 2}, $l: [In!]) @d { q { ...F } f(x: 1.0, i: $i, l: $l) ... on Q @d { e(e: C) } u { __typename ... on Other { o } } }"
        " fragment F on Q @d { id name(upper: true) list { id } }",
        "mutation { set(i: {a: 1, b: [{a: 2, c: D}], z: \"\\u00e9 \\\\ \\n\"}) { id } }",
        "subscription Sub($n: Int) { tick(n: $n) { id name } }",
        "query I { __schema { types { name kind fields(includeDeprecated: true) { name isDeprecated deprecationReason args { name defaultValue } } "
        "enumValues(includeDeprecated: true) { name } inputFields { name defaultValue } possibleTypes { name } interfaces { name } } "
        "directives { name isRepeatable locations args { name type { kind ofType { name } } } } } "
        "t: __type(name: \"Q\") { name description specifiedByURL } u: __type(name: \"Url\") { specifiedByURL } n: __type(name: \"Nope\") { name } __typename }",
        "query V($s: String = \"\"\"block \"q\" \\\"\"\" é\"\"\") { name @d(s: $s) a: name @skip(if: false) b: name @include(if: true) }",
        "{ q { q { q { q { q { id list { list: id } } } } } } q { q { q { q { q { name } } } } } }",
    ]
    out = [("valid", sch, d) for d in docs]
    # a large valid schema
    big = ["type Query { " + " ".join(f"t{i}: T{i}" for i in range(200)) + " }"]
    for i in range(200):
        big.append(f"type T{i} implements I{i % 10} {{ id: ID! next: T{(i + 1) % 200} u: U{i % 5} }}")
    for i in range(10):
        big.append(f"interface I{i} {{ id: ID! }}")
    for i in range(5):
        big.append(f"union U{i} = " + " | ".join(f"T{j}" for j in range(i, 200, 5)))
    out.append(("valid-big", "\n".join(big), "{ t0 { id next { id u { __typename ... on T1 { id } } } } __schema { types { name } } }"))
    return out
