"""C02 — the document syntax tree is lossless."""
import re
from common import *
from props.parse_util import *

DROPPED = re.compile(r" dropped=(\d+)$")


def strip_dropped(m):
    return DROPPED.sub("", m)


def dropped(m):
    x = DROPPED.search(m)
    return int(x.group(1)) if x else 0


def classify(case, iobs, mobs):
    # Known_D3: some ty::parse call popped a token that is neither Name nor `[` (the model's ghost counter)
    if dropped(mobs) > 0 and iobs == strip_dropped(mobs):
        return "D3-ty-parse-drops-token"
    return None


def cases_for(ctx):
    quick = ctx.tier == "quick"
    tuples = []
    chars = list(all_strings(ALPHA28, 3 if quick else 4))
    tuples += [("doc", None, 500, s) for s in chars]
    toks = list(token_strings(3 if quick else 4))
    tuples += [("doc", None, 500, s) for j, s in enumerate(toks) if not quick or s.count(" ") < 2 or j % 2 == 0]
    g = Gen(ctx.rng)
    docs = [simple_tokens(d) for d in FIXED_DOCS] + [g.document() for _ in range(10 if quick else 300)]
    for d in docs:
        tuples.append(("doc", None, 500, render(d)))
        tuples.append(("doc", None, 500, render(d, ctx.rng)))
        muts = list(token_mutations(d))
        if quick:
            muts = muts[:: max(1, len(muts) // 250)]
        for m in muts:
            tuples.append(("doc", None, 500, render(m)))
            if ctx.rng.random() < 0.1:
                tuples.append(("doc", None, ctx.rng.choice([0, 1, 2]), render(m, ctx.rng)))
    for src in test_data_files():
        tuples.append(("doc", None, 500, src))
    # multi-byte text around errors (ranges on character boundaries)
    for s in ["type Query { field: 中文类型 }", "type Query { f1: @#$ f2: 日本語 f3: !!! }", "{ a(x: \"é🚀\") 🚀 b }",
              "type T { f: [! }", "query($a: [!) {a}", "type T { f: [é] g: [[}", "﻿# é\n{ a }"]:
        tuples.append(("doc", None, 500, s))
    # the other two entries are lossless as well since the repairs: exercise them too
    # lexically interesting material (the lexer generators of C03): every shape of number followed by every class of
    # character, strings with every escape, block strings, comments and spreads -- alone and as an argument value;
    # every byte of a malformed literal must still appear exactly once in the tree
    from props import c03 as LX
    lex = LX.gen_numbers()[:: 7 if quick else 1] + LX.gen_strings(ctx.rng, 300 if quick else 3000) \
        + LX.gen_blocks(ctx.rng, 150 if quick else 1500) + LX.gen_comments_spreads()
    for x in lex:
        tuples.append(("doc", None, 500, x))
    for x in lex[:: 3 if quick else 1]:
        tuples.append(("doc", None, 500, "{ f(a: %s) }" % x))
    for e in ("selset", "type"):
        tuples += [(e, None, 500, s) for s in chars if len(s) <= 2]
        tuples += [(e, None, 500, s) for s in toks if s.count(" ") < 2]
    return tuples


def run(ctx):
    props = check_props(ctx.pid)
    model = build_model()
    impl = build_impl()
    cases = with_items(impl, cases_for(ctx))
    rows = ctx.correspond(impl, model, "c02_parse", cases, classify=classify,
                          nontrivial=lambda c, o: len(c.split(" ")[3]) > 2, describe=describe,
                          compare=lambda i, m: i == strip_dropped(m))
    comp = composed_sample(ctx, cases, limit=2500 if ctx.tier == "quick" else 40000)
    ctx.correspond(impl, model, "c02_parse", comp, classify=classify, nontrivial=lambda c, o: True,
                   describe=describe,
                  compare=lambda i, m: i == strip_dropped(m))
    ctx.cov["composed_with_lexer_model"] = {
        "cases": len(comp),
        "note": "these cases carry no items: the model runner lexes the source with Lex/Fun.v (lex_all / lex_limited) and "
                "parses the result, so lexer model + parser model composed are tied to the code as well"}
    fam = ctx.cov["families"]["c02_parse"]
    fam["documents_with_error_tokens"] = sum(1 for _, i, _ in rows if "ERROR:" in i)
    fam["multibyte_inputs"] = sum(1 for c, _, _ in rows if any(ord(ch) > 127 for ch in unhexs(c.split(" ")[3])))
    for c, i, m in rows[:: max(1, len(rows) // 5)]:
        ctx.sample({"case": describe(c), "impl": i[:300], "model": m[:300]})
    struct_report(ctx, impl, model, cases)
    ctx.cov["rule"] = (
        "c02_parse (no token limit): every string of length <= 3 (thorough 4) over the 28-symbol lexer alphabet; token "
        "sequences over 28 token symbols to length 3 (thorough 4); fixed documents covering every definition kind and "
        "generated documents, with every token in turn deleted / duplicated / swapped / replaced by each punctuator, a "
        "lexical error, an unterminated string (quick: sampled to 250 per document); test_data/parser; multi-byte "
        "error inputs.  Compared: the sequence of leaves (kind, text) and the root range, not the nesting.  Oracle: "
        "tree text == input, every range on a character boundary, tokens tile the input once in order.")
    ctx.cov["exhaustive"] = False
    ctx.assumptions += [
        "most cases feed the parser model the items the real lexer yields (fast); a sample runs lexer model + parser model composed on the source string",
        "node nesting is deliberately not part of the observation (reported for information under node_structure_informational)",
    ]
    return ctx.finish(props)


def replay(ctx, path):
    return replay_generic(ctx, path, ["c02_parse"])
