"""C14/C15 case generator: structured schemas that satisfy every type-system rule by construction,
rule-directed mutators (at least one per rule), and fixed matrices for the algorithmic rules.

A schema is a dict {schema_def, dirdefs, types}; types carry their extensions (printed as `extend ...`).
Every case is (tag, sdl): tag = "<base>/<mutator>[/detail]" names how it was made."""
import copy
import pickle

# ------------------------------------------------------------------ constructors


def D(name, *args):
    """applied directive; args are (name, value text) pairs"""
    return {"name": name, "args": list(args)}


def A(name, ty, default=None, dirs=()):
    return {"name": name, "type": ty, "default": default, "dirs": list(dirs)}


def F(name, ty, args=(), dirs=()):
    return {"name": name, "type": ty, "args": list(args), "dirs": list(dirs)}


def V(name, dirs=()):
    return {"name": name, "dirs": list(dirs)}


def T(kind, name, **kw):
    t = {"kind": kind, "name": name, "dirs": [], "impls": [], "fields": [], "members": [], "values": [],
         "exts": []}
    t.update(kw)
    return t


def X(**kw):
    """an extension part of a type"""
    t = {"dirs": [], "impls": [], "fields": [], "members": [], "values": []}
    t.update(kw)
    return t


def DD(name, args=(), locs=("FIELD_DEFINITION",), repeatable=False):
    return {"name": name, "args": list(args), "locs": list(locs), "repeatable": repeatable}


def SD(roots, dirs=(), exts=()):
    """roots: list of (operation, type name); exts: list of (dirs, roots)"""
    return {"roots": list(roots), "dirs": list(dirs), "exts": [(list(d), list(r)) for d, r in exts]}


# ------------------------------------------------------------------ printer

KW = {"scalar": "scalar", "object": "type", "interface": "interface", "union": "union", "enum": "enum",
      "input": "input"}


def p_dir(d):
    if d["args"]:
        return "@%s(%s)" % (d["name"], ", ".join("%s: %s" % (n, v) for n, v in d["args"]))
    return "@" + d["name"]


def p_dirs(ds):
    return "".join(" " + p_dir(d) for d in ds)


def p_arg(a):
    return "%s: %s%s%s" % (a["name"], a["type"], "" if a["default"] is None else " = " + a["default"],
                           p_dirs(a["dirs"]))


def p_args(args):
    return "(%s)" % ", ".join(p_arg(a) for a in args) if args else ""


def p_field(f):
    return "  %s%s: %s%s" % (f["name"], p_args(f["args"]), f["type"], p_dirs(f["dirs"]))


def p_part(kind, name, part, ext):
    head = ("extend " if ext else "") + KW[kind] + " " + name
    if part["impls"]:
        head += " implements " + " & ".join(part["impls"])
    head += p_dirs(part["dirs"])
    if kind in ("object", "interface") and part["fields"]:
        head += " {\n" + "\n".join(p_field(f) for f in part["fields"]) + "\n}"
    elif kind == "input" and part["fields"]:
        head += " {\n" + "\n".join("  " + p_arg(f) for f in part["fields"]) + "\n}"
    elif kind == "enum" and part["values"]:
        head += " {\n" + "\n".join("  " + v["name"] + p_dirs(v["dirs"]) for v in part["values"]) + "\n}"
    elif kind == "union" and part["members"]:
        head += " = " + " | ".join(part["members"])
    return head


def p_dirdef(d):
    return "directive @%s%s%s on %s" % (d["name"], p_args(d["args"]), " repeatable" if d["repeatable"] else "",
                                        " | ".join(d["locs"]))


def p_roots(roots):
    return " {\n" + "\n".join("  %s: %s" % r for r in roots) + "\n}" if roots else ""


def sdl(s):
    out = []
    sd = s.get("schema_def")
    if sd is not None:
        out.append("schema" + p_dirs(sd["dirs"]) + p_roots(sd["roots"]))
    for d in s["dirdefs"]:
        out.append(p_dirdef(d))
    for t in s["types"]:
        out.append(p_part(t["kind"], t["name"], t, False))
    for t in s["types"]:
        for e in t["exts"]:
            out.append(p_part(t["kind"], t["name"], e, True))
    if sd is not None:
        for dirs, roots in sd["exts"]:
            out.append("extend schema" + p_dirs(dirs) + p_roots(roots))
    for dirs, roots in s.get("orphan_schema_exts", []):
        out.append("extend schema" + p_dirs(dirs) + p_roots(roots))
    return "\n".join(out) + "\n"


# ------------------------------------------------------------------ access helpers

def parts(t):
    return [t] + t["exts"]


def get_type(s, name):
    for t in s["types"]:
        if t["name"] == name:
            return t
    return None


def all_fields(t):
    return [f for p in parts(t) for f in p["fields"]]


def all_impls(t):
    return [i for p in parts(t) for i in p["impls"]]


def inner(ty):
    return ty.replace("[", "").replace("]", "").replace("!", "")


def kinds(s, *ks):
    return [t for t in s["types"] if t["kind"] in ks]


def field_slots(s, *ks):
    """(type, part, index) for every field of the given kinds"""
    return [(t, p, i) for t in kinds(s, *ks) for p in parts(t) for i in range(len(p["fields"]))]


BUILTIN_SCALARS = ["Int", "Float", "String", "Boolean", "ID"]

# ------------------------------------------------------------------ base schemas (valid by construction)


def base_rich():
    """every type kind, interfaces implementing interfaces, union, input objects with nullable / list
    cycles, custom directives with arguments applied at every type-system location, custom scalar,
    deprecated, explicit schema definition with extension, type extensions"""
    dirdefs = [
        DD("onSchema", [A("a", "Int!")], ["SCHEMA"]),
        DD("onObj", [A("s", "String", '"x"'), A("e", "Color")], ["OBJECT", "INTERFACE"], repeatable=True),
        DD("onField", [A("i", "In")], ["FIELD_DEFINITION"]),
        DD("onArg", [A("l", "[Int!]")], ["ARGUMENT_DEFINITION"]),
        DD("onUnion", [], ["UNION"]),
        DD("onEnum", [A("f", "Float")], ["ENUM"]),
        DD("onEnumValue", [A("id", "ID")], ["ENUM_VALUE"]),
        DD("onInput", [A("b", "Boolean")], ["INPUT_OBJECT"]),
        DD("onInputField", [A("d", "Date")], ["INPUT_FIELD_DEFINITION"]),
        DD("onScalar", [A("n", "Int")], ["SCALAR"]),
        DD("exec", [A("x", "Int", None, [D("onArg", ("l", "[1]"))])], ["FIELD", "QUERY"]),
    ]
    types = [
        T("scalar", "Date", dirs=[D("onScalar", ("n", "3")), D("specifiedBy", ("url", '"http://x"'))]),
        T("enum", "Color", dirs=[D("onEnum", ("f", "1.5"))],
          values=[V("RED", [D("onEnumValue", ("id", '"a"'))]), V("GREEN", [D("deprecated")]),
                  V("BLUE", [D("deprecated", ("reason", '"no"'))])],
          exts=[X(values=[V("BLACK")])]),
        T("input", "In", dirs=[D("onInput", ("b", "true"))],
          fields=[A("req", "Int!"), A("opt", "String", '"d"', [D("onInputField", ("d", '"2020"'))]),
                  A("self", "In"), A("list", "[In!]"), A("color", "Color", "RED")],
          exts=[X(fields=[A("more", "Float")])]),
        T("input", "In2", fields=[A("a", "In!"), A("b", "In2"), A("c", "[In2!]!")]),
        T("interface", "Node", dirs=[D("onObj")], fields=[F("id", "ID!")],
          exts=[X(dirs=[D("onObj", ("s", '"e"'))])]),
        T("interface", "Named", impls=["Node"], dirs=[D("onObj", ("s", '"n"')), D("onObj", ("e", "RED"))],
          fields=[F("id", "ID!"), F("name", "String", [A("upper", "Boolean", None, [D("onArg")])])]),
        T("interface", "Res", impls=["Named", "Node"],
          fields=[F("id", "ID!"), F("name", "String", [A("upper", "Boolean")]), F("owner", "Node"),
                  F("kids", "[Node]")]),
        T("object", "User", impls=["Named", "Node"], dirs=[D("onObj")],
          fields=[F("id", "ID!"),
                  F("name", "String!", [A("upper", "Boolean"), A("extra", "Int"), A("extra2", "Int!", "1")]),
                  F("age", "Int", [], [D("onField", ("i", "{req: 1}")), D("deprecated")])]),
        T("object", "Doc", impls=["Res", "Named", "Node"],
          fields=[F("id", "ID!"), F("name", "String", [A("upper", "Boolean")]), F("owner", "User"),
                  F("kids", "[User!]!")]),
        T("union", "Any", dirs=[D("onUnion")], members=["User", "Doc"], exts=[X(members=["Q"])]),
        T("object", "Q",
          fields=[F("node", "Node", [A("id", "ID!"),
                                     A("in", "In", None, [D("onArg", ("l", "[1, 2]")), D("deprecated")])]),
                  F("any", "Any"), F("color", "Color", [A("c", "Color", "RED")]), F("date", "Date"),
                  F("docs", "[Doc!]", [A("f", "In2")])],
          exts=[X(fields=[F("extra", "Boolean")])]),
        T("object", "M", fields=[F("set", "Int", [A("v", "Int")])]),
        T("object", "S", fields=[F("tick", "Float")]),
    ]
    return {"schema_def": SD([("query", "Q"), ("mutation", "M")], [D("onSchema", ("a", "1"))],
                             [([], [("subscription", "S")])]),
            "dirdefs": dirdefs, "types": types}


def base_implicit():
    """implicit schema definition (Query / Mutation by name), no custom directives"""
    types = [
        T("object", "Query", fields=[F("a", "Int"), F("pet", "Pet"), F("pets", "[Pet!]!", [A("kind", "Kind")])]),
        T("object", "Mutation", fields=[F("add", "Pet", [A("pet", "PetIn!")])]),
        T("interface", "Pet", fields=[F("name", "String!"), F("friend", "Pet")]),
        T("object", "Dog", impls=["Pet"], fields=[F("name", "String!"), F("friend", "Dog"), F("barks", "Boolean")]),
        T("object", "Cat", impls=["Pet"], fields=[F("name", "String!"), F("friend", "Cat"), F("either", "CatOrDog")]),
        T("union", "CatOrDog", members=["Cat", "Dog"]),
        T("enum", "Kind", values=[V("DOG"), V("CAT")]),
        T("input", "PetIn", fields=[A("name", "String!"), A("kind", "Kind!", "DOG"), A("friend", "PetIn")]),
    ]
    return {"schema_def": None, "dirdefs": [], "types": types}


def base_redef():
    """a specified directive redefined once and used with its new signature; schema extension of an
    implicit schema definition; an interface chain of length three"""
    dirdefs = [
        DD("deprecated", [A("reason", "Int"), A("since", "String!")],
           ["FIELD_DEFINITION", "OBJECT", "ARGUMENT_DEFINITION"]),
        DD("tag", [A("name", "String!")], ["OBJECT", "FIELD_DEFINITION", "INTERFACE", "UNION", "ENUM",
                                           "INPUT_OBJECT", "SCALAR", "SCHEMA", "ENUM_VALUE",
                                           "INPUT_FIELD_DEFINITION", "ARGUMENT_DEFINITION"], repeatable=True),
    ]
    types = [
        T("object", "Query", dirs=[D("deprecated", ("since", '"1"')), D("tag", ("name", '"q"'))],
          fields=[F("a", "A", [A("x", "Int", None, [D("deprecated", ("reason", "2"), ("since", '"2"'))])],
                    [D("deprecated", ("reason", "1"), ("since", '"0"'))]),
                  F("b", "B")]),
        T("interface", "A", fields=[F("f", "A", [A("p", "[Int]"), A("q", "Tok!")])]),
        T("interface", "B", impls=["A"], fields=[F("f", "B", [A("p", "[Int]"), A("q", "Tok!")]), F("g", "Int")]),
        T("interface", "C", impls=["B", "A"],
          fields=[F("f", "C!", [A("p", "[Int]"), A("q", "Tok!"), A("r", "Int")]), F("g", "Int!")]),
        T("object", "O", impls=["C", "B", "A"], dirs=[D("tag", ("name", '"a"')), D("tag", ("name", '"b"'))],
          fields=[F("f", "O!", [A("p", "[Int]"), A("q", "Tok!"), A("r", "Int"), A("s", "Tok", "{x: 1}")]),
                  F("g", "Int!")]),
        T("scalar", "Tok", dirs=[D("tag", ("name", '"t"'))]),
    ]
    return {"schema_def": None, "dirdefs": dirdefs, "types": types,
            "orphan_schema_exts": [([D("tag", ("name", '"s"'))], [])]}


def base_random(rng, n):
    """a random schema, valid by construction"""
    scal = ["Int", "Float", "String", "Boolean", "ID"]
    types, dirdefs = [], []
    enums = ["E%d" % i for i in range(rng.randint(1, 2))]
    for e in enums:
        types.append(T("enum", e, values=[V("%s_V%d" % (e, j)) for j in range(rng.randint(1, 3))]))
    customs = ["Sc%d" % i for i in range(rng.randint(0, 2))]
    for c in customs:
        types.append(T("scalar", c))
    inputs = ["I%d" % i for i in range(rng.randint(1, 4))]
    in_leaf = scal + enums + customs

    def wrap(nm, allow_nn_named=True):
        w = rng.choice(["%s", "%s!", "[%s]", "[%s!]", "[%s]!", "[%s!]!", "[[%s]]"])
        if not allow_nn_named and w == "%s!":
            w = "%s"
        return w % nm
    for k, nm in enumerate(inputs):
        fs = [A("f%d" % j, wrap(rng.choice(in_leaf))) for j in range(rng.randint(1, 3))]
        # references to input objects: non-null singular only to a later one (acyclic), anything else anywhere
        for j in range(rng.randint(0, 2)):
            tgt = rng.choice(inputs)
            later = inputs.index(tgt) > k
            fs.append(A("r%d" % j, wrap(tgt, allow_nn_named=later)))
        types.append(T("input", nm, fields=fs))
    in_any = in_leaf + inputs
    ifaces = ["F%d" % i for i in range(rng.randint(1, 4))]
    objs = ["O%d" % i for i in range(rng.randint(1, 4))]
    out_leaf = scal + enums + customs
    iface_t = {}
    closure = {}
    for k, nm in enumerate(ifaces):
        impls = set()
        for prev in ifaces[:k]:
            if rng.random() < 0.5:
                impls |= {prev} | closure[prev]
        closure[nm] = impls
        fields = {}
        for i in sorted(impls):
            for f in iface_t[i]["fields"]:
                fields.setdefault(f["name"], copy.deepcopy(f))
        for j in range(rng.randint(1, 2)):
            fn = "%s_f%d" % (nm.lower(), j)
            tgt = rng.choice(out_leaf + ifaces[:k + 1])
            args = [A("a%d" % x, wrap(rng.choice(in_any))) for x in range(rng.randint(0, 2))]
            fields[fn] = F(fn, wrap(tgt), args)
        t = T("interface", nm, impls=sorted(impls), fields=list(fields.values()))
        iface_t[nm] = t
        types.append(t)
    for nm in objs:
        impls = set()
        for i in ifaces:
            if rng.random() < 0.4:
                impls |= {i} | closure[i]
        fields = {}
        for i in sorted(impls):
            for f in iface_t[i]["fields"]:
                g = copy.deepcopy(f)
                if g["name"] in fields:
                    continue
                # covariance: make the result non-null sometimes, add an optional argument sometimes
                if rng.random() < 0.3 and not g["type"].endswith("!"):
                    g["type"] += "!"
                if rng.random() < 0.3:
                    g["args"].append(A("opt", rng.choice(["Int", "Int! = 1", "[String!]"])))
                fields[g["name"]] = g
        fields["own"] = F("own", wrap(rng.choice(out_leaf + ifaces + objs)),
                          [A("x", wrap(rng.choice(in_any)))] if rng.random() < 0.5 else [])
        types.append(T("object", nm, impls=sorted(impls), fields=list(fields.values())))
    if rng.random() < 0.7:
        types.append(T("union", "U0", members=rng.sample(objs, rng.randint(1, len(objs)))))
    root = T("object", "Query", fields=[F("q%d" % i, wrap(rng.choice(out_leaf + ifaces + objs)))
                                         for i in range(rng.randint(1, 3))])
    types.append(root)
    rng.shuffle(types)
    sd = None
    if rng.random() < 0.5:
        roots = [("query", "Query")]
        if rng.random() < 0.5:
            roots.append(("mutation", objs[0]))
        sd = SD(roots)
    # one custom directive applied somewhere valid
    loc_kind = {"OBJECT": "object", "INTERFACE": "interface", "ENUM": "enum", "INPUT_OBJECT": "input",
                "SCALAR": "scalar", "UNION": "union"}
    loc = rng.choice(sorted(loc_kind))
    dirdefs.append(DD("m%d" % n, [A("v", "Int", "0")], [loc, "FIELD_DEFINITION"]))
    for t in types:
        if t["kind"] == loc_kind[loc] and rng.random() < 0.7:
            t["dirs"].append(D("m%d" % n, ("v", str(rng.randint(0, 9)))) if rng.random() < 0.6 else D("m%d" % n))
    return {"schema_def": sd, "dirdefs": dirdefs, "types": types}


# ------------------------------------------------------------------ rule-directed mutators
# each yields (name, mutated schema); the rule it is aimed at is the first component of the name

def _cp(s):
    return pickle.loads(pickle.dumps(s, -1))


def _limit(items, rng, k):
    items = list(items)
    if len(items) <= k:
        return items
    return rng.sample(items, k)


def mutants(s, rng, per=3):
    """all rule-directed mutants of a base schema (at most `per` positions per mutator)"""
    out = []

    def add(name, m):
        out.append((name, m))

    def pos(kind_list, what):
        """indices (ti, pi, fi) of fields"""
        r = []
        for ti, t in enumerate(s["types"]):
            if t["kind"] in kind_list:
                for pi, p in enumerate(parts(t)):
                    for fi in range(len(p[what])):
                        r.append((ti, pi, fi))
        return r

    def part_of(m, ti, pi):
        return parts(m["types"][ti])[pi]

    some_input = next((t["name"] for t in kinds(s, "input")), None)
    some_object = next((t["name"] for t in kinds(s, "object")), None)
    some_iface = next((t["name"] for t in kinds(s, "interface")), None)
    some_union = next((t["name"] for t in kinds(s, "union")), None)
    some_enum = next((t["name"] for t in kinds(s, "enum")), None)

    # --- *_nonempty: drop every field / value / member (definition and extensions)
    for ti, t in enumerate(s["types"]):
        key = {"object": "fields", "interface": "fields", "input": "fields", "enum": "values",
               "union": "members"}.get(t["kind"])
        if key is None:
            continue
        m = _cp(s)
        for p in parts(m["types"][ti]):
            p[key] = []
        add("nonempty/drop-all-%s/%s" % (key, t["name"]), m)
        # drop only the last one (stays valid unless it was inherited or referenced)
        m = _cp(s)
        lastp = [p for p in parts(m["types"][ti]) if p[key]]
        if lastp:
            lastp[-1][key].pop()
            add("nonempty/drop-last-%s/%s" % (key, t["name"]), m)

    # --- field_output_types / arg_input_types / input_field_types / dirdef_arg_types / undefined references
    repl_out = [x for x in [some_input] if x]
    repl_in = [x for x in [some_object, some_iface, some_union] if x]
    for (ti, pi, fi) in _limit(pos(["object", "interface"], "fields"), rng, per):
        for r in repl_out + ["Undefined"]:
            m = _cp(s)
            f = part_of(m, ti, pi)["fields"][fi]
            f["type"] = f["type"].replace(inner(f["type"]), r)
            add("field_output_types/%s/%s.%s" % (r, s["types"][ti]["name"], f["name"]), m)
    arg_pos = [(ti, pi, fi, ai) for (ti, pi, fi) in pos(["object", "interface"], "fields")
               for ai in range(len(parts(s["types"][ti])[pi]["fields"][fi]["args"]))]
    for (ti, pi, fi, ai) in _limit(arg_pos, rng, per):
        for r in repl_in + ["Undefined"]:
            m = _cp(s)
            a = part_of(m, ti, pi)["fields"][fi]["args"][ai]
            a["type"] = a["type"].replace(inner(a["type"]), r)
            a["default"] = None
            add("arg_input_types/%s/%s" % (r, a["name"]), m)
    for (ti, pi, fi) in _limit(pos(["input"], "fields"), rng, per):
        for r in repl_in + ["Undefined"]:
            m = _cp(s)
            a = part_of(m, ti, pi)["fields"][fi]
            a["type"] = a["type"].replace(inner(a["type"]), r)
            a["default"] = None
            add("input_field_types/%s/%s.%s" % (r, s["types"][ti]["name"], a["name"]), m)
    dd_pos = [(di, ai) for di, d in enumerate(s["dirdefs"]) for ai in range(len(d["args"]))]
    for (di, ai) in _limit(dd_pos, rng, per):
        for r in repl_in + ["Undefined"]:
            m = _cp(s)
            a = m["dirdefs"][di]["args"][ai]
            a["type"] = a["type"].replace(inner(a["type"]), r)
            a["default"] = None
            add("dirdef_arg_types/%s/@%s.%s" % (r, m["dirdefs"][di]["name"], a["name"]), m)

    # --- arg_unique
    for (ti, pi, fi, ai) in _limit(arg_pos, rng, 2):
        m = _cp(s)
        args = part_of(m, ti, pi)["fields"][fi]["args"]
        args.append(copy.deepcopy(args[ai]))
        add("arg_unique/field", m)
    for (di, ai) in _limit(dd_pos, rng, 2):
        m = _cp(s)
        m["dirdefs"][di]["args"].append(copy.deepcopy(m["dirdefs"][di]["args"][ai]))
        add("arg_unique/dirdef", m)

    # --- implements_targets / no_self_implement / transitive_interfaces
    for ti, t in enumerate(s["types"]):
        if t["kind"] not in ("object", "interface"):
            continue
        for bad in [x for x in [some_object, some_union, some_enum, "Undefined"] if x and x != t["name"]][:3]:
            m = _cp(s)
            m["types"][ti]["impls"].append(bad)
            add("implements_targets/%s/%s" % (bad, t["name"]), m)
        if t["kind"] == "interface":
            m = _cp(s)
            m["types"][ti]["impls"].append(t["name"])
            add("no_self_implement/%s" % t["name"], m)
        for pi, p in enumerate(parts(t)):
            for ii, i in enumerate(p["impls"]):
                m = _cp(s)
                part_of(m, ti, pi)["impls"].pop(ii)
                # violates transitivity exactly when another implemented interface implements i
                add("transitive_interfaces/remove-%s/%s" % (i, t["name"]), m)
        if t["kind"] == "object":
            # implement an interface without its parents / without its fields
            for it in kinds(s, "interface"):
                if it["name"] not in all_impls(t):
                    m = _cp(s)
                    m["types"][ti]["impls"].append(it["name"])
                    add("interface_fields_present/add-impl-%s/%s" % (it["name"], t["name"]), m)
                    break
    # an interface cycle A <-> B (needs two interfaces)
    ifs = kinds(s, "interface")
    if len(ifs) >= 2:
        a, b = ifs[0]["name"], ifs[1]["name"]
        m = _cp(s)
        get_type(m, a)["impls"].append(b)
        get_type(m, b)["impls"].append(a)
        add("no_self_implement/cycle-%s-%s" % (a, b), m)

    # --- interface contract: fields present, types, args, extra args
    for ti, t in enumerate(s["types"]):
        if t["kind"] not in ("object", "interface") or not all_impls(t):
            continue
        inherited = set()
        for i in all_impls(t):
            it = get_type(s, i)
            if it:
                inherited |= {f["name"] for f in all_fields(it)}
        for pi, p in enumerate(parts(t)):
            for fi, f in enumerate(p["fields"]):
                if f["name"] not in inherited:
                    continue
                m = _cp(s)
                part_of(m, ti, pi)["fields"].pop(fi)
                if not all_fields(m["types"][ti]):
                    part_of(m, ti, pi)["fields"].append(F("zz", "Int"))
                add("interface_fields_present/remove-%s/%s" % (f["name"], t["name"]), m)
                for nt in ["Int", "[Int]", f["type"].rstrip("!"), "[%s]" % f["type"], f["type"] + "!"]:
                    if nt == f["type"] or nt.endswith("!!"):
                        continue
                    m = _cp(s)
                    part_of(m, ti, pi)["fields"][fi]["type"] = nt
                    add("interface_field_types/%s->%s/%s.%s" % (f["type"], nt, t["name"], f["name"]), m)
                for ai, a in enumerate(f["args"]):
                    for nt in [a["type"] + "!", a["type"].rstrip("!"), "[%s]" % a["type"], "String", "Int"]:
                        if nt == a["type"] or nt.endswith("!!"):
                            continue
                        m = _cp(s)
                        x = part_of(m, ti, pi)["fields"][fi]["args"][ai]
                        x["type"] = nt
                        x["default"] = None
                        add("interface_field_args/type-%s->%s/%s.%s" % (a["type"], nt, t["name"], f["name"]), m)
                    m = _cp(s)
                    part_of(m, ti, pi)["fields"][fi]["args"].pop(ai)
                    add("interface_field_args/remove-%s/%s.%s" % (a["name"], t["name"], f["name"]), m)
                for extra in [A("zreq", "Int!"), A("zlist", "[Int]!"), A("zopt", "Int"), A("zdef", "Int!", "1"),
                              A("znulldef", "Int!", "null")]:
                    m = _cp(s)
                    part_of(m, ti, pi)["fields"][fi]["args"].append(extra)
                    add("interface_extra_args/%s/%s.%s" % (p_arg(extra).replace(" ", ""), t["name"], f["name"]), m)

    # --- unions
    for ti, t in enumerate(s["types"]):
        if t["kind"] != "union":
            continue
        for bad in [x for x in [some_iface, some_input, some_enum, "Int", t["name"], "Undefined"] if x]:
            m = _cp(s)
            m["types"][ti]["members"].append(bad)
            add("union_members_object/%s/%s" % (bad, t["name"]), m)
        if t["members"]:
            m = _cp(s)
            m["types"][ti]["members"].append(t["members"][0])
            add("build/duplicate-member/%s" % t["name"], m)

    # --- enums
    for ti, t in enumerate(s["types"]):
        if t["kind"] != "enum":
            continue
        for bad in ["true", "false", "null", "__X", "TRUE"]:
            m = _cp(s)
            m["types"][ti]["values"].append(V(bad))
            add(("reserved_names" if bad == "__X" else "enum_value_names") + "/%s/%s" % (bad, t["name"]), m)
        if t["values"]:
            m = _cp(s)
            m["types"][ti]["values"].append(V(t["values"][0]["name"]))
            add("build/duplicate-value/%s" % t["name"], m)

    # --- reserved names
    m = _cp(s)
    m["types"].append(T("object", "__Obj", fields=[F("a", "Int")]))
    add("reserved_names/type", m)
    m = _cp(s)
    m["types"].append(T("scalar", "__Sc"))
    add("reserved_names/scalar", m)
    m = _cp(s)
    m["dirdefs"].append(DD("__dir", [], ["FIELD"]))
    add("reserved_names/directive", m)
    m = _cp(s)
    m["dirdefs"].append(DD("okdir", [A("__a", "Int")], ["FIELD"]))
    add("reserved_names/directive-arg", m)
    m = _cp(s)
    m["dirdefs"].append(DD("_dir", [A("_a", "Int")], ["FIELD"]))
    add("reserved_names/single-underscore-ok", m)
    for (ti, pi, fi) in _limit(pos(["object", "interface"], "fields"), rng, 2):
        m = _cp(s)
        part_of(m, ti, pi)["fields"].append(F("__f", "Int"))
        add("reserved_names/field", m)
        m = _cp(s)
        part_of(m, ti, pi)["fields"][fi]["args"].append(A("__x", "Int"))
        add("reserved_names/arg", m)
    for (ti, pi, fi) in _limit(pos(["input"], "fields"), rng, 2):
        m = _cp(s)
        part_of(m, ti, pi)["fields"].append(A("__f", "Int"))
        add("reserved_names/input-field", m)

    # --- root operation types
    sd = s.get("schema_def")
    roots = dict(sd["roots"]) if sd else {}
    if sd:
        for dirs, r in sd["exts"]:
            roots.update(dict(r))
    qname = roots.get("query", "Query")
    m = _cp(s)
    if sd:
        m["schema_def"]["roots"] = [r for r in m["schema_def"]["roots"] if r[0] != "query"]
        if not m["schema_def"]["roots"]:
            m["schema_def"]["roots"] = [("mutation", some_object)]
    elif get_type(m, qname) is not None:
        get_type(m, qname)["name"] = "Qwery"
        for t in m["types"]:
            for p in parts(t):
                p["members"] = ["Qwery" if x == qname else x for x in p["members"]]
                for f in p["fields"]:
                    f["type"] = f["type"].replace(qname, "Qwery") if inner(f["type"]) == qname else f["type"]
    add("root_query/missing", m)
    for bad in [x for x in [some_iface, some_union, some_input, some_enum, "Int", "Undefined"] if x]:
        m = _cp(s)
        if m.get("schema_def") is None:
            m["schema_def"] = SD([("query", qname)])
            m.pop("orphan_schema_exts", None)
        m["schema_def"]["roots"] = [r for r in m["schema_def"]["roots"] if r[0] != "query"] + [("query", bad)]
        add("root_object/query-%s" % bad, m)
        m = _cp(s)
        if m.get("schema_def") is None:
            m["schema_def"] = SD([("query", qname)])
            m.pop("orphan_schema_exts", None)
        m["schema_def"]["roots"] = [r for r in m["schema_def"]["roots"] if r[0] != "subscription"] + [("subscription", bad)]
        add("root_object/subscription-%s" % bad, m)
    for op in ["mutation", "subscription"]:
        m = _cp(s)
        if m.get("schema_def") is None:
            m["schema_def"] = SD([("query", qname)])
            m.pop("orphan_schema_exts", None)
        m["schema_def"]["roots"] = [r for r in m["schema_def"]["roots"] if r[0] != op] + [(op, qname)]
        add("root_distinct/%s-is-query" % op, m)
    m = _cp(s)
    if m.get("schema_def") is None:
        m["schema_def"] = SD([("query", qname)])
        m.pop("orphan_schema_exts", None)
    other = next((t["name"] for t in kinds(s, "object") if t["name"] != qname), qname)
    m["schema_def"]["roots"] = [("query", qname), ("mutation", other), ("subscription", other)]
    add("root_distinct/mutation-is-subscription", m)
    m = _cp(s)
    if m.get("schema_def") is not None:
        m["schema_def"]["roots"].append(m["schema_def"]["roots"][0])
        add("build/duplicate-root", m)

    # --- input cycles (fresh types added to the base)
    for nm, m in input_cycle_parts():
        mm = _cp(s)
        mm["types"] += m
        add("input_no_nonnull_cycle/" + nm, mm)

    # --- directive definitions referencing themselves
    for nm, dds, tys in directive_cycle_parts():
        mm = _cp(s)
        mm["dirdefs"] += dds
        mm["types"] += tys
        add("dirdef_no_self_ref/" + nm, mm)

    # --- applied directives: defined, location, unique, known args, arg unique, required, values
    sites = directive_sites(s)
    for loc, getter in _limit(sites, rng, 8):
        m = _cp(s)
        getter(m).append(D("undefinedDirective"))
        add("dir_defined/%s" % loc, m)
        # a directive that is defined but not for this location
        m = _cp(s)
        others = [l for l in TS_LOCS if l != loc]
        m["dirdefs"].append(DD("elsewhere", [], others))
        getter(m).append(D("elsewhere"))
        add("dir_location/%s" % loc, m)
        m = _cp(s)
        m["dirdefs"].append(DD("execOnly", [], ["FIELD", "QUERY", "FRAGMENT_SPREAD"]))
        getter(m).append(D("execOnly"))
        add("dir_location/executable-only/%s" % loc, m)
        m = _cp(s)
        m["dirdefs"].append(DD("once", [A("a", "Int")], [loc]))
        getter(m).extend([D("once"), D("once", ("a", "1"))])
        add("dir_unique/%s" % loc, m)
        m = _cp(s)
        m["dirdefs"].append(DD("many", [A("a", "Int")], [loc], repeatable=True))
        getter(m).extend([D("many"), D("many", ("a", "1")), D("many")])
        add("dir_unique/repeatable-ok/%s" % loc, m)
        m = _cp(s)
        m["dirdefs"].append(DD("needs", [A("a", "Int!"), A("b", "Int!", "1"), A("c", "Int")], [loc]))
        getter(m).append(D("needs", ("a", "1")))
        add("dir_required_args/ok/%s" % loc, m)
        for nm, args in [("omitted", []), ("null", [("a", "null")]), ("other-only", [("c", "1")]),
                         ("default-null", [("a", "1"), ("b", "null")])]:
            m = _cp(s)
            m["dirdefs"].append(DD("needs", [A("a", "Int!"), A("b", "Int!", "1"), A("c", "Int")], [loc]))
            getter(m).append(D("needs", *args))
            add("dir_required_args/%s/%s" % (nm, loc), m)
        m = _cp(s)
        m["dirdefs"].append(DD("needs", [A("a", "Int")], [loc]))
        getter(m).append(D("needs", ("zzz", "1")))
        add("dir_known_args/%s" % loc, m)
        m = _cp(s)
        m["dirdefs"].append(DD("needs", [A("a", "Int")], [loc]))
        getter(m).append(D("needs", ("a", "1"), ("a", "1")))
        add("dir_arg_unique/%s" % loc, m)
        for ty, val in [("Int", '"s"'), ("String", "1"), ("Boolean", "0"), ("[Int]", '["a"]'), ("Int!", "null"),
                        ("Float", "true"), ("ID", "1.5"), ("Int", "2147483648"), ("Int", "1"), ("[Int]", "1"),
                        ("ID", "1")]:
            m = _cp(s)
            m["dirdefs"].append(DD("typed", [A("a", ty)], [loc]))
            getter(m).append(D("typed", ("a", val)))
            add("dir_arg_values/%s=%s/%s" % (ty, val, loc), m)

    # --- default values (documented difference: not validated)
    for (ti, pi, fi, ai) in _limit(arg_pos, rng, 2):
        for dv in ['"wrong"', "null", "{a: 1}", "[[1]]", "UNKNOWN"]:
            m = _cp(s)
            part_of(m, ti, pi)["fields"][fi]["args"][ai]["default"] = dv
            add("default_values/arg=%s" % dv, m)
    for (ti, pi, fi) in _limit(pos(["input"], "fields"), rng, 2):
        for dv in ['"wrong"', "1.5", "{zz: 1}", "[true]"]:
            m = _cp(s)
            part_of(m, ti, pi)["fields"][fi]["default"] = dv
            add("default_values/input-field=%s" % dv, m)

    # --- built-in definitions
    m = _cp(s)
    if not any(d["name"] == "skip" for d in m["dirdefs"]):
        m["dirdefs"].append(DD("skip", [A("if", "Boolean!"), A("why", "String")],
                               ["FIELD", "FRAGMENT_SPREAD", "INLINE_FRAGMENT", "OBJECT"]))
        if some_object:
            get_type(m, some_object)["dirs"].append(D("skip", ("if", "true"), ("why", '"x"')))
        add("builtin_redefinition/skip-once", m)
        m = _cp(m)
        m["dirdefs"].append(DD("skip", [A("if", "Boolean!")], ["FIELD"]))
        add("build/skip-twice", m)
    m = _cp(s)
    m["types"].append(T("scalar", "Int"))
    add("build/scalar-Int", m)
    m = _cp(s)
    m["types"].append(T("object", "__Type", fields=[F("a", "Int")]))
    add("build/redefine-__Type", m)
    return out


TS_LOCS = ["SCHEMA", "SCALAR", "OBJECT", "FIELD_DEFINITION", "ARGUMENT_DEFINITION", "INTERFACE", "UNION", "ENUM",
           "ENUM_VALUE", "INPUT_OBJECT", "INPUT_FIELD_DEFINITION"]


def directive_sites(s):
    """(location, getter(schema copy) -> the directive list) for every place a directive can be applied"""
    sites = []
    if s.get("schema_def") is not None:
        sites.append(("SCHEMA", lambda m: m["schema_def"]["dirs"]))
    loc_of = {"scalar": "SCALAR", "object": "OBJECT", "interface": "INTERFACE", "union": "UNION", "enum": "ENUM",
              "input": "INPUT_OBJECT"}
    for ti, t in enumerate(s["types"]):
        for pi, p in enumerate(parts(t)):
            sites.append((loc_of[t["kind"]], lambda m, ti=ti, pi=pi: parts(m["types"][ti])[pi]["dirs"]))
            if t["kind"] in ("object", "interface"):
                for fi, f in enumerate(p["fields"]):
                    sites.append(("FIELD_DEFINITION",
                                  lambda m, ti=ti, pi=pi, fi=fi: parts(m["types"][ti])[pi]["fields"][fi]["dirs"]))
                    for ai in range(len(f["args"])):
                        sites.append(("ARGUMENT_DEFINITION",
                                      lambda m, ti=ti, pi=pi, fi=fi, ai=ai:
                                      parts(m["types"][ti])[pi]["fields"][fi]["args"][ai]["dirs"]))
            if t["kind"] == "input":
                for fi in range(len(p["fields"])):
                    sites.append(("INPUT_FIELD_DEFINITION",
                                  lambda m, ti=ti, pi=pi, fi=fi: parts(m["types"][ti])[pi]["fields"][fi]["dirs"]))
            if t["kind"] == "enum":
                for vi in range(len(p["values"])):
                    sites.append(("ENUM_VALUE",
                                  lambda m, ti=ti, pi=pi, vi=vi: parts(m["types"][ti])[pi]["values"][vi]["dirs"]))
    for di, d in enumerate(s["dirdefs"]):
        for ai in range(len(d["args"])):
            sites.append(("ARGUMENT_DEFINITION", lambda m, di=di, ai=ai: m["dirdefs"][di]["args"][ai]["dirs"]))
    # one of each location first, so that a small sample still covers all locations
    seen, first, rest = set(), [], []
    for x in sites:
        (rest if x[0] in seen else first).append(x)
        seen.add(x[0])
    return first + rest


LINKS = ["%s!", "%s", "[%s!]!", "[%s]", "[%s!]"]


def input_cycle_parts():
    """input object chains Z0 -> Z1 -> ... -> Z0 of length 1..3, every combination of link types
    (non-null singular / nullable / lists), plus cycles that do not go through the first type"""
    out = []
    import itertools
    for n in (1, 2, 3):
        for combo in itertools.product(range(len(LINKS)), repeat=n):
            if n == 3 and sum(1 for c in combo if c >= 2) > 1 and combo[0] != 0:
                continue
            tys = []
            for k in range(n):
                nxt = "Zc%d" % ((k + 1) % n)
                tys.append(T("input", "Zc%d" % k, fields=[A("pad", "Int"), A("next", LINKS[combo[k]] % nxt)]))
            out.append(("len%d-%s" % (n, "".join(str(c) for c in combo)), tys))
    # a tail leading into a cycle: Za -> Zb -> Zb
    out.append(("tail-into-cycle", [T("input", "Za", fields=[A("b", "Zb!")]),
                                    T("input", "Zb", fields=[A("b", "Zb!"), A("x", "Int")])]))
    # a diamond without a cycle
    out.append(("diamond-ok", [T("input", "Za", fields=[A("b", "Zb!"), A("c", "Zc!")]),
                               T("input", "Zb", fields=[A("d", "Zd!")]), T("input", "Zc", fields=[A("d", "Zd!")]),
                               T("input", "Zd", fields=[A("x", "Int"), A("back", "Za")])]))
    # second field closes the cycle, first is harmless; a default value does not break a cycle
    out.append(("second-field", [T("input", "Za", fields=[A("x", "Zb"), A("y", "Zb!")]),
                                 T("input", "Zb", fields=[A("x", "[Za!]!"), A("y", "Za!")])]))
    out.append(("with-default", [T("input", "Za", fields=[A("a", "Za!", "{}")])]))
    # a non-null reference to something that is not an input object
    out.append(("through-undefined", [T("input", "Za", fields=[A("a", "Zundefined!")])]))
    return out


def directive_cycle_parts():
    out = []
    out.append(("direct", [DD("zd", [A("a", "Int", None, [D("zd")])], ["ARGUMENT_DEFINITION"])], []))
    out.append(("two-step", [DD("zd", [A("a", "Int", None, [D("ze")])], ["ARGUMENT_DEFINITION"]),
                             DD("ze", [A("a", "Int", None, [D("zd")])], ["ARGUMENT_DEFINITION"])], []))
    out.append(("via-input-field", [DD("zd", [A("a", "Zi")], ["INPUT_FIELD_DEFINITION"])],
                [T("input", "Zi", fields=[A("x", "Int", None, [D("zd")])])]))
    out.append(("via-input-type", [DD("zd", [A("a", "[Zi!]")], ["INPUT_OBJECT"])],
                [T("input", "Zi", dirs=[D("zd")], fields=[A("x", "Int")])]))
    out.append(("via-nested-input", [DD("zd", [A("a", "Zi")], ["INPUT_OBJECT"])],
                [T("input", "Zi", fields=[A("x", "Zj")]), T("input", "Zj", dirs=[D("zd")], fields=[A("x", "Zi")])]))
    out.append(("via-enum", [DD("zd", [A("a", "Ze")], ["ENUM"])],
                [T("enum", "Ze", dirs=[D("zd")], values=[V("A")])]))
    out.append(("via-enum-value", [DD("zd", [A("a", "Ze")], ["ENUM_VALUE"])],
                [T("enum", "Ze", values=[V("A"), V("B", [D("zd")])])]))
    out.append(("via-scalar", [DD("zd", [A("a", "Zs!")], ["SCALAR"])], [T("scalar", "Zs", dirs=[D("zd")])]))
    out.append(("uses-cyclic-other", [DD("zd", [A("a", "Int", None, [D("ze")])], ["ARGUMENT_DEFINITION"]),
                                      DD("ze", [A("a", "Int", None, [D("ze")])], ["ARGUMENT_DEFINITION"])], []))
    out.append(("no-cycle-chain-ok", [DD("zd", [A("a", "Zi", None, [D("ze")])], ["INPUT_FIELD_DEFINITION"]),
                                      DD("ze", [A("a", "Int")], ["ARGUMENT_DEFINITION", "INPUT_FIELD_DEFINITION"])],
                [T("input", "Zi", fields=[A("x", "Zi", None, [D("ze")]), A("y", "Int")])]))
    out.append(("on-field-of-unrelated-type-ok", [DD("zd", [A("a", "Int")], ["FIELD_DEFINITION"])],
                [T("object", "Zo", fields=[F("x", "Int", [], [D("zd", ("a", "1"))])])]))
    out.append(("recursive-input-no-directive-ok", [DD("zd", [A("a", "Zi")], ["FIELD"])],
                [T("input", "Zi", fields=[A("x", "Zi"), A("y", "[Zi!]")])]))
    return out


# ------------------------------------------------------------------ fixed matrices

VALUE_SUPPORT = """
scalar Sc
enum En { A B }
input Io { req: Int! opt: Int def: Int! = 1 nested: Io list: [Int!] en: En }
type Query { a: Int @d(x: %s) }
"""

VALUE_TYPES = ["Int", "Int!", "[Int]", "[Int!]", "[Int]!", "[[Int]]", "[[Int!]!]!", "Float", "String", "Boolean",
               "ID", "Sc", "[Sc]", "En", "[En!]", "Io", "Io!", "[Io]"]
VALUES = ["1", "-1", "0", "2147483647", "2147483648", "-2147483648", "-2147483649", "1.5", "1e3", "1e400",
          "-1e400", "123456789012345678901234567890", '"s"', '""', '"""b"""', "true", "false", "null", "A", "C",
          "[]", "[1]", "[null]", "[1, null]", "[[1]]", "[[1], [null]]", "[[[1]]]", '[1, "a"]', "[A]", "[A, C]",
          "{}", "{req: 1}", "{req: null}", "{req: 1, opt: null}", "{req: 1, zz: 1}", "{req: 1, req: 2}",
          '{req: "1"}', "{req: 1, nested: {req: 2}}", "{req: 1, nested: {}}", "{req: 1, list: 1}",
          "{req: 1, list: [null]}", "{req: 1, en: A}", '{req: 1, en: "A"}', "{req: 1, def: null}", "[{req: 1}]",
          "{opt: 1}", "$v"]


def value_matrix():
    out = []
    for ty in VALUE_TYPES:
        for v in VALUES:
            src = "directive @d(x: %s) on FIELD_DEFINITION" % ty + VALUE_SUPPORT % v
            out.append(("matrix/value/%s=%s" % (ty, v), src))
    return out


COV_SUPPORT = """
interface Node { id: ID }
interface Named implements Node { id: ID n: Int }
type Obj implements Named & Node { id: ID n: Int }
type Other { x: Int }
union Uni = Obj | Other
enum En { A }
type Query { a: Int }
"""
COV_NAMES = ["Int", "String", "Node", "Named", "Obj", "Other", "Uni", "En"]


def covariance_matrix():
    """interface field type x implementing field type"""
    out = []
    wraps = ["%s", "%s!", "[%s]", "[%s!]", "[%s]!", "[[%s]]"]
    its = [w % n for n in ["Int", "Node", "Uni", "Named"] for w in wraps]
    for it in its:
        base = inner(it)
        cands = {"Int": ["Int", "String", "En"], "Node": ["Node", "Named", "Obj", "Other", "Uni"],
                 "Uni": ["Uni", "Obj", "Other", "Node"], "Named": ["Named", "Obj", "Node"]}[base]
        for c in cands:
            for w in wraps:
                ft = w % c
                src = COV_SUPPORT + "interface I { f: %s }\ntype T implements I { f: %s }\n" % (it, ft)
                out.append(("matrix/covariance/%s<-%s" % (it, ft), src))
                if c in ("Node", "Named"):
                    src = COV_SUPPORT + "interface I { f: %s }\ninterface J implements I { f: %s }\n" % (it, ft)
                    out.append(("matrix/covariance-iface/%s<-%s" % (it, ft), src))
    return out


def args_matrix():
    """interface field arguments x implementing field arguments"""
    out = []
    iargs = ["", "(a: Int)", "(a: Int!)", "(a: [Int])", "(a: Int, b: String)", "(a: Int = 1)"]
    targs = ["", "(a: Int)", "(a: Int!)", "(a: [Int])", "(a: String)", "(a: Int, b: String)", "(b: String, a: Int)",
             "(a: Int = 1)", "(a: Int, c: Int)", "(a: Int, c: Int!)", "(a: Int, c: Int! = 1)", "(a: Int!, b: String)",
             "(c: [Int]!)", "(a: Int, b: String, c: [Int!] = [1])", "(a: Int = 2)", "(a: Int! = 2)"]
    for ia in iargs:
        for ta in targs:
            src = "type Query { a: Int }\ninterface I { f%s: Int }\ntype T implements I { f%s: Int }\n" % (ia, ta)
            out.append(("matrix/args/%s<-%s" % (ia or "()", ta or "()"), src))
    return out


def transitive_matrix():
    out = []
    decl = {"A": [""], "B": ["", "A"], "C": ["", "A", "B", "B & A", "A & B"],
            "T": ["", "A", "B", "C", "A & B", "B & C", "A & C", "A & B & C", "C & B & A"]}
    import itertools
    for b, c, t in itertools.product(decl["B"], decl["C"], decl["T"]):
        def imp(x):
            return " implements " + x if x else ""
        src = ("type Query { a: Int }\ninterface A { a: Int }\ninterface B%s { a: Int b: Int }\n"
               "interface C%s { a: Int b: Int c: Int }\ntype T%s { a: Int b: Int c: Int }\n" % (imp(b), imp(c), imp(t)))
        out.append(("matrix/transitive/B:%s;C:%s;T:%s" % (b, c, t), src))
    return out


def handwritten():
    """small schemas aimed at single rules and at corners the mutators do not produce"""
    c = [
        ("hand/minimal", "type Query { a: Int }"),
    ]
    # every component kind declared twice: inside one definition, inside one extension, and across
    # definition + extension / extension + extension (uniqueness is enforced while BUILDING the schema)
    pre = "type Query { a: Int } interface I { a: Int } "
    dup = {
        "object-implements": ("type T implements I%s { a: Int }", "extend type T implements I%s", " & I"),
        "interface-implements": ("interface X implements I%s { a: Int }", "extend interface X implements I%s", " & I"),
        "object-field": ("type T { a: Int%s }", "extend type T { a: Int%s }", " a: Int"),
        "interface-field": ("interface X { a: Int%s }", "extend interface X { a: Int%s }", " a: Int"),
        "input-field": ("input In { a: Int%s }", "extend input In { a: Int%s }", " a: Int"),
        "enum-value": ("enum E { A%s }", "extend enum E { A%s }", " A"),
        "union-member": ("union U = Query%s", "extend union U = Query%s", " | Query"),
    }
    for k, (d, e, again) in sorted(dup.items()):
        c.append(("dup/%s-in-definition" % k, pre + d % again))
        c.append(("dup/%s-in-extension" % k, pre + d % "" + " " + (e % again).replace("a: Int", "b: Int").replace("{ A", "{ B").replace("= Query", "= T2") + " type T2 { a: Int }"))
        c.append(("dup/%s-definition-and-extension" % k, pre + d % "" + " " + e % ""))
        c.append(("dup/%s-extension-and-extension" % k, pre + d % "" + " " + (e % "").replace("a: Int", "b: Int").replace("{ A", "{ B").replace("= Query", "= T2") + " " + (e % "").replace("a: Int", "b: Int").replace("{ A", "{ B").replace("= Query", "= T2") + " type T2 { a: Int }"))
        c.append(("dup/%s-none" % k, pre + d % ""))
    c += [
        ("dup/root-operation-in-extension", "schema { query: Query } extend schema { query: Query } type Query { a: Int }"),
        ("dup/directive-definition", "directive @d on OBJECT directive @d on OBJECT type Query { a: Int }"),
        ("dup/type-definition", "type Query { a: Int } type Query { b: Int }"),
        ("dup/argument-definition", "type Query { a(x: Int, x: Int): Int }"),
        ("dup/directive-argument-definition", "directive @d(x: Int, x: Int) on OBJECT type Query { a: Int }"),
    ]
    c += [
        ("hand/empty-document", ""),
        ("hand/only-scalar", "scalar S"),
        ("hand/schema-without-query", "schema { mutation: M } type M { a: Int }"),
        ("hand/extend-schema-adds-query", "schema { mutation: M } extend schema { query: Q } type M { a: Int } type Q { a: Int }"),
        ("hand/implicit-subscription-only", "type Subscription { a: Int }"),
        ("hand/query-named-type-not-object", "interface Query { a: Int }"),
        ("hand/query-is-union", "union Query = A type A { a: Int }"),
        ("hand/input-as-query", "input Query { a: Int }"),
        ("hand/object-implements-object", "type Query implements Query { a: Int }"),
        ("hand/iface-self", "type Query { a: Int } interface I implements I { a: Int }"),
        ("hand/iface-cycle-declared", "type Query { a: Int } interface A implements B & A { a: Int } interface B implements A & B { a: Int }"),
        ("hand/iface-cycle-undeclared", "type Query { a: Int } interface A implements B { a: Int } interface B implements A { a: Int }"),
        ("hand/union-of-union", "type Query { a: Int } union U = V union V = Query"),
        ("hand/union-member-self", "type Query { a: Int } union U = U"),
        ("hand/field-type-union-list", "type Query { a: [[U!]!]! } union U = Query"),
        ("hand/arg-type-nested-list-output", "type Query { a(x: [[Query]]): Int }"),
        ("hand/input-field-interface", "type Query { a: Int } interface I { a: Int } input In { i: I }"),
        ("hand/enum-as-output-and-input", "type Query { a(e: E = A): E } enum E { A }"),
        ("hand/deprecated-on-object", "type Query @deprecated { a: Int }"),
        ("hand/deprecated-on-input-field", "type Query { a(i: In): Int } input In { x: Int @deprecated(reason: \"r\") }"),
        ("hand/specifiedBy-missing-url", "type Query { a: S } scalar S @specifiedBy"),
        ("hand/specifiedBy-on-object", "type Query @specifiedBy(url: \"u\") { a: Int }"),
        ("hand/skip-on-field-definition", "type Query { a: Int @skip(if: true) }"),
        ("hand/include-twice-exec-only", "type Query { a: Int @include(if: true) @include(if: false) }"),
        ("hand/dirdef-no-locations-use", "directive @d on FIELD_DEFINITION | FIELD_DEFINITION type Query { a: Int @d }"),
        ("hand/dirdef-arg-default-wrong", "directive @d(a: Int = \"x\") on FIELD_DEFINITION type Query { a: Int @d }"),
        ("hand/dir-arg-enum-for-string", "directive @d(a: String) on FIELD_DEFINITION type Query { a: Int @d(a: RED) }"),
        ("hand/dir-arg-string-for-enum", "directive @d(a: E) on FIELD_DEFINITION enum E { RED } type Query { a: Int @d(a: \"RED\") }"),
        ("hand/dir-arg-object-for-scalar", "directive @d(a: S) on FIELD_DEFINITION scalar S type Query { a: Int @d(a: {x: [1, {y: null}]}) }"),
        ("hand/dir-arg-variable-in-custom-scalar", "directive @d(a: S) on FIELD_DEFINITION scalar S type Query { a: Int @d(a: {x: $v}) }"),
        ("hand/dir-arg-output-type", "directive @d(a: Query) on FIELD_DEFINITION type Query { a: Int @d(a: {a: 1}) }"),
        ("hand/dir-arg-undefined-type", "directive @d(a: Zzz) on FIELD_DEFINITION type Query { a: Int @d(a: 1) }"),
        ("hand/dir-on-dirdef-arg-wrong-loc", "directive @d(a: Int @e) on FIELD directive @e on FIELD_DEFINITION type Query { a: Int }"),
        ("hand/dir-on-dirdef-arg-required", "directive @d(a: Int @e) on FIELD directive @e(x: Int!) on ARGUMENT_DEFINITION type Query { a: Int }"),
        ("hand/dir-before-definition", "type Query { a: Int @late(x: 1) } directive @late(x: Int!) on FIELD_DEFINITION"),
        ("hand/ext-dir-repeats-def-dir", "directive @once on OBJECT type Query @once { a: Int } extend type Query @once"),
        ("hand/ext-field-collides", "type Query { a: Int } extend type Query { a: Int }"),
        ("hand/ext-wrong-kind", "type Query { a: Int } extend interface Query { b: Int }"),
        ("hand/ext-orphan", "type Query { a: Int } extend type Nope { b: Int }"),
        ("hand/ext-adds-interface-without-fields", "type Query { a: Int } interface I { x: Int } extend type Query implements I"),
        ("hand/ext-adds-interface-with-fields", "type Query { a: Int } interface I { x: Int } extend type Query implements I { x: Int }"),
        ("hand/ext-only-fields", "type Query extend type Query { a: Int }"),
        ("hand/input-cycle-via-ext", "type Query { a: Int } input A { x: Int } extend input A { a: A! }"),
        ("hand/input-nonnull-list-cycle", "type Query { a: Int } input A { a: [A]! }"),
        ("hand/two-schema-definitions", "schema { query: Query } schema { query: Query } type Query { a: Int }"),
        ("hand/duplicate-type", "type Query { a: Int } type Query { b: Int }"),
        ("hand/duplicate-field", "type Query { a: Int a: Int }"),
        ("hand/duplicate-input-field", "type Query { a: Int } input I { a: Int a: Int }"),
        ("hand/duplicate-implements", "type Query implements I & I { a: Int } interface I { a: Int }"),
        ("hand/duplicate-directive-definition", "directive @d on FIELD directive @d on FIELD type Query { a: Int }"),
        ("hand/executable-definition", "type Query { a: Int } query { a }"),
        ("hand/field-named-like-type", "type Query { Query: Query }"),
        ("hand/arg-required-on-iface-and-impl", "type Query { a: Int } interface I { f(a: Int!): Int } type T implements I { f(a: Int!): Int }"),
        ("hand/impl-arg-default-differs", "type Query { a: Int } interface I { f(a: Int = 1): Int } type T implements I { f(a: Int = 2): Int }"),
        ("hand/impl-field-through-two-interfaces", "type Query { a: Int } interface I { f: Int } interface J { f: Int! } type T implements I & J { f: Int! }"),
        ("hand/impl-field-conflicting-interfaces", "type Query { a: Int } interface I { f: Int } interface J { f: String } type T implements I & J { f: Int }"),
        ("hand/subtype-through-parent-only", "type Query { a: Int } interface N { a: Int } interface M implements N { a: Int } type O implements M & N { a: Int } interface I { f: N } type T implements I { f: O }"),
        ("hand/subtype-not-declared-transitively", "type Query { a: Int } interface N { a: Int } interface M implements N { a: Int } type O implements M { a: Int } interface I { f: N } type T implements I { f: O }"),
        # --- every object literal has unique field names (5.6.3), whatever type is expected
        ("hand/dup-field-in-scalar-top", "directive @d(a: Sc) on FIELD_DEFINITION scalar Sc type Query { a: Int @d(a: {b: 1, b: 2}) }"),
        ("hand/dup-field-in-scalar-nested", "directive @d(a: Sc) on FIELD_DEFINITION scalar Sc type Query { a: Int @d(a: {x: {b: 1, b: 2}}) }"),
        ("hand/dup-field-in-scalar-list", "directive @d(a: Sc) on FIELD_DEFINITION scalar Sc type Query { a: Int @d(a: [[{b: 1, b: 2}]]) }"),
        ("hand/dup-field-in-scalar-object-list", "directive @d(a: Sc) on FIELD_DEFINITION scalar Sc type Query { a: Int @d(a: {x: [{b: 1, b: 2}]}) }"),
        ("hand/dup-field-in-scalar-field-of-input", "directive @d(a: Io) on FIELD_DEFINITION input Io { b: Int s: Sc } scalar Sc type Query { a: Int @d(a: {b: 1, s: {x: 1, x: 2}}) }"),
        ("hand/dup-field-in-scalar-field-of-input-nested", "directive @d(a: Io) on FIELD_DEFINITION input Io { b: Int s: Sc } scalar Sc type Query { a: Int @d(a: {b: 1, s: {y: {x: 1, x: 2}}}) }"),
        ("hand/dup-field-in-list-of-input", "directive @d(a: [Io]) on FIELD_DEFINITION input Io { b: Int } type Query { a: Int @d(a: [{b: 1, b: 2}]) }"),
        ("hand/dup-field-unknown-arg", "directive @d(a: Int) on FIELD_DEFINITION type Query { a: Int @d(zz: {x: 1, x: 2}) }"),
        ("hand/dup-field-in-default", "type Query { a(x: Sc = {a: 1, a: 2}): Int } scalar Sc"),
        # --- extensions of built-in definitions
        ("hand/builtin-ext/scalar-specifiedBy", "type Query { a: Int } extend scalar Int @specifiedBy(url: \"x\")"),
        ("hand/builtin-ext/scalar-undefined-directive", "type Query { a: Int } extend scalar Int @nope"),
        ("hand/builtin-ext/scalar-wrong-location", "type Query { a: Int } extend scalar String @deprecated"),
        ("hand/builtin-ext/scalar-repeated", "type Query { a: Int } extend scalar ID @specifiedBy(url: \"x\") @specifiedBy(url: \"y\")"),
        ("hand/builtin-ext/scalar-missing-arg", "type Query { a: Int } extend scalar Float @specifiedBy"),
        ("hand/builtin-ext/custom-scalar-undefined-directive", "type Query { a: S } scalar S extend scalar S @nope"),
        ("hand/builtin-ext/type-undefined-directive", "type Query { a: Int } extend type __Type @nope"),
        ("hand/builtin-ext/type-field", "type Query { a: Int } extend type __Schema { foo: Int }"),
        ("hand/builtin-ext/type-field-undefined-type", "type Query { a: Int } extend type __Type { x: Zzz }"),
        ("hand/builtin-ext/type-reserved-field", "type Query { a: Int } extend type __Type { __x: Int }"),
        ("hand/builtin-ext/enum-reserved-value", "type Query { a: Int } extend enum __TypeKind { __X }"),
        ("hand/builtin-ext/enum-value", "type Query { a: Int } extend enum __TypeKind { X }"),
        ("hand/builtin-refs", "type Query { t: __Type k(k: __TypeKind): __TypeKind }"),
        ("hand/builtin-root", "schema { query: __Schema }"),
        ("hand/reserved-typename-field", "type Query { __typename: Int }"),
        ("hand/schema-ext-directive", "directive @d on SCHEMA type Query { a: Int } extend schema @d"),
        ("hand/schema-ext-directive-twice", "directive @d on SCHEMA type Query { a: Int } extend schema @d @d"),
        ("hand/schema-ext-directive-repeats-def", "directive @d on SCHEMA schema @d { query: Query } type Query { a: Int } extend schema @d"),
        ("hand/schema-ext-directive-wrong-loc", "type Query { a: Int } extend schema @deprecated"),
        ("hand/enum-ext-value-directive-wrong-type", "type Query { a: Int } enum E { A } extend enum E { B @deprecated(reason: 1) }"),
        ("hand/iface-ext-adds-field-missing-in-impl", "type Query { a: Int } type T implements I { f: Int } interface I { f: Int } extend interface I { g: Int }"),
    ]
    return [(t, s + "\n") for t, s in c]


# ------------------------------------------------------------------ repairing mutations (C15 hill-climbing)

MUTATOR_DIRECTIVES = {"undefinedDirective", "elsewhere", "execOnly", "once", "needs", "typed", "zd", "ze"}


def _roots(s):
    sd = s.get("schema_def")
    if sd is None:
        return {op: n for op, n in (("query", "Query"), ("mutation", "Mutation"), ("subscription", "Subscription"))
                if get_type(s, n) is not None and get_type(s, n)["kind"] == "object"}
    r = dict(sd["roots"])
    for _, rr in sd["exts"]:
        r.update(dict(rr))
    return r


def _each_dirlist(s):
    """every list of applied directives in the schema"""
    sd = s.get("schema_def")
    if sd is not None:
        yield sd["dirs"]
        for dirs, _ in sd["exts"]:
            yield dirs
    for dirs, _ in s.get("orphan_schema_exts", []):
        yield dirs
    for t in s["types"]:
        for p in parts(t):
            yield p["dirs"]
            for f in p["fields"]:
                yield f["dirs"]
                for a in f.get("args", []):
                    yield a["dirs"]
            for v in p["values"]:
                yield v["dirs"]
    for d in s["dirdefs"]:
        for a in d["args"]:
            yield a["dirs"]


def repair(s, rule, rng):
    """one repairing mutation aimed at the specification rule `rule`; None when it does not apply.
    Repairs choose a *different* way back into validity than undoing the mutation where they can."""
    m = _cp(s)
    objs = [t["name"] for t in kinds(m, "object")]
    if rule in ("fields_nonempty", "input_nonempty", "enum_nonempty", "union_nonempty"):
        done = False
        for t in m["types"]:
            key = {"object": "fields", "interface": "fields", "input": "fields", "enum": "values",
                   "union": "members"}.get(t["kind"])
            if key and not any(p[key] for p in parts(t)):
                target = t["exts"][0] if t["exts"] and rng.random() < 0.5 else t
                if t["kind"] in ("object", "interface"):
                    target["fields"].append(F("fixed", "Int"))
                elif t["kind"] == "input":
                    target["fields"].append(A("fixed", "Int"))
                elif t["kind"] == "enum":
                    target["values"].append(V("FIXED"))
                elif objs:
                    target["members"].append(objs[0])
                done = True
        return m if done else None
    if rule in ("field_output_types", "arg_input_types", "input_field_types", "dirdef_arg_types"):
        out_ok = {t["name"] for t in m["types"] if t["kind"] != "input"} | set(BUILTIN_SCALARS)
        in_ok = {t["name"] for t in m["types"] if t["kind"] in ("scalar", "enum", "input")} | set(BUILTIN_SCALARS)
        for t in m["types"]:
            for p in parts(t):
                for f in p["fields"]:
                    ok = in_ok if t["kind"] == "input" else out_ok
                    if inner(f["type"]) not in ok:
                        f["type"] = f["type"].replace(inner(f["type"]), rng.choice(["Int", "String", "ID"]))
                        if "default" in f:
                            f["default"] = None
                    for a in f.get("args", []):
                        if inner(a["type"]) not in in_ok:
                            a["type"] = a["type"].replace(inner(a["type"]), "Int")
                            a["default"] = None
        for d in m["dirdefs"]:
            for a in d["args"]:
                if inner(a["type"]) not in in_ok:
                    a["type"] = a["type"].replace(inner(a["type"]), "Int")
                    a["default"] = None
        return m
    if rule == "arg_unique":
        def dedup(args):
            seen, out = set(), []
            for a in args:
                if a["name"] not in seen:
                    out.append(a)
                seen.add(a["name"])
            return out
        for t in m["types"]:
            for p in parts(t):
                for f in p["fields"]:
                    if "args" in f:
                        f["args"] = dedup(f["args"])
        for d in m["dirdefs"]:
            d["args"] = dedup(d["args"])
        return m
    if rule in ("implements_targets", "no_self_implement"):
        ifs = {t["name"] for t in kinds(m, "interface")}
        for t in m["types"]:
            for p in parts(t):
                p["impls"] = [i for i in p["impls"] if i in ifs and i != t["name"]]
        return m
    if rule == "transitive_interfaces":
        for t in m["types"]:
            if t["kind"] in ("object", "interface"):
                for i in list(all_impls(t)):
                    it = get_type(m, i)
                    if it is None:
                        continue
                    for j in all_impls(it):
                        if j not in all_impls(t) and j != t["name"]:
                            (t["exts"][0] if t["exts"] and rng.random() < 0.3 else t)["impls"].append(j)
        return m
    if rule in ("interface_fields_present", "interface_field_types", "interface_field_args",
                "interface_extra_args"):
        for t in m["types"]:
            if t["kind"] not in ("object", "interface"):
                continue
            for i in all_impls(t):
                it = get_type(m, i)
                if it is None or it["kind"] != "interface":
                    continue
                for ifd in all_fields(it):
                    mine = next((f for f in all_fields(t) if f["name"] == ifd["name"]), None)
                    if mine is None:
                        if rule == "interface_fields_present":
                            g = copy.deepcopy(ifd)
                            g["dirs"] = []
                            for a in g["args"]:
                                a["dirs"] = []
                            t["fields"].append(g)
                        continue
                    if rule == "interface_field_types":
                        mine["type"] = ifd["type"] + ("!" if rng.random() < 0.3 and not ifd["type"].endswith("!") else "")
                    if rule == "interface_field_args":
                        names = {a["name"]: a for a in mine["args"]}
                        for ia in ifd["args"]:
                            if ia["name"] in names:
                                names[ia["name"]]["type"] = ia["type"]
                                names[ia["name"]]["default"] = ia["default"]
                            else:
                                x = copy.deepcopy(ia)
                                x["dirs"] = []
                                mine["args"].append(x)
                    if rule == "interface_extra_args":
                        inames = {a["name"] for a in ifd["args"]}
                        for a in mine["args"]:
                            if a["name"] not in inames and a["type"].endswith("!") and a["default"] is None:
                                if rng.random() < 0.5:
                                    a["type"] = a["type"][:-1]
                                else:
                                    a["default"] = "[]" if a["type"].startswith("[") else "1"
        return m
    if rule == "union_members_object":
        for t in kinds(m, "union"):
            for p in parts(t):
                p["members"] = [x for x in p["members"] if x in objs]
        return m
    if rule == "enum_value_names":
        return None
    if rule == "reserved_names":
        def fix(n):
            return "r" + n.lstrip("_") if n.startswith("__") else n
        for t in m["types"]:
            t["name"] = fix(t["name"])
            for p in parts(t):
                for f in p["fields"]:
                    f["name"] = fix(f["name"])
                    for a in f.get("args", []):
                        a["name"] = fix(a["name"])
                for v in p["values"]:
                    v["name"] = fix(v["name"])
        for d in m["dirdefs"]:
            d["name"] = fix(d["name"])
            for a in d["args"]:
                a["name"] = fix(a["name"])
        return m
    if rule in ("root_query", "root_object", "root_distinct"):
        if not objs:
            return None
        q = "Query" if "Query" in objs else ("Q" if "Q" in objs else objs[0])
        m["schema_def"] = SD([("query", q)], m["schema_def"]["dirs"] if m.get("schema_def") else [])
        m.pop("orphan_schema_exts", None)
        return m
    if rule == "input_no_nonnull_cycle":
        # break every non-null singular reference between input objects of the mutator's chains, one way or another
        ins = {t["name"] for t in kinds(m, "input")}
        for t in kinds(m, "input"):
            for p in parts(t):
                for f in p["fields"]:
                    if f["type"].endswith("!") and not f["type"].startswith("[") and inner(f["type"]) in ins \
                            and inner(f["type"]).startswith("Z"):
                        f["type"] = rng.choice([inner(f["type"]), "[%s!]!" % inner(f["type"])])
                        f["default"] = None
        return m
    if rule.startswith("dir_") or rule in ("dirdef_no_self_ref", "builtin_redefinition"):
        for dl in _each_dirlist(m):
            dl[:] = [d for d in dl if d["name"] not in MUTATOR_DIRECTIVES]
        return m
    return None


def deep_cases():
    """chains around apollo's internal recursion limit of 32 (for the tie of the literal cycle models,
    Schema/Cycles.v; outside the range of the verdict comparison)"""
    out = []
    q = "type Query { a: Int }\n"
    for n in (2, 31, 32, 33, 34):
        chain = "".join("input D%d { n: D%d! }\n" % (i, i + 1) for i in range(n - 1)) + "input D%d { x: Int }\n" % (n - 1)
        out.append(("deep/input-chain-%d" % n, q + chain))
        cyc = "".join("input D%d { n: D%d! }\n" % (i, (i + 1) % n) for i in range(n))
        out.append(("deep/input-cycle-%d" % n, q + cyc))
        tail = "".join("input D%d { n: D%d! }\n" % (i, i + 1) for i in range(n - 1)) + "input D%d { n: D%d! }\n" % (n - 1, n - 1)
        out.append(("deep/input-tail-into-loop-%d" % n, q + tail))
        dchain = "".join("directive @d%d(a: Int @d%d) on ARGUMENT_DEFINITION\n" % (i, i + 1) for i in range(n - 1)) \
            + "directive @d%d(a: Int) on ARGUMENT_DEFINITION\n" % (n - 1)
        out.append(("deep/directive-chain-%d" % n, q + dchain))
        dcyc = "".join("directive @d%d(a: Int @d%d) on ARGUMENT_DEFINITION\n" % (i, (i + 1) % n) for i in range(n))
        out.append(("deep/directive-cycle-%d" % n, q + dcyc))
        tchain = "directive @d(a: T0) on FIELD\n" + "".join("input T%d { n: T%d }\n" % (i, i + 1) for i in range(n - 1)) \
            + "input T%d { x: Int }\n" % (n - 1)
        out.append(("deep/type-chain-%d" % n, q + tchain))
        tcyc = "directive @d(a: T0) on INPUT_FIELD_DEFINITION\n" + "".join("input T%d { n: T%d }\n" % (i, i + 1) for i in range(n - 1)) \
            + "input T%d { x: Int @d }\n" % (n - 1)
        out.append(("deep/type-chain-back-to-directive-%d" % n, q + tcyc))
    return out
