"""C04 — token and recursion limits are enforced exactly."""
from common import *
from props.parse_util import *
from props.c02 import strip_dropped, dropped


def classify(case, iobs, mobs):
    # the prefix clause inherits D3: a dropped token makes the tree text differ from the input prefix
    if dropped(mobs) > 0 and iobs == strip_dropped(mobs):
        return "D3-ty-parse-drops-token"
    return None


def nest_bound(src):
    d = m = 0
    for ch in src:
        if ch in "{[":
            d += 1
            m = max(m, d)
        elif ch in "}]":
            d -= 1
    return m


def cases_for(ctx):
    quick = ctx.tier == "quick"
    tuples = []
    g = Gen(ctx.rng)
    docs = [render(simple_tokens(d)) for d in FIXED_DOCS if len(simple_tokens(d)) <= 60]
    docs += [render(g.document(30)) for _ in range(12 if quick else 400)]
    corpus = ['"desc" type T', "{ a { b } } é", "{ a { b } } { c d e f }", "{ ...", "type Query { a a a a a a a a a }",
              "{ a(x: [[1, [2]], {y: {z: [3]}}]) }", "type T { f(a: [[Int!]]! = [[1]]): [T] }", ""]
    docs += corpus
    for src in docs:
        ntok = 2 * len(src.split()) + 4
        nest = nest_bound(src)
        tls = list(range(0, ntok + 2))
        rls = list(range(0, nest + 2))
        if quick and src not in corpus:
            tls = tls[:: max(1, len(tls) // 12)] + [ntok + 1]
        for tl in tls + [None]:
            for rl in rls + [500]:
                tuples.append(("doc", tl, rl, src))
    # the two standalone entries
    for src in ["a { b { c } } d", "{ a { b } }", "{ a } b", "a(x: [[1]])", "[[Int!]]!", "[[Int", "Int Int", ""]:
        ntok = 2 * len(src.split()) + 6
        for e in ("selset", "type"):
            for tl in list(range(0, ntok + 1)) + [None]:
                for rl in range(0, 5):
                    tuples.append((e, tl, rl, src))
    # deep nests around each recursion limit, with and without a token limit that cuts in the middle
    for e, tl, rl, src in deep_cases():
        tuples.append((e, tl, rl, src))
        if rl <= 32:
            tuples.append((e, len(src.split()) // 2 + 1, rl, src))
    return tuples


def run(ctx):
    props = check_props(ctx.pid)
    model = build_model()
    impl = build_impl()
    cases = with_items(impl, cases_for(ctx))
    rows = ctx.correspond(impl, model, "c04_parse", cases, classify=classify,
                          nontrivial=lambda c, o: True, describe=describe,
                          compare=lambda i, m: i == strip_dropped(m))
    comp = composed_sample(ctx, cases, limit=2500 if ctx.tier == "quick" else 40000)
    ctx.correspond(impl, model, "c04_parse", comp, classify=classify, nontrivial=lambda c, o: True,
                   describe=describe,
                  compare=lambda i, m: i == strip_dropped(m))
    ctx.cov["composed_with_lexer_model"] = {
        "cases": len(comp),
        "note": "these cases carry no items: the model runner lexes the source with Lex/Fun.v (lex_all / lex_limited) and "
                "parses the result, so lexer model + parser model composed are tied to the code as well"}
    fam = ctx.cov["families"]["c04_parse"]
    fam["token_limit_hit"] = sum(1 for c, i, _ in rows if c.split(" ")[1] != "-" and "l@" in i)
    fam["recursion_limit_hit"] = sum(1 for c, i, _ in rows if c.split(" ")[1] == "-" and "l@" in i)
    fam["no_limit_hit"] = sum(1 for _, i, _ in rows if i.startswith("ok") and "l@" not in i)
    for c, i, m in rows[:: max(1, len(rows) // 5)]:
        ctx.sample({"case": describe(c), "impl": i, "model": m})
    ctx.cov["rule"] = (
        "c04_parse: for fixed, generated (<= 30 tokens) and corpus documents, ALL pairs (tl, rl) with tl <= items+1 "
        "(quick: 12 evenly spaced values per generated document, all for the corpus) and rl <= bracket depth+1, plus "
        "no token limit and rl = 500; the two standalone entries likewise; deep nests of every recursive construct at "
        "depths rl-1, rl, rl+1 for rl in {0,1,2,3,31,32,499,500,501}, also with a token limit cutting mid-way.  "
        "Compared: error classes with indices, both trackers' high marks, tree text length.  Oracle: the property's "
        "clauses with the unlimited run as reference, and the compiler's recursion_reached / tokens_reached.")
    ctx.cov["exhaustive"] = False
    ctx.assumptions += [
        "most cases feed the parser model the (token-limited) items the real lexer yields; a sample runs lex_limited + parser model composed; the model counts the items the parser pulls",
        "usize wrap-around of the trackers is not modelled (unbounded N); decrement below zero is a Panic of the model and proved unreachable",
    ]
    return ctx.finish(props)


def replay(ctx, path):
    return replay_generic(ctx, path, ["c04_parse"])
