"""C08 — AST serialization round-trips.

Two-stage tie: GraphQL sources (grammar-directed generator, fixed feature documents, the repository's
serializer/parser test inputs) -> harness family ast_dump (real parser) -> the AST text is given to the
model family c08_print (Ast/Print.v, six configurations) and the source to the harness family c08_print
(the real `Serialize` builder under the same six configurations, plus the round-trip oracle)."""
import json
import os
import re
from pathlib import Path
from common import *

CONFIGS = ["default(2 spaces)", "no_indent", "prefix=TAB", "prefix=4 spaces,level=3", "prefix=''", "prefix=' ',level=1"]

# names: ordinary, underscore/digit shapes, and every keyword that is only contextually reserved
NAMES = ["a", "b", "f", "id", "x1", "_y", "Abc_9", "user", "on", "query", "mutation", "subscription", "fragment",
         "type", "input", "enum", "extend", "implements", "schema", "directive", "repeatable", "scalar",
         "interface", "union", "nullx", "truey", "e", "E", "Int"]
TYPE_NAMES = ["T", "U", "Query", "Int", "String", "I9", "_T", "type", "on", "Node", "input"]
ENUM_NAMES = ["A", "B", "RED", "on", "query", "nulL", "True", "x_1", "type"]
FRAG_NAMES = ["F", "G", "frag1", "_f", "query", "type"]
DIR_NAMES = ["d", "dir", "skip", "include", "on", "deprecated", "D_1"]
LOCS = ["QUERY", "MUTATION", "SUBSCRIPTION", "FIELD", "FRAGMENT_DEFINITION", "FRAGMENT_SPREAD", "INLINE_FRAGMENT",
        "VARIABLE_DEFINITION", "SCHEMA", "SCALAR", "OBJECT", "FIELD_DEFINITION", "ARGUMENT_DEFINITION",
        "INTERFACE", "UNION", "ENUM", "ENUM_VALUE", "INPUT_OBJECT", "INPUT_FIELD_DEFINITION"]
INTS = ["0", "-0", "1", "42", "-7", "1234567890123456789012"]
FLOATS = ["1.0", "-1.5", "0.0", "1e5", "1E5", "1.5e+10", "-6.02E-23", "0e0", "12.50"]
STRINGS = [
    "", "a", "hello world", "  leading", "trailing  ", "line1\nline2", "\nstart", "end\n", "a\n  b\n c",
    "tab\there", 'quote"inside', 'triple"""quote', "back\\slash", "ends\\", 'ends"', "é∀😀", "cr\r\nlf", "a\rb",
    "\x01\x1f\x7f", "x" * 71, "y" * 70, "é" * 36, "# not a comment", "  indented\n  all", " \n x", "x\n \ny", "a\n\nb",
    '""', '"""', '\\"""', "\u2028", "\ufeff", "a\n", "\n", " ", "\t", "a\tb\n\tc", "a\n\tb", "long " * 20 + "\nsecond",
    "\b\f", "\\u0041", "${x}", "a,b", "{a b}", "...", "multi\nline\n  with indent\n\nand blank", "x\n\n", "\n\nx",
    'say """hi""" twice """', "ends with triple\"\"\"", "q\"\"",
]


def quoted(s):
    out = ['"']
    for ch in s:
        o = ord(ch)
        if ch == '"':
            out.append('\\"')
        elif ch == "\\":
            out.append("\\\\")
        elif ch == "\n":
            out.append("\\n")
        elif ch == "\r":
            out.append("\\r")
        elif o < 0x20 and ch != "\t":
            out.append("\\u%04x" % o)
        else:
            out.append(ch)
    out.append('"')
    return "".join(out)


def block(s, rng):
    body = s.replace('"""', '\\"""').replace("\r", "")
    body = "".join(ch for ch in body if ch == "\n" or ch == "\t" or ord(ch) >= 0x20)
    if body.endswith('"') or body.endswith("\\"):
        body += " "
    style = rng.randint(0, 2)
    if style == 0:
        return '"""' + body + '"""'
    if style == 1:
        return '"""\n' + body + '\n"""'
    ind = rng.choice(["  ", "\t", "    "])
    return '"""\n' + "\n".join(ind + l if l else l for l in body.split("\n")) + "\n" + ind + '"""'


class Gen:
    def __init__(self, rng, depth=3):
        self.r = rng
        self.depth = depth

    def ch(self, l):
        return self.r.choice(l)

    def p(self, x):
        return self.r.random() < x

    def string(self):
        s = self.ch(STRINGS)
        if self.p(0.15):
            s = s + self.ch(STRINGS)
        if self.p(0.45):
            return block(s, self.r)
        return quoted(s)

    def desc(self, prob=0.4):
        return [self.string()] if self.p(prob) else []

    def ty(self, d=0):
        k = self.r.randint(0, 3) if d < 3 else self.r.randint(0, 1)
        if k == 0:
            return [self.ch(TYPE_NAMES)]
        if k == 1:
            return [self.ch(TYPE_NAMES), "!"]
        if k == 2:
            return ["["] + self.ty(d + 1) + ["]"]
        return ["["] + self.ty(d + 1) + ["]", "!"]

    def value(self, d=0, const=False):
        k = self.r.randint(0, 9 if d < self.depth else 7)
        if k == 0:
            return ["null"]
        if k == 1:
            return [self.ch(["true", "false"])]
        if k == 2:
            return [self.ch(ENUM_NAMES)]
        if k == 3:
            return [self.string()]
        if k == 4:
            return [self.ch(INTS)]
        if k == 5:
            return [self.ch(FLOATS)]
        if k in (6, 7):
            if const:
                return [self.ch(INTS)]
            return ["$", self.ch(NAMES)] if self.p(0.5) else ["$" + self.ch(NAMES)]
        if k == 8:
            out = ["["]
            for _ in range(self.r.randint(0, 3)):
                out += self.value(d + 1, const)
            return out + ["]"]
        out = ["{"]
        for _ in range(self.r.randint(0, 3)):
            out += [self.ch(NAMES), ":"] + self.value(d + 1, const)
        return out + ["}"]

    def args(self, const=False, prob=0.4):
        if not self.p(prob):
            return []
        out = ["("]
        for _ in range(self.r.randint(1, 3)):
            out += [self.ch(NAMES), ":"] + self.value(0, const)
        return out + [")"]

    def dirs(self, const=False, prob=0.35):
        out = []
        if self.p(prob):
            for _ in range(self.r.randint(1, 2)):
                out += ["@", self.ch(DIR_NAMES)] if self.p(0.2) else ["@" + self.ch(DIR_NAMES)]
                out += self.args(const)
        return out

    def selset(self, d=0):
        out = ["{"]
        for _ in range(self.r.randint(1, 3 if d else 4)):
            k = self.r.randint(0, 9)
            if k <= 5 or d >= self.depth:
                if self.p(0.25):
                    out += [self.ch(NAMES), ":"]
                out += [self.ch(NAMES)] + self.args() + self.dirs()
                if d < self.depth and self.p(0.35):
                    out += self.selset(d + 1)
            elif k <= 7:
                out += ["...", self.ch(FRAG_NAMES)] if self.p(0.5) else ["..." + self.ch(FRAG_NAMES)]
                out += self.dirs()
            else:
                out += ["..."]
                if self.p(0.6):
                    out += ["on", self.ch(TYPE_NAMES)]
                out += self.dirs() + self.selset(d + 1)
        return out + ["}"]

    def vardefs(self):
        out = ["("]
        for _ in range(self.r.randint(1, 3)):
            out += ["$" + self.ch(NAMES), ":"] + self.ty()
            if self.p(0.45):
                out += ["="] + self.value(0, True)
            out += self.dirs(True, 0.3)
        return out + [")"]

    def operation(self):
        k = self.r.randint(0, 5)
        if k == 0:
            return self.selset()          # shorthand
        if k == 1:
            return ["query"] + self.selset()   # explicit but shorthand-eligible: must keep `query` unless first
        op = self.ch(["query", "query", "mutation", "subscription"])
        out = [op]
        if self.p(0.6):
            out.append(self.ch(NAMES + TYPE_NAMES))
        if self.p(0.45):
            out += self.vardefs()
        out += self.dirs(False, 0.3)
        return out + self.selset()

    def fragment(self):
        return ["fragment", self.ch(FRAG_NAMES), "on", self.ch(TYPE_NAMES)] + self.dirs() + self.selset()

    def ivdef(self, desc_prob, dir_prob):
        out = self.desc(desc_prob) + [self.ch(NAMES), ":"] + self.ty()
        if self.p(0.4):
            out += ["="] + self.value(0, True)
        return out + self.dirs(True, dir_prob)

    def argsdef(self):
        if not self.p(0.4):
            return []
        plain = self.p(0.5)          # no description / directive on any argument: single-line layout
        out = ["("]
        for _ in range(self.r.randint(1, 3)):
            out += self.ivdef(0 if plain else 0.5, 0 if plain else 0.4)
        return out + [")"]

    def fields(self, prob=0.85):
        if not self.p(prob):
            return []
        out = ["{"]
        for _ in range(self.r.randint(1, 3)):
            out += self.desc(0.3) + [self.ch(NAMES)] + self.argsdef() + [":"] + self.ty() + self.dirs(True, 0.3)
        return out + ["}"]

    def implements(self):
        if not self.p(0.4):
            return []
        out = ["implements"]
        if self.p(0.2):
            out.append("&")
        n = self.r.randint(1, 3)
        for i in range(n):
            out.append(self.ch(TYPE_NAMES))
            if i + 1 < n:
                out.append("&")
        return out

    def members(self, must):
        if not (must or self.p(0.8)):
            return []
        out = ["="]
        if self.p(0.2):
            out.append("|")
        n = self.r.randint(1, 3)
        for i in range(n):
            out.append(self.ch(TYPE_NAMES))
            if i + 1 < n:
                out.append("|")
        return out

    def enumvals(self, must):
        if not (must or self.p(0.85)):
            return []
        out = ["{"]
        for _ in range(self.r.randint(1, 3)):
            out += self.desc(0.3) + [self.ch(ENUM_NAMES)] + self.dirs(True, 0.3)
        return out + ["}"]

    def inputfields(self, must):
        if not (must or self.p(0.85)):
            return []
        out = ["{"]
        for _ in range(self.r.randint(1, 3)):
            out += self.ivdef(0.3, 0.3)
        return out + ["}"]

    def rootops(self, must):
        if not (must or self.p(0.7)):
            return []
        out = ["{"]
        for _ in range(self.r.randint(1, 3)):
            out += [self.ch(["query", "mutation", "subscription"]), ":", self.ch(TYPE_NAMES)]
        return out + ["}"]

    def typesystem(self):
        k = self.r.randint(0, 14)
        T = self.ch(TYPE_NAMES)
        if k == 0:
            out = self.desc() + ["directive", "@", self.ch(DIR_NAMES)] + self.argsdef()
            if self.p(0.4):
                out.append("repeatable")
            out.append("on")
            if self.p(0.2):
                out.append("|")
            n = self.r.randint(1, 3)
            for i in range(n):
                out.append(self.ch(LOCS))
                if i + 1 < n:
                    out.append("|")
            return out
        if k == 1:
            return self.desc() + ["schema"] + self.dirs(True) + self.rootops(True)
        if k == 2:
            return self.desc() + ["scalar", T] + self.dirs(True)
        if k == 3:
            return self.desc() + ["type", T] + self.implements() + self.dirs(True) + self.fields()
        if k == 4:
            return self.desc() + ["interface", T] + self.implements() + self.dirs(True) + self.fields()
        if k == 5:
            return self.desc() + ["union", T] + self.dirs(True) + self.members(False)
        if k == 6:
            return self.desc() + ["enum", T] + self.dirs(True) + self.enumvals(False)
        if k == 7:
            return self.desc() + ["input", T] + self.dirs(True) + self.inputfields(False)
        if k == 8:
            d = self.dirs(True, 0.5)
            return ["extend", "schema"] + d + self.rootops(not d)
        if k == 9:
            return ["extend", "scalar", T] + self.dirs(True, 1.0)
        if k in (10, 11):
            kw = "type" if k == 10 else "interface"
            i, d = self.implements(), self.dirs(True, 0.5)
            f = self.fields(0.7 if (i or d) else 1.0)
            return ["extend", kw, T] + i + d + f
        if k == 12:
            d = self.dirs(True, 0.5)
            return ["extend", "union", T] + d + self.members(not d)
        if k == 13:
            d = self.dirs(True, 0.5)
            return ["extend", "enum", T] + d + self.enumvals(not d)
        d = self.dirs(True, 0.5)
        return ["extend", "input", T] + d + self.inputfields(not d)

    def definition(self, mode):
        if mode == "exec":
            return self.operation() if self.p(0.7) else self.fragment()
        if mode == "schema":
            return self.typesystem()
        k = self.r.random()
        if k < 0.35:
            return self.operation()
        if k < 0.5:
            return self.fragment()
        return self.typesystem()

    def join(self, toks):
        style = self.r.randint(0, 9)
        if style <= 5:
            return " ".join(toks)
        if style == 6:
            return "\n".join(toks)
        seps = [" ", " ", " ", "\n", ", ", "  ", " # c\n", "\t", "\r\n", ",", " \ufeff"]
        out = []
        for t in toks:
            out.append(t)
            out.append(self.ch(seps))
        return "".join(out)

    def document(self):
        mode = self.ch(["exec", "schema", "mixed", "mixed"])
        toks = []
        for _ in range(self.r.randint(1, 5)):
            toks += self.definition(mode)
        return self.join(toks)


# one small document per feature the property text names; run first on every check
FIXED = [
    "{a}", "{a b}", "{ a { b c } d }", "query {a}", "query Q {a}", "scalar S {a}", "fragment F on T {a} {b}",
    "{a} {b}", "query Q($v:Int=1)@d{a}", "query($v:[Int!]!=[1,2] @d(a:1) @e, $w: T = {a: {b: [1.5, \"s\"]}}){a}",
    "mutation{a(x:1)}", "subscription S @d @e(a:$v){a}", "{a:b(x:$v,y:[],z:{})@d(if:true){...F@d ...on T@e{c} ...{d} ...@f{e}}}",
    "{ on: on(on: on) @on(on: on) { ... on on { on } } }", "{a(s:\"q\\\"\\\\\\n\\t\\u0001\")}", "{a(s:\"\"\"block\n  string\n\"\"\")}",
    "{a(s:\"\"\"one line\"\"\", t:\"\"\"\n  x\n\n  y\n\"\"\")}", "query Q { a(x: -0, y: 1.0e-5, z: null, w: E, v: false) }",
    "fragment F on T @d(a:[1,[2,[3]]]) { a }",
    "\"desc\" directive @d(\"arg desc\" a: Int = 1 @x, b: [T!]! @y(z: \"s\")) repeatable on FIELD | QUERY",
    "directive @d on FIELD", "directive @d(a: Int, b: String = \"x\") on | SCHEMA | ENUM_VALUE",
    "\"\"\"\nschema desc\n\"\"\" schema @d { query: Q mutation: M subscription: S }", "schema { query: Q }",
    "\"d\" scalar S @d(a:1)", "scalar S",
    "\"d\" type T implements A & B & C @d { \"fd\" f(\"ad\" a: Int = 1 @d, b: T): [T!]! @d, g: Int }",
    "type T", "type T implements & A", "type T @d", "type T { f(a: Int, b: [Int] = [1, 2]): Int }",
    "type T { f(a: Int @d): Int } type U { f(\"\"\"multi\nline\"\"\" a: Int): Int }",
    "\"d\" interface I implements J @d { f: Int }", "interface I",
    "\"d\" union U @d = | A | B | C", "union U", "union U = A", "union U @d",
    "\"d\" enum E @d { \"vd\" A @d B C @e(a: 1) }", "enum E", "enum E @d",
    "\"d\" input I @d { \"fd\" a: Int = 1 @d, b: [T] = [{a: 1}, {b: \"x\\ny\"}] c: T! }", "input I",
    "extend schema @d", "extend schema { query: Q }", "extend schema @d @e(a: 1) { mutation: M }",
    "extend scalar S @d", "extend type T implements A & B", "extend type T @d", "extend type T { f: Int }",
    "extend type T implements A @d { \"d\" f(a: Int): Int @d }", "extend interface I implements J",
    "extend interface I @d { f: Int }", "extend union U @d", "extend union U = A | B", "extend union U @d = | A",
    "extend enum E @d", "extend enum E { A \"d\" B @d }", "extend input I @d", "extend input I { a: Int = 1 @d }",
    # an anonymous query after a definition that would swallow a following `{`
    "type T query { a }", "interface I query { a }", "enum E query { a }", "input I query { a }",
    "extend schema @d query { a }", "extend type T @d query { a }", "type T implements I query { a }",
    "extend interface I implements J query{a}", "extend enum E @d query{a}", "extend input I @d query{a}",
    "{a} type T query {b}", "type T @d query { a } query { b }", "\"d\" enum E @d query { a }",
    "type T { a: Int } {a}", "type T {a}", "type T @d {a: Int} query {a} {b}", "scalar S query { a }",
    "\"desc with \\\"quotes\\\" and \\\\\" type T { f: Int }", "\"\" type T", "\" lead\" type T", "\"trail \" type T",
    "\"" + "x" * 80 + "\" type T { \"" + "y" * 80 + "\" f(\"" + "z" * 80 + "\" a: Int): Int }",
    "\"ends with quote\\\"\" type T { \"ends with backslash\\\\\" f: Int }",
    "\"\"\"\n  first\n    indented\n  back\n\"\"\" type T { \"\"\"\n    deep\n      deeper\n    \"\"\" f(\"\"\"\n a\n\n b\n\"\"\" a: Int): Int }",
    "\"a\\nb\" enum E { \"c\\n\\nd\\n\" A }", "\"\\n\" scalar S", "\" \\n x\" scalar S", "\"x\\n \" scalar S", "\"x\\r\\ny\" scalar S",
    "\"tri\\\"\\\"\\\"ple\" scalar S \"\\\"\\\"\\\"\" scalar R \"a\\\"\\\"\\\"\" scalar Q", "{a(s:\"x\\ny\", t:[\"p\\nq\"])}",
    "type T { f(a: String = \"x\\ny\" @d): Int }", "input I { a: String = \"x\\ny\", b: [String] = [\"p\\nq\", \"r\"] }",
    "query ($v: String = \"x\\ny\") { a }", "{a @d(s: \"x\\ny\")}",
    "type Query { users(first: Int = 10, after: ID, filter: F = {a: [1, 2], b: {c: null}}): [User!]! @deprecated(reason: \"no\") }",
]


def repo_dir():
    return Path(os.environ.get("VERIF_REPO", str(REPO)))


def repo_files():
    r = repo_dir()
    pats = ["crates/apollo-compiler/test_data/ok/*.graphql", "crates/apollo-compiler/test_data/diagnostics/*.graphql",
            "crates/apollo-compiler/test_data/serializer/ok/*.graphql",
            "crates/apollo-compiler/test_data/serializer/diagnostics/*.graphql",
            "crates/apollo-parser/test_data/parser/ok/*.graphql", "crates/apollo-parser/test_data/parser/err/*.graphql",
            "crates/apollo-parser/test_data/lexer/ok/*.graphql"]
    out = []
    for p in pats:
        for f in sorted(r.glob(p)):
            try:
                out.append(f.read_text())
            except (UnicodeDecodeError, OSError):
                pass
    return out


def norm(line):
    return re.sub(r"panic\d+", "panic", line)


def describe(case):
    return unhexs(case.split(" ")[0])


KIND_TAGS = ["DOp", "DFr", "DDi", "DSc", "DSa", "DOb", "DIf", "DUn", "DEn", "DIn", "XSc", "XSa", "XOb", "XIf", "XUn",
             "XEn", "XIn"]


def stage1(impl, sources):
    sources = sorted(set(sources))
    hs = [hexs(s) for s in sources]
    outs = run_family(impl, "ast_dump", hs)
    ok, partial = [], []
    for h, o in zip(hs, outs):
        if o.startswith("ok "):
            ok.append(h + " " + o[3:])
        elif o.startswith("errors "):
            partial.append(h + " " + o.split(" ", 2)[2])
        # a parser panic / timeout is another property's business (C04); not a C08 case
    ok.sort(key=lambda c: (len(c), c))          # shortest first: the first reported violations are small
    partial.sort(key=lambda c: (len(c), c))
    return ok, partial


def run(ctx):
    props = check_props(ctx.pid)
    model = build_model()
    impl = build_impl()
    n = 6000 if ctx.tier == "quick" else 60000
    g = Gen(ctx.rng)
    generated = [g.document() for _ in range(n)]
    fixed = list(FIXED)
    cdir = VERIF / "corpus" / "C08"
    if cdir.exists():
        fixed += [f.read_text() for f in sorted(cdir.glob("*.graphql"))]
    files = repo_files()
    ok, partial = stage1(impl, fixed + files + generated)
    ok_fixed = stage1(impl, fixed)[0]
    rows = ctx.correspond(impl, model, "c08_print", ok, nontrivial=lambda c, o: o.startswith("ok"),
                          describe=describe, compare=lambda i, m: norm(i) == norm(m))
    fam = ctx.cov["families"]["c08_print"]
    fam["sources_generated"] = len(generated)
    fam["sources_fixed"] = len(fixed)
    fam["sources_repo_files"] = len(files)
    fam["fixed_accepted_by_parser"] = len(ok_fixed)
    fam["accepted_by_parser"] = len(ok)
    fam["rejected_by_parser(partial family)"] = len(partial)
    fam["configurations"] = CONFIGS
    kinds = {k: 0 for k in KIND_TAGS}
    feats = {"description": 0, "block_string_printed": 0, "shorthand_first": 0, "anonymous_query_not_first": 0,
             "variables": 0, "object_value": 0, "list_value": 0, "inline_fragment_no_condition": 0,
             "repeatable": 0, "args_def_multiline": 0}
    for c, i, _ in rows:
        ast = c.split(" ")[1]
        for k in KIND_TAGS:
            if k + "(" in ast:
                kinds[k] += 1
        feats["description"] += bool(re.search(r"(DDi|DSc|DSa|DOb|DIf|DUn|DEn|DIn|Iv|Fd|Ev)\(S\(", ast))
        feats["shorthand_first"] += ast.startswith("[DOp(q,N,[],[],")
        feats["anonymous_query_not_first"] += ";DOp(q,N,[],[]," in ast
        feats["variables"] += "Vd(" in ast
        feats["object_value"] += "Vo(" in ast
        feats["list_value"] += "Vl(" in ast
        feats["inline_fragment_no_condition"] += "In(N," in ast
        feats["repeatable"] += bool(re.search(r"DDi\([^;]*,t,\[", ast))
        parts = i.split(" ")
        if len(parts) > 1 and parts[0] == "ok" and "222222" in parts[1]:
            feats["block_string_printed"] += 1
        if len(parts) > 1 and "280a" in parts[1]:
            feats["args_def_multiline"] += 1
    fam["definition_kinds_seen"] = kinds
    fam["features_seen"] = feats
    for c, i, m in rows[:: max(1, len(rows) // 4)]:
        parts = i.split(" ")
        ctx.sample({"source": describe(c)[:300], "no_indent": unhexs(parts[2])[:300] if len(parts) > 2 else i}, limit=4)
    # model-only: do the parser's error-free ASTs satisfy the hypothesis wfd of C08_tokens_wf /
    # C08_roundtrip_partial?  (a "bad" line would contradict the theorems: machinery error)
    st = run_family(model, "c08_selftest", ok)
    if any(x == "bad" or x.startswith("model-") for x in st):
        raise MachineryError("c08_selftest: the token view disagrees with the printer model on "
                             + describe(ok[[x == "bad" or x.startswith("model-") for x in st].index(True)]))
    fam["asts_satisfying_wfd"] = sum(1 for x in st if x == "ok wf")
    fam["asts_not_satisfying_wfd"] = sum(1 for x in st if x == "ok notwf")
    # the model of the serializer is also compared on partial ASTs of documents with syntax errors
    # (no oracle: the property speaks of error-free documents only)
    ctx.correspond(impl, model, "c08_print_partial", partial, nontrivial=lambda c, o: o.startswith("ok"),
                   describe=describe, compare=lambda i, m: norm(i) == norm(m))
    ctx.cov["rule"] = (
        f"{len(generated)} grammar-generated documents (1-5 definitions of all 17 kinds; descriptions quoted/block "
        "with special characters; directives with arguments at every location; variables with defaults and "
        "directives; all value kinds nested; aliases, spreads, inline fragments; shorthand and explicit queries; "
        "contextual keywords as names; random token separators incl. commas/comments/BOM), "
        f"{len(fixed)} fixed feature documents, {len(files)} repository test inputs (compiler ok/diagnostics/"
        "serializer, parser ok/err, lexer ok). Stage 1 ast_dump keeps the error-free ones for c08_print (exact text "
        "under 6 configurations + round-trip oracle) and sends the rest to c08_print_partial (text only). "
        "Non-trivial: the document was accepted and printed; distinct by source text.")
    ctx.cov["exhaustive"] = False
    ctx.assumptions += [
        "the lexer, the parser and from_cst are not modelled here (C03/C01/C02/C05): the AST given to the model is "
        "the one the real parser produced (harness family ast_dump); the round trip itself is decided by the oracle "
        "on the implementation",
        "indent prefixes are whitespace (space/tab) strings; the six configurations of DESIGN.md section C08",
        "theorems (a)-(d) are about the printer model only; that a string token's text decodes to its value is "
        "C09's statement; wfd (valid names, literal-syntax numbers) is a hypothesis of C08_tokens_wf, checked on "
        "every parser-produced AST of the run (asts_satisfying_wfd)",
    ]
    return ctx.finish(props)


def replay(ctx, path):
    r = json.load(open(path))
    model = build_model()
    impl = build_impl()
    fam, case = r["family"], r["case"]
    print("source:", describe(case))
    io = run_family(impl, fam, [case])[0]
    mo = run_family(model, fam, [case])[0]
    iobs, oracle = split_oracle(io)
    print("oracle:", oracle)
    ip, mp = iobs.split(" "), mo.split(" ")
    for k, name in enumerate(CONFIGS):
        a = ip[k + 1] if len(ip) > k + 1 else "?"
        b = mp[k + 1] if len(mp) > k + 1 else "?"
        flag = "same" if norm(a) == norm(b) else "DIFFERENT"
        print(f"--- {name}: impl vs model {flag}")
        for tag, x in (("impl ", a), ("model", b)):
            try:
                print(f"{tag}: {unhexs(x)!r}")
            except ValueError:
                print(f"{tag}: {x}")
    return 0
