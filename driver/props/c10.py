"""C10 — names, numbers and type references are well-formed."""
import json
import re
import struct
from common import *
from props.c10_util import oracle_rows, all_types, show_desc

ALPHA = ["a", "Z", "_", "0", "9", "-", "+", ".", "e", "E", "é"]

# October 2021 grammar, written as regular expressions (independent of the Gallina transcription)
NAME_RE = re.compile(r"[_A-Za-z][_0-9A-Za-z]*")
INT_RE = re.compile(r"-?(0|[1-9][0-9]*)")
FLOAT_RE = re.compile(r"-?(0|[1-9][0-9]*)(\.[0-9]+[eE][+-]?[0-9]+|\.[0-9]+|[eE][+-]?[0-9]+)")
RUST_SHAPE_RE = re.compile(r"-?(0|[1-9][0-9]*)(\.[0-9]+)?")


def empty_exponent_digits(s):
    """Numbers.num_empty_exponent_digits (the corner of the former defect D8; counted, not filtered)"""
    m = re.search(r"[eE]", s)
    if not m:
        return False
    e = s[m.end():]
    if e[:1] in ("+", "-"):
        e = e[1:]
    return e == ""


def f64_bits(x):
    return struct.pack(">d", x).hex()


def gen_i32(ctx, nrand):
    vals = {0, 1, -1, 7, -7, 10, -10, 2**31 - 1, -2**31}
    for k in range(0, 32):
        for s in (1, -1):
            for d in (-1, 0, 1):
                vals.add(s * 2**k + d)
    for k in range(0, 10):
        for s in (1, -1):
            for d in (-1, 0, 1):
                vals.add(s * 10**k + d)
    for _ in range(nrand):
        vals.add(ctx.rng.randint(-2**31, 2**31 - 1))
        vals.add(ctx.rng.randint(-10**ctx.rng.randint(1, 9), 10**ctx.rng.randint(1, 9)))
    return sorted(v for v in vals if -2**31 <= v <= 2**31 - 1)


def gen_f64(ctx, nrand):
    bits = set()
    for k in range(-1074, 1024):
        for s in (1.0, -1.0):
            bits.add(f64_bits(s * 2.0**k))
    for k in range(-323, 309):
        x = float(f"1e{k}")
        bits.add(f64_bits(x))
        bits.add(f64_bits(-x))
        bits.add(f64_bits(float(f"9.999999999999999e{k}")) if k < 308 else f64_bits(x))
    for x in (0.0, -0.0, 1.7976931348623157e308, -1.7976931348623157e308, 2.2250738585072014e-308,
              5e-324, 0.1, 0.2, 0.3, 1.5, 1e21, 1e-7, 123456789012345680.0, 9007199254740993.0, 0.1 + 0.2):
        bits.add(f64_bits(x))
    for m in (1, 2, 3, 0x000fffffffffffff, 0x0008000000000000, 0x0000000100000000):     # subnormals
        bits.add(f"{m:016x}")
        bits.add(f"{m | (1 << 63):016x}")
    n = 0
    while n < nrand:
        b = ctx.rng.getrandbits(64)
        if (b >> 52) & 0x7ff == 0x7ff:
            continue                                  # inf / nan: not finite
        bits.add(f"{b:016x}")
        if n % 4 == 0:                                # subnormal and small-exponent patterns
            bits.add(f"{b & 0x800fffffffffffff:016x}")
        n += 1
    return sorted(bits)


def gen_types(ctx, tier):
    cases = all_types(["A", "b_1"], 6)
    nrand = 300 if tier == "quick" else 5000
    for _ in range(nrand):
        d = ctx.rng.randint(7, 40)
        w = "".join(ctx.rng.choice("lL") for _ in range(d))
        cases.append(w + ctx.rng.choice("nN") + ctx.rng.choice(["Int", "A", "_x9", "Query", "l", "L", "nN"]))
    return sorted(set(cases))


def run(ctx):
    props = check_props(ctx.pid)
    model = build_model()
    impl = build_impl()
    maxlen = 5 if ctx.tier == "quick" else 6
    strings = list(all_strings(ALPHA, maxlen))
    # longer structured strings: one-character edits of valid names and literals
    seeds = ["Query", "_x9", "a_Z0", "0", "-0", "12", "-907", "0.5", "-1.25", "1e10", "1E-7", "-12.50e+10",
             "9.0E+0", "100", "1.0e5"]
    edits = set(seeds)
    for s in seeds:
        for i in range(len(s) + 1):
            for ch in ALPHA:
                edits.add(s[:i] + ch + s[i:])
                if i < len(s):
                    edits.add(s[:i] + ch + s[i + 1:])
            if i < len(s):
                edits.add(s[:i] + s[i + 1:])
    for s in ["1e", "1.5e+", "0E-", "-0e", "1.e1", ".5", "1.", "01", "-", "--1", "+1", "1e1.5", "1e+-1", "é", "aé", "_é_"]:
        edits.add(s)
    # every character of the first three Unicode blocks (all 128 ASCII characters: the neighbours of each class
    # boundary such as '@' '[' '`' '{' '/' ':' included) and the boundary scalar values, at every position of a
    # short name and of a short number
    chars = [chr(c) for c in range(0, 0x300)] + [chr(c) for c in (0x37E, 0x2028, 0xD7FF, 0xE000, 0xFEFF, 0xFF21, 0xFF3F,
                                                                     0xFFFD, 0xFFFF, 0x10000, 0x1D7D8, 0x10FFFF)]
    for ch in chars:
        for pat in ("%s", "a%s", "%sa", "a%sZ", "_%s9", "Query%s", "%s_", "1%s", "%s1", "1%s1", "1.%s", "1.5%s", "1e%s", "1e+%s",
                    "-%s", "0%s0"):
            edits.add(pat % ch)
    cases = sorted(set(hexs(s) for s in strings) | set(hexs(s) for s in edits))
    # fixed corpus first (witnesses of the former defect D8, non-ASCII names), so that a regression is
    # reported with the canonical input
    first = [hexs(s) for s in ("1e", "1.5e+", "aé", "é", "01", "-0", "1.0", "_")]
    cases = first + [c for c in cases if c not in set(first)]

    # (a) names through every constructor
    rows = ctx.correspond(impl, model, "c10_name", cases,
                          nontrivial=lambda c, o: o == "valid=1" or len(c) > 4, describe=unhexs)
    oracle_rows(ctx, "c10_name", rows,
                spec=lambda c: "valid=1" if NAME_RE.fullmatch(unhexs(c)) else "valid=0",
                observed=lambda o: o, describe=unhexs,
                what="Name validity differs from the GraphQL Name grammar [_A-Za-z][_0-9A-Za-z]*")
    fam = ctx.cov["families"]["c10_name"]
    fam["accepted"] = sum(1 for _, i, _ in rows if i == "valid=1")
    fam["exhaustive_upto_len"] = maxlen
    fam["non_ascii_cases"] = sum(1 for c, _, _ in rows if any(ord(ch) > 127 for ch in unhexs(c)))

    # (b) IntValue / FloatValue syntax through serde deserialization
    rows = ctx.correspond(impl, model, "c10_num_syntax", cases,
                          nontrivial=lambda c, o: o != "int=0 float=0" or len(c) > 4, describe=unhexs)

    def num_spec(c):
        s = unhexs(c)
        return "int=%d float=%d" % (1 if INT_RE.fullmatch(s) else 0, 1 if FLOAT_RE.fullmatch(s) else 0)
    oracle_rows(ctx, "c10_num_syntax", rows, spec=num_spec, observed=lambda o: o, describe=unhexs,
                what="IntValue/FloatValue deserialization accepts or rejects differently from the IntValue/FloatValue grammar")
    fam = ctx.cov["families"]["c10_num_syntax"]
    fam["int_accepted"] = sum(1 for _, i, _ in rows if i.startswith("int=1"))
    fam["float_accepted"] = sum(1 for _, i, _ in rows if i.endswith("float=1"))
    fam["exhaustive_upto_len"] = maxlen
    fam["empty_exponent_digit_cases"] = sum(1 for c, _, _ in rows if empty_exponent_digits(unhexs(c)))
    for c, i, m in rows:
        if i.endswith("float=1") and len(c) >= 10:
            ctx.sample({"family": "c10_num_syntax", "input": unhexs(c), "impl": i, "model": m}, limit=2)

    # (c) i32 -> IntValue -> text -> back
    icases = [str(v) for v in gen_i32(ctx, 2000 if ctx.tier == "quick" else 100000)]
    rows = ctx.correspond(impl, model, "c10_i32", icases)
    oracle_rows(ctx, "c10_i32", rows, spec=lambda c: f"lit={c} back={c}", observed=lambda o: o,
                what="IntValue::from(i32) is not the decimal literal of the number, or does not convert back")
    for c, i, m in rows[:: max(1, len(rows) // 2)]:
        ctx.sample({"family": "c10_i32", "input": c, "impl": i, "model": m}, limit=4)

    # (d) f64 -> FloatValue -> text -> valid literal, same bits back.  Rust's to_string is the input of the
    # model (its shape is the trusted assumption of C10_f64_shape_partial, checked here on every sample).
    fbits = gen_f64(ctx, 3000 if ctx.tier == "quick" else 60000)
    raws = run_family(impl, "c10_f64_raw", fbits)
    fcases = [f"{b} {r}" for b, r in zip(fbits, raws)]
    rows = ctx.correspond(impl, model, "c10_f64", fcases,
                          describe=lambda c: "f64 bits 0x%s, to_string = %s" % (c.split()[0], unhexs(c.split()[1])[:80]))

    def f64_spec(c):
        raw = unhexs(c.split()[1])
        lit = raw if "." in raw else raw + ".0"
        ok = RUST_SHAPE_RE.fullmatch(raw) and FLOAT_RE.fullmatch(lit)
        return f"lit={hexs(lit)} valid=1" if ok else "not-a-float-literal:" + lit[:60]
    oracle_rows(ctx, "c10_f64", rows, spec=f64_spec, observed=lambda o: o,
                describe=lambda c: "f64 bits 0x%s, to_string = %s" % (c.split()[0], unhexs(c.split()[1])[:80]),
                what="FloatValue::from(f64) is not a valid GraphQL FloatValue literal (or Rust's Display shape assumption fails)")
    fam = ctx.cov["families"]["c10_f64"]
    fam["longest_literal"] = max(len(unhexs(c.split()[1])) for c in fcases)
    fam["without_fraction_before_fixup"] = sum(1 for c in fcases if "." not in unhexs(c.split()[1]))
    for c, i, m in rows[:: max(1, len(rows) // 2)]:
        ctx.sample({"family": "c10_f64", "bits": c.split()[0], "to_string": unhexs(c.split()[1])[:60],
                    "impl": i[:80], "model": m[:80]}, limit=6)

    # (e) types: print / parse round trip through the real Type::parse
    tcases = gen_types(ctx, ctx.tier)
    rows = ctx.correspond(impl, model, "c10_type", tcases, describe=show_desc)
    oracle_rows(ctx, "c10_type", rows, spec=lambda c: f"print={hexs(show_desc(c))} back={c}", observed=lambda o: o,
                describe=show_desc, what="a printed type does not parse back to the same type")
    fam = ctx.cov["families"]["c10_type"]
    fam["exhaustive_upto_list_depth"] = 6
    fam["max_list_depth"] = max(len(c) - len(c.lstrip("lL")) for c in tcases)
    for c, i, m in rows[:: max(1, len(rows) // 2)]:
        ctx.sample({"family": "c10_type", "type": show_desc(c), "impl": i[:80], "model": m[:80]}, limit=8)

    ctx.cov["rule"] = (
        f"c10_name / c10_num_syntax: every string of length <= {maxlen} over {ALPHA} plus every one-character "
        "insertion/replacement/deletion in 15 valid names and literals plus every character U+0000..U+02FF and 12 boundary scalar values "
        "at 16 positions of short names and numbers (names through Name::new, new_static, "
        "TryFrom<&str|String|&String|Arc<str>>, serde via visit_str and visit_string; numbers through serde of "
        "IntValue/FloatValue both visitor paths); c10_i32: +-2^k, +-2^k+-1, +-10^k+-1 and random i32; c10_f64: every "
        "power of two incl. subnormals, powers of ten and 9.99..e k, +-0.0, MAX, MIN_POSITIVE, subnormal patterns and "
        "random finite bit patterns; c10_type: every type with <= 6 list wrappers over two names plus random types "
        "with 7..40 wrappers. Each family is compared with the extracted model and with an independent "
        "regular-expression / arithmetic statement of the property. Non-trivial: accepted, or longer than two characters.")
    ctx.cov["exhaustive"] = False
    ctx.assumptions += [
        "Rust's Display for finite f64 has the shape -?digits(.digits)? (no exponent) and f64::from_str inverts it: std behaviour, "
        "not modelled, checked on every generated f64",
        "i32::to_string / i32::from_str are modelled from their documented behaviour (Numbers.num_dec, num_parse_i32)",
        "the type parser of the model is a token-level reference parser; the real Parser::parse_type is run only on printed types",
        "the name! macro (compile-time check) is not exercised",
    ]
    return ctx.finish(props)


def replay(ctx, path):
    r = json.load(open(path))
    model = build_model()
    impl = build_impl()
    fam, case = r["family"], r["case"]
    print("case :", r.get("case_readable", case))
    print("impl :", run_family(impl, fam, [case])[0])
    print("model:", run_family(model, fam, [case])[0])
    if "spec" in r:
        print("spec :", r["spec"])
    return 0
