"""C21 — the compiler never panics on adversarial input; excessive depth produces recursion-limit
diagnostics; diagnostic lists come out sorted."""
import json
from common import *
from props import c21_gen as G

EXEC_SCHEMA = """type Query { a: Query b: Query c: Query x: Int y: Int }
type Mutation { a: Query b: Query x: Int m: Mutation }
type Subscription { a: Query b: Query x: Int s: Subscription }
directive @defer(label: String, if: Boolean! = true) on FRAGMENT_SPREAD | INLINE_FRAGMENT
"""


def staged(ctx, impl, model, family, dump_family, sources, compare=None, extra=None):
    """two-stage tie: the real parser/builder dumps the AST/Schema of each source text; the model family
    receives the dump, the implementation family the text (`extra`: a further field for the model)."""
    dumps = run_family(impl, dump_family, [hexs(t) for _, t in sources])
    cases, labels = [], {}
    for d, (label, text) in zip(dumps, sources):
        if not (d.startswith("ok ") or d.startswith("errors ")):
            raise MachineryError(f"{dump_family} failed on {label}: {d[:200]}")
        c = f"{d.split(' ')[-1]} {hexs(text)}" + (f" {extra}" if extra else "")
        cases.append(c)
        labels[c] = label
    rows = ctx.correspond(impl, model, family, cases, compare=compare,
                          nontrivial=lambda c, o: True,
                          describe=lambda c: labels[c] + ": " + unhexs(c.split(" ")[1])[:3000])
    return rows, labels


def count_verdicts(ctx, family, rows):
    fam = ctx.cov["families"][family]
    for v in ("ok", "cycle", "limit"):
        fam["verdict_" + v] = sum(o.count("=" + v) for _, o, _ in rows)


def run_sort(ctx, impl, model):
    srcs = G.sort_sources(ctx.rng, ctx.tier == "quick")
    cases = [f"{o} {hexs(a)} {hexs(b)}" for o, a, b in srcs]
    iout = run_family(impl, "gd_sort", cases)
    fam = ctx.cov["families"].setdefault("gd_sort", {"cases": 0, "agree": 0, "known": 0})
    ins, outs, oracles = [], [], []
    for c, line in zip(cases, iout):
        obs, oracle = split_oracle(line)
        if not obs.startswith("in="):
            ins.append("-"); outs.append(obs); oracles.append(oracle)
            continue
        i, o = obs.split(" ")
        ins.append(i[3:]); outs.append(o[4:]); oracles.append(oracle)
    mout = run_family(model, "gd_sort", ins)
    reordered = equal_keys = 0
    for c, i, o, m, oracle in zip(cases, ins, outs, mout, oracles):
        fam["cases"] += 1
        ctx.note_case("gd_sort " + c, i != "-")
        if i != o:
            reordered += 1
        keys = [e.rsplit(".", 1)[0] for e in i.split(";")] if i != "-" else []
        if len(set(keys)) < len(keys):
            equal_keys += 1
        if m.startswith("model-"):
            raise MachineryError(f"model runner failed on gd_sort {i}: {m}")
        if o == m and oracle == "ok":
            fam["agree"] += 1
            continue
        ctx.disagreements += (o != m)
        ctx.oracle_failures += (oracle != "ok")
        ctx.violation({"family": "gd_sort", "case": c,
                       "case_readable": "merge order %s of the diagnostic lists of: %s ||| %s" % (
                           c.split(" ")[0], unhexs(c.split(" ")[1]), unhexs(c.split(" ")[2])),
                       "impl": "in=%s out=%s" % (i, o), "model": m, "oracle": oracle,
                       "what": "DiagnosticList::merge/sort differs from the stable sort by (file, offset), None first"})
    fam["reordered_by_sort"] = reordered
    fam["with_equal_keys"] = equal_keys
    if ins:
        ctx.sample({"family": "gd_sort", "in": ins[0][:300], "out": outs[0][:300]}, limit=12)


def pipeline_cases(ctx, quick, graph_sources):
    """(label, stack KiB, schema text, document text, meta)"""
    stack = 1024
    cases = []
    add = lambda label, s, d, **meta: cases.append((label, stack, s, d, meta))
    for fam, srcs in graph_sources.items():
        for label, text in srcs:
            if fam in ("input", "dir"):
                add(label, text, "{ x }")
            else:
                add(label, EXEC_SCHEMA, text)
    for label, text in G.frag_pipeline_only():
        add(label, EXEC_SCHEMA, text)
    for label, s, d in G.deep_sources():
        add(label, s, d)
    for label, s, d in G.renderer_sources():
        add(label, s, d)
    for label, s, d in G.valid_sources():
        add(label, s, d, expect_valid=True)
    for m in G.malformed_sources(ctx.rng, quick):
        add("malformed-schema", m, "{ x }")
        add("malformed-doc", "type Query { x: Int a: Query }", m)
    for label, s, d, depth in G.overflow_sources(quick):
        add(label, s, d)
    return cases


def expect_rl(label):
    """structure cases whose depth exceeds the limit of the traversal they target by construction"""
    for prefix, limit in (("input-chain-", 32), ("input-cycle-", 32), ("dir-chain-", 32), ("dir-cycle-", 32),
                          ("frag-chain-", 100), ("frag-cycle-", 100), ("merge-nest-", 128 + 1)):
        if label.startswith(prefix):
            tail = label[len(prefix):].split("-")[0]
            if tail.isdigit() and int(tail) > limit:
                return True
    for prefix in ("walk-query-", "walk-mutation-", "walk-subscription-"):
        if label.startswith(prefix) and int(label.rsplit("-", 1)[1]) > 500:
            return True
    if label.startswith("walk-defer-root-10-") or label.startswith("walk-defer-uncond-10-"):
        return True     # a @defer walk of validate_defer reaches its limit (with or without the other walks)
    if label.startswith("walk-defer-label-"):
        return int(label.rsplit("-", 1)[1]) > 500 and "-f-" not in label and "-fi-" not in label
    if label.startswith("deep-selection-") or label.startswith("deep-inline-"):
        return int(label.rsplit("-", 1)[1]) >= 500
    if label.startswith("overflow-") and not label.startswith("overflow-leaf-first-"):
        return True     # fragments x nesting > 500: validate_selection_set (and the deduplicating walk) stop at their limit
    return False


def run_pipeline(ctx, impl, model, cases, family_label="c21_pipeline", timeout=150):
    lines, meta = [], {}
    for label, stack, s, d, m in cases:
        line = f"{stack} {timeout} {hexs(s)} {hexs(d)}"
        lines.append(line)
        meta[line] = dict(m, label=label)

    rows = ctx.correspond(impl, model, "c21_pipeline", lines,
                          compare=lambda i, m: i.startswith("ok "),
                          nontrivial=lambda c, o: True,
                          describe=lambda c: "%s (stack %s KiB)\n--- schema\n%s\n--- document\n%s" % (
                              meta[c]["label"], c.split(" ")[0], unhexs(c.split(" ")[2])[:4000], unhexs(c.split(" ")[3])[:4000]))
    fam = ctx.cov["families"]["c21_pipeline"]
    kinds = set()
    for c, i, _ in rows:
        if not i.startswith("ok "):
            fam["not_ok"] = fam.get("not_ok", 0) + 1
            continue
        f = dict(x.split("=", 1) for x in i.split(" ")[1:])
        kinds |= set(f["kinds"].split(",")) - {"-"}
        for k in ("sv", "dv", "rl", "colour"):
            fam[k] = fam.get(k, 0) + int(f[k])
        fam["diagnostics_rendered"] = fam.get("diagnostics_rendered", 0) + int(f["nerr"])
        fam["introspected"] = fam.get("introspected", 0) + int(f["intro"])
        if meta[c].get("expect_valid") and (f["sv"], f["dv"]) != ("1", "1"):
            raise MachineryError("a document of the valid corpus is not valid any more: " + meta[c]["label"] + " " + i)
        if expect_rl(meta[c]["label"]):
            fam["expected_recursion_limit"] = fam.get("expected_recursion_limit", 0) + 1
            if f["rl"] != "1":
                ctx.oracle_failures += 1
                ctx.violation({"family": "c21_pipeline", "case": c, "case_readable": meta[c]["label"],
                               "impl": i, "what": "a structure deeper than an internal limit produced no recursion-limit diagnostic"})
    fam["diagnostic_kinds_seen"] = sorted(kinds)
    return rows


def run(ctx):
    import time
    timing, t_last = {}, [time.time()]

    def lap(name):
        timing[name] = round(time.time() - t_last[0], 1)
        t_last[0] = time.time()
    props = check_props(ctx.pid)
    lap("coq")
    model = build_model()
    impl = build_impl()
    lap("builds")
    quick = ctx.tier == "quick"
    rng = ctx.rng
    sources = {
        "input": G.input_sources(rng, quick),
        "dir": G.dir_sources(rng, quick),
        "frag": G.frag_sources(rng, quick),
        "walk": G.walk_sources(rng, quick),
    }
    # ---- the guarded traversals: verdict of the model vs diagnostics of the real crate
    rows, _ = staged(ctx, impl, model, "gd_input_cycle", "c21_schema_dump", sources["input"])
    count_verdicts(ctx, "gd_input_cycle", rows)
    rows, _ = staged(ctx, impl, model, "gd_dir_cycle", "c21_schema_dump", sources["dir"])
    count_verdicts(ctx, "gd_dir_cycle", rows)
    rows, _ = staged(ctx, impl, model, "gd_frag_cycle", "c21_ast_dump", sources["frag"])
    count_verdicts(ctx, "gd_frag_cycle", rows)
    # walks: the model gets the schema as the real builder built it (typing of validate_selection_set); it also
    # says how many operations had their selection validation stopped by the depth limit and whether a @defer
    # walk of validate_defer ended with the limit error
    sdump = run_family(impl, "c21_schema_dump", [hexs(EXEC_SCHEMA)])[0]
    if not sdump.startswith("ok "):
        raise MachineryError("c21_schema_dump failed on the fixed schema: " + sdump[:200])
    rows, labels = staged(ctx, impl, model, "gd_walk", "c21_ast_dump", sources["walk"],
                          compare=lambda i, m: i == m.rsplit(" ", 2)[0], extra=sdump.split(" ")[-1])
    fam = ctx.cov["families"]["gd_walk"]
    for c, i, m in rows:
        f = dict(x.split("=") for x in m.split(" "))
        for k in ("rec", "used", "defer_root", "uncond", "undef", "sel", "trunc"):
            fam[k] = fam.get(k, 0) + int(f[k])
        if f["sel"] != "0":
            fam["selection_limit_documents"] = fam.get("selection_limit_documents", 0) + 1
            if i.startswith("rec=0 "):
                # oracle (C21_selection_limit_reported)
                ctx.oracle_failures += 1
                ctx.violation({"family": "gd_walk", "case": c, "case_readable": labels[c] + ": " + unhexs(c.split(" ")[1])[:3000],
                               "impl": i, "model": m,
                               "what": "selection validation deeper than its limit and no RecursionError diagnostic"})
        if f["trunc"] == "1":
            fam["defer_limit_alone"] = fam.get("defer_limit_alone", 0) + (f["used"] == "0")
            if i.startswith("rec=0 used=0"):
                # oracle (C21_defer_limit_reported): a walk stopped at the depth limit and nothing in the diagnostics says so
                ctx.oracle_failures += 1
                ctx.violation({"family": "gd_walk", "case": c, "case_readable": labels[c] + ": " + unhexs(c.split(" ")[1])[:3000],
                               "impl": i, "model": m,
                               "what": "a @defer walk ended with the recursion-limit error and no recursion-limit diagnostic was produced"})
    # field merging depth: abstract graph of merged field sets (computed independently by the generator)
    msrc = G.merge_sources(rng, quick)
    mcases = {f"{g} {hexs(text)}": label for label, (g, text) in msrc}
    rows = ctx.correspond(impl, model, "gd_merge", list(mcases), nontrivial=lambda c, o: True,
                          describe=lambda c: mcases[c] + ": " + unhexs(c.split(" ")[1])[:3000])
    ctx.cov["families"]["gd_merge"]["operations_flagged"] = sum(o.count("1") for _, o, _ in rows)
    sources["merge"] = [(label, text) for label, (g, text) in msrc]
    lap("guarded traversals")
    # DiagnosticList::merge / sort
    run_sort(ctx, impl, model)
    # ---- the whole pipeline under a 1 MiB stack
    pcs = pipeline_cases(ctx, quick, sources)
    run_pipeline(ctx, impl, model, pcs)
    lap("pipeline")
    ctx.cov["timing_s"] = timing
    if not quick:
        # O2: 256 KiB (the design's figure) is less than a document nested 400 deep needs although the parser
        # admits 500 (about 0.75 KiB of stack per nesting level in the release build): 512 KiB is the smallest
        # power of two that holds every document within the parser's own limit, so that is the small stack.
        small = [(l, 512, s, d, m) for (l, _, s, d, m) in pcs]
        run_pipeline(ctx, impl, model, small)
        # the debug build is run for its overflow checks and debug_assert!s, with a stack to match its frames
        dbg = build_impl("debug")
        big = [(l, 8192, s, d, m) for (l, _, s, d, m) in pcs]
        run_pipeline(ctx, dbg, model, big, timeout=600)
    ctx.cov["rule"] = (
        "gd_*: schemas/documents with chains, cycles and lassos of input objects, directive definitions and fragments at "
        "lengths limit-1, limit, limit+1, limit+2, 10*limit for the limits 32, 100, 128, 500; cycles through every pair (and "
        "sampled triples) of the nine edge kinds of directive definitions and through every nesting of field / inline / "
        "typed inline around fragment spreads; layered DAGs with bounded branching**depth (O1); seeded random graphs; each "
        "text is parsed by the real parser, its AST/Schema dump is given to the model and the verdict per definition "
        "(ok | cycle | limit) is compared with the diagnostic kinds at that definition.  gd_sort: DiagnosticList::merge of "
        "up to six lists of two sources in every sampled order vs the model's stable sort.  c21_pipeline: all of those "
        "texts plus nesting around the parser's limit, malformed token sequences (all of length <= 2 over 30 tokens, "
        "length 3 over 14; quick tier: a stride) and one-token edits of 10 definitions, renderer corner cases; each case "
        "parse -> build -> validate -> serialize x3 -> re-validate -> introspect -> render (plain, colour, JSON) in a "
        "thread with a 1 MiB stack (thorough: also 512 KiB, and the debug build with 8 MiB); among them chains of up to 99 "
        "fragments each nesting up to 480 fields or inline fragments (the witnesses of the former finding "
        "selection_set_recursion_unguarded: 50 x 100 in the quick tier, 99 x 400 in the thorough tier), which must come back "
        "with a recursion-limit diagnostic instead of killing the worker. gd_walk also compares the number of "
        "RecursionError diagnostics of validate_selection_set (chains of fragments around depth 500 through fields, inline "
        "fragments and both; subtrees the walk must not enter: missing sub-selection, non-composite type condition, "
        "cyclic fragment; fragments validated once per operation) and of UndefinedFragment diagnostics. "
        "Every case counts as non-trivial.")
    ctx.cov["exhaustive"] = False
    ctx.assumptions += [
        "strength is PARTIAL by construction: only the guard mechanisms, the guarded traversals and the sort have a model; "
        "the remaining unwrap/index/expect sites of the compiler are exercised by the pipeline family, not proved",
        "std's sort_by_key is trusted to be a stable sort (modelled as insertion sort); ariadne's renderer is only exercised",
        "detect_fragment_cycles is modelled on the pre-order sequence of spreads of each fragment (fields and inline "
        "fragments pass the same guard and propagate every error)",
        "validate_selection_set is modelled as far as it decides where to descend (type_field, leaf check, type conditions, "
        "cycle check, validated_fragments) and what it counts (DepthGuard, UndefinedFragment); the generated documents "
        "select only fields the schema defines (from_ast drops the others before validation sees them)",
        "FindRecursiveDirective terminates only if no built-in type is an input object (true of built_in_types.graphql; "
        "is_built_in is decided by FileId::BUILT_IN, which parsed texts cannot carry)",
    ]
    return ctx.finish(props)


def replay(ctx, path):
    r = json.load(open(path))
    model = build_model()
    impl = build_impl()
    fam, case = r["family"], r["case"]
    print("case :", r.get("case_readable", case)[:2000])
    print("impl :", run_family(impl, fam, [case])[0][:2000])
    if fam == "gd_sort":
        return 0
    print("model:", run_family(model, fam, [case])[0][:2000])
    return 0
