"""C12 — schema serialization round-trips and preserves order."""
import json
import re
from common import *
from props.sch_util import *

KNOWN = "Known_C12"


def strip_impl(o):
    return re.sub(r" valid=\d", "", o)


def strip_model(o):
    return re.sub(r" known=\d docok=\d", "", o)


def run(ctx):
    props = check_props(ctx.pid)
    model = build_model()
    impl = build_impl()
    setup_builtin(impl)
    # hypothesis bi_b0_ok of C12_rebuild / C12_fixpoint, evaluated on the real built-in definitions
    b0ok = run_family(model, "sb_b0_ok", ["-"])[0]
    ctx.cov["bi_b0_ok_on_real_builtins"] = b0ok == "b0_ok"
    if b0ok != "b0_ok":
        ctx.violation({"what": "the built-in definitions of SchemaBuilder::new() no longer satisfy bi_b0_ok (empty schema "
                               "definition, built-in flags, distinct names, no extension components): the hypothesis of "
                               "C12_rebuild does not hold for the real initial state", "observed": b0ok}, no_input=True)
    n = 4000 if ctx.tier == "quick" else 20000
    cases = [("corpus:" + name, cfg, text) for name, text in corpus_texts("C12") for cfg in ("-", "a")]
    for fl, cfg, items in gen_histories(ctx, n):
        cases.append((fl, cfg, sch_gen.text_of(items)))
    asts = ast_stage(impl, [t for _, _, t in cases])
    syntax = sum(1 for a in asts if a is None)
    cases = [(fl, cfg, t, a) for (fl, cfg, t), a in zip(cases, asts) if a is not None]
    # --- the builder itself (Build.v): every history, clean or not
    lines = [f"{cfg} 1 {hexs(t)} {a}" for _, cfg, t, a in cases]
    desc = lambda c: f"cfg={c.split(' ')[0]}\n" + unhexs(c.split(" ")[2])
    rows = ctx.correspond(impl, model, "sb_build", lines, describe=desc,
                          nontrivial=lambda c, o: True)
    fam = ctx.cov["families"]["sb_build"]
    fam["clean_builds"] = sum(1 for _, i, _ in rows if i.startswith("errs=[] "))
    fam["with_build_errors"] = len(rows) - fam["clean_builds"]
    fam["adopt_orphan_extensions"] = sum(1 for c, _, _ in rows if "a" in c.split(" ")[0])
    classes = {}
    for _, i, _ in rows:
        for e in re.match(r"errs=\[([^\]]*)\]", i).group(1).split(";"):
            if e:
                classes[e.split("(")[0]] = classes.get(e.split("(")[0], 0) + 1
    fam["error_classes"] = classes
    # --- the round trip (Build.v + ToAst.v) and the oracle on the implementation
    lines = [f"{cfg} {hexs(t)} {a}" for _, cfg, t, a in cases]
    desc2 = lambda c: f"cfg={c.split(' ')[0]}\n" + unhexs(c.split(" ")[1])

    def classify(c, iobs, mobs):
        # inside the class of D10, and the model reproduces what the implementation does
        if " known=1 " in mobs and strip_impl(iobs) == strip_model(mobs):
            return KNOWN
        return None

    rows = ctx.correspond(impl, model, "c12_rt", lines, describe=desc2, classify=classify,
                          nontrivial=lambda c, o: o.startswith("ok"),
                          compare=lambda i, m: strip_impl(i) == strip_model(m))
    fam = ctx.cov["families"]["c12_rt"]
    fam["round_trips"] = sum(1 for _, i, _ in rows if i.startswith("ok"))
    fam["valid_inputs"] = sum(1 for _, i, _ in rows if i.startswith("ok valid=1"))
    fam["in_known_class"] = sum(1 for _, _, m in rows if " known=1 " in m)
    fam["with_extensions"] = sum(1 for _, i, _ in rows if i.startswith("ok") and "Ox(n" in i)
    # hypothesis bi_doc_ok of C12_rebuild: what the real parser produced
    bad_docs = [(c, i, m) for c, i, m in rows if " docok=0 " in m]
    fam["bi_doc_ok_false"] = len(bad_docs)
    for c, i, m in bad_docs[:2]:
        ctx.violation({"family": "c12_rt", "case": c, "case_readable": desc2(c), "impl": i, "model": m,
                       "what": "the parser produced a schema definition without root operations: hypothesis bi_doc_ok of "
                               "C12_rebuild does not hold for this input"})
    for (fl, cfg, t, a), (c, i, m) in list(zip(cases, rows))[:: max(1, len(rows) // 4)]:
        ctx.sample({"family": "c12_rt", "flavour": fl, "cfg": cfg, "source": t, "impl": i[:160], "model": m[:160]}, limit=5)
    ctx.cov["syntax_errors_skipped"] = syntax
    ctx.cov["rule"] = (
        f"corpus/C12 plus {n} generated schema histories (sch_gen.py: 1-6 types of every kind, 0-4 extensions per type and "
        "of the schema at random positions including before the definition, implicit/explicit schema definitions, "
        "redefined built-in directives, extended built-in types, injected build errors; builder configurations -, a, i, ai). "
        "sb_build compares the built schema (origins, every key order) and the sorted error classes of model and "
        "implementation on every history; c12_rt compares, for histories that build cleanly, the re-parsed AST of the "
        "serialized schema with the model's to_ast and both schemas before/after; the oracle checks order/origin equality, "
        "Schema ==, byte-identical second text and preserved validity on the implementation. Non-trivial: builds cleanly.")
    ctx.cov["exhaustive"] = False
    ctx.assumptions += [
        "error classes are read off the Debug form of the (private) BuildError and the back-quoted names of its message; the push order of errors is not observable (sorted)",
        "the AST handed to the model comes from the real parser (ast_dump); texts with syntax errors are skipped",
        "the model's initial state is the built-in schema as dumped from the real crate (sb_builtin)",
        "the round trip re-parses in the same builder configuration (adopt_orphan_extensions on/off) as the first build",
    ]
    return ctx.finish(props)


def replay(ctx, path):
    r = json.load(open(path))
    model = build_model()
    impl = build_impl()
    setup_builtin(impl)
    fam, case = r["family"], r["case"]
    print("case :", r.get("case_readable", case))
    print("impl :", run_family(impl, fam, [case])[0])
    print("model:", run_family(model, fam, [case])[0])
    return 0
