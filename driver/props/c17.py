"""C17 — executable validation agrees with the specification."""
import json
import random
from collections import Counter
from common import *
from props import c17_gen as g
from props.c17_util import *


RULES = ["executable_definitions", "operation_name_unique", "lone_anonymous", "subscription_single_root",
         "fields_defined", "fields_merge", "leaf_selections", "argument_names", "argument_unique",
         "required_arguments", "fragment_name_unique", "fragment_type_exists", "fragment_on_composite",
         "fragments_used", "spread_target_defined", "no_fragment_cycles", "spread_possible",
         "values_correct_type", "input_field_names", "input_field_unique", "input_required_fields",
         "variable_unique", "variables_input_types", "variables_defined", "variables_used",
         "variable_usages_allowed", "directives_defined", "directive_locations", "directives_unique",
         "root_operation_defined", "subscription_no_skip_include"]


def gen_cases(ctx):
    rng = ctx.rng
    quick = ctx.tier == "quick"
    cases = []
    nsch = 12 if quick else 60
    for si in range(nsch):
        sch = g.gen_schema(rng)
        st = sch.text()
        for _ in range(20 if quick else 60):
            doc = g.gen_doc(rng, sch)
            cases.append({"schema": st, "doc": g.doc_str(doc), "label": "valid-by-construction", "ast": doc})
            if _ < (4 if quick else 20):
                for label, m in g.mutate(rng, sch, doc):
                    cases.append({"schema": st, "doc": g.doc_str(m), "label": label, "ast": m})
        for label, m in g.directed(rng, sch, 12 if quick else 60):
            cases.append({"schema": st, "doc": g.doc_str(m), "label": label, "ast": m})
    return cases


def run(ctx):
    props = check_props(ctx.pid)
    model = build_model()
    impl = build_impl()
    cases = gen_cases(ctx)
    sd, dd = dump_all(impl, [c["schema"] for c in cases], [c["doc"] for c in cases])
    ctx.cov["discarded_schema_invalid"] = sum(1 for v in sd.values() if v is None)
    ctx.cov["discarded_doc_syntax"] = sum(1 for v in dd.values() if v is None)
    rows = correspond2(ctx, impl, model, "c17_valid", cases, sd, dd)
    lab = Counter()
    for c, io, mo in rows:
        lab[(c["label"], first_word(mo))] += 1
    ctx.cov["by_label"] = {f"{k[0]}:{k[1]}": v for k, v in sorted(lab.items())}
    # per rule: cases that violate it alone ("in isolation"), together with others, and that satisfy it
    alone, together = Counter(), Counter()
    nvalid = 0
    for c, io, mo in rows:
        if first_word(mo) == "valid":
            nvalid += 1
            continue
        rules = mo.split(" ")[1].split(",")
        for r in rules:
            (alone if len(rules) == 1 else together)[r] += 1
    ctx.cov["per_rule"] = {r: {"violated_alone": alone[r], "violated_with_others": together[r],
                               "satisfied": len(rows) - alone[r] - together[r]} for r in RULES}
    ctx.cov["spec_valid"] = nvalid
    ctx.cov["spec_invalid"] = len(rows) - nvalid
    kinds = Counter()
    for c, io, mo in rows:
        if io.startswith("invalid "):
            for k in io.split(" ", 1)[1].split(","):
                kinds[k] += 1
    ctx.cov["impl_diagnostic_kinds"] = dict(sorted(kinds.items()))
    return ctx.finish(props)


def replay(ctx, path):
    r = json.load(open(path))
    model = build_model()
    impl = build_impl()
    sd, dd = dump_all(impl, [r["schema"]], [r["doc"]])
    print("schema:\n" + r["schema"])
    print("doc:\n" + r["doc"])
    print("impl :", run_family(impl, "c17_valid", [hexs(r["schema"]) + " " + hexs(r["doc"])])[0])
    print("model:", run_family(model, "c17_valid", [sd[r["schema"]] + " " + dd[r["doc"]]])[0])
    return 0
