"""C17 — executable validation agrees with the specification."""
import json
import random
from collections import Counter
from common import *
from props import c17_gen as g
from props.c17_util import *


def gen_cases(ctx):
    rng = ctx.rng
    quick = ctx.tier == "quick"
    cases = []
    nsch = 12 if quick else 60
    for si in range(nsch):
        sch = g.gen_schema(rng)
        st = sch.text()
        for _ in range(25 if quick else 60):
            doc = g.gen_doc(rng, sch)
            cases.append({"schema": st, "doc": g.doc_str(doc), "label": "valid-by-construction", "ast": doc})
            if _ < (6 if quick else 20):
                for label, m in g.mutate(rng, sch, doc):
                    cases.append({"schema": st, "doc": g.doc_str(m), "label": label, "ast": m})
    return cases


def run(ctx):
    props = check_props(ctx.pid)
    model = build_model()
    impl = build_impl()
    cases = gen_cases(ctx)
    sd, dd = dump_all(impl, [c["schema"] for c in cases], [c["doc"] for c in cases])
    ctx.cov["discarded_schema_invalid"] = sum(1 for v in sd.values() if v is None)
    ctx.cov["discarded_doc_syntax"] = sum(1 for v in dd.values() if v is None)
    rows = correspond2(ctx, impl, model, "c17_valid", cases, sd, dd)
    lab = Counter()
    for c, io, mo in rows:
        lab[(c["label"], first_word(mo))] += 1
    ctx.cov["by_label"] = {f"{k[0]}:{k[1]}": v for k, v in sorted(lab.items())}
    return ctx.finish(props)


def replay(ctx, path):
    r = json.load(open(path))
    model = build_model()
    impl = build_impl()
    sd, dd = dump_all(impl, [r["schema"]], [r["doc"]])
    print("schema:\n" + r["schema"])
    print("doc:\n" + r["doc"])
    print("impl :", run_family(impl, "c17_valid", [hexs(r["schema"]) + " " + hexs(r["doc"])])[0])
    print("model:", run_family(model, "c17_valid", [sd[r["schema"]] + " " + dd[r["doc"]]])[0])
    return 0
