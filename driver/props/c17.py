"""C17 — executable validation agrees with the specification."""
import json
import random
from collections import Counter
from common import *
from props import c17_gen as g
from props.c17_util import *


RULES = ["executable_definitions", "operation_name_unique", "lone_anonymous", "subscription_single_root",
         "fields_defined", "fields_merge", "leaf_selections", "argument_names", "argument_unique",
         "required_arguments", "fragment_name_unique", "fragment_type_exists", "fragment_on_composite",
         "fragments_used", "spread_target_defined", "no_fragment_cycles", "spread_possible",
         "values_correct_type", "input_field_names", "input_field_unique", "input_required_fields",
         "variable_unique", "variables_input_types", "variables_defined", "variables_used",
         "variable_usages_allowed", "directives_defined", "directive_locations", "directives_unique",
         "root_operation_defined", "subscription_no_skip_include"]


def gen_cases(ctx):
    rng = ctx.rng
    quick = ctx.tier == "quick"
    cases = []
    nsch = 9 if quick else 60
    for si in range(nsch):
        sch = g.gen_schema(rng)
        st = sch.text()
        for _ in range(20 if quick else 60):
            doc = g.gen_doc(rng, sch)
            cases.append({"schema": st, "doc": g.doc_str(doc), "label": "valid-by-construction", "ast": doc})
            if _ < (4 if quick else 20):
                for label, m in g.mutate(rng, sch, doc):
                    cases.append({"schema": st, "doc": g.doc_str(m), "label": label, "ast": m})
        for label, m in g.directed(rng, sch, 12 if quick else 60):
            cases.append({"schema": st, "doc": g.doc_str(m), "label": label, "ast": m})
    return cases


def run(ctx):
    props = check_props(ctx.pid)
    model = build_model()
    impl = build_impl()
    cases = []
    for f in sorted((VERIF / "corpus" / "C17").glob("*.json")):
        cases += json.load(open(f))
    ctx.cov["corpus_cases"] = len(cases)
    cases += gen_cases(ctx)
    sd, dd = dump_all(impl, [c["schema"] for c in cases], [c["doc"] for c in cases])
    ctx.cov["discarded_schema_invalid"] = sum(1 for v in sd.values() if v is None)
    ctx.cov["discarded_doc_syntax"] = sum(1 for v in dd.values() if v is None)
    rows = correspond2(ctx, impl, model, "c17_valid", cases, sd, dd)
    lab = Counter()
    for c, io, mo in rows:
        lab[(c["label"], first_word(mo))] += 1
    ctx.cov["by_label"] = {f"{k[0]}:{k[1]}": v for k, v in sorted(lab.items())}
    # per rule: cases that violate it alone ("in isolation"), together with others, and that satisfy it
    alone, together = Counter(), Counter()
    nvalid = 0
    for c, io, mo in rows:
        if first_word(mo) == "valid":
            nvalid += 1
            continue
        rules = mo.split(" ")[1].split(",")
        for r in rules:
            (alone if len(rules) == 1 else together)[r] += 1
    ctx.cov["per_rule"] = {r: {"violated_alone": alone[r], "violated_with_others": together[r],
                               "satisfied": len(rows) - alone[r] - together[r]} for r in RULES}
    ctx.cov["spec_valid"] = nvalid
    ctx.cov["spec_invalid"] = len(rows) - nvalid
    kinds = Counter()
    for c, io, mo in rows:
        if io.startswith("invalid "):
            for k in io.split(" ", 1)[1].split(","):
                kinds[k] += 1
    ctx.cov["impl_diagnostic_kinds"] = dict(sorted(kinds.items()))
    for c, io, mo in rows:
        if c["label"].startswith("corpus-"):
            ctx.sample({"label": c["label"], "doc": c["doc"], "impl": io, "spec": mo,
                        "known_classes": c.get("known_classes")}, limit=20)
    ctx.cov["rule"] = (
        "two-stage tie: generated GraphQL text is parsed by the real parser (ast_dump) and the schema built and "
        "validated by the real builder (schema_dump b); the extracted specification xv_exec_valid (Exec/Valid.v, "
        "apollo parameters) gives a verdict on those, ExecutableDocument::parse_and_validate gives the other; only "
        "valid/invalid is compared.  Cases: per generated schema (objects, interfaces, unions, enums, input objects with "
        "defaults and required fields, lists, non-null, custom scalars, custom directives with locations/repeatable, "
        "mutation and subscription roots) documents valid by construction, ~90 rule-directed mutants of some of them "
        "(c17_gen.mutate), and directed enumerations over the schema (c17_gen.directed: pairs of fields under one "
        "response key under same/different-object/abstract parents at one and two levels, duplicated fields with "
        "argument variants, every literal kind at every list depth and in input fields, variables of every type "
        "variant at top level / in lists / in input fields with null and non-null defaults, custom-scalar literals "
        "(null, defined and undefined variables at every place inside list and object literals written for nullable, "
        "non-null and list-of-non-null custom scalar arguments), "
        "every directive at every location once and twice with argument variants, subscription shapes, fragment "
        "graphs (cycles of length 1-4 through inline fragments and fields, diamonds, side cycles), every (parent, "
        "type condition) pair, leaf/composite selections, introspection fields).  per_rule counts, per rule of "
        "section 5, the cases that violate it alone / with others / satisfy it (by the specification's vector).  "
        "No known-finding class is left: every disagreement is a violation.  Documents beyond apollo's internal limits (xv_within_limits: "
        "fewer than 100 fragments and (fragments+1)*(deepest selection+1) <= 128, a conservative bound for the fragment chain limit 100 and "
        "FIELD_DEPTH_LIMIT 128) are outside the range and counted as outside_limits.  Inside modelrun the literal models "
        "of selection.rs (MergeXing.v) and fragment.rs (FragCycles.v) are compared with the specification's rules on "
        "every case (literal_merging_vs_spec, literal_cycles_vs_spec); a difference is reported as a violation.")
    ctx.cov["exhaustive"] = False
    ctx.assumptions += [
        "the specification model (Exec/Valid.v) is a hand transcription of section 5 of the October 2021 text; "
        "where the prose is ambiguous graphql-js 16's reading is taken (comments name the paragraphs): fragments must "
        "be used = reachable from an operation; a spread on the parent type itself is always possible "
        "(xp_same_type_spread_always_possible); list entries written for a non-list type are expected to have that "
        "type made nullable, object fields written for a custom scalar have no expected type; Float literals must be finite",
        "deliberate differences are parameters: xp_reject_undefined_root_operation, xp_subscription_skip_include_rule, "
        "xp_same_type_spread_always_possible are modelled and on; xp_defer_rules is NOT modelled: the generator never "
        "writes @defer or @stream (they are not defined by the generated schemas)",
        "agreement of the code with xv_exec_valid on all rules is carried by this tie (partial by construction); the "
        "theorems of Props/C17.v are about the literal models of fragment cycle detection and of field merging "
        "(C17_xing_equiv: the literal model of selection.rs computes the verdict of the specification's rule 5.3.2 for "
        "documents that pass the other rules named there; the literal model itself is tied to the code by "
        "literal_merging_vs_spec on every generated case)",
        "not generated: block strings, descriptions, variables in default values or in directives on variable "
        "definitions, more than 20 arguments on one field (ArgumentLookup::Map), documents with syntax errors, "
        "Float literals within one ulp of the largest double, schemas that do not validate",
    ]
    return ctx.finish(props)


def replay(ctx, path):
    r = json.load(open(path))
    model = build_model()
    impl = build_impl()
    sd, dd = dump_all(impl, [r["schema"]], [r["doc"]])
    print("schema:\n" + r["schema"])
    print("doc:\n" + r["doc"])
    print("impl :", run_family(impl, "c17_valid", [hexs(r["schema"]) + " " + hexs(r["doc"])])[0])
    print("model:", run_family(model, "c17_valid", [sd[r["schema"]] + " " + dd[r["doc"]]])[0])
    return 0
