"""Shared by the schema-builder checks C12, C13, C16: the built-in initial state for the model, the
AST stage of the two-stage tie, case generation from sch_gen."""
import os
import re
from common import *
from props import sch_gen


def setup_builtin(impl):
    """The model starts from the built-in definitions as the real crate builds them."""
    out = run_family(impl, "sb_builtin", ["-"])
    if not out or not out[0].startswith("ok Sch("):
        raise MachineryError("sb_builtin did not produce the built-in schema: " + (out[0][:200] if out else ""))
    path = BUILD / "builtin_schema.txt"
    path.write_text(out[0] + "\n")
    os.environ["VERIF_BUILTIN_SCHEMA"] = str(path)


def ast_stage(impl, texts):
    """text -> AST text from the real parser, or None when the text has syntax errors"""
    outs = run_family(impl, "ast_dump", [hexs(t) for t in texts])
    return [o[3:] if o.startswith("ok ") else None for o in outs]


def corpus_texts(pid):
    d = VERIF / "corpus" / pid
    out = []
    if d.exists():
        for f in sorted(d.glob("*.graphql")):
            out.append((f.name, f.read_text()))
    return out


def gen_histories(ctx, n):
    """n generated histories: list of (flavour, cfg, items)"""
    return [sch_gen.gen_case(ctx.rng) for _ in range(n)]


def strip(pattern, s):
    return re.sub(pattern, "", s)
