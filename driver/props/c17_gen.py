"""C17 generator, part 1: schemas (valid by construction) with a Python-side model, types, values, printing.

Types are tuples: ('n', name) | ('nn', t) | ('l', t).   Values: ('int', text) ('float', text) ('str', s)
('bool', b) ('null',) ('enum', n) ('var', n) ('list', [v]) ('obj', [(k, v)]).
"""
import copy

BUILTIN_SCALARS = ["Int", "Float", "String", "Boolean", "ID"]


# ---------------------------------------------------------------- types
def N(n):
    return ("n", n)


def NN(t):
    return ("nn", t)


def L(t):
    return ("l", t)


def ty_str(t):
    if t[0] == "n":
        return t[1]
    if t[0] == "nn":
        return ty_str(t[1]) + "!"
    return "[" + ty_str(t[1]) + "]"


def named(t):
    while t[0] != "n":
        t = t[1]
    return t[1]


def is_nn(t):
    return t[0] == "nn"


def nullable(t):
    return t[1] if t[0] == "nn" else t


# ---------------------------------------------------------------- values
def val_str(v):
    k = v[0]
    if k in ("int", "float", "enum"):
        return v[1]
    if k == "str":
        return '"' + v[1] + '"'
    if k == "bool":
        return "true" if v[1] else "false"
    if k == "null":
        return "null"
    if k == "var":
        return "$" + v[1]
    if k == "list":
        return "[" + ", ".join(val_str(x) for x in v[1]) + "]"
    if k == "obj":
        return "{" + ", ".join(f"{a}: {val_str(b)}" for a, b in v[1]) + "}"
    raise ValueError(v)


def args_str(args):
    return "(" + ", ".join(f"{a}: {val_str(b)}" for a, b in args) + ")" if args else ""


def dirs_str(dirs):
    return "".join(f" @{n}{args_str(a)}" for n, a in dirs)


# ---------------------------------------------------------------- schema model
class Schema:
    """kinds: scalar enum input interface object union.  Everything the document generator needs."""

    def __init__(self):
        self.scalars = []          # custom scalar names
        self.enums = {}            # name -> [values]
        self.inputs = {}           # name -> [(fname, type, default value or None)]
        self.interfaces = {}       # name -> {'fields': [(fname, args, type)], 'implements': []}
        self.objects = {}          # name -> {'fields': [...], 'implements': [...]}
        self.unions = {}           # name -> [members]
        self.roots = {}            # 'query'|'mutation'|'subscription' -> type name
        self.directives = {}       # name -> {'args': [(n, type, default)], 'locs': [...], 'rep': bool}
        self.explicit_schema_def = False

    def kind(self, n):
        if n in BUILTIN_SCALARS or n in self.scalars:
            return "scalar"
        for k, d in (("enum", self.enums), ("input", self.inputs), ("interface", self.interfaces),
                     ("object", self.objects), ("union", self.unions)):
            if n in d:
                return k
        return None

    def is_composite(self, n):
        return self.kind(n) in ("object", "interface", "union")

    def is_input_type(self, n):
        return self.kind(n) in ("scalar", "enum", "input")

    def fields(self, n):
        if n in self.objects:
            return self.objects[n]["fields"]
        if n in self.interfaces:
            return self.interfaces[n]["fields"]
        return []

    def field(self, n, f):
        for x in self.fields(n):
            if x[0] == f:
                return x
        return None

    def possible(self, n):
        k = self.kind(n)
        if k == "object":
            return [n]
        if k == "interface":
            return [o for o, d in self.objects.items() if n in d["implements"]]
        if k == "union":
            return list(self.unions[n])
        return []

    def composites(self):
        return list(self.objects) + list(self.interfaces) + list(self.unions)

    def text(self):
        out = []
        if self.explicit_schema_def:
            out.append("schema { " + " ".join(f"{k}: {v}" for k, v in self.roots.items()) + " }")
        for n, d in self.directives.items():
            a = "(" + ", ".join(f"{x}: {ty_str(t)}" + (f" = {val_str(dv)}" if dv is not None else "")
                                for x, t, dv in d["args"]) + ")" if d["args"] else ""
            out.append(f"directive @{n}{a}{' repeatable' if d['rep'] else ''} on {' | '.join(d['locs'])}")
        for n in self.scalars:
            out.append(f"scalar {n}")
        for n, vs in self.enums.items():
            out.append(f"enum {n} {{ {' '.join(vs)} }}")
        for n, fs in self.inputs.items():
            out.append(f"input {n} {{ " + " ".join(
                f"{f}: {ty_str(t)}" + (f" = {val_str(dv)}" if dv is not None else "") for f, t, dv in fs) + " }")

        def fld(f):
            name, args, t = f
            a = "(" + ", ".join(f"{x}: {ty_str(at)}" + (f" = {val_str(dv)}" if dv is not None else "")
                                for x, at, dv in args) + ")" if args else ""
            return f"{name}{a}: {ty_str(t)}"
        for kw, dd in (("interface", self.interfaces), ("type", self.objects)):
            for n, d in dd.items():
                impl = " implements " + " & ".join(d["implements"]) if d["implements"] else ""
                out.append(f"{kw} {n}{impl} {{ " + " ".join(fld(f) for f in d["fields"]) + " }")
        for n, ms in self.unions.items():
            out.append(f"union {n} = {' | '.join(ms)}")
        return "\n".join(out) + "\n"


EXEC_LOCS = ["QUERY", "MUTATION", "SUBSCRIPTION", "FIELD", "FRAGMENT_DEFINITION", "FRAGMENT_SPREAD",
             "INLINE_FRAGMENT", "VARIABLE_DEFINITION"]


def const_value(rng, sch, t, depth=0, allow_null=True):
    """a constant literal valid for type t (by construction)"""
    if t[0] == "nn":
        return const_value(rng, sch, t[1], depth, allow_null=False)
    if allow_null and rng.random() < 0.1:
        return ("null",)
    if t[0] == "l":
        if rng.random() < 0.2 and depth < 2:          # single-value coercion
            v = const_value(rng, sch, t[1], depth + 1, allow_null=False)
            if v[0] != "list":
                return v
        return ("list", [const_value(rng, sch, t[1], depth + 1) for _ in range(rng.randint(0, 2))])
    n = t[1]
    if n == "Int":
        return ("int", rng.choice(["0", "1", "-7", "2147483647", "-2147483648", "42"]))
    if n == "Float":
        return rng.choice([("float", "1.5"), ("float", "-0.25"), ("int", "3"), ("float", "1e10"),
                           ("float", "1.0E-3"), ("int", "123456789012")])
    if n == "String":
        return ("str", rng.choice(["", "a", "hello", "4"]))
    if n == "Boolean":
        return ("bool", rng.random() < 0.5)
    if n == "ID":
        return rng.choice([("str", "id1"), ("int", "4"), ("int", "99999999999")])
    if n in sch.scalars:
        return rng.choice([("int", "1"), ("str", "x"), ("float", "2.5"), ("bool", True), ("enum", "ANY"),
                           ("list", [("int", "1"), ("str", "a")]), ("obj", [("k", ("int", "1"))]),
                           ("obj", [("a", ("obj", [("b", ("list", []))]))])])
    if n in sch.enums:
        return ("enum", rng.choice(sch.enums[n]))
    if n in sch.inputs:
        fs = []
        for f, ft, dv in sch.inputs[n]:
            required = is_nn(ft) and dv is None
            if required or (rng.random() < 0.5 and depth < 3):
                fs.append((f, const_value(rng, sch, ft, depth + 1)))
        rng.shuffle(fs)
        return ("obj", fs)
    raise ValueError(t)


def rand_input_type(rng, sch, names, maxlist=2):
    t = N(rng.choice(names))
    if rng.random() < 0.3:
        t = NN(t)
    for _ in range(maxlist):
        if rng.random() < 0.3:
            t = L(t)
            if rng.random() < 0.3:
                t = NN(t)
    return t


def gen_args(rng, sch, input_names, maxn=3):
    args = []
    for a in rng.sample(["a", "b", "c", "id", "flt"], rng.randint(0, maxn)):
        t = rand_input_type(rng, sch, input_names)
        dv = const_value(rng, sch, t) if rng.random() < 0.35 else None
        args.append((a, t, dv))
    return args


def gen_schema(rng):
    s = Schema()
    s.scalars = rng.sample(["JSON", "Date"], rng.randint(1, 2))
    for e in rng.sample(["Color", "Dir"], rng.randint(1, 2)):
        s.enums[e] = {"Color": ["RED", "GREEN", "BLUE"], "Dir": ["UP", "DOWN"]}[e][: rng.randint(2, 3)]
    leafs = BUILTIN_SCALARS + s.scalars + list(s.enums)
    # input objects: acyclic by construction (fields refer to earlier input objects only)
    for n in ["Inner", "Filter", "Deep"][: rng.randint(2, 3)]:
        names = leafs + list(s.inputs)
        fs = []
        for f in rng.sample(["n", "s", "id", "tags", "sub", "opt", "req", "e", "j"], rng.randint(2, 5)):
            t = rand_input_type(rng, s, names)
            if f == "req":
                t = NN(nullable(t))
            dv = const_value(rng, s, t) if rng.random() < 0.35 and f != "req" else None
            fs.append((f, t, dv))
        s.inputs[n] = fs
    input_names = leafs + list(s.inputs)
    # interfaces
    field_pool = ["id", "name", "x", "y", "z", "val", "list", "peer", "kid"]
    out_leafs = BUILTIN_SCALARS + s.scalars + list(s.enums)
    obj_names = ["A", "B", "C", "D"][: rng.randint(3, 4)]
    iface_names = ["Node", "Named", "Lonely"][: rng.randint(1, 3)]
    union_names = ["AB", "Any"][: rng.randint(1, 2)]
    comp_names = obj_names + iface_names + union_names

    def rand_out_type(leaf_bias=0.6):
        n = rng.choice(out_leafs) if rng.random() < leaf_bias else rng.choice(comp_names)
        t = N(n)
        if rng.random() < 0.3:
            t = NN(t)
        if rng.random() < 0.3:
            t = L(t)
            if rng.random() < 0.3:
                t = NN(t)
        return t
    for i in iface_names:
        fs = []
        for f in rng.sample(field_pool, rng.randint(1, 3)):
            fs.append((f, gen_args(rng, s, input_names, 2), rand_out_type()))
        s.interfaces[i] = {"fields": fs, "implements": []}
    for o in obj_names:
        impl = [i for i in iface_names if i != "Lonely" and rng.random() < 0.6]
        fs, have = [], set()
        for i in impl:
            for f in s.interfaces[i]["fields"]:
                if f[0] not in have:
                    have.add(f[0])
                    fs.append(copy.deepcopy(f))
                else:
                    # same field name required by two interfaces with (maybe) different definitions:
                    # keep the object valid by dropping the second interface
                    ex = [x for x in fs if x[0] == f[0]][0]
                    if ex != f:
                        impl = [j for j in impl if j != i]
        # drop fields contributed by dropped interfaces is not needed (extra fields are fine)
        for f in rng.sample(field_pool, rng.randint(2, 5)):
            if f not in have:
                have.add(f)
                fs.append((f, gen_args(rng, s, input_names, 2), rand_out_type()))
        s.objects[o] = {"fields": fs, "implements": impl}
    for u in union_names:
        s.unions[u] = rng.sample(obj_names, rng.randint(1, len(obj_names)))
    # root types
    qf = []
    for c in comp_names:
        t = N(c)
        if rng.random() < 0.3:
            t = L(t)
        qf.append((c.lower(), gen_args(rng, s, input_names, 2), t))
    qf.append(("scalars", [("i", N("Int"), None), ("f", N("Float"), None), ("s", N("String"), None),
                           ("b", N("Boolean"), None), ("id", N("ID"), None),
                           ("e", N(list(s.enums)[0]), None), ("j", N(s.scalars[0]), None),
                           ("li", L(N("Int")), None), ("lli", L(L(N("Int"))), None),
                           ("lnn", L(NN(N("Int"))), None), ("nnl", NN(L(N("Int"))), ("list", [])),
                           ("inp", N(list(s.inputs)[-1]), None), ("linp", L(N(list(s.inputs)[0])), None),
                           ("jn", NN(N(s.scalars[0])), ("int", "0")), ("ljn", L(NN(N(s.scalars[0]))), None)],
               N("Int")))
    qf.append(("need", [("n", NN(N("Int")), None), ("d", NN(N("Int")), ("int", "3"))], N("String")))
    qf.append(("count", [], NN(N("Int"))))
    qname = rng.choice(["Query", "Query", "RootQ"])
    s.objects[qname] = {"fields": qf, "implements": []}
    s.roots["query"] = qname
    if rng.random() < 0.7:
        mname = "Mutation" if qname == "Query" else "RootM"
        s.objects[mname] = {"fields": [("set", [("v", NN(N("Int")), None)], N("Int")),
                                       ("obj", [], N(obj_names[0]))], "implements": []}
        s.roots["mutation"] = mname
    if rng.random() < 0.8:
        sname = "Subscription" if qname == "Query" else "RootS"
        impl = [i for i in iface_names if i != "Lonely" and rng.random() < 0.4]
        fs = []
        for i in impl:
            for f in s.interfaces[i]["fields"]:
                if not any(x[0] == f[0] for x in fs):
                    fs.append(copy.deepcopy(f))
                elif [x for x in fs if x[0] == f[0]][0] != f:
                    impl = [j for j in impl if j != i]
        for f in [("tick", [], N("Int")), ("tock", [("n", N("Int"), None)], N("Int")),
                  ("obj", [], N(obj_names[0])), ("any", [], N(union_names[0]))]:
            if not any(x[0] == f[0] for x in fs):
                fs.append(f)
        s.objects[sname] = {"fields": fs, "implements": impl}
        s.roots["subscription"] = sname
        if rng.random() < 0.5:
            s.unions[union_names[0]] = s.unions[union_names[0]] + [sname]
    s.explicit_schema_def = qname != "Query"
    # interfaces implementing interfaces are left out (objects carry the whole burden of validity)
    # directives
    for dn in ["d", "rep", "onq", "need", "fld"]:
        if dn == "d":
            locs, rep = list(EXEC_LOCS), False
            args = [("a", N("Int"), None)]
        elif dn == "rep":
            locs, rep = rng.sample(EXEC_LOCS, rng.randint(2, 6)), True
            if "FIELD" not in locs:
                locs.append("FIELD")
            args = [("x", N("String"), None)]
        elif dn == "onq":
            locs, rep, args = ["QUERY"], False, []
        elif dn == "need":
            locs, rep = ["FIELD", "INLINE_FRAGMENT"], False
            args = [("n", NN(N("Int")), None), ("o", NN(N("Int")), ("int", "1"))]
        else:
            locs, rep = ["FIELD"], rng.random() < 0.5
            args = gen_args(rng, s, input_names, 2)
        s.directives[dn] = {"args": args, "locs": locs, "rep": rep}
    s.directives_builtin = {
        "skip": {"args": [("if", NN(N("Boolean")), None)], "locs": ["FIELD", "FRAGMENT_SPREAD", "INLINE_FRAGMENT"], "rep": False},
        "include": {"args": [("if", NN(N("Boolean")), None)], "locs": ["FIELD", "FRAGMENT_SPREAD", "INLINE_FRAGMENT"], "rep": False},
    }
    return s


def all_directives(sch):
    d = dict(sch.directives)
    d.update(sch.directives_builtin)
    return d


# ---------------------------------------------------------------- documents
def sel_str(x):
    if x["k"] == "F":
        s = (x["alias"] + ": " if x.get("alias") else "") + x["name"] + args_str(x["args"]) + dirs_str(x["dirs"])
        if x["sels"]:
            s += " { " + " ".join(sel_str(y) for y in x["sels"]) + " }"
        return s
    if x["k"] == "S":
        return "..." + x["name"] + dirs_str(x["dirs"])
    return "..." + (" on " + x["cond"] if x["cond"] else "") + dirs_str(x["dirs"]) + \
        " { " + " ".join(sel_str(y) for y in x["sels"]) + " }"


def def_str(d):
    if d["k"] == "op":
        vs = ""
        if d["vars"]:
            vs = "(" + ", ".join(f"${n}: {ty_str(t)}" + (f" = {val_str(dv)}" if dv is not None else "") + dirs_str(ds)
                                 for n, t, dv, ds in d["vars"]) + ")"
        head = d["optype"] + (" " + d["name"] if d["name"] else "") + vs + dirs_str(d["dirs"])
        if d["optype"] == "query" and not d["name"] and not d["vars"] and not d["dirs"] and d.get("short"):
            head = ""
        return (head + " " if head else "") + "{ " + " ".join(sel_str(y) for y in d["sels"]) + " }"
    if d["k"] == "frag":
        return f"fragment {d['name']} on {d['cond']}{dirs_str(d['dirs'])} {{ " + \
            " ".join(sel_str(y) for y in d["sels"]) + " }"
    return d["text"]           # raw definition text (type system definitions in an executable document)


def doc_str(doc):
    return "\n".join(def_str(d) for d in doc)


# ---------------------------------------------------------------- valid documents by construction
class DocGen:
    """One document: operations plus the fragments they use.  Response keys are unique in the whole document
    except deliberate identical duplicates, so merging is valid by construction."""

    def __init__(self, rng, sch):
        self.rng, self.sch = rng, sch
        self.keys = set()
        self.frags = []                # fragment definitions
        self.frag_vars = {}            # fragment name -> {var: type}
        self.frag_uses = {}            # fragment name -> set of fragment names spread in it
        self.nvar = 0
        self.nfrag = 0
        self.cur_vars = None           # var -> (type, default) of the definition being generated
        self.cur_spreads = None
        self.no_cond_dirs = False      # inside a subscription root: no @skip/@include

    def key_for(self, name):
        if name not in self.keys and self.rng.random() < 0.7:
            self.keys.add(name)
            return None
        while True:
            k = self.rng.choice(["k", "al", "r"]) + str(len(self.keys))
            if k not in self.keys:
                self.keys.add(k)
                return k

    def new_var(self, t, loc_default):
        """a variable whose type is allowed at a position of type t"""
        rng = self.rng
        self.nvar += 1
        name = f"v{self.nvar}"
        vt, dv = t, None
        r = rng.random()
        if is_nn(t) and r < 0.3:
            # nullable variable into a non-null position: allowed with a non-null default or a location default
            if loc_default and rng.random() < 0.5:
                vt = nullable(t)
            else:
                vt = nullable(t)
                dv = const_value(rng, self.sch, t, allow_null=False)
        elif not is_nn(t) and r < 0.3:
            vt = NN(t)                                     # non-null variable into a nullable position
        elif r < 0.45:
            dv = const_value(rng, self.sch, vt)
        self.cur_vars[name] = (vt, dv)
        return ("var", name)

    def value(self, t, loc_default=False, depth=0):
        """a value (literals and variables) valid for a position of type t"""
        rng, sch = self.rng, self.sch
        if rng.random() < 0.25 and named(t) not in sch.scalars:
            return self.new_var(t, loc_default)
        if t[0] == "nn":
            v = self.value(t[1], False, depth)
            if v[0] == "null":
                return const_value(rng, sch, t, allow_null=False)
            if v[0] == "var":
                # the variable was made for the nullable type: make it fit the non-null one
                vt, dv = self.cur_vars[v[1]]
                if not is_nn(vt) and (dv is None or dv[0] == "null"):
                    self.cur_vars[v[1]] = (NN(vt), None)
            return v
        if rng.random() < 0.08:
            return ("null",)
        if t[0] == "l":
            if rng.random() < 0.15:
                return const_value(rng, sch, t, allow_null=False)
            return ("list", [self.value(t[1], False, depth + 1) for _ in range(rng.randint(0, 2))])
        n = t[1]
        if n in sch.inputs and depth < 3:
            fs = []
            for f, ft, dv in sch.inputs[n]:
                if (is_nn(ft) and dv is None) or rng.random() < 0.5:
                    fs.append((f, self.value(ft, dv is not None, depth + 1)))
            rng.shuffle(fs)
            return ("obj", fs)
        return const_value(rng, sch, t, allow_null=False)

    def arguments(self, argdefs):
        args = []
        for a, t, dv in argdefs:
            if (is_nn(t) and dv is None) or self.rng.random() < 0.5:
                v = self.value(t, dv is not None)
                if v[0] == "null" and is_nn(t):
                    v = const_value(self.rng, self.sch, t, allow_null=False)
                args.append((a, v))
        self.rng.shuffle(args)
        return args

    def directives(self, loc):
        rng, out, used = self.rng, [], set()
        cands = [(n, d) for n, d in all_directives(self.sch).items() if loc in d["locs"]]
        while cands and rng.random() < 0.2:
            n, d = rng.choice(cands)
            if n in ("skip", "include") and self.no_cond_dirs:
                continue
            if n in used and not d["rep"]:
                continue
            used.add(n)
            if loc == "VARIABLE_DEFINITION":
                args = [(a, const_value(rng, self.sch, t, allow_null=False)) for a, t, dv in d["args"]
                        if (is_nn(t) and dv is None) or rng.random() < 0.5]
            else:
                args = self.arguments(d["args"])
            out.append((n, args))
        return out

    def frag_on(self, cond, depth):
        """a (new or existing) fragment whose type condition is `cond`"""
        rng = self.rng
        ex = [f for f in self.frags if f["cond"] == cond and f.get("done")]
        if ex and rng.random() < 0.4:
            return rng.choice(ex)["name"]
        self.nfrag += 1
        name = f"F{self.nfrag}"
        f = {"k": "frag", "name": name, "cond": cond, "dirs": [], "sels": []}
        self.frags.append(f)
        saved = (self.cur_vars, self.cur_spreads, self.no_cond_dirs)
        self.cur_vars, self.cur_spreads = {}, set()
        f["dirs"] = self.directives("FRAGMENT_DEFINITION")
        f["sels"] = self.selset(cond, depth + 1)
        self.frag_vars[name] = self.cur_vars
        self.frag_uses[name] = self.cur_spreads
        f["done"] = True
        self.cur_vars, self.cur_spreads, self.no_cond_dirs = saved
        return name

    def possible_conds(self, parent):
        sch = self.sch
        pp = set(sch.possible(parent))
        out = [c for c in sch.composites() if pp & set(sch.possible(c))]
        if parent not in out:
            out.append(parent)                     # a spread on the parent type itself is always accepted
        return out

    def selset(self, parent, depth, nmax=4, root_single=False):
        rng, sch = self.rng, self.sch
        sels = []
        fields = list(sch.fields(parent))
        n = 1 if root_single else rng.randint(1, nmax)
        for _ in range(n):
            r = rng.random()
            if root_single:
                r = 0.0
            if r < 0.62 and fields or (not fields and r < 0.3):
                if fields and rng.random() < 0.93:
                    fname, argdefs, ft = rng.choice(fields)
                    if root_single and fname.startswith("__"):
                        continue
                else:
                    if root_single:
                        fname, argdefs, ft = rng.choice(fields)
                    else:
                        fname, argdefs, ft = "__typename", [], NN(N("String"))
                sub = []
                if sch.is_composite(named(ft)):
                    if depth >= 4:
                        sub = [{"k": "F", "alias": self.key_for("__typename"), "name": "__typename", "args": [],
                                "dirs": [], "sels": []}]
                    else:
                        saved = self.no_cond_dirs
                        self.no_cond_dirs = False
                        sub = self.selset(named(ft), depth + 1)
                        self.no_cond_dirs = saved
                x = {"k": "F", "alias": self.key_for(fname), "name": fname, "args": self.arguments(argdefs),
                     "dirs": self.directives("FIELD"), "sels": sub}
                sels.append(x)
                if rng.random() < 0.08:
                    sels.append(copy.deepcopy(x))       # an identical duplicate merges
            elif r < 0.8 and depth < 4:
                cond = rng.choice(self.possible_conds(parent) + [None])
                sels.append({"k": "I", "cond": cond, "dirs": self.directives("INLINE_FRAGMENT"),
                             "sels": self.selset(cond or parent, depth + 1, 3)})
            elif depth < 4:
                cond = rng.choice(self.possible_conds(parent))
                dirs = self.directives("FRAGMENT_SPREAD")
                name = self.frag_on(cond, depth)
                self.cur_spreads.add(name)
                sels.append({"k": "S", "name": name, "dirs": dirs})
        if not sels:
            sels.append({"k": "F", "alias": self.key_for("__typename"), "name": "__typename", "args": [],
                         "dirs": [], "sels": []})
        return sels

    def reach(self, names):
        seen, todo = set(), sorted(names)
        while todo:
            n = todo.pop()
            if n in seen:
                continue
            seen.add(n)
            todo += sorted(self.frag_uses.get(n, ()))
        return sorted(seen)

    def operation(self, optype, name):
        sch = self.sch
        root = sch.roots[optype]
        self.cur_vars, self.cur_spreads = {}, set()
        dirs = self.directives(optype.upper())
        if optype == "subscription":
            self.no_cond_dirs = True
            fs = [f for f in sch.fields(root)]
            sels = self.selset(root, 0, root_single=True)
            self.no_cond_dirs = False
        else:
            sels = self.selset(root, 0)
        vars_ = dict(self.cur_vars)
        for f in self.reach(self.cur_spreads):
            vars_.update(self.frag_vars.get(f, {}))
        vlist = []
        for vn, (vt, dv) in vars_.items():
            saved = self.cur_vars
            self.cur_vars = {}
            vd = self.directives("VARIABLE_DEFINITION")
            self.cur_vars = saved
            vlist.append((vn, vt, dv, vd))
        return {"k": "op", "optype": optype, "name": name, "vars": vlist, "dirs": dirs, "sels": sels,
                "short": self.rng.random() < 0.5}


def gen_doc(rng, sch):
    g = DocGen(rng, sch)
    nops = rng.choice([1, 1, 1, 2, 3])
    kinds = [k for k in ("query", "mutation", "subscription") if k in sch.roots]
    ops = []
    for i in range(nops):
        optype = rng.choice(kinds + ["query"])
        name = f"Op{i}" if nops > 1 or rng.random() < 0.5 else None
        ops.append(g.operation(optype, name))
    doc = ops + g.frags
    for f in g.frags:
        f.pop("done", None)
    if rng.random() < 0.3:
        rng.shuffle(doc)
    return doc


# ---------------------------------------------------------------- walking documents
def field_type(sch, parent, fname):
    """(args, type) of a field on a parent type name, meta-fields included; None if undefined"""
    if parent is None:
        return None
    f = sch.field(parent, fname)
    if f:
        return f[1], f[2]
    if fname == "__typename" and sch.is_composite(parent):
        return [], NN(N("String"))
    return None


def walk(sch, doc):
    """yield (node, parent type name or None, containing list, definition) for every selection"""
    def go(sels, parent, d):
        for x in list(sels):
            yield x, parent, sels, d
            if x["k"] == "F":
                ft = field_type(sch, parent, x["name"])
                yield from go(x["sels"], named(ft[1]) if ft else None, d)
            elif x["k"] == "I":
                yield from go(x["sels"], x["cond"] or parent, d)
    for d in doc:
        if d["k"] == "op":
            yield from go(d["sels"], sch.roots.get(d["optype"]), d)
        elif d["k"] == "frag":
            yield from go(d["sels"], d["cond"], d)


def const_args(rng, sch, argdefs, all_args=False):
    return [(a, const_value(rng, sch, t, allow_null=False)) for a, t, dv in argdefs
            if all_args or (is_nn(t) and dv is None)]


def leaf_or_sub(sch, t):
    """a minimal valid sub-selection for a field of type t"""
    if sch.is_composite(named(t)):
        return [mk_field("__typename")]
    return []


def mk_field(name, alias=None, args=None, dirs=None, sels=None):
    return {"k": "F", "alias": alias, "name": name, "args": args or [], "dirs": dirs or [], "sels": sels or []}


def mk_op(sels, optype="query", name=None, vars_=None, dirs=None):
    return {"k": "op", "optype": optype, "name": name, "vars": vars_ or [], "dirs": dirs or [], "sels": sels,
            "short": False}


def mk_frag(name, cond, sels, dirs=None):
    return {"k": "frag", "name": name, "cond": cond, "dirs": dirs or [], "sels": sels}


def query_path_to(sch, target):
    """a function wrapping selections on type `target` into a query: uses the Query field returning it"""
    q = sch.roots["query"]
    for f, args, t in sch.fields(q):
        if named(t) == target:
            return lambda sels, rng: [mk_field(f, args=const_args(rng, sch, args), sels=sels)]
    return None


# ---------------------------------------------------------------- mutators of a valid document
def mutate(rng, sch, doc):
    """systematic rule-directed mutations of one valid document: a list of (label, mutated doc)"""
    out = []

    def fresh():
        return copy.deepcopy(doc)

    def pick_nodes(d, pred, n=2):
        nodes = [w for w in walk(sch, d) if pred(*w)]
        rng.shuffle(nodes)
        return nodes[:n]
    nsel = sum(1 for _ in walk(sch, doc))

    def at(i, d):
        return list(walk(sch, d))[i]
    idx_fields = [i for i, w in enumerate(walk(sch, doc)) if w[0]["k"] == "F"]
    idx_all = list(range(nsel))
    rng.shuffle(idx_fields)
    rng.shuffle(idx_all)
    dirs_all = all_directives(sch)

    # 5.3.1 rename a field to an undefined one
    for i in idx_fields[:2]:
        d = fresh()
        at(i, d)[0]["name"] = "zzUndefined"
        out.append(("field-undefined", d))
    # 5.3.3 sub-selection on a leaf / none on a composite
    for i in idx_fields[:3]:
        d = fresh()
        x, parent, _, _ = at(i, d)
        ft = field_type(sch, parent, x["name"])
        if ft:
            if x["sels"]:
                x["sels"] = []
                out.append(("composite-without-subselection", d))
            else:
                x["sels"] = [mk_field("__typename")]
                out.append(("leaf-with-subselection", d))
    # 5.3.2 alias another field of the same parent to this response key (same selection list / inline fragment)
    for i in idx_fields[:3]:
        d = fresh()
        x, parent, lst, _ = at(i, d)
        if parent is None:
            continue
        others = [f for f in sch.fields(parent) if f[0] != x["name"]]
        if not others:
            continue
        f = rng.choice(others)
        key = x["alias"] or x["name"]
        y = mk_field(f[0], alias=key, args=const_args(rng, sch, f[1]), sels=leaf_or_sub(sch, f[2]))
        mode = rng.choice(["same-list", "inline", "inline-cond"])
        if mode == "same-list":
            lst.append(y)
        elif mode == "inline":
            lst.append({"k": "I", "cond": None, "dirs": [], "sels": [y]})
        else:
            lst.append({"k": "I", "cond": parent, "dirs": [], "sels": [y]})
        out.append(("alias-conflict-" + mode, d))
    # 5.3.2 duplicate a field with one argument changed / dropped / added
    for i in [j for j in idx_fields if at(j, doc)[0]["args"]][:3]:
        d = fresh()
        x, parent, lst, _ = at(i, d)
        y = copy.deepcopy(x)
        k = rng.randrange(len(y["args"]))
        mode = rng.choice(["drop", "change", "permute"])
        if mode == "drop":
            del y["args"][k]
        elif mode == "change":
            y["args"][k] = (y["args"][k][0], vary_value(rng, y["args"][k][1]))
        else:
            rng.shuffle(y["args"])
            y["args"] = [(a, permute_value(rng, v)) for a, v in y["args"]]
        lst.append(y)
        out.append(("dup-field-args-" + mode, d))
    # 5.4 arguments: unknown, duplicate, missing required, null for required
    for i in idx_fields[:2]:
        d = fresh()
        x, parent, _, _ = at(i, d)
        x["args"] = x["args"] + [("zzUnknownArg", ("int", "1"))]
        out.append(("argument-unknown", d))
    for i in [j for j in idx_fields if at(j, doc)[0]["args"]][:2]:
        d = fresh()
        x = at(i, d)[0]
        a = rng.choice(x["args"])
        x["args"] = x["args"] + [a if rng.random() < 0.5 else (a[0], vary_value(rng, a[1]))]
        out.append(("argument-duplicate", d))
    for i in idx_fields:
        x, parent, _, _ = at(i, doc)
        ft = field_type(sch, parent, x["name"])
        if not ft:
            continue
        req = [a for a, t, dv in ft[0] if is_nn(t) and dv is None]
        nn_def = [a for a, t, dv in ft[0] if is_nn(t) and dv is not None]
        if req:
            d = fresh()
            y = at(i, d)[0]
            r = rng.choice(req)
            y["args"] = [a for a in y["args"] if a[0] != r]
            out.append(("argument-required-missing", d))
            d = fresh()
            y = at(i, d)[0]
            y["args"] = [(a, ("null",)) if a == r else (a, v) for a, v in y["args"]]
            out.append(("argument-required-null", d))
        if nn_def:
            d = fresh()
            y = at(i, d)[0]
            r = rng.choice(nn_def)
            y["args"] = [a for a in y["args"] if a[0] != r] + [(r, ("null",))]
            out.append(("argument-nonnull-default-null", d))
        if req or nn_def:
            break
    # 5.6 values: replace a literal somewhere inside an argument by each other kind; input object edits
    val_sites = []
    for i in idx_fields:
        x = at(i, doc)[0]
        for k, (a, v) in enumerate(x["args"]):
            for path in value_paths(v):
                val_sites.append((i, k, path))
    rng.shuffle(val_sites)
    for (i, k, path) in val_sites[:6]:
        for lit in rng.sample(WRONG_LITERALS, 3):
            d = fresh()
            x = at(i, d)[0]
            a, v = x["args"][k]
            x["args"][k] = (a, set_path(v, path, lit))
            out.append(("value-literal-kind", d))
    obj_sites = [(i, k, p) for (i, k, p) in val_sites if get_path(at(i, doc)[0]["args"][k][1], p)[0] == "obj"]
    for (i, k, path) in obj_sites[:3]:
        for mode in ["unknown-field", "dup-field", "drop-field", "null-field"]:
            d = fresh()
            x = at(i, d)[0]
            a, v = x["args"][k]
            o = get_path(v, path)
            fs = list(o[1])
            if mode == "unknown-field":
                fs.append(("zzUnknownField", ("int", "1")))
            elif mode == "dup-field":
                if not fs:
                    continue
                f = rng.choice(fs)
                fs.append(f if rng.random() < 0.5 else (f[0], vary_value(rng, f[1])))
            elif mode == "drop-field":
                if not fs:
                    continue
                del fs[rng.randrange(len(fs))]
            else:
                if not fs:
                    continue
                j = rng.randrange(len(fs))
                fs[j] = (fs[j][0], ("null",))
            x["args"][k] = (a, set_path(v, path, ("obj", fs)))
            out.append(("input-object-" + mode, d))
    # 5.8 variables
    ops = [j for j, d in enumerate(doc) if d["k"] == "op"]
    for j in ops[:2]:
        d = fresh()
        d[j]["vars"] = d[j]["vars"] + [("zzUnused", N("Int"), None, [])]
        out.append(("variable-unused", d))
        if d[j]["vars"][:-1]:
            d = fresh()
            v = rng.choice(d[j]["vars"])
            d[j]["vars"] = d[j]["vars"] + [v if rng.random() < 0.5 else (v[0], N("String"), None, [])]
            out.append(("variable-duplicate", d))
            d = fresh()
            k = rng.randrange(len(d[j]["vars"]))
            del d[j]["vars"][k]
            out.append(("variable-definition-dropped", d))
            d = fresh()
            k = rng.randrange(len(d[j]["vars"]))
            vn, vt, dv, vd = d[j]["vars"][k]
            d[j]["vars"][k] = (vn, vary_type(rng, sch, vt), None if rng.random() < 0.5 else dv, vd)
            out.append(("variable-type-changed", d))
            d = fresh()
            k = rng.randrange(len(d[j]["vars"]))
            vn, vt, dv, vd = d[j]["vars"][k]
            d[j]["vars"][k] = (vn, vt, ("null",), vd)
            out.append(("variable-default-null", d))
            d = fresh()
            k = rng.randrange(len(d[j]["vars"]))
            vn, vt, dv, vd = d[j]["vars"][k]
            d[j]["vars"][k] = (vn, N(rng.choice(sch.composites() + ["ZzNoType"])), None, vd)
            out.append(("variable-not-input-type", d))
    for (i, k, path) in val_sites[:3]:
        d = fresh()
        x = at(i, d)[0]
        a, v = x["args"][k]
        x["args"][k] = (a, set_path(v, path, ("var", "zzUndefinedVar")))
        out.append(("variable-undefined", d))
    # fragments
    frs = [j for j, d in enumerate(doc) if d["k"] == "frag"]
    d = fresh()
    d.append(mk_frag("ZzUnused", sch.roots["query"], [mk_field("__typename")]))
    out.append(("fragment-unused", d))
    for i in idx_all[:2]:
        d = fresh()
        x, parent, lst, _ = at(i, d)
        lst.append({"k": "S", "name": "ZzUndefinedFragment", "dirs": []})
        out.append(("spread-undefined", d))
    for j in frs[:2]:
        d = fresh()
        d.append(copy.deepcopy(d[j]))
        out.append(("fragment-duplicate-name", d))
        d = fresh()
        d[j]["cond"] = rng.choice(["Int", "ZzNoType"] + list(sch.enums) + list(sch.inputs))
        out.append(("fragment-condition-not-composite", d))
        d = fresh()
        d[j]["cond"] = rng.choice(sch.composites())
        out.append(("fragment-condition-changed", d))
    for i in [j for j in idx_all if at(j, doc)[0]["k"] == "I"][:2]:
        d = fresh()
        at(i, d)[0]["cond"] = rng.choice(["Int", "ZzNoType"] + list(sch.inputs))
        out.append(("inline-condition-not-composite", d))
        d = fresh()
        at(i, d)[0]["cond"] = rng.choice(sch.composites())
        out.append(("inline-condition-changed", d))
    # cycles of length 1-4, the back edge through a field / an inline fragment / directly
    for n in (1, 2, 3, 4):
        d = fresh()
        q = sch.roots["query"]
        names = [f"Cy{n}_{i}" for i in range(n)]
        for i, nm in enumerate(names):
            nxt = {"k": "S", "name": names[(i + 1) % n], "dirs": []}
            wrap = rng.choice(["direct", "inline", "inline-cond"])
            if wrap == "inline":
                nxt = {"k": "I", "cond": None, "dirs": [], "sels": [nxt]}
            elif wrap == "inline-cond":
                nxt = {"k": "I", "cond": q, "dirs": [], "sels": [nxt]}
            d.append(mk_frag(nm, q, [mk_field("__typename"), nxt]))
        opj = [j for j, x in enumerate(d) if x["k"] == "op" and x["optype"] == "query"]
        if opj:
            d[opj[0]]["sels"].append({"k": "S", "name": names[0], "dirs": []})
            out.append((f"fragment-cycle-{n}", d))
    # directives: undefined / every location / repeated / args
    for i in idx_all[:3]:
        d = fresh()
        at(i, d)[0]["dirs"].append(("zzUndefinedDirective", []))
        out.append(("directive-undefined", d))
    for i in idx_all[:4]:
        d = fresh()
        x = at(i, d)[0]
        dn = rng.choice(list(dirs_all))
        dd = dirs_all[dn]
        x["dirs"].append((dn, const_args(rng, sch, dd["args"])))
        out.append(("directive-any-location", d))
        d = fresh()
        x = at(i, d)[0]
        if x["dirs"]:
            x["dirs"].append(copy.deepcopy(rng.choice(x["dirs"])))
            out.append(("directive-repeated", d))
    for j in ops[:1] + frs[:1]:
        d = fresh()
        dn = rng.choice(list(dirs_all))
        d[j]["dirs"].append((dn, const_args(rng, sch, dirs_all[dn]["args"])))
        out.append(("directive-on-definition", d))
        d = fresh()
        if d[j]["dirs"]:
            d[j]["dirs"].append(copy.deepcopy(rng.choice(d[j]["dirs"])))
            out.append(("directive-repeated-on-definition", d))
    for j in ops[:1]:
        if doc[j]["vars"]:
            d = fresh()
            k = rng.randrange(len(d[j]["vars"]))
            vn, vt, dv, vd = d[j]["vars"][k]
            dn = rng.choice(list(dirs_all))
            d[j]["vars"][k] = (vn, vt, dv, vd + [(dn, const_args(rng, sch, dirs_all[dn]["args"]))] * rng.choice([1, 2]))
            out.append(("directive-on-variable", d))
    # operations
    d = fresh()
    d.append(mk_op([mk_field("__typename")]))
    out.append(("operation-extra-anonymous", d))
    d = fresh()
    d.append(mk_op([mk_field("__typename")], name="ZzOther"))
    out.append(("operation-extra-named", d))
    d = fresh()
    d.append(mk_op([mk_field("__typename")], name=doc[ops[0]]["name"] or "Op0"))
    out.append(("operation-duplicate-name", d))
    for ot in ("mutation", "subscription"):
        d = fresh()
        root = sch.roots.get(ot)
        f = sch.fields(root)[0] if root else None
        sels = [mk_field(f[0], args=const_args(rng, sch, f[1]), sels=leaf_or_sub(sch, f[2]))] if f else [mk_field("tick")]
        d.append(mk_op(sels, optype=ot, name="ZzOp" if any(x["name"] for x in d if x["k"] == "op") else None))
        out.append(("operation-of-type-" + ot, d))
    d = fresh()
    d.append({"k": "raw", "text": rng.choice(["type ZzT { a: Int }", "scalar ZzS", "extend type %s { zz: Int }" % sch.roots["query"],
                                              "directive @zz on FIELD", "schema { query: %s }" % sch.roots["query"]])})
    out.append(("type-system-definition", d))
    # spreads that are impossible / possible under every parent
    for i in idx_all[:3]:
        d = fresh()
        x, parent, lst, _ = at(i, d)
        if parent is None or not sch.is_composite(parent):
            continue
        cond = rng.choice(sch.composites())
        if rng.random() < 0.5:
            lst.append({"k": "I", "cond": cond, "dirs": [], "sels": [mk_field("__typename")]})
        else:
            nm = "ZzSp"
            d.append(mk_frag(nm, cond, [mk_field("__typename")]))
            lst.append({"k": "S", "name": nm, "dirs": []})
        out.append(("spread-any-type", d))
    return out


WRONG_LITERALS = [("int", "1"), ("int", "2147483648"), ("int", "-2147483649"), ("float", "1.5"), ("float", "1e400"),
                  ("str", "s"), ("bool", True), ("enum", "RED"), ("enum", "ZZNOVALUE"), ("null",),
                  ("list", []), ("list", [("int", "1")]), ("list", [("null",)]), ("list", [("list", [("int", "1")])]),
                  ("obj", []), ("obj", [("n", ("int", "1"))]), ("int", "1" + "0" * 310)]


def value_paths(v, prefix=()):
    yield prefix
    if v[0] == "list":
        for i, x in enumerate(v[1]):
            yield from value_paths(x, prefix + (i,))
    elif v[0] == "obj":
        for i, (k, x) in enumerate(v[1]):
            yield from value_paths(x, prefix + (i,))


def get_path(v, path):
    for i in path:
        v = v[1][i] if v[0] == "list" else v[1][i][1]
    return v


def set_path(v, path, new):
    if not path:
        return new
    i = path[0]
    if v[0] == "list":
        l = list(v[1])
        l[i] = set_path(l[i], path[1:], new)
        return ("list", l)
    l = list(v[1])
    l[i] = (l[i][0], set_path(l[i][1], path[1:], new))
    return ("obj", l)


def vary_value(rng, v):
    """a value of the same kind that differs (used for duplicated fields / arguments)"""
    k = v[0]
    if k == "int":
        return ("int", "5" if v[1] != "5" else "6")
    if k == "float":
        return ("float", "9.75" if v[1] != "9.75" else "1.25")
    if k == "str":
        return ("str", v[1] + "x")
    if k == "bool":
        return ("bool", not v[1])
    if k == "null":
        return ("int", "1")
    if k == "enum":
        return ("enum", "GREEN" if v[1] != "GREEN" else "RED")
    if k == "var":
        return ("var", v[1] + "b")
    if k == "list":
        r = rng.random()
        if r < 0.4 or not v[1]:
            return ("list", v[1] + [v[1][0] if v[1] else ("int", "1")])       # longer
        if r < 0.7:
            return ("list", v[1][:-1])                                            # shorter
        l = list(v[1])
        l[-1] = vary_value(rng, l[-1])
        return ("list", l)
    if k == "obj":
        r = rng.random()
        l = list(v[1])
        if r < 0.3 or not l:
            return ("obj", l + [("zzExtra", ("int", "1"))])
        if r < 0.6:
            return ("obj", l[:-1])
        l[-1] = (l[-1][0], vary_value(rng, l[-1][1]))
        return ("obj", l)
    return v


def permute_value(rng, v):
    """the same value with object keys permuted at every level (still the same set of fields)"""
    if v[0] == "list":
        return ("list", [permute_value(rng, x) for x in v[1]])
    if v[0] == "obj":
        l = [(k, permute_value(rng, x)) for k, x in v[1]]
        rng.shuffle(l)
        return ("obj", l)
    return v


def vary_type(rng, sch, t):
    r = rng.random()
    if r < 0.25:
        return nullable(t) if is_nn(t) else NN(t)
    if r < 0.45:
        return L(t)
    if r < 0.6 and nullable(t)[0] == "l":
        return nullable(t)[1]
    if r < 0.8:
        return N(rng.choice(BUILTIN_SCALARS + sch.scalars + list(sch.enums) + list(sch.inputs)))
    def flip(t):
        if t[0] == "n":
            return NN(t)
        if t[0] == "nn":
            return t[1] if t[1][0] == "n" else NN(flip(t[1]))
        return L(flip(t[1]))
    return flip(t)


# ---------------------------------------------------------------- directed (systematic) cases
def directed(rng, sch, budget):
    """rule-directed documents enumerated over the schema model; `budget` caps each group (sampled)."""
    out = []
    q = sch.roots["query"]
    comps = [c for c in sch.composites() if sch.field(q, c.lower())]

    def cap(lst, n=None):
        lst = list(lst)
        n = n or budget
        if len(lst) > n:
            lst = rng.sample(lst, n)
        return lst

    def at_type(T, sels):
        f = sch.field(q, T.lower())
        return mk_field(f[0], args=const_args(rng, sch, f[1]), sels=sels)

    def fsel(f, alias=None, sub=None, args=None):
        return mk_field(f[0], alias=alias, args=const_args(rng, sch, f[1]) if args is None else args,
                        sels=leaf_or_sub(sch, f[2]) if sub is None else sub)

    def under(T, P, x, mode):
        """selection x (on type T) placed in a selection set on P"""
        if mode == "inline" or T != P:
            return {"k": "I", "cond": T, "dirs": [], "sels": [x]}
        return x

    # A. two fields with one response key under same / different-object / abstract parents
    group = []
    for P in comps:
        conds = [c for c in sch.composites() if set(sch.possible(P)) & set(sch.possible(c))] + [P]
        for T1 in conds:
            for T2 in conds:
                for f1 in sch.fields(T1) + [("__typename", [], NN(N("String")))]:
                    for f2 in sch.fields(T2) + [("__typename", [], NN(N("String")))]:
                        group.append((P, T1, T2, f1, f2))
    for P, T1, T2, f1, f2 in cap(group, budget * 3):
        frags = []
        a = under(T1, P, fsel(f1, alias="k"), rng.choice(["inline", "plain"]))
        b = under(T2, P, fsel(f2, alias="k"), rng.choice(["inline", "plain"]))
        if rng.random() < 0.3:
            frags.append(mk_frag("Fa", T1, [fsel(f1, alias="k")]))
            a = {"k": "S", "name": "Fa", "dirs": []}
        out.append(("merge-pair", [mk_op([at_type(P, [a, b])])] + frags))
    # A2. the same one level deeper: the parents' keys equal, sub-fields aliased to one key
    group = []
    for P in comps:
        conds = [c for c in sch.composites() if set(sch.possible(P)) & set(sch.possible(c))] + [P]
        for T1 in conds:
            for T2 in conds:
                for g1 in sch.fields(T1):
                    for g2 in sch.fields(T2):
                        if sch.is_composite(named(g1[2])) and sch.is_composite(named(g2[2])):
                            group.append((P, T1, T2, g1, g2))
    for P, T1, T2, g1, g2 in cap(group, budget * 2):
        U1, U2 = named(g1[2]), named(g2[2])
        h1 = rng.choice(sch.fields(U1) + [("__typename", [], NN(N("String")))])
        h2 = rng.choice(sch.fields(U2) + [("__typename", [], NN(N("String")))])
        a = under(T1, P, fsel(g1, alias="k", sub=[fsel(h1, alias="j")]), "inline")
        b = under(T2, P, fsel(g2, alias="k", sub=[fsel(h2, alias="j")]), "inline")
        out.append(("merge-nested-pair", [mk_op([at_type(P, [a, b])])]))
    # A3. three fields under one key (first-against-rest must see a conflict between the 2nd and the 3rd), and the
    #     conflict two levels down
    group = []
    for P in comps:
        conds = [c for c in sch.composites() if set(sch.possible(P)) & set(sch.possible(c))] + [P]
        cf = [(T, g) for T in conds for g in sch.fields(T) if sch.is_composite(named(g[2]))]
        for _ in range(3):
            if len(cf) >= 1:
                group.append((P, [rng.choice(cf) for _ in range(3)]))
    for P, picks in cap(group, budget * 2):
        sels = []
        deep = rng.random() < 0.4
        for T, g1 in picks:
            U = named(g1[2])
            h = rng.choice(sch.fields(U) + [("__typename", [], NN(N("String")))])
            sub = [fsel(h, alias="j")]
            if deep and sch.is_composite(named(h[2])):
                V = named(h[2])
                h2 = rng.choice(sch.fields(V) + [("__typename", [], NN(N("String")))])
                sub = [fsel(h, alias="j", sub=[fsel(h2, alias="i")])]
            if rng.random() < 0.3:
                sub = [mk_field("__typename", alias="t")]
            sels.append(under(T, P, fsel(g1, alias="k", sub=sub), "inline"))
        out.append(("merge-triple", [mk_op([at_type(P, sels)])]))
    group = []
    for P in comps:
        conds = [c for c in sch.composites() if set(sch.possible(P)) & set(sch.possible(c))] + [P]
        lf = [(T, g) for T in conds for g in sch.fields(T) if not sch.is_composite(named(g[2]))]
        for _ in range(3):
            if lf:
                a = rng.choice(lf)
                group.append((P, [a, a if rng.random() < 0.7 else rng.choice(lf), rng.choice(lf)]))
    for P, picks in cap(group, budget * 2):
        sels = []
        for i, (T, g1) in enumerate(picks):
            args = const_args(rng, sch, g1[1], all_args=(i == 2 and rng.random() < 0.5))
            sels.append(under(T, P, fsel(g1, alias="k", args=args), rng.choice(["inline", "plain"])))
        out.append(("merge-triple-leaf", [mk_op([at_type(P, sels)])]))
    # B. a duplicated field whose arguments are equal / differ in one value
    sc = sch.field(q, "scalars")
    variants = {
        "i": [("int", "1"), ("int", "2"), ("var", "a"), ("var", "b"), ("null",)],
        "f": [("float", "1.0"), ("float", "1.00"), ("int", "1"), ("var", "a")],
        "s": [("str", "a"), ("str", "b"), ("str", ""), ("null",)],
        "b": [("bool", True), ("bool", False)],
        "e": [("enum", list(sch.enums.values())[0][0]), ("enum", list(sch.enums.values())[0][1]), ("var", "a")],
        "li": [("list", []), ("list", [("int", "1")]), ("list", [("int", "1"), ("int", "2")]),
               ("list", [("int", "2"), ("int", "1")]), ("list", [("int", "1"), ("int", "1")]), ("int", "1"),
               ("list", [("var", "a")]), ("list", [("var", "b")])],
        "lli": [("list", [("list", [("int", "1")])]), ("list", [("list", [("int", "1")]), ("list", [])]),
                ("list", [("list", [("int", "1"), ("int", "2")])]), ("list", [("list", [])])],
        "j": [("obj", [("a", ("int", "1")), ("b", ("int", "2"))]), ("obj", [("b", ("int", "2")), ("a", ("int", "1"))]),
              ("obj", [("a", ("int", "1"))]), ("obj", [("a", ("int", "1")), ("b", ("int", "3"))]),
              ("obj", [("a", ("int", "1")), ("a", ("int", "1"))]), ("obj", [("a", ("int", "1")), ("a", ("int", "2"))]),
              ("obj", [("a", ("obj", [("x", ("list", [("int", "1")])), ("y", ("null",))])), ("b", ("int", "2"))]),
              ("obj", [("b", ("int", "2")), ("a", ("obj", [("y", ("null",)), ("x", ("list", [("int", "1")]))]))]),
              ("obj", [("b", ("int", "2")), ("a", ("obj", [("y", ("null",)), ("x", ("list", [("int", "1"), ("int", "1")]))]))]),
              ("list", [("int", "1")]), ("int", "1"), ("str", "1")],
    }
    vtypes = {"i": N("Int"), "f": N("Float"), "e": sc[1][5][1], "li": N("Int")}
    group = [(a, v1, v2) for a, vs in variants.items() for v1 in vs for v2 in vs]
    for a, v1, v2 in cap(group, budget * 3):
        used = sorted({x[1] for x in value_leaves(v1) + value_leaves(v2) if x[0] == "var"})
        vars_ = [(n, vtypes.get(a, N("Int")), None, []) for n in used]
        mode = rng.choice(["same", "same", "same", "one-missing", "extra-arg"])
        f1 = mk_field("scalars", args=[(a, v1)])
        f2 = mk_field("scalars", args=[(a, v2)])
        if mode == "one-missing":
            f2 = mk_field("scalars")
        elif mode == "extra-arg":
            f2 = mk_field("scalars", args=[("s", ("str", "z")), (a, v2)])
            f1 = mk_field("scalars", args=[(a, v1), ("s", ("str", "z"))])
        out.append(("merge-arguments-" + mode, [mk_op([f1, f2], vars_=vars_)]))
    # B2. the same field under two different object types with different arguments (valid when the shapes agree)
    group = []
    for P in comps:
        objs = [o for o in sch.possible(P)]
        for T1 in objs:
            for T2 in objs:
                if T1 == T2:
                    continue
                for f1 in sch.fields(T1):
                    f2 = sch.field(T2, f1[0])
                    if f2 and f1[1] and f2[1]:
                        group.append((P, T1, T2, f1, f2))
    for P, T1, T2, f1, f2 in cap(group, budget):
        a = {"k": "I", "cond": T1, "dirs": [], "sels": [fsel(f1, args=const_args(rng, sch, f1[1], all_args=True))]}
        b = {"k": "I", "cond": T2, "dirs": [], "sels": [fsel(f2, args=const_args(rng, sch, f2[1], all_args=rng.random() < 0.5))]}
        out.append(("merge-arguments-diff-objects", [mk_op([at_type(P, [a, b])])]))
        # and under an abstract parent next to an object parent (must be identical there)
        I = [i for i in sch.objects[T1]["implements"] if sch.field(i, f1[0])]
        if I:
            fi = sch.field(I[0], f1[0])
            c = {"k": "I", "cond": I[0], "dirs": [], "sels": [fsel(fi, args=const_args(rng, sch, fi[1], all_args=rng.random() < 0.5))]}
            out.append(("merge-arguments-abstract-vs-object", [mk_op([at_type(P, [a, c])])]))
    # C. every kind of literal for every argument type, at every list depth
    group = [(a, t, lit, depth) for a, t, dv in sc[1] for lit in WRONG_LITERALS for depth in (0, 1, 2)]
    for a, t, lit, depth in cap(group, budget * 4):
        v = lit
        for _ in range(depth):
            v = ("list", [v])
        out.append(("literal-kind-depth", [mk_op([mk_field("scalars", args=[(a, v)])])]))
    # C2. the same inside input object fields
    group = []
    for iname, fs in sch.inputs.items():
        for f, ft, dv in fs:
            for lit in WRONG_LITERALS:
                group.append((iname, f, lit))
    holders = {}
    for T in [q] + list(sch.objects):
        for f in sch.fields(T):
            for a, t, dv in f[1]:
                if named(t) in sch.inputs and t[0] == "n":
                    holders.setdefault(named(t), (T, f, a))
    for iname, f, lit in cap(group, budget * 2):
        if iname not in holders:
            continue
        T, fd, a = holders[iname]
        base = dict(const_value(rng, sch, NN(N(iname)))[1])
        base[f] = lit
        args = dict(const_args(rng, sch, fd[1]))
        args[a] = ("obj", list(base.items()))
        x = mk_field(fd[0], args=list(args.items()), sels=leaf_or_sub(sch, fd[2]))
        out.append(("literal-kind-input-field", [mk_op([x if T == q else at_type(T, [x])])]
                    if T == q or sch.field(q, T.lower()) else None))
    out = [o for o in out if o[1] is not None]
    # D. variables in every kind of position
    def tvariants(t):
        base = nullable(t)
        nn = lambda x: x if is_nn(x) else NN(x)
        return [base, nn(base), L(base), NN(L(base)), L(nn(base)), N("String") if named(t) != "String" else N("Int")] + \
               ([base[1], nn(base[1])] if base[0] == "l" else [])
    positions = [("scalars", "i", N("Int"), None), ("scalars", "li", L(N("Int")), None),
                 ("scalars", "lli", L(L(N("Int"))), None), ("scalars", "lnn", L(NN(N("Int"))), None),
                 ("scalars", "nnl", NN(L(N("Int"))), ("list", [])), ("need", "n", NN(N("Int")), None),
                 ("need", "d", NN(N("Int")), ("int", "3")), ("scalars", "j", N(sch.scalars[0]), None),
                 ("scalars", "e", sc[1][5][1], None)]
    group = []
    for fld, a, t, locdef in positions:
        for wrap in ("top", "list", "list2", "obj"):
            pt = t
            if wrap == "list":
                if nullable(t)[0] != "l":
                    continue
                pt = nullable(t)[1]
            elif wrap == "list2":
                if nullable(t)[0] != "l" or nullable(nullable(t)[1])[0] != "l":
                    continue
                pt = nullable(nullable(t)[1])[1]
            elif wrap == "obj":
                continue
            for vt in tvariants(pt):
                for dv in ("none", "null", "value"):
                    group.append((fld, a, t, wrap, vt, dv))
    for fld, a, t, wrap, vt, dv in cap(group, budget * 4):
        default = None
        if dv == "null":
            default = ("null",)
        elif dv == "value":
            default = const_value(rng, sch, vt, allow_null=False)
        v = ("var", "v")
        if wrap == "list":
            v = ("list", [v])
        elif wrap == "list2":
            v = ("list", [("list", [v])])
        fd = sch.field(q, fld)
        args = dict(const_args(rng, sch, fd[1]))
        args[a] = v
        out.append(("variable-position-" + wrap, [mk_op([mk_field(fld, args=list(args.items()))],
                                                          vars_=[("v", vt, default, [])])]))
    # D2. variables as values of input object fields (with and without field defaults, nullable / non-null)
    group = []
    for iname, fs in sch.inputs.items():
        if iname not in holders:
            continue
        for f, ft, fdv in fs:
            for vt in tvariants(ft):
                for dv in ("none", "null", "value"):
                    group.append((iname, f, ft, vt, dv))
    for iname, f, ft, vt, dv in cap(group, budget * 3):
        T, fd, a = holders[iname]
        if not (T == q or sch.field(q, T.lower())):
            continue
        default = None
        if dv == "null":
            default = ("null",)
        elif dv == "value":
            default = const_value(rng, sch, vt, allow_null=False)
        base = dict(const_value(rng, sch, NN(N(iname)))[1])
        base[f] = ("var", "v") if rng.random() < 0.7 or nullable(ft)[0] != "l" else ("list", [("var", "v")])
        args = dict(const_args(rng, sch, fd[1]))
        args[a] = ("obj", list(base.items()))
        x = mk_field(fd[0], args=list(args.items()), sels=leaf_or_sub(sch, fd[2]))
        out.append(("variable-in-input-field", [mk_op([x if T == q else at_type(T, [x])],
                                                      vars_=[("v", vt, default, [])])]))
    # D2b. the same two levels down: the object is an item of a list literal (`linp: [{f: $v}]`), the single item of
    # a list (`linp: {f: $v}`), or both positions hold the variable (`li: [$v], linp: [{f: $v}]`)
    iname0 = list(sch.inputs)[0]
    group = []
    for f, ft, fdv in sch.inputs[iname0]:
        for vt in tvariants(ft):
            for dv in ("none", "null", "value"):
                for shape in ("item", "single", "both"):
                    group.append((f, ft, vt, dv, shape))
    for f, ft, vt, dv, shape in cap(group, budget * 2):
        default = None
        if dv == "null":
            default = ("null",)
        elif dv == "value":
            default = const_value(rng, sch, vt, allow_null=False)
        base = dict(const_value(rng, sch, NN(N(iname0)))[1])
        base[f] = ("var", "v")
        obj = ("obj", list(base.items()))
        fd = sch.field(q, "scalars")
        args = dict(const_args(rng, sch, fd[1]))
        args["linp"] = obj if shape == "single" else ("list", [obj])
        if shape == "both":
            args["li"] = ("list", [("var", "v")])
        out.append(("variable-in-input-field-in-list", [mk_op([mk_field("scalars", args=list(args.items()))],
                                                              vars_=[("v", vt, default, [])])]))
    # D3. variables inside custom scalar literals
    jn = sch.scalars[0]
    for v, vt in [(("obj", [("a", ("var", "v"))]), N("Int")), (("obj", [("a", ("var", "undefinedVar"))]), None),
                  (("list", [("var", "v")]), N("Int")), (("list", [("var", "v")]), N(jn)), (("list", [("var", "v")]), L(N(jn))),
                  (("obj", [("a", ("list", [("var", "v")]))]), N("String")), (("list", [("obj", [("a", ("var", "v"))])]), N("Int")),
                  (("list", [("obj", [("a", ("var", "undefinedVar"))])]), None),
                  (("obj", [("a", ("obj", [("b", ("int", "1")), ("b", ("int", "1"))]))]), None),
                  (("obj", [("b", ("int", "1")), ("b", ("int", "1"))]), None),
                  (("list", [("obj", [("b", ("int", "1")), ("b", ("int", "2"))])]), None),
                  (("list", [("null",)]), None), (("list", [("list", [("null",)])]), None), (("obj", [("a", ("null",))]), None)]:
        out.append(("custom-scalar-literal", [mk_op([mk_field("scalars", args=[("j", v)])],
                                                    vars_=[("v", vt, None, [])] if vt else [])]))
    # D3b. literals for a non-null custom scalar (jn: J! = 0) and a list of them (ljn: [J!]): null and variables
    # at every place inside list and object literals; null itself where J! is expected
    for a, v, vt in [("jn", ("list", [("null",)]), None), ("jn", ("list", [("list", [("null",)]), ("null",)]), None),
                     ("jn", ("obj", [("a", ("null",))]), None), ("jn", ("null",), None),
                     ("jn", ("list", [("obj", [("a", ("list", [("null",)]))])]), None),
                     ("jn", ("list", [("var", "v")]), N(jn)), ("jn", ("list", [("var", "v")]), NN(N(jn))),
                     ("jn", ("list", [("var", "v")]), N("Int")), ("jn", ("var", "v"), N(jn)),
                     ("jn", ("list", [("var", "undefinedVar")]), None),
                     ("jn", ("obj", [("a", ("var", "undefinedVar"))]), None),
                     ("jn", ("obj", [("a", ("list", [("obj", [("b", ("var", "undefinedVar"))])]))]), None),
                     ("jn", ("list", [("obj", [("a", ("var", "undefinedVar"))])]), None),
                     ("jn", ("obj", [("a", ("var", "v")), ("b", ("list", [("var", "v")]))]), N("String")),
                     ("ljn", ("list", [("null",)]), None), ("ljn", ("list", [("list", [("null",)])]), None),
                     ("ljn", ("list", [("obj", [("a", ("null",))])]), None), ("ljn", ("null",), None),
                     ("ljn", ("list", [("list", [("var", "v")])]), N(jn)), ("ljn", ("list", [("var", "v")]), N(jn)),
                     ("ljn", ("list", [("var", "v")]), NN(N(jn))),
                     ("ljn", ("list", [("obj", [("a", ("var", "undefinedVar"))])]), None),
                     ("ljn", ("obj", [("a", ("var", "undefinedVar"))]), None),
                     ("j", ("obj", [("a", ("list", [("obj", [("b", ("var", "undefinedVar"))])]))]), None),
                     ("j", ("obj", [("a", ("var", "v")), ("b", ("var", "undefinedVar"))]), N("Int"))]:
        out.append(("custom-scalar-literal-non-null", [mk_op([mk_field("scalars", args=[(a, v)])],
                                                             vars_=[("v", vt, None, [])] if vt else [])]))
    for vt in [N(sch.composites()[0]), N("ZzNoType"), L(N(list(sch.objects)[0])), N(list(sch.inputs)[0]), N(list(sch.enums)[0])]:
        out.append(("variable-type-kind", [mk_op([mk_field("scalars", args=[("j", ("obj", [("a", ("var", "v"))]))])],
                                                 vars_=[("v", vt, None, [])])]))
    # E. every directive at every location, once and twice, with and without its arguments
    dall = all_directives(sch)
    group = [(dn, loc, rep, am) for dn in dall for loc in EXEC_LOCS for rep in (1, 2)
             for am in ("ok", "none", "unknown", "null")]
    for dn, loc, rep, am in cap(group, budget * 3):
        dd = dall[dn]
        args = const_args(rng, sch, dd["args"], all_args=True)
        if am == "none":
            args = []
        elif am == "unknown":
            args = args + [("zzUnknown", ("int", "1"))]
        elif am == "null":
            args = [(a, ("null",)) for a, v in args]
        dirs = [(dn, args)] * rep
        fr = mk_frag("Fd", q, [mk_field("__typename")], dirs=dirs if loc == "FRAGMENT_DEFINITION" else [])
        sels = [{"k": "S", "name": "Fd", "dirs": dirs if loc == "FRAGMENT_SPREAD" else []},
                {"k": "I", "cond": None, "dirs": dirs if loc == "INLINE_FRAGMENT" else [], "sels": [mk_field("count")]},
                mk_field("need", args=[("n", ("var", "v"))], dirs=dirs if loc == "FIELD" else [])]
        ot = {"MUTATION": "mutation", "SUBSCRIPTION": "subscription"}.get(loc, "query")
        if ot != "query":
            root = sch.roots.get(ot)
            if not root:
                continue
            f0 = sch.fields(root)[-1] if ot == "subscription" else sch.fields(root)[0]
            op = mk_op([fsel(f0)], optype=ot, dirs=dirs)
            out.append(("directive-location", [op]))
            continue
        op = mk_op(sels, vars_=[("v", NN(N("Int")), None, dirs if loc == "VARIABLE_DEFINITION" else [])],
                   dirs=dirs if loc == "QUERY" else [])
        out.append(("directive-location", [op, fr]))
    # F. subscriptions
    sub = sch.roots.get("subscription")
    if sub:
        fs = sch.fields(sub)
        f_tick = sch.field(sub, "tick")
        f_tock = sch.field(sub, "tock")
        others = [c for c in sch.composites() if c != sub]
        shapes = []
        t1, t2 = fsel(f_tick), fsel(f_tock)
        shapes += [[t1], [t1, t1], [t1, t2], [fsel(f_tick, alias="a"), fsel(f_tick, alias="a")],
                   [fsel(f_tick, alias="a"), fsel(f_tock, alias="a")], [fsel(f_tick, alias="a"), fsel(f_tick, alias="b")],
                   [mk_field("__typename")], [t1, mk_field("__typename")], [mk_field("__typename", alias="tick"), t1],
                   [mk_field("__schema", sels=[mk_field("__typename")])],
                   [{"k": "I", "cond": None, "dirs": [], "sels": [t1]}], [{"k": "I", "cond": sub, "dirs": [], "sels": [t1, t2]}],
                   [{"k": "I", "cond": None, "dirs": [], "sels": [t1]}, t1], [{"k": "S", "name": "Fs", "dirs": []}],
                   [{"k": "S", "name": "Fs", "dirs": []}, {"k": "S", "name": "Fs", "dirs": []}],
                   [{"k": "S", "name": "Fs", "dirs": []}, t2], [{"k": "S", "name": "Fs", "dirs": []}, t1]]
        for dn in ("skip", "include"):
            for val in (("bool", True), ("bool", False), ("var", "c")):
                d1 = [(dn, [("if", val)])]
                shapes += [[mk_field("tick", dirs=d1)], [t1, mk_field("tock", dirs=d1)],
                           [{"k": "I", "cond": None, "dirs": d1, "sels": [t1]}], [{"k": "S", "name": "Fs", "dirs": d1}],
                           [mk_field("obj", sels=[mk_field("__typename", dirs=d1)])],
                           [{"k": "S", "name": "Fskip", "dirs": []}]]
        # fragments whose type condition does not apply to the subscription type, nested in ones that do
        for I in sch.objects[sub]["implements"]:
            for O in sch.possible(I):
                if O != sub:
                    f0 = sch.fields(O)[0]
                    shapes += [[t1, {"k": "I", "cond": I, "dirs": [], "sels": [{"k": "I", "cond": O, "dirs": [], "sels": [fsel(f0, alias="zz")]}]}],
                               [{"k": "I", "cond": I, "dirs": [], "sels": [{"k": "I", "cond": O, "dirs": [], "sels": [fsel(f0, alias="zz")]}]}]]
        for U, ms in sch.unions.items():
            if sub in ms:
                for O in ms:
                    if O != sub:
                        f0 = sch.fields(O)[0]
                        shapes += [[t1, {"k": "I", "cond": U, "dirs": [], "sels": [{"k": "I", "cond": O, "dirs": [], "sels": [fsel(f0, alias="zz")]}]}]]
        for O in others[:3]:
            shapes.append([t1, {"k": "I", "cond": O, "dirs": [], "sels": [mk_field("__typename", alias="zz")]}])
        for sh in shapes:
            text = " ".join(sel_str(x) for x in sh)
            doc = [mk_op(copy.deepcopy(sh), optype="subscription",
                         vars_=[("c", NN(N("Boolean")), None, [])] if "$c" in text or "Fskip" in text else [])]
            if "...Fs" in text and "Fskip" not in text or "...Fs " in text + " ":
                doc.append(mk_frag("Fs", sub, [fsel(f_tick)]))
            if "Fskip" in text:
                doc.append(mk_frag("Fskip", sub, [mk_field("tick", dirs=[("skip", [("if", ("var", "c"))])])]))
            out.append(("subscription-shape", doc))
        # what CollectFields never visits for the subscription type: named fragments and inline fragments on another
        # possible type of an interface / union of the subscription type, holding a second field, an introspection
        # field or a conditional field; next to the same under a condition that applies
        abstract = [(I, [O for O in sch.possible(I) if O != sub]) for I in sch.objects[sub]["implements"]]
        abstract += [(U, [O for O in ms if O != sub]) for U, ms in sch.unions.items() if sub in ms]
        skip_c = [("skip", [("if", ("var", "c"))])]
        skip_t = [("skip", [("if", ("bool", True))])]
        for A, Os in abstract:
            for O in Os[:2]:
                f0 = fsel(sch.fields(O)[0], alias="zz")
                f0s = copy.deepcopy(f0)
                f0s["dirs"] = skip_t
                und = lambda inner, dirs=None: {"k": "I", "cond": A, "dirs": dirs or [], "sels": inner}
                ono = lambda inner, dirs=None: {"k": "I", "cond": O, "dirs": dirs or [], "sels": inner}
                sp = {"k": "S", "name": "Fna", "dirs": []}
                variants = [
                    ([t1, und([sp])], [mk_frag("Fna", O, [f0])]),
                    ([t1, und([sp, sp]), und([sp])], [mk_frag("Fna", O, [f0])]),
                    ([t1, und([sp])], [mk_frag("Fna", O, [f0s])]),
                    ([t1, und([sp])], [mk_frag("Fna", O, [mk_field("__typename", alias="zz")])]),
                    ([t1, und([sp])], [mk_frag("Fna", O, [{"k": "S", "name": "Fi", "dirs": []}]),
                                       mk_frag("Fi", A, [mk_field("__typename", alias="yy")])]),
                    ([t1, und([sp, {"k": "S", "name": "Fi", "dirs": []}])],
                     [mk_frag("Fna", O, [{"k": "S", "name": "Fi", "dirs": []}]),
                      mk_frag("Fi", A, [mk_field("__typename", alias="yy")])]),
                    ([t1, und([ono([f0s])])], []),
                    ([t1, und([ono([f0], skip_t)])], []),
                    ([t1, und([{"k": "S", "name": "Fna", "dirs": skip_t}])], [mk_frag("Fna", O, [f0])]),
                    ([t1, und([ono([mk_field("__typename", alias="zz")])])], []),
                    ([t1, und([ono([f0]), t2])], []),
                    ([t1, und([ono([f0]), t1])], []),
                    ([und([ono([f0]), t1]), und([t1])], []),
                    ([t1, und([ono([und([t2])])])], []),
                    ([mk_field("tick", dirs=skip_c), und([ono([f0])])], []),
                ]
                for sels, frags in variants:
                    text = " ".join(sel_str(x) for x in sels) + " ".join(sel_str(x) for f in frags for x in f["sels"])
                    out.append(("subscription-type-condition",
                                [mk_op(copy.deepcopy(sels), optype="subscription",
                                       vars_=[("c", NN(N("Boolean")), None, [])] if "$c" in text else [])]
                                + copy.deepcopy(frags)))
    # H. fragment graphs: cycles through fields and inline fragments, and acyclic diamonds
    def fr(name, succ, wrap):
        sels = [mk_field("__typename")]
        for nm in succ:
            sp = {"k": "S", "name": nm, "dirs": []}
            w = wrap if wrap != "mix" else rng.choice(["direct", "inline", "field"])
            if w == "inline":
                sp = {"k": "I", "cond": q, "dirs": [], "sels": [sp]}
            elif w == "field":
                # a field of the query type that returns the query type does not exist: nest under an inline
                sp = {"k": "I", "cond": None, "dirs": [], "sels": [{"k": "I", "cond": None, "dirs": [], "sels": [sp]}]}
            sels.append(sp)
        return mk_frag(name, q, sels)
    graphs = {
        "self": {"A": ["A"]}, "two": {"A": ["B"], "B": ["A"]}, "three": {"A": ["B"], "B": ["C"], "C": ["A"]},
        "four": {"A": ["B"], "B": ["C"], "C": ["D"], "D": ["A"]},
        "tail-cycle": {"A": ["B"], "B": ["C"], "C": ["B"]},                 # cycle not through the first fragment
        "diamond": {"A": ["B", "C"], "B": ["D"], "C": ["D"], "D": []},      # acyclic
        "diamond-back": {"A": ["B", "C"], "B": ["D"], "C": ["D"], "D": ["A"]},
        "seen-then-back": {"A": ["B", "C"], "B": ["C"], "C": ["A"]},
        "seen-no-cycle": {"A": ["B", "C"], "B": ["C"], "C": []},
        "side-cycle": {"A": ["B", "C"], "B": ["B2"], "B2": ["B"], "C": []},
        "double-spread": {"A": ["B", "B"], "B": []},
        "chain5": {"A": ["B"], "B": ["C"], "C": ["D"], "D": ["E"], "E": []},
        "cross": {"A": ["B", "C"], "B": ["C"], "C": ["B"]},
        "late-back": {"A": ["B", "C"], "B": [], "C": ["D"], "D": ["B", "A"]},
    }
    for gname, gr in graphs.items():
        for wrap in ("direct", "inline", "mix"):
            doc = [mk_op([{"k": "S", "name": "A", "dirs": []}])] + [fr(n, s, wrap) for n, s in gr.items()]
            if rng.random() < 0.5:
                rng.shuffle(doc)
            out.append(("fragment-graph-" + gname, doc))
    # cycles through a field that returns a composite: fragment on T { f { ...same } } where f : T
    for T in sch.objects:
        for f in sch.fields(T):
            if named(f[2]) == T and sch.field(q, T.lower()):
                out.append(("fragment-cycle-through-field",
                            [mk_op([at_type(T, [{"k": "S", "name": "Fc", "dirs": []}])]),
                             mk_frag("Fc", T, [fsel(f, sub=[{"k": "S", "name": "Fc", "dirs": []}, mk_field("__typename")])])]))
    # I. every (parent, type condition) pair
    group = [(P, C, kind) for P in comps for C in sch.composites() + list(sch.enums)[:1] + ["Int", "ZzNoType"] + list(sch.inputs)[:1]
             for kind in ("inline", "named")]
    for P, C, kind in cap(group, budget * 3):
        if kind == "inline":
            doc = [mk_op([at_type(P, [{"k": "I", "cond": C, "dirs": [], "sels": [mk_field("__typename")]}])])]
        else:
            doc = [mk_op([at_type(P, [{"k": "S", "name": "Fp", "dirs": []}])]), mk_frag("Fp", C, [mk_field("__typename")])]
        out.append(("spread-pair", doc))
    # J. leaf / composite selections for every field of every type; meta fields
    group = [(T, f, sub) for T in comps for f in sch.fields(T) for sub in (True, False)]
    for T, f, sub in cap(group, budget * 2):
        x = fsel(f, sub=[mk_field("__typename")] if sub else [])
        out.append(("leaf-or-composite", [mk_op([at_type(T, [x])])]))
    meta = [[mk_field("__schema", sels=[mk_field("types", sels=[mk_field("name")])])],
            [mk_field("__type", args=[("name", ("str", "A"))], sels=[mk_field("name")])],
            [mk_field("__type", sels=[mk_field("name")])], [mk_field("__type", args=[("name", ("int", "1"))], sels=[mk_field("name")])],
            [mk_field("__schema")], [mk_field("__typename", sels=[mk_field("x")])],
            [mk_field("__type", args=[("name", ("str", "A"))], sels=[mk_field("fields", args=[("includeDeprecated", ("bool", True))], sels=[mk_field("name")])])],
            [mk_field("__type", args=[("name", ("str", "A"))], sels=[mk_field("fields", args=[("includeDeprecated", ("str", "x"))], sels=[mk_field("name")])])],
            [mk_field("__type", args=[("name", ("str", "A"))], sels=[mk_field("kind", sels=[mk_field("x")])])]]
    for sels in meta:
        out.append(("introspection", [mk_op(sels)]))
    for T in comps[:4]:
        out.append(("introspection", [mk_op([at_type(T, [mk_field("__schema", sels=[mk_field("__typename")])])])]))
        out.append(("introspection", [mk_op([at_type(T, [mk_field("__typename"), mk_field("__typename", alias="t2")])])]))
    if "mutation" in sch.roots:
        out.append(("introspection", [mk_op([mk_field("__schema", sels=[mk_field("__typename")])], optype="mutation")]))
        out.append(("introspection", [mk_op([mk_field("__typename")], optype="mutation")]))
    return out


def value_leaves(v):
    if v[0] == "list":
        return [y for x in v[1] for y in value_leaves(x)]
    if v[0] == "obj":
        return [y for k, x in v[1] for y in value_leaves(x)]
    return [v]
