"""C17 generator, part 1: schemas (valid by construction) with a Python-side model, types, values, printing.

Types are tuples: ('n', name) | ('nn', t) | ('l', t).   Values: ('int', text) ('float', text) ('str', s)
('bool', b) ('null',) ('enum', n) ('var', n) ('list', [v]) ('obj', [(k, v)]).
"""
import copy

BUILTIN_SCALARS = ["Int", "Float", "String", "Boolean", "ID"]


# ---------------------------------------------------------------- types
def N(n):
    return ("n", n)


def NN(t):
    return ("nn", t)


def L(t):
    return ("l", t)


def ty_str(t):
    if t[0] == "n":
        return t[1]
    if t[0] == "nn":
        return ty_str(t[1]) + "!"
    return "[" + ty_str(t[1]) + "]"


def named(t):
    while t[0] != "n":
        t = t[1]
    return t[1]


def is_nn(t):
    return t[0] == "nn"


def nullable(t):
    return t[1] if t[0] == "nn" else t


# ---------------------------------------------------------------- values
def val_str(v):
    k = v[0]
    if k in ("int", "float", "enum"):
        return v[1]
    if k == "str":
        return '"' + v[1] + '"'
    if k == "bool":
        return "true" if v[1] else "false"
    if k == "null":
        return "null"
    if k == "var":
        return "$" + v[1]
    if k == "list":
        return "[" + ", ".join(val_str(x) for x in v[1]) + "]"
    if k == "obj":
        return "{" + ", ".join(f"{a}: {val_str(b)}" for a, b in v[1]) + "}"
    raise ValueError(v)


def args_str(args):
    return "(" + ", ".join(f"{a}: {val_str(b)}" for a, b in args) + ")" if args else ""


def dirs_str(dirs):
    return "".join(f" @{n}{args_str(a)}" for n, a in dirs)


# ---------------------------------------------------------------- schema model
class Schema:
    """kinds: scalar enum input interface object union.  Everything the document generator needs."""

    def __init__(self):
        self.scalars = []          # custom scalar names
        self.enums = {}            # name -> [values]
        self.inputs = {}           # name -> [(fname, type, default value or None)]
        self.interfaces = {}       # name -> {'fields': [(fname, args, type)], 'implements': []}
        self.objects = {}          # name -> {'fields': [...], 'implements': [...]}
        self.unions = {}           # name -> [members]
        self.roots = {}            # 'query'|'mutation'|'subscription' -> type name
        self.directives = {}       # name -> {'args': [(n, type, default)], 'locs': [...], 'rep': bool}
        self.explicit_schema_def = False

    def kind(self, n):
        if n in BUILTIN_SCALARS or n in self.scalars:
            return "scalar"
        for k, d in (("enum", self.enums), ("input", self.inputs), ("interface", self.interfaces),
                     ("object", self.objects), ("union", self.unions)):
            if n in d:
                return k
        return None

    def is_composite(self, n):
        return self.kind(n) in ("object", "interface", "union")

    def is_input_type(self, n):
        return self.kind(n) in ("scalar", "enum", "input")

    def fields(self, n):
        if n in self.objects:
            return self.objects[n]["fields"]
        if n in self.interfaces:
            return self.interfaces[n]["fields"]
        return []

    def field(self, n, f):
        for x in self.fields(n):
            if x[0] == f:
                return x
        return None

    def possible(self, n):
        k = self.kind(n)
        if k == "object":
            return [n]
        if k == "interface":
            return [o for o, d in self.objects.items() if n in d["implements"]]
        if k == "union":
            return list(self.unions[n])
        return []

    def composites(self):
        return list(self.objects) + list(self.interfaces) + list(self.unions)

    def text(self):
        out = []
        if self.explicit_schema_def:
            out.append("schema { " + " ".join(f"{k}: {v}" for k, v in self.roots.items()) + " }")
        for n, d in self.directives.items():
            a = "(" + ", ".join(f"{x}: {ty_str(t)}" + (f" = {val_str(dv)}" if dv is not None else "")
                                for x, t, dv in d["args"]) + ")" if d["args"] else ""
            out.append(f"directive @{n}{a}{' repeatable' if d['rep'] else ''} on {' | '.join(d['locs'])}")
        for n in self.scalars:
            out.append(f"scalar {n}")
        for n, vs in self.enums.items():
            out.append(f"enum {n} {{ {' '.join(vs)} }}")
        for n, fs in self.inputs.items():
            out.append(f"input {n} {{ " + " ".join(
                f"{f}: {ty_str(t)}" + (f" = {val_str(dv)}" if dv is not None else "") for f, t, dv in fs) + " }")

        def fld(f):
            name, args, t = f
            a = "(" + ", ".join(f"{x}: {ty_str(at)}" + (f" = {val_str(dv)}" if dv is not None else "")
                                for x, at, dv in args) + ")" if args else ""
            return f"{name}{a}: {ty_str(t)}"
        for kw, dd in (("interface", self.interfaces), ("type", self.objects)):
            for n, d in dd.items():
                impl = " implements " + " & ".join(d["implements"]) if d["implements"] else ""
                out.append(f"{kw} {n}{impl} {{ " + " ".join(fld(f) for f in d["fields"]) + " }")
        for n, ms in self.unions.items():
            out.append(f"union {n} = {' | '.join(ms)}")
        return "\n".join(out) + "\n"


EXEC_LOCS = ["QUERY", "MUTATION", "SUBSCRIPTION", "FIELD", "FRAGMENT_DEFINITION", "FRAGMENT_SPREAD",
             "INLINE_FRAGMENT", "VARIABLE_DEFINITION"]


def const_value(rng, sch, t, depth=0, allow_null=True):
    """a constant literal valid for type t (by construction)"""
    if t[0] == "nn":
        return const_value(rng, sch, t[1], depth, allow_null=False)
    if allow_null and rng.random() < 0.1:
        return ("null",)
    if t[0] == "l":
        if rng.random() < 0.2 and depth < 2:          # single-value coercion
            v = const_value(rng, sch, t[1], depth + 1, allow_null=False)
            if v[0] != "list":
                return v
        return ("list", [const_value(rng, sch, t[1], depth + 1) for _ in range(rng.randint(0, 2))])
    n = t[1]
    if n == "Int":
        return ("int", rng.choice(["0", "1", "-7", "2147483647", "-2147483648", "42"]))
    if n == "Float":
        return rng.choice([("float", "1.5"), ("float", "-0.25"), ("int", "3"), ("float", "1e10"),
                           ("float", "1.0E-3"), ("int", "123456789012")])
    if n == "String":
        return ("str", rng.choice(["", "a", "hello", "4"]))
    if n == "Boolean":
        return ("bool", rng.random() < 0.5)
    if n == "ID":
        return rng.choice([("str", "id1"), ("int", "4"), ("int", "99999999999")])
    if n in sch.scalars:
        return rng.choice([("int", "1"), ("str", "x"), ("float", "2.5"), ("bool", True), ("enum", "ANY"),
                           ("list", [("int", "1"), ("str", "a")]), ("obj", [("k", ("int", "1"))]),
                           ("obj", [("a", ("obj", [("b", ("list", []))]))])])
    if n in sch.enums:
        return ("enum", rng.choice(sch.enums[n]))
    if n in sch.inputs:
        fs = []
        for f, ft, dv in sch.inputs[n]:
            required = is_nn(ft) and dv is None
            if required or (rng.random() < 0.5 and depth < 3):
                fs.append((f, const_value(rng, sch, ft, depth + 1)))
        rng.shuffle(fs)
        return ("obj", fs)
    raise ValueError(t)


def rand_input_type(rng, sch, names, maxlist=2):
    t = N(rng.choice(names))
    if rng.random() < 0.3:
        t = NN(t)
    for _ in range(maxlist):
        if rng.random() < 0.3:
            t = L(t)
            if rng.random() < 0.3:
                t = NN(t)
    return t


def gen_args(rng, sch, input_names, maxn=3):
    args = []
    for a in rng.sample(["a", "b", "c", "id", "flt"], rng.randint(0, maxn)):
        t = rand_input_type(rng, sch, input_names)
        dv = const_value(rng, sch, t) if rng.random() < 0.35 else None
        args.append((a, t, dv))
    return args


def gen_schema(rng):
    s = Schema()
    s.scalars = rng.sample(["JSON", "Date"], rng.randint(1, 2))
    for e in rng.sample(["Color", "Dir"], rng.randint(1, 2)):
        s.enums[e] = {"Color": ["RED", "GREEN", "BLUE"], "Dir": ["UP", "DOWN"]}[e][: rng.randint(2, 3)]
    leafs = BUILTIN_SCALARS + s.scalars + list(s.enums)
    # input objects: acyclic by construction (fields refer to earlier input objects only)
    for n in ["Inner", "Filter", "Deep"][: rng.randint(2, 3)]:
        names = leafs + list(s.inputs)
        fs = []
        for f in rng.sample(["n", "s", "id", "tags", "sub", "opt", "req", "e", "j"], rng.randint(2, 5)):
            t = rand_input_type(rng, s, names)
            if f == "req":
                t = NN(nullable(t))
            dv = const_value(rng, s, t) if rng.random() < 0.35 and f != "req" else None
            fs.append((f, t, dv))
        s.inputs[n] = fs
    input_names = leafs + list(s.inputs)
    # interfaces
    field_pool = ["id", "name", "x", "y", "z", "val", "list", "peer", "kid"]
    out_leafs = BUILTIN_SCALARS + s.scalars + list(s.enums)
    obj_names = ["A", "B", "C", "D"][: rng.randint(3, 4)]
    iface_names = ["Node", "Named", "Lonely"][: rng.randint(1, 3)]
    union_names = ["AB", "Any"][: rng.randint(1, 2)]
    comp_names = obj_names + iface_names + union_names

    def rand_out_type(leaf_bias=0.6):
        n = rng.choice(out_leafs) if rng.random() < leaf_bias else rng.choice(comp_names)
        t = N(n)
        if rng.random() < 0.3:
            t = NN(t)
        if rng.random() < 0.3:
            t = L(t)
            if rng.random() < 0.3:
                t = NN(t)
        return t
    for i in iface_names:
        fs = []
        for f in rng.sample(field_pool, rng.randint(1, 3)):
            fs.append((f, gen_args(rng, s, input_names, 2), rand_out_type()))
        s.interfaces[i] = {"fields": fs, "implements": []}
    for o in obj_names:
        impl = [i for i in iface_names if i != "Lonely" and rng.random() < 0.6]
        fs, have = [], set()
        for i in impl:
            for f in s.interfaces[i]["fields"]:
                if f[0] not in have:
                    have.add(f[0])
                    fs.append(copy.deepcopy(f))
                else:
                    # same field name required by two interfaces with (maybe) different definitions:
                    # keep the object valid by dropping the second interface
                    ex = [x for x in fs if x[0] == f[0]][0]
                    if ex != f:
                        impl = [j for j in impl if j != i]
        # drop fields contributed by dropped interfaces is not needed (extra fields are fine)
        for f in rng.sample(field_pool, rng.randint(2, 5)):
            if f not in have:
                have.add(f)
                fs.append((f, gen_args(rng, s, input_names, 2), rand_out_type()))
        s.objects[o] = {"fields": fs, "implements": impl}
    for u in union_names:
        s.unions[u] = rng.sample(obj_names, rng.randint(1, len(obj_names)))
    # root types
    qf = []
    for c in comp_names:
        t = N(c)
        if rng.random() < 0.3:
            t = L(t)
        qf.append((c.lower(), gen_args(rng, s, input_names, 2), t))
    qf.append(("scalars", [("i", N("Int"), None), ("f", N("Float"), None), ("s", N("String"), None),
                           ("b", N("Boolean"), None), ("id", N("ID"), None),
                           ("e", N(list(s.enums)[0]), None), ("j", N(s.scalars[0]), None),
                           ("li", L(N("Int")), None), ("lli", L(L(N("Int"))), None),
                           ("lnn", L(NN(N("Int"))), None), ("nnl", NN(L(N("Int"))), ("list", [])),
                           ("inp", N(list(s.inputs)[-1]), None), ("linp", L(N(list(s.inputs)[0])), None)],
               N("Int")))
    qf.append(("need", [("n", NN(N("Int")), None), ("d", NN(N("Int")), ("int", "3"))], N("String")))
    qf.append(("count", [], NN(N("Int"))))
    qname = rng.choice(["Query", "Query", "RootQ"])
    s.objects[qname] = {"fields": qf, "implements": []}
    s.roots["query"] = qname
    if rng.random() < 0.7:
        mname = "Mutation" if qname == "Query" else "RootM"
        s.objects[mname] = {"fields": [("set", [("v", NN(N("Int")), None)], N("Int")),
                                       ("obj", [], N(obj_names[0]))], "implements": []}
        s.roots["mutation"] = mname
    if rng.random() < 0.8:
        sname = "Subscription" if qname == "Query" else "RootS"
        impl = [i for i in iface_names if i != "Lonely" and rng.random() < 0.4]
        fs = []
        for i in impl:
            for f in s.interfaces[i]["fields"]:
                if not any(x[0] == f[0] for x in fs):
                    fs.append(copy.deepcopy(f))
                elif [x for x in fs if x[0] == f[0]][0] != f:
                    impl = [j for j in impl if j != i]
        for f in [("tick", [], N("Int")), ("tock", [("n", N("Int"), None)], N("Int")),
                  ("obj", [], N(obj_names[0])), ("any", [], N(union_names[0]))]:
            if not any(x[0] == f[0] for x in fs):
                fs.append(f)
        s.objects[sname] = {"fields": fs, "implements": impl}
        s.roots["subscription"] = sname
        if rng.random() < 0.5:
            s.unions[union_names[0]] = s.unions[union_names[0]] + [sname]
    s.explicit_schema_def = qname != "Query"
    # interfaces implementing interfaces are left out (objects carry the whole burden of validity)
    # directives
    for dn in ["d", "rep", "onq", "need", "fld"]:
        if dn == "d":
            locs, rep = list(EXEC_LOCS), False
            args = [("a", N("Int"), None)]
        elif dn == "rep":
            locs, rep = rng.sample(EXEC_LOCS, rng.randint(2, 6)), True
            if "FIELD" not in locs:
                locs.append("FIELD")
            args = [("x", N("String"), None)]
        elif dn == "onq":
            locs, rep, args = ["QUERY"], False, []
        elif dn == "need":
            locs, rep = ["FIELD", "INLINE_FRAGMENT"], False
            args = [("n", NN(N("Int")), None), ("o", NN(N("Int")), ("int", "1"))]
        else:
            locs, rep = ["FIELD"], rng.random() < 0.5
            args = gen_args(rng, s, input_names, 2)
        s.directives[dn] = {"args": args, "locs": locs, "rep": rep}
    s.directives_builtin = {
        "skip": {"args": [("if", NN(N("Boolean")), None)], "locs": ["FIELD", "FRAGMENT_SPREAD", "INLINE_FRAGMENT"], "rep": False},
        "include": {"args": [("if", NN(N("Boolean")), None)], "locs": ["FIELD", "FRAGMENT_SPREAD", "INLINE_FRAGMENT"], "rep": False},
    }
    return s


def all_directives(sch):
    d = dict(sch.directives)
    d.update(sch.directives_builtin)
    return d


# ---------------------------------------------------------------- documents
def sel_str(x):
    if x["k"] == "F":
        s = (x["alias"] + ": " if x.get("alias") else "") + x["name"] + args_str(x["args"]) + dirs_str(x["dirs"])
        if x["sels"]:
            s += " { " + " ".join(sel_str(y) for y in x["sels"]) + " }"
        return s
    if x["k"] == "S":
        return "..." + x["name"] + dirs_str(x["dirs"])
    return "..." + (" on " + x["cond"] if x["cond"] else "") + dirs_str(x["dirs"]) + \
        " { " + " ".join(sel_str(y) for y in x["sels"]) + " }"


def def_str(d):
    if d["k"] == "op":
        vs = ""
        if d["vars"]:
            vs = "(" + ", ".join(f"${n}: {ty_str(t)}" + (f" = {val_str(dv)}" if dv is not None else "") + dirs_str(ds)
                                 for n, t, dv, ds in d["vars"]) + ")"
        head = d["optype"] + (" " + d["name"] if d["name"] else "") + vs + dirs_str(d["dirs"])
        if d["optype"] == "query" and not d["name"] and not d["vars"] and not d["dirs"] and d.get("short"):
            head = ""
        return (head + " " if head else "") + "{ " + " ".join(sel_str(y) for y in d["sels"]) + " }"
    if d["k"] == "frag":
        return f"fragment {d['name']} on {d['cond']}{dirs_str(d['dirs'])} {{ " + \
            " ".join(sel_str(y) for y in d["sels"]) + " }"
    return d["text"]           # raw definition text (type system definitions in an executable document)


def doc_str(doc):
    return "\n".join(def_str(d) for d in doc)


# ---------------------------------------------------------------- valid documents by construction
class DocGen:
    """One document: operations plus the fragments they use.  Response keys are unique in the whole document
    except deliberate identical duplicates, so merging is valid by construction."""

    def __init__(self, rng, sch):
        self.rng, self.sch = rng, sch
        self.keys = set()
        self.frags = []                # fragment definitions
        self.frag_vars = {}            # fragment name -> {var: type}
        self.frag_uses = {}            # fragment name -> set of fragment names spread in it
        self.nvar = 0
        self.nfrag = 0
        self.cur_vars = None           # var -> (type, default) of the definition being generated
        self.cur_spreads = None
        self.no_cond_dirs = False      # inside a subscription root: no @skip/@include

    def key_for(self, name):
        if name not in self.keys and self.rng.random() < 0.7:
            self.keys.add(name)
            return None
        while True:
            k = self.rng.choice(["k", "al", "r"]) + str(len(self.keys))
            if k not in self.keys:
                self.keys.add(k)
                return k

    def new_var(self, t, loc_default):
        """a variable whose type is allowed at a position of type t"""
        rng = self.rng
        self.nvar += 1
        name = f"v{self.nvar}"
        vt, dv = t, None
        r = rng.random()
        if is_nn(t) and r < 0.3:
            # nullable variable into a non-null position: allowed with a non-null default or a location default
            if loc_default and rng.random() < 0.5:
                vt = nullable(t)
            else:
                vt = nullable(t)
                dv = const_value(rng, self.sch, t, allow_null=False)
        elif not is_nn(t) and r < 0.3:
            vt = NN(t)                                     # non-null variable into a nullable position
        elif r < 0.45:
            dv = const_value(rng, self.sch, vt)
        self.cur_vars[name] = (vt, dv)
        return ("var", name)

    def value(self, t, loc_default=False, depth=0):
        """a value (literals and variables) valid for a position of type t"""
        rng, sch = self.rng, self.sch
        if rng.random() < 0.25 and named(t) not in sch.scalars:
            return self.new_var(t, loc_default)
        if t[0] == "nn":
            v = self.value(t[1], False, depth)
            if v[0] == "null":
                return const_value(rng, sch, t, allow_null=False)
            if v[0] == "var":
                # the variable was made for the nullable type: make it fit the non-null one
                vt, dv = self.cur_vars[v[1]]
                if not is_nn(vt) and (dv is None or dv[0] == "null"):
                    self.cur_vars[v[1]] = (NN(vt), None)
            return v
        if rng.random() < 0.08:
            return ("null",)
        if t[0] == "l":
            if rng.random() < 0.15:
                return const_value(rng, sch, t, allow_null=False)
            return ("list", [self.value(t[1], False, depth + 1) for _ in range(rng.randint(0, 2))])
        n = t[1]
        if n in sch.inputs and depth < 3:
            fs = []
            for f, ft, dv in sch.inputs[n]:
                if (is_nn(ft) and dv is None) or rng.random() < 0.5:
                    fs.append((f, self.value(ft, dv is not None, depth + 1)))
            rng.shuffle(fs)
            return ("obj", fs)
        return const_value(rng, sch, t, allow_null=False)

    def arguments(self, argdefs):
        args = []
        for a, t, dv in argdefs:
            if (is_nn(t) and dv is None) or self.rng.random() < 0.5:
                v = self.value(t, dv is not None)
                if v[0] == "null" and is_nn(t):
                    v = const_value(self.rng, self.sch, t, allow_null=False)
                args.append((a, v))
        self.rng.shuffle(args)
        return args

    def directives(self, loc):
        rng, out, used = self.rng, [], set()
        cands = [(n, d) for n, d in all_directives(self.sch).items() if loc in d["locs"]]
        while cands and rng.random() < 0.2:
            n, d = rng.choice(cands)
            if n in ("skip", "include") and self.no_cond_dirs:
                continue
            if n in used and not d["rep"]:
                continue
            used.add(n)
            if loc == "VARIABLE_DEFINITION":
                args = [(a, const_value(rng, self.sch, t, allow_null=False)) for a, t, dv in d["args"]
                        if (is_nn(t) and dv is None) or rng.random() < 0.5]
            else:
                args = self.arguments(d["args"])
            out.append((n, args))
        return out

    def frag_on(self, cond, depth):
        """a (new or existing) fragment whose type condition is `cond`"""
        rng = self.rng
        ex = [f for f in self.frags if f["cond"] == cond and f.get("done")]
        if ex and rng.random() < 0.4:
            return rng.choice(ex)["name"]
        self.nfrag += 1
        name = f"F{self.nfrag}"
        f = {"k": "frag", "name": name, "cond": cond, "dirs": [], "sels": []}
        self.frags.append(f)
        saved = (self.cur_vars, self.cur_spreads, self.no_cond_dirs)
        self.cur_vars, self.cur_spreads = {}, set()
        f["dirs"] = self.directives("FRAGMENT_DEFINITION")
        f["sels"] = self.selset(cond, depth + 1)
        self.frag_vars[name] = self.cur_vars
        self.frag_uses[name] = self.cur_spreads
        f["done"] = True
        self.cur_vars, self.cur_spreads, self.no_cond_dirs = saved
        return name

    def possible_conds(self, parent):
        sch = self.sch
        pp = set(sch.possible(parent))
        out = [c for c in sch.composites() if pp & set(sch.possible(c))]
        if parent not in out:
            out.append(parent)                     # a spread on the parent type itself is always accepted
        return out

    def selset(self, parent, depth, nmax=4, root_single=False):
        rng, sch = self.rng, self.sch
        sels = []
        fields = list(sch.fields(parent))
        n = 1 if root_single else rng.randint(1, nmax)
        for _ in range(n):
            r = rng.random()
            if root_single:
                r = 0.0
            if r < 0.62 and fields or (not fields and r < 0.3):
                if fields and rng.random() < 0.93:
                    fname, argdefs, ft = rng.choice(fields)
                    if root_single and fname.startswith("__"):
                        continue
                else:
                    if root_single:
                        fname, argdefs, ft = rng.choice(fields)
                    else:
                        fname, argdefs, ft = "__typename", [], NN(N("String"))
                sub = []
                if sch.is_composite(named(ft)):
                    if depth >= 4:
                        sub = [{"k": "F", "alias": self.key_for("__typename"), "name": "__typename", "args": [],
                                "dirs": [], "sels": []}]
                    else:
                        saved = self.no_cond_dirs
                        self.no_cond_dirs = False
                        sub = self.selset(named(ft), depth + 1)
                        self.no_cond_dirs = saved
                x = {"k": "F", "alias": self.key_for(fname), "name": fname, "args": self.arguments(argdefs),
                     "dirs": self.directives("FIELD"), "sels": sub}
                sels.append(x)
                if rng.random() < 0.08:
                    sels.append(copy.deepcopy(x))       # an identical duplicate merges
            elif r < 0.8 and depth < 4:
                cond = rng.choice(self.possible_conds(parent) + [None])
                sels.append({"k": "I", "cond": cond, "dirs": self.directives("INLINE_FRAGMENT"),
                             "sels": self.selset(cond or parent, depth + 1, 3)})
            elif depth < 4:
                cond = rng.choice(self.possible_conds(parent))
                dirs = self.directives("FRAGMENT_SPREAD")
                name = self.frag_on(cond, depth)
                self.cur_spreads.add(name)
                sels.append({"k": "S", "name": name, "dirs": dirs})
        if not sels:
            sels.append({"k": "F", "alias": self.key_for("__typename"), "name": "__typename", "args": [],
                         "dirs": [], "sels": []})
        return sels

    def reach(self, names):
        seen, todo = set(), list(names)
        while todo:
            n = todo.pop()
            if n in seen:
                continue
            seen.add(n)
            todo += list(self.frag_uses.get(n, ()))
        return seen

    def operation(self, optype, name):
        sch = self.sch
        root = sch.roots[optype]
        self.cur_vars, self.cur_spreads = {}, set()
        dirs = self.directives(optype.upper())
        if optype == "subscription":
            self.no_cond_dirs = True
            fs = [f for f in sch.fields(root)]
            sels = self.selset(root, 0, root_single=True)
            self.no_cond_dirs = False
        else:
            sels = self.selset(root, 0)
        vars_ = dict(self.cur_vars)
        for f in self.reach(self.cur_spreads):
            vars_.update(self.frag_vars.get(f, {}))
        vlist = []
        for vn, (vt, dv) in vars_.items():
            saved = self.cur_vars
            self.cur_vars = {}
            vd = self.directives("VARIABLE_DEFINITION")
            self.cur_vars = saved
            vlist.append((vn, vt, dv, vd))
        return {"k": "op", "optype": optype, "name": name, "vars": vlist, "dirs": dirs, "sels": sels,
                "short": self.rng.random() < 0.5}


def gen_doc(rng, sch):
    g = DocGen(rng, sch)
    nops = rng.choice([1, 1, 1, 2, 3])
    kinds = [k for k in ("query", "mutation", "subscription") if k in sch.roots]
    ops = []
    for i in range(nops):
        optype = rng.choice(kinds + ["query"])
        name = f"Op{i}" if nops > 1 or rng.random() < 0.5 else None
        ops.append(g.operation(optype, name))
    doc = ops + g.frags
    for f in g.frags:
        f.pop("done", None)
    if rng.random() < 0.3:
        rng.shuffle(doc)
    return doc


# ---------------------------------------------------------------- walking documents
def field_type(sch, parent, fname):
    """(args, type) of a field on a parent type name, meta-fields included; None if undefined"""
    if parent is None:
        return None
    f = sch.field(parent, fname)
    if f:
        return f[1], f[2]
    if fname == "__typename" and sch.is_composite(parent):
        return [], NN(N("String"))
    return None


def walk(sch, doc):
    """yield (node, parent type name or None, containing list, definition) for every selection"""
    def go(sels, parent, d):
        for x in list(sels):
            yield x, parent, sels, d
            if x["k"] == "F":
                ft = field_type(sch, parent, x["name"])
                yield from go(x["sels"], named(ft[1]) if ft else None, d)
            elif x["k"] == "I":
                yield from go(x["sels"], x["cond"] or parent, d)
    for d in doc:
        if d["k"] == "op":
            yield from go(d["sels"], sch.roots.get(d["optype"]), d)
        elif d["k"] == "frag":
            yield from go(d["sels"], d["cond"], d)


def const_args(rng, sch, argdefs, all_args=False):
    return [(a, const_value(rng, sch, t, allow_null=False)) for a, t, dv in argdefs
            if all_args or (is_nn(t) and dv is None)]


def leaf_or_sub(sch, t):
    """a minimal valid sub-selection for a field of type t"""
    if sch.is_composite(named(t)):
        return [mk_field("__typename")]
    return []


def mk_field(name, alias=None, args=None, dirs=None, sels=None):
    return {"k": "F", "alias": alias, "name": name, "args": args or [], "dirs": dirs or [], "sels": sels or []}


def mk_op(sels, optype="query", name=None, vars_=None, dirs=None):
    return {"k": "op", "optype": optype, "name": name, "vars": vars_ or [], "dirs": dirs or [], "sels": sels,
            "short": False}


def mk_frag(name, cond, sels, dirs=None):
    return {"k": "frag", "name": name, "cond": cond, "dirs": dirs or [], "sels": sels}


def query_path_to(sch, target):
    """a function wrapping selections on type `target` into a query: uses the Query field returning it"""
    q = sch.roots["query"]
    for f, args, t in sch.fields(q):
        if named(t) == target:
            return lambda sels, rng: [mk_field(f, args=const_args(rng, sch, args), sels=sels)]
    return None


# ---------------------------------------------------------------- mutators of a valid document
def mutate(rng, sch, doc):
    """systematic rule-directed mutations of one valid document: a list of (label, mutated doc)"""
    out = []

    def fresh():
        return copy.deepcopy(doc)

    def pick_nodes(d, pred, n=2):
        nodes = [w for w in walk(sch, d) if pred(*w)]
        rng.shuffle(nodes)
        return nodes[:n]
    nsel = sum(1 for _ in walk(sch, doc))

    def at(i, d):
        return list(walk(sch, d))[i]
    idx_fields = [i for i, w in enumerate(walk(sch, doc)) if w[0]["k"] == "F"]
    idx_all = list(range(nsel))
    rng.shuffle(idx_fields)
    rng.shuffle(idx_all)
    dirs_all = all_directives(sch)

    # 5.3.1 rename a field to an undefined one
    for i in idx_fields[:2]:
        d = fresh()
        at(i, d)[0]["name"] = "zzUndefined"
        out.append(("field-undefined", d))
    # 5.3.3 sub-selection on a leaf / none on a composite
    for i in idx_fields[:3]:
        d = fresh()
        x, parent, _, _ = at(i, d)
        ft = field_type(sch, parent, x["name"])
        if ft:
            if x["sels"]:
                x["sels"] = []
                out.append(("composite-without-subselection", d))
            else:
                x["sels"] = [mk_field("__typename")]
                out.append(("leaf-with-subselection", d))
    # 5.3.2 alias another field of the same parent to this response key (same selection list / inline fragment)
    for i in idx_fields[:3]:
        d = fresh()
        x, parent, lst, _ = at(i, d)
        if parent is None:
            continue
        others = [f for f in sch.fields(parent) if f[0] != x["name"]]
        if not others:
            continue
        f = rng.choice(others)
        key = x["alias"] or x["name"]
        y = mk_field(f[0], alias=key, args=const_args(rng, sch, f[1]), sels=leaf_or_sub(sch, f[2]))
        mode = rng.choice(["same-list", "inline", "inline-cond"])
        if mode == "same-list":
            lst.append(y)
        elif mode == "inline":
            lst.append({"k": "I", "cond": None, "dirs": [], "sels": [y]})
        else:
            lst.append({"k": "I", "cond": parent, "dirs": [], "sels": [y]})
        out.append(("alias-conflict-" + mode, d))
    # 5.3.2 duplicate a field with one argument changed / dropped / added
    for i in [j for j in idx_fields if at(j, doc)[0]["args"]][:3]:
        d = fresh()
        x, parent, lst, _ = at(i, d)
        y = copy.deepcopy(x)
        k = rng.randrange(len(y["args"]))
        mode = rng.choice(["drop", "change", "permute"])
        if mode == "drop":
            del y["args"][k]
        elif mode == "change":
            y["args"][k] = (y["args"][k][0], vary_value(rng, y["args"][k][1]))
        else:
            rng.shuffle(y["args"])
            y["args"] = [(a, permute_value(rng, v)) for a, v in y["args"]]
        lst.append(y)
        out.append(("dup-field-args-" + mode, d))
    # 5.4 arguments: unknown, duplicate, missing required, null for required
    for i in idx_fields[:2]:
        d = fresh()
        x, parent, _, _ = at(i, d)
        x["args"] = x["args"] + [("zzUnknownArg", ("int", "1"))]
        out.append(("argument-unknown", d))
    for i in [j for j in idx_fields if at(j, doc)[0]["args"]][:2]:
        d = fresh()
        x = at(i, d)[0]
        a = rng.choice(x["args"])
        x["args"] = x["args"] + [a if rng.random() < 0.5 else (a[0], vary_value(rng, a[1]))]
        out.append(("argument-duplicate", d))
    for i in idx_fields:
        x, parent, _, _ = at(i, doc)
        ft = field_type(sch, parent, x["name"])
        if not ft:
            continue
        req = [a for a, t, dv in ft[0] if is_nn(t) and dv is None]
        nn_def = [a for a, t, dv in ft[0] if is_nn(t) and dv is not None]
        if req:
            d = fresh()
            y = at(i, d)[0]
            r = rng.choice(req)
            y["args"] = [a for a in y["args"] if a[0] != r]
            out.append(("argument-required-missing", d))
            d = fresh()
            y = at(i, d)[0]
            y["args"] = [(a, ("null",)) if a == r else (a, v) for a, v in y["args"]]
            out.append(("argument-required-null", d))
        if nn_def:
            d = fresh()
            y = at(i, d)[0]
            r = rng.choice(nn_def)
            y["args"] = [a for a in y["args"] if a[0] != r] + [(r, ("null",))]
            out.append(("argument-nonnull-default-null", d))
        if req or nn_def:
            break
    # 5.6 values: replace a literal somewhere inside an argument by each other kind; input object edits
    val_sites = []
    for i in idx_fields:
        x = at(i, doc)[0]
        for k, (a, v) in enumerate(x["args"]):
            for path in value_paths(v):
                val_sites.append((i, k, path))
    rng.shuffle(val_sites)
    for (i, k, path) in val_sites[:6]:
        for lit in rng.sample(WRONG_LITERALS, 3):
            d = fresh()
            x = at(i, d)[0]
            a, v = x["args"][k]
            x["args"][k] = (a, set_path(v, path, lit))
            out.append(("value-literal-kind", d))
    obj_sites = [(i, k, p) for (i, k, p) in val_sites if get_path(at(i, doc)[0]["args"][k][1], p)[0] == "obj"]
    for (i, k, path) in obj_sites[:3]:
        for mode in ["unknown-field", "dup-field", "drop-field", "null-field"]:
            d = fresh()
            x = at(i, d)[0]
            a, v = x["args"][k]
            o = get_path(v, path)
            fs = list(o[1])
            if mode == "unknown-field":
                fs.append(("zzUnknownField", ("int", "1")))
            elif mode == "dup-field":
                if not fs:
                    continue
                f = rng.choice(fs)
                fs.append(f if rng.random() < 0.5 else (f[0], vary_value(rng, f[1])))
            elif mode == "drop-field":
                if not fs:
                    continue
                del fs[rng.randrange(len(fs))]
            else:
                if not fs:
                    continue
                j = rng.randrange(len(fs))
                fs[j] = (fs[j][0], ("null",))
            x["args"][k] = (a, set_path(v, path, ("obj", fs)))
            out.append(("input-object-" + mode, d))
    # 5.8 variables
    ops = [j for j, d in enumerate(doc) if d["k"] == "op"]
    for j in ops[:2]:
        d = fresh()
        d[j]["vars"] = d[j]["vars"] + [("zzUnused", N("Int"), None, [])]
        out.append(("variable-unused", d))
        if d[j]["vars"][:-1]:
            d = fresh()
            v = rng.choice(d[j]["vars"])
            d[j]["vars"] = d[j]["vars"] + [v if rng.random() < 0.5 else (v[0], N("String"), None, [])]
            out.append(("variable-duplicate", d))
            d = fresh()
            k = rng.randrange(len(d[j]["vars"]))
            del d[j]["vars"][k]
            out.append(("variable-definition-dropped", d))
            d = fresh()
            k = rng.randrange(len(d[j]["vars"]))
            vn, vt, dv, vd = d[j]["vars"][k]
            d[j]["vars"][k] = (vn, vary_type(rng, sch, vt), None if rng.random() < 0.5 else dv, vd)
            out.append(("variable-type-changed", d))
            d = fresh()
            k = rng.randrange(len(d[j]["vars"]))
            vn, vt, dv, vd = d[j]["vars"][k]
            d[j]["vars"][k] = (vn, vt, ("null",), vd)
            out.append(("variable-default-null", d))
            d = fresh()
            k = rng.randrange(len(d[j]["vars"]))
            vn, vt, dv, vd = d[j]["vars"][k]
            d[j]["vars"][k] = (vn, N(rng.choice(sch.composites() + ["ZzNoType"])), None, vd)
            out.append(("variable-not-input-type", d))
    for (i, k, path) in val_sites[:3]:
        d = fresh()
        x = at(i, d)[0]
        a, v = x["args"][k]
        x["args"][k] = (a, set_path(v, path, ("var", "zzUndefinedVar")))
        out.append(("variable-undefined", d))
    # fragments
    frs = [j for j, d in enumerate(doc) if d["k"] == "frag"]
    d = fresh()
    d.append(mk_frag("ZzUnused", sch.roots["query"], [mk_field("__typename")]))
    out.append(("fragment-unused", d))
    for i in idx_all[:2]:
        d = fresh()
        x, parent, lst, _ = at(i, d)
        lst.append({"k": "S", "name": "ZzUndefinedFragment", "dirs": []})
        out.append(("spread-undefined", d))
    for j in frs[:2]:
        d = fresh()
        d.append(copy.deepcopy(d[j]))
        out.append(("fragment-duplicate-name", d))
        d = fresh()
        d[j]["cond"] = rng.choice(["Int", "ZzNoType"] + list(sch.enums) + list(sch.inputs))
        out.append(("fragment-condition-not-composite", d))
        d = fresh()
        d[j]["cond"] = rng.choice(sch.composites())
        out.append(("fragment-condition-changed", d))
    for i in [j for j in idx_all if at(j, doc)[0]["k"] == "I"][:2]:
        d = fresh()
        at(i, d)[0]["cond"] = rng.choice(["Int", "ZzNoType"] + list(sch.inputs))
        out.append(("inline-condition-not-composite", d))
        d = fresh()
        at(i, d)[0]["cond"] = rng.choice(sch.composites())
        out.append(("inline-condition-changed", d))
    # cycles of length 1-4, the back edge through a field / an inline fragment / directly
    for n in (1, 2, 3, 4):
        d = fresh()
        q = sch.roots["query"]
        names = [f"Cy{n}_{i}" for i in range(n)]
        for i, nm in enumerate(names):
            nxt = {"k": "S", "name": names[(i + 1) % n], "dirs": []}
            wrap = rng.choice(["direct", "inline", "inline-cond"])
            if wrap == "inline":
                nxt = {"k": "I", "cond": None, "dirs": [], "sels": [nxt]}
            elif wrap == "inline-cond":
                nxt = {"k": "I", "cond": q, "dirs": [], "sels": [nxt]}
            d.append(mk_frag(nm, q, [mk_field("__typename"), nxt]))
        opj = [j for j, x in enumerate(d) if x["k"] == "op" and x["optype"] == "query"]
        if opj:
            d[opj[0]]["sels"].append({"k": "S", "name": names[0], "dirs": []})
            out.append((f"fragment-cycle-{n}", d))
    # directives: undefined / every location / repeated / args
    for i in idx_all[:3]:
        d = fresh()
        at(i, d)[0]["dirs"].append(("zzUndefinedDirective", []))
        out.append(("directive-undefined", d))
    for i in idx_all[:4]:
        d = fresh()
        x = at(i, d)[0]
        dn = rng.choice(list(dirs_all))
        dd = dirs_all[dn]
        x["dirs"].append((dn, const_args(rng, sch, dd["args"])))
        out.append(("directive-any-location", d))
        d = fresh()
        x = at(i, d)[0]
        if x["dirs"]:
            x["dirs"].append(copy.deepcopy(rng.choice(x["dirs"])))
            out.append(("directive-repeated", d))
    for j in ops[:1] + frs[:1]:
        d = fresh()
        dn = rng.choice(list(dirs_all))
        d[j]["dirs"].append((dn, const_args(rng, sch, dirs_all[dn]["args"])))
        out.append(("directive-on-definition", d))
        d = fresh()
        if d[j]["dirs"]:
            d[j]["dirs"].append(copy.deepcopy(rng.choice(d[j]["dirs"])))
            out.append(("directive-repeated-on-definition", d))
    for j in ops[:1]:
        if doc[j]["vars"]:
            d = fresh()
            k = rng.randrange(len(d[j]["vars"]))
            vn, vt, dv, vd = d[j]["vars"][k]
            dn = rng.choice(list(dirs_all))
            d[j]["vars"][k] = (vn, vt, dv, vd + [(dn, const_args(rng, sch, dirs_all[dn]["args"]))] * rng.choice([1, 2]))
            out.append(("directive-on-variable", d))
    # operations
    d = fresh()
    d.append(mk_op([mk_field("__typename")]))
    out.append(("operation-extra-anonymous", d))
    d = fresh()
    d.append(mk_op([mk_field("__typename")], name="ZzOther"))
    out.append(("operation-extra-named", d))
    d = fresh()
    d.append(mk_op([mk_field("__typename")], name=doc[ops[0]]["name"] or "Op0"))
    out.append(("operation-duplicate-name", d))
    for ot in ("mutation", "subscription"):
        d = fresh()
        root = sch.roots.get(ot)
        f = sch.fields(root)[0] if root else None
        sels = [mk_field(f[0], args=const_args(rng, sch, f[1]), sels=leaf_or_sub(sch, f[2]))] if f else [mk_field("tick")]
        d.append(mk_op(sels, optype=ot, name="ZzOp" if any(x["name"] for x in d if x["k"] == "op") else None))
        out.append(("operation-of-type-" + ot, d))
    d = fresh()
    d.append({"k": "raw", "text": rng.choice(["type ZzT { a: Int }", "scalar ZzS", "extend type %s { zz: Int }" % sch.roots["query"],
                                              "directive @zz on FIELD", "schema { query: %s }" % sch.roots["query"]])})
    out.append(("type-system-definition", d))
    # spreads that are impossible / possible under every parent
    for i in idx_all[:3]:
        d = fresh()
        x, parent, lst, _ = at(i, d)
        if parent is None or not sch.is_composite(parent):
            continue
        cond = rng.choice(sch.composites())
        if rng.random() < 0.5:
            lst.append({"k": "I", "cond": cond, "dirs": [], "sels": [mk_field("__typename")]})
        else:
            nm = "ZzSp"
            d.append(mk_frag(nm, cond, [mk_field("__typename")]))
            lst.append({"k": "S", "name": nm, "dirs": []})
        out.append(("spread-any-type", d))
    return out


WRONG_LITERALS = [("int", "1"), ("int", "2147483648"), ("int", "-2147483649"), ("float", "1.5"), ("float", "1e400"),
                  ("str", "s"), ("bool", True), ("enum", "RED"), ("enum", "ZZNOVALUE"), ("null",),
                  ("list", []), ("list", [("int", "1")]), ("list", [("null",)]), ("list", [("list", [("int", "1")])]),
                  ("obj", []), ("obj", [("n", ("int", "1"))]), ("int", "1" + "0" * 310)]


def value_paths(v, prefix=()):
    yield prefix
    if v[0] == "list":
        for i, x in enumerate(v[1]):
            yield from value_paths(x, prefix + (i,))
    elif v[0] == "obj":
        for i, (k, x) in enumerate(v[1]):
            yield from value_paths(x, prefix + (i,))


def get_path(v, path):
    for i in path:
        v = v[1][i] if v[0] == "list" else v[1][i][1]
    return v


def set_path(v, path, new):
    if not path:
        return new
    i = path[0]
    if v[0] == "list":
        l = list(v[1])
        l[i] = set_path(l[i], path[1:], new)
        return ("list", l)
    l = list(v[1])
    l[i] = (l[i][0], set_path(l[i][1], path[1:], new))
    return ("obj", l)


def vary_value(rng, v):
    """a value of the same kind that differs (used for duplicated fields / arguments)"""
    k = v[0]
    if k == "int":
        return ("int", "5" if v[1] != "5" else "6")
    if k == "float":
        return ("float", "9.75" if v[1] != "9.75" else "1.25")
    if k == "str":
        return ("str", v[1] + "x")
    if k == "bool":
        return ("bool", not v[1])
    if k == "null":
        return ("int", "1")
    if k == "enum":
        return ("enum", "GREEN" if v[1] != "GREEN" else "RED")
    if k == "var":
        return ("var", v[1] + "b")
    if k == "list":
        r = rng.random()
        if r < 0.4 or not v[1]:
            return ("list", v[1] + [v[1][0] if v[1] else ("int", "1")])       # longer
        if r < 0.7:
            return ("list", v[1][:-1])                                            # shorter
        l = list(v[1])
        l[-1] = vary_value(rng, l[-1])
        return ("list", l)
    if k == "obj":
        r = rng.random()
        l = list(v[1])
        if r < 0.3 or not l:
            return ("obj", l + [("zzExtra", ("int", "1"))])
        if r < 0.6:
            return ("obj", l[:-1])
        l[-1] = (l[-1][0], vary_value(rng, l[-1][1]))
        return ("obj", l)
    return v


def permute_value(rng, v):
    """the same value with object keys permuted at every level (still the same set of fields)"""
    if v[0] == "list":
        return ("list", [permute_value(rng, x) for x in v[1]])
    if v[0] == "obj":
        l = [(k, permute_value(rng, x)) for k, x in v[1]]
        rng.shuffle(l)
        return ("obj", l)
    return v


def vary_type(rng, sch, t):
    r = rng.random()
    if r < 0.25:
        return nullable(t) if is_nn(t) else NN(t)
    if r < 0.45:
        return L(t)
    if r < 0.6 and nullable(t)[0] == "l":
        return nullable(t)[1]
    if r < 0.8:
        return N(rng.choice(BUILTIN_SCALARS + sch.scalars + list(sch.enums) + list(sch.inputs)))
    def flip(t):
        if t[0] == "n":
            return NN(t)
        if t[0] == "nn":
            return t[1] if t[1][0] == "n" else NN(flip(t[1]))
        return L(flip(t[1]))
    return flip(t)
