"""C03 — the lexer implements the GraphQL lexical grammar.

Tie: the item stream of apollo_parser::Lexer (kind, data, byte index of every token; data and index of
every error; the token-limit error's index) against the extracted functional lexer Lex.Fun.lex_all /
lex_limited, about which Props/C03.v proves the property."""
import glob
import json
import os
from common import *

# class representatives (DESIGN.md Sigma_L)
ALPHA = ["a", "e", "E", "u", "x", "_", "0", "1", "9", ".", "-", "+", '"', "\\", "/", "#", " ", "\t",
         "\n", "\r", ",", "!", "{", "\ufeff", "é", "中", "🚀", "\x01"]
FOLLOW = ["", "a", "e", "E", "_", "0", "1", ".", "-", "+", " ", "\n", ",", '"', "#", "{", "é", "\ufeff", "x", ")"]


def gen_numbers():
    out = []
    for sign in ["", "-", "--", "+"]:
        for ip in ["", "0", "1", "00", "01", "10", "123", "9"]:
            for fr in ["", ".", ".0", ".5", ".12", "..", ".0."]:
                for ex in ["", "e", "E", "e+", "e-", "e1", "E+1", "e-12", "e+-1", "ee", "e1e1", "E0."]:
                    base = sign + ip + fr + ex
                    for f in FOLLOW:
                        out.append(base + f)
    return out


def gen_strings(rng, n):
    pieces = ["a", " ", "é", "中", "🚀", "\x01", "\ufeff", "#", "\n", "\r", "\r\n", '\\"', "\\\\", "\\/", "\\b",
              "\\f", "\\n", "\\r", "\\t", "\\x", "\\ ", "\\'", "\\\n", "\\é", "\\u", "\\u{1F600}", "\\uD800", "\\uDFFF",
              "\\udabc", "\\uD7FF", "\\uE000", "\\uD83D\\uDE00", "\\u0041", "\\uffff", "\\uFFFG", "\\u00",
              "\\u1", "\\u123", "\\u12345", "\\u\\u", '\\u"', '\\u0"', '\\u00"', '\\u000"', "u", "D800", "\\"]
    out = []
    for _ in range(n):
        k = rng.randint(0, 5)
        body = "".join(rng.choice(pieces) for _ in range(k))
        close = rng.choice(['"', '"', '"', "", '""'])
        tail = rng.choice(["", " ", "a", "1", '"', "\n", ' "x"', "#c", "...", "é"])
        out.append(rng.choice(["", "a", " ", "1"]) + '"' + body + close + tail)
    # \u with 0..5 hex digits, each followed by each terminator class
    for nd in range(6):
        for digs in ["0041", "D800", "dfff", "d7ff", "e000", "FFFF", "00e9", "DBFF", "DC00", "12345"]:
            d = (digs + "00000")[:nd]
            for after in ['"', "", "g", "\n", "\\", '\\"', " x\"", "\\u0041\""]:
                out.append('"\\u' + d + after)
                out.append('"x\\u' + d + after + " 1")
    # all 16-bit boundary surrogates exhaustively on the high nibbles
    for hi in "0123456789abcdefABCDEF":
        for lo in ["000", "7ff", "800", "bff", "c00", "fff", "FFF"]:
            out.append('"\\u' + hi + lo + '"')
            out.append('"\\uD' + hi + lo[:2] + '"')
    # every string over a small alphabet after an opening quote
    out += ['"' + s for s in all_strings(['"', "\\", "u", "D", "8", "\n", "a"], 5)]
    return out


def gen_blocks(rng, n):
    out = ['"""' + s for s in all_strings(['"', "\\", "a", "\n"], 7)]
    for k in range(1, 8):
        for pre in ["", "a", " ", '"""x']:
            for post in ["", "a", " ", "\\", '\\"', "\n"]:
                out.append(pre + '"' * k + post)
                out.append(pre + '"' * k + post + '"' * k)
                out.append('"""' + post + '"' * k + post + '"""')
                out.append('"""\\' + '"' * k + post + '"""')
                out.append('"""\\\\' + '"' * k + post)
    pieces = ['"', '""', '"""', '\\"""', '\\""', '\\"', "\\", "\\\\", "a", "é", "🚀", "\n", " ", "\\u0041", "\x01"]
    for _ in range(n):
        k = rng.randint(0, 6)
        out.append('"""' + "".join(rng.choice(pieces) for _ in range(k)) + rng.choice(['"""', '"""', "", '"', '""', '""""']) +
                   rng.choice(["", " a", '"', "1"]))
    return out


def gen_comments_spreads():
    out = []
    for body in ["", "a", " x y", "é中🚀", "\x01", "\ufeff", '"', "#", "\\n", "\t"]:
        for end in ["", "\n", "\r", "\r\n", "\n\n", "\na", "\r#b"]:
            for pre in ["", "a", "1", " ", ","]:
                out.append(pre + "#" + body + end)
    for k in range(1, 9):
        for pre in ["", "a", "1", " ", "{", "1.0", "0"]:
            for f in FOLLOW:
                out.append(pre + "." * k + f)
                out.append(pre + "." * k + f + "." * k)
    return out


VOCAB = ["a", "_x1", "Query", "type", "e", "E1", "0", "-0", "12", "-7", "1.5", "0.0", "1e9", "-1.2E-3", "...", "..", ".",
         "!", "$", "&", "(", ")", ":", "=", "@", "[", "]", "{", "}", "|", ",", " ", "  ", "\t", "\n", "\r\n", "\ufeff",
         "#c\n", "# é\r", '""', '"s"', '"é中🚀"', '"\\n\\u0041"', '"\\uD800"', '"\\q"', '"a\nb"', '"""b"""',
         '"""a\\"""b"""', '""" " "" """', '"', '"""', "é", "中", "🚀", "\x01", "+", "\\", "/", "0x", "1a", "01", "1.", "1.e", "1e+",
         "-", "-a", "?", "~", "\x7f", "\x00"]


def gen_mixed(rng, n, maxtok):
    out = []
    for _ in range(n):
        k = rng.randint(1, maxtok)
        out.append("".join(rng.choice(VOCAB) for _ in range(k)))
    return out


def test_files():
    repo = os.environ.get("VERIF_REPO", "/repo")
    out = []
    for f in sorted(glob.glob(repo + "/crates/apollo-parser/test_data/lexer/**/*.graphql", recursive=True)):
        out.append(open(f, encoding="utf-8", newline="").read())
    return out


def oct2021_ok(ch):
    o = ord(ch)
    return o in (9, 10, 13) or 0x20 <= o <= 0xFFFF


def items_of(obs):
    return obs.split(" ") if obs else []


def run(ctx):
    props = check_props(ctx.pid)
    model = build_model()
    impl = build_impl()
    quick = ctx.tier == "quick"
    maxlen = 4 if quick else 5
    srcs = set(all_strings(ALPHA, maxlen))
    n_exh = len(srcs)
    files = test_files()
    srcs.update(files)
    nums = gen_numbers()
    srcs.update(nums)
    strs = gen_strings(ctx.rng, 4000 if quick else 100000)
    srcs.update(strs)
    blocks = gen_blocks(ctx.rng, 4000 if quick else 100000)
    srcs.update(blocks)
    srcs.update(gen_comments_spreads())
    mixed = gen_mixed(ctx.rng, 6000 if quick else 200000, 12)
    srcs.update(mixed)
    # prefixes and one-character deletions of the lexer test files (boundaries inside tokens)
    for f in files:
        step = max(1, len(f) // (60 if quick else 600))
        for i in range(0, len(f), step):
            srcs.add(f[:i])
            srcs.add(f[:i] + f[i + 1:])
    cases = sorted((hexs(s) for s in srcs), key=lambda h: (len(h), h))

    def classify(c, iobs, mobs):
        return None

    rows = ctx.correspond(impl, model, "lex", cases, classify=classify,
                          nontrivial=lambda c, o: True, describe=lambda c: repr(unhexs(c)))
    fam = ctx.cov["families"]["lex"]
    n_err = n_d4 = 0
    kinds = {}
    for c, i, m in rows:
        its = items_of(i)
        has_err = any(x.startswith("E:") for x in its)
        n_err += has_err
        for x in its:
            k = x.split(":")[1] if x.startswith("T:") else "Err"
            kinds[k] = kinds.get(k, 0) + 1
        if not has_err:
            s = unhexs(c)
            if not all(oct2021_ok(ch) for ch in s):
                # D4: error-free although a character is outside the October 2021 SourceCharacter set
                n_d4 += 1
                ctx.known_hit("oct2021_source_character")
    fam["with_lexical_error"] = n_err
    fam["without_error"] = len(rows) - n_err
    fam["error_free_with_non_oct2021_source_character"] = n_d4
    fam["item_kinds"] = dict(sorted(kinds.items()))
    fam["exhaustive_upto_len"] = maxlen
    fam["exhaustive_strings"] = n_exh
    for c, i, m in rows[:: max(1, len(rows) // 5)]:
        ctx.sample({"family": "lex", "input": unhexs(c), "impl": i, "model": m}, limit=5)

    # ---- lex_limit: all limits 0 .. nitems+1 for short inputs and documents
    lsrcs = set(all_strings(ALPHA, 2))
    lsrcs.update(files)
    lsrcs.update(ctx.rng.sample(sorted(set(mixed)), 300 if quick else 5000))
    lsrcs.update(ctx.rng.sample(sorted(set(nums)), 200 if quick else 5000))
    lsrcs.update(ctx.rng.sample(sorted(set(strs)), 200 if quick else 5000))
    lsrcs.update(ctx.rng.sample(sorted(set(blocks)), 200 if quick else 5000))
    nitems = {c: len(items_of(i)) for c, i, _ in rows}
    lcases = []
    for s in sorted(lsrcs):
        h = hexs(s)
        n = nitems.get(h, 8)
        lims = range(0, n + 2)
        if n > 40 and quick:
            lims = sorted(set(list(range(0, 6)) + list(range(n - 4, n + 2)) + ctx.rng.sample(range(6, n - 4), 10)))
        for lim in lims:
            lcases.append(f"{lim} {h}")
    lrows = ctx.correspond(impl, model, "lex_limit", lcases, nontrivial=lambda c, o: True,
                           describe=lambda c: c.split(" ")[0] + " " + repr(unhexs(c.split(" ")[1])))
    lf = ctx.cov["families"]["lex_limit"]
    lf["limit_reached"] = sum(1 for _, i, _ in lrows if " L:" in " " + i)
    lf["limit_not_reached"] = len(lrows) - lf["limit_reached"]
    for c, i, m in lrows[:: max(1, len(lrows) // 2)]:
        ctx.sample({"family": "lex_limit", "case": c, "impl": i, "model": m}, limit=7)

    ctx.cov["rule"] = (
        f"lex: every string of length <= {maxlen} over the {len(ALPHA)} class representatives {ALPHA!r} (bounded-exhaustive); "
        "numbers sign x integer part x fraction x exponent x 20 follow characters (systematic); quoted strings from an "
        "escape/surrogate/line-terminator vocabulary, \\u with 0-5 hex digits before each terminator class, every string of "
        "length <= 5 over {\" \\ u D 8 LF a} after an opening quote; block strings: every string of length <= 7 over "
        "{\" \\ a LF} after an opening triple quote, quote runs of 1..7, \\\"\"\" variants; comments, 1..8 dots with each follow "
        "class; random token mixes up to 12 vocabulary items; the lexer test files, their prefixes and one-character "
        "deletions. lex_limit: all limits 0..items+1 over all strings of length <= 2, the test files and samples of the "
        "generated sets. Every case counts as non-trivial; distinct by case text.")
    ctx.cov["exhaustive"] = False
    ctx.assumptions += [
        "error messages are not observed; an error is observed as (data, index), the limit error as its index",
        "inputs are valid UTF-8 (&str): the harness cannot feed anything else",
        "the Coq specification Lex.Spec is tied to the code only through Lex.Fun (theorems of Props/C03.v) and this correspondence",
    ]
    return ctx.finish(props)


def replay(ctx, path):
    r = json.load(open(path))
    model = build_model()
    impl = build_impl()
    fam, case = r["family"], r["case"]
    print("case :", r.get("case_readable", case))
    print("impl :", run_family(impl, fam, [case])[0])
    print("model:", run_family(model, fam, [case])[0])
    return 0
