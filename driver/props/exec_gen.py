"""Generators shared by C18 / C19 / C20: (schema text, executable document text) pairs.

gen_schema(rng, broken)      -> Sch   (a small random schema; `broken` adds schema-level irregularities)
DocGen(sch, rng, chaos).doc() -> str  (a document valid by construction when chaos == 0; every decision
                                      point goes wrong with probability `chaos`: undefined fields / types /
                                      fragments, cycles, unused things, meta-fields everywhere, directives at
                                      wrong places, duplicate names, @defer misuse, ...)
field_set(sch, rng, ty, chaos) -> str (a bare selection set against `ty`)
"""

# field pool: a name has one type and one argument list wherever it appears (so that un-aliased repeats merge)
POOL = {
    "id": ("ID!", ""), "n": ("Int", ""), "s": ("String", ""), "fl": ("Float", ""), "bo": ("Boolean!", ""),
    "e": ("E", ""), "sc": ("Sc", ""), "le": ("[E!]", ""),
    "a": ("A", ""), "b": ("B!", ""), "c": ("C", ""), "i": ("I", ""), "u": ("U", ""), "la": ("[A!]!", ""), "li": ("[I]", ""),
    "fa": ("Int", "(x: Int, y: String = \"d\")"), "fr": ("String", "(r: Int!)"), "fi": ("A", "(inp: In, l: [Int!])"),
    "fe": ("E", "(e: E = X)"),
}
ARGS = {"fa": [("x", "Int"), ("y", "String")], "fr": [("r", "Int!")], "fi": [("inp", "In"), ("l", "[Int!]")], "fe": [("e", "E")]}
OBJ_FIELDS = {
    "A": ["id", "n", "s", "b", "e", "fa", "la", "i"],
    "B": ["id", "s", "fl", "a", "c", "u", "fr"],
    "C": ["id", "bo", "sc", "le", "fi", "li"],
}
IFACE_FIELDS = {"I": ["id", "s"]}
ROOT_FIELDS = ["a", "b", "c", "i", "u", "la", "li", "n", "s", "fa", "fi", "fe", "e"]
DIRECTIVES = """directive @d(x: Int) on QUERY | MUTATION | SUBSCRIPTION | FIELD | FRAGMENT_DEFINITION | FRAGMENT_SPREAD | INLINE_FRAGMENT | VARIABLE_DEFINITION
directive @r(s: String) repeatable on FIELD | FRAGMENT_SPREAD | INLINE_FRAGMENT | QUERY
directive @once on FIELD | INLINE_FRAGMENT
directive @onlyq on QUERY
directive @defer(label: String, if: Boolean! = true) on FRAGMENT_SPREAD | INLINE_FRAGMENT
"""


class Sch:
    def __init__(self):
        self.text = ""
        self.kinds = {}     # type name -> o i u e s n
        self.fields = {}    # type name -> [field names]
        self.roots = {}     # query/mutation/subscription -> type name
        self.impls = {}     # interface -> [object names]
        self.members = {}   # union -> [object names]

    def composite(self, t):
        return self.kinds.get(t) in ("o", "i", "u")


def inner(t):
    return t.replace("[", "").replace("]", "").replace("!", "")


def gen_schema(rng, broken=False):
    sc = Sch()
    custom_roots = rng.random() < 0.4
    q, m, s = ("Q", "M", "Sub") if custom_roots else ("Query", "Mutation", "Subscription")
    has_m, has_s = rng.random() < 0.7, rng.random() < 0.6
    out = [DIRECTIVES]
    if custom_roots:
        out.append("schema { query: %s%s%s }" % (q, " mutation: " + m if has_m else "", " subscription: " + s if has_s else ""))
    sc.roots["query"] = q
    if has_m:
        sc.roots["mutation"] = m
    if has_s:
        sc.roots["subscription"] = s
    out += ["enum E { X Y Z }", "scalar Sc", "input In { k: Int, j: [String!], nest: In }"]
    sc.kinds.update({"E": "e", "Sc": "s", "In": "n", "Int": "s", "String": "s", "Boolean": "s", "ID": "s", "Float": "s"})

    def fields_text(names):
        return " ".join("%s%s: %s" % (f, POOL[f][1], POOL[f][0]) for f in names)

    objs = {}
    for o, fs in OBJ_FIELDS.items():
        keep = [f for f in fs if f in ("id", "s") or rng.random() < 0.8]
        objs[o] = keep
    sc.impls["I"] = [o for o in objs if all(f in objs[o] for f in IFACE_FIELDS["I"]) and rng.random() < 0.8] or ["A"]
    for o in sc.impls["I"]:
        for f in IFACE_FIELDS["I"]:
            if f not in objs[o]:
                objs[o].append(f)
    for o, fs in objs.items():
        impl = " implements I" if o in sc.impls["I"] else ""
        out.append("type %s%s { %s }" % (o, impl, fields_text(fs)))
        sc.kinds[o] = "o"
        sc.fields[o] = fs
    out.append("interface I { %s }" % fields_text(IFACE_FIELDS["I"]))
    sc.kinds["I"] = "i"
    sc.fields["I"] = list(IFACE_FIELDS["I"])
    sc.members["U"] = rng.sample(sorted(objs), rng.randint(1, 3))
    out.append("union U = %s" % " | ".join(sc.members["U"]))
    sc.kinds["U"] = "u"
    sc.fields["U"] = []
    rf = [f for f in ROOT_FIELDS if rng.random() < 0.85] or ["a"]
    if "a" not in rf:
        rf.append("a")
    out.append("type %s { %s }" % (q, fields_text(rf)))
    sc.kinds[q], sc.fields[q] = "o", rf
    if has_m:
        mf = ["a", "fa", "fi", "n"]
        out.append("type %s { %s }" % (m, fields_text(mf)))
        sc.kinds[m], sc.fields[m] = "o", mf
    if has_s:
        sf = ["a", "n", "fa", "u"]
        out.append("type %s { %s }" % (s, fields_text(sf)))
        sc.kinds[s], sc.fields[s] = "o", sf
    if broken:
        # irregular (mostly invalid) schemas: they still build, and documents are built against the partial schema
        k = rng.randrange(6)
        if k == 0:
            out.append("extend type A { ghost: Missing, gl: [Missing!] }")
            sc.fields["A"] = sc.fields["A"] + ["ghost", "gl"]
            POOL.setdefault("ghost", ("Missing", ""))
            POOL.setdefault("gl", ("[Missing!]", ""))
        elif k == 1:
            out.append("extend type B { __typename: Int, __schema: Int, __type: Int }")
        elif k == 2:
            out.append("extend type %s { __schema: Int __typename: E }" % q)
        elif k == 3 and not custom_roots:
            out.append("extend schema { mutation: Nowhere }") if not has_m else out.append("type Query2 { x: Int }")
        elif k == 4:
            out.append("extend union U = Sc | Missing")
        elif k == 5:
            out.append("extend interface I { __typename: Sc }")
    sc.text = "\n".join(out) + "\n"
    return sc


# every C0 control character and DEL as \\uXXXX escapes, plus quotes/backslashes/newlines (string printing)
CTRL_STRINGS = ['"a\\u%04X b"' % c for c in list(range(0, 32)) + [127]] + [
    '"q\\"uote"', '"back\\\\slash"', '"line\\nbreak"', '"tab\\there"', '"\\u00e9\\u4e2d"', '"""multi\n  line\n"""']


LITERALS = {
    "Int": ["1", "0", "-7", "null"], "String": ['"x"', '""', '"a b"', '"""blk"""', "null"] + CTRL_STRINGS, "Int!": ["2", "42"],
    "In": ["{k: 1}", "{k: 1, j: [\"q\"]}", "{nest: {k: 2}}", "{}", "null"], "[Int!]": ["[1, 2]", "[]", "3", "null"],
    "E": ["X", "Y", "null"], "Boolean!": ["true", "false"],
}


class DocGen:
    def __init__(self, sch, rng, chaos=0.0, directives=0.15):
        self.sch, self.rng, self.chaos, self.pdir = sch, rng, chaos, directives
        self.alias_n = 0
        self.frags = {}        # name -> type condition (to be defined)
        self.frag_order = []
        self.vars = {}         # per operation: name -> type
        self.labels = 0
        self.cur_frag = None   # index in frag_order of the fragment whose body is being generated

    def bad(self, scale=1.0):
        return self.rng.random() < self.chaos * scale

    def alias(self):
        self.alias_n += 1
        return "k%d" % self.alias_n

    def var(self, ty):
        if self.vars is None:
            return None
        name = "v%d" % (len(self.vars) + 1)
        self.vars[name] = ty
        return "$" + name

    def value(self, ty):
        r = self.rng
        if self.vars is not None and r.random() < 0.25:
            if self.bad(0.3):
                return "$undefinedVar"
            return self.var(ty)
        lits = LITERALS.get(ty, ["1"])
        if self.bad(0.2):
            return r.choice(['"wrong"', "1.5", "{zz: 1}", "[[1]]"])
        return r.choice(lits[:-1] if ty.endswith("!") else lits)

    def dirs(self, loc, root_sub=False):
        """a (possibly empty) directive list for location `loc`"""
        r, out = self.rng, []
        if r.random() >= self.pdir and not self.bad(0.3):
            return ""
        n = 1 if r.random() < 0.7 else 2
        used = set()

        def fresh(name):
            if name in used and not self.bad():
                return False
            used.add(name)
            return True
        for _ in range(n):
            k = r.randrange(8)
            if loc in ("FIELD", "FRAGMENT_SPREAD", "INLINE_FRAGMENT") and k < 3 and not root_sub:
                nm = r.choice(["skip", "include"])
                if fresh(nm):
                    cond = r.choice(["true", "false"]) if r.random() < 0.6 or self.vars is None else self.var("Boolean!")
                    out.append("@%s(if: %s)" % (nm, cond))
            elif k == 3:
                if fresh("d"):
                    out.append("@d(x: %s)" % self.value("Int") if r.random() < 0.6 else "@d")
            elif k == 4 and loc in ("FIELD", "FRAGMENT_SPREAD", "INLINE_FRAGMENT", "QUERY"):
                out.append('@r(s: "p") @r' if r.random() < 0.5 else "@r")
            elif k == 5 and loc in ("FIELD", "INLINE_FRAGMENT"):
                if fresh("once"):
                    out.append("@once")
            elif k == 6 and loc == "QUERY":
                if fresh("onlyq"):
                    out.append("@onlyq")
            elif k == 7 and loc == "FIELD":
                if fresh("d"):
                    out.append("@deprecated" if self.bad() else "@d(x: 3)")
        if self.bad(0.5):
            out.append(r.choice(["@undefinedDir", "@once @once", "@d(x: 1, x: 2)", "@onlyq", "@skip", "@skip(if: true, if: false)",
                                 "@d(zz: 1)", "@include(if: 3)", "@specifiedBy(url: \"u\")", "@r(s: $undefinedVar)"]))
        return (" " + " ".join(out)) if out else ""

    def defer(self, optype, at_root):
        """maybe a @defer directive for a fragment spread / inline fragment"""
        r = self.rng
        if r.random() >= 0.08 and not self.bad(0.3):
            return ""
        if self.cur_frag is not None and not self.bad(3.0):
            return ""
        self.labels += 1
        label = 'label: "L%d"' % (self.labels if not self.bad() else 1)
        if self.bad(0.5):
            label = "label: $undefinedVar" if self.vars is None else "label: " + self.var("String")
        ok_here = optype == "query" or (not at_root and optype == "mutation")
        if optype == "subscription" and not at_root and not self.bad():
            return " @defer(if: false, %s)" % label
        if ok_here or self.bad(2.0):
            inner_args = r.choice([label, label + ", if: true", "if: false", ""])
            return " @defer(%s)" % inner_args if inner_args else " @defer"
        return ""

    def selset(self, ty, depth, optype="query", at_root=False, want=None):
        """selections (without braces) against type `ty`"""
        r, sch = self.rng, self.sch
        kind = sch.kinds.get(ty)
        fields = list(sch.fields.get(ty, []))
        out = []
        n = want or r.randint(1, 4)
        single = optype == "subscription" and at_root      # exactly one root field, nothing else
        if single and not self.bad():
            n = 1
        for _ in range(n):
            k = r.random()
            if (k < 0.62 and fields) or single:
                if not fields:
                    out.append("__typename")
                    continue
                out.append(self.field(ty, r.choice(fields), depth, optype, single))
            elif k < 0.70:
                meta = "__typename"
                if ty == sch.roots.get("query") and r.random() < 0.5:
                    meta = r.choice(['__schema { types { name } }', '__type(name: "A") { name kind }', "__schema { queryType { name fields { name } } }"])
                if self.bad():
                    meta = r.choice(["__schema { types { name } }", '__type(name: "A") { name }', "__typename { x }", "__typo", "__schema", "__type { name }"])
                if single and not self.bad():
                    continue
                out.append((self.alias() + ": " if r.random() < 0.3 else "") + meta + (self.dirs("FIELD") if "{" not in meta else ""))
            elif k < 0.84 and depth > 0:
                out.append(self.inline(ty, depth, optype, at_root))
            elif depth > 0:
                out.append(self.spread(ty, depth, optype, at_root))
        if not out:
            out.append("__typename" if kind in ("o", "i", "u") else "id")
        return " ".join(out)

    def field(self, ty, f, depth, optype, root_sub=False):
        r, sch = self.rng, self.sch
        if self.bad():
            f = r.choice(["zz", "n", "a", "fa", "sc", "ghost", "id", "u"])
        fty, _ = POOL.get(f, ("Int", ""))
        args = ""
        if f in ARGS:
            parts = []
            for an, aty in ARGS[f]:
                if aty.endswith("!") or r.random() < 0.6:
                    parts.append("%s: %s" % (an, self.value(aty)))
            if self.bad():
                parts.append(r.choice(["x: 1", "zz: 2", "r: null"]))
            if parts:
                args = "(" + ", ".join(parts) + ")"
        alias = ""
        if f in ARGS or r.random() < 0.2:
            alias = self.alias() + ": "
        text = alias + f + args + self.dirs("FIELD", root_sub)
        it = inner(fty)
        comp = sch.composite(it)
        if self.bad(0.5):
            comp = not comp
        if comp:
            if depth <= 0:
                sub = "__typename" if sch.composite(it) else "zz"
            else:
                sub = self.selset(it, depth - 1, optype)
            text += " { " + sub + " }"
        return text

    def cond_for(self, ty):
        """a type condition applicable inside `ty`"""
        r, sch = self.rng, self.sch
        kind = sch.kinds.get(ty)
        if self.bad():
            return r.choice(["Missing", "E", "Sc", "In", "A", "C", "U", "I", "Int"])
        if kind == "i":
            return r.choice(sch.impls.get(ty, []) + [ty])
        if kind == "u":
            return r.choice(sch.members.get(ty, []) + [ty])
        if kind == "o":
            opts = [ty] + [i for i, os in sch.impls.items() if ty in os] + [u for u, os in sch.members.items() if ty in os]
            return r.choice(opts)
        return ty

    def inline(self, ty, depth, optype, at_root):
        r = self.rng
        root_sub = optype == "subscription" and at_root
        if r.random() < 0.35:
            return "...%s%s { %s }" % (self.dirs("INLINE_FRAGMENT", root_sub), self.defer(optype, at_root),
                                       self.selset(ty, depth - 1, optype, at_root, want=1 if root_sub else None))
        c = self.cond_for(ty)
        return "... on %s%s%s { %s }" % (c, self.dirs("INLINE_FRAGMENT", root_sub), self.defer(optype, at_root),
                                         self.selset(c, depth - 1, optype, at_root, want=1 if root_sub else None))

    def spread(self, ty, depth, optype, at_root):
        r = self.rng
        if optype == "subscription" and at_root and not self.bad():
            return self.field(ty, r.choice(self.sch.fields.get(ty, ["a"])), depth, optype, True)
        if self.bad():
            return "...undefinedFrag"
        existing = [n for n, c in self.frags.items() if c == ty
                    and (self.cur_frag is None or self.frag_order.index(n) > self.cur_frag or self.bad(3.0))]
        if existing and r.random() < 0.5:
            name = r.choice(existing)
        elif self.frags and self.bad(2.0):
            name = r.choice(sorted(self.frags))      # possibly impossible spread / cycle
        else:
            c = self.cond_for(ty)
            name = "F%d" % (len(self.frags) + 1)
            self.frags[name] = c
            self.frag_order.append(name)
        return "...%s%s%s" % (name, self.dirs("FRAGMENT_SPREAD", optype == "subscription" and at_root), self.defer(optype, at_root))

    def operation(self, optype, name, depth):
        sch = self.sch
        self.vars = {}
        root = sch.roots.get(optype)
        if root is None:
            root = sch.roots["query"]       # an operation type the schema does not define
        body = self.selset(root, depth, optype, at_root=True)
        opdirs = self.dirs({"query": "QUERY", "mutation": "MUTATION", "subscription": "SUBSCRIPTION"}[optype])
        vs = dict(self.vars)
        self.vars = None
        if self.bad(0.5):
            vs["unusedVar"] = "Int"
        decl = ""
        if vs:
            items = ["$%s: %s%s%s" % (n, t, " = 5" if t == "Int" and self.rng.random() < 0.3 else "",
                                      " @d" if self.rng.random() < 0.1 else "") for n, t in vs.items()]
            if self.bad(0.5):
                items.append(items[0])
            if self.bad(0.3):
                items.append("$w: Missing")
            decl = "(" + ", ".join(items) + ")"
        head = optype if (name or optype != "query" or decl or opdirs or self.rng.random() < 0.5) else ""
        if name:
            head += " " + name
        return ("%s%s%s { %s }" % (head, decl, opdirs, body)).strip()

    def doc(self, depth=3):
        r, sch = self.rng, self.sch
        ops = []
        kinds = ["query"] * 4 + (["mutation"] * 2 if "mutation" in sch.roots else []) + (["subscription"] * 2 if "subscription" in sch.roots else [])
        if self.bad():
            kinds += ["mutation", "subscription"]
        nops = 1 if r.random() < 0.6 else r.randint(2, 3)
        anonymous = nops == 1 and r.random() < 0.5
        if self.bad(0.5):
            anonymous = r.random() < 0.5
        for i in range(nops):
            name = None if anonymous else "Op%d" % (i + 1 if not self.bad(0.5) else 1)
            ops.append(self.operation(r.choice(kinds), name, depth))
        defs = list(ops)
        done = set()
        # fragment definitions (their bodies may require further fragments)
        while True:
            todo = [n for n in self.frag_order if n not in done]
            if not todo:
                break
            for n in todo:
                done.add(n)
                c = self.frags[n]
                self.vars = None
                self.cur_frag = self.frag_order.index(n)
                body = self.selset(c, 1 if len(done) > 6 else 2, "query")
                if self.bad():
                    body += " ..." + r.choice(sorted(self.frags))       # cycles
                defs.append("fragment %s on %s%s { %s }" % (n, c, self.dirs("FRAGMENT_DEFINITION"), body))
        if self.bad():
            defs.append(r.choice(["fragment Unused on A { id }", "fragment F1 on A { id }", "type Extra { x: Int }", "{ a { id } }",
                                  "query Op1 { n }", "fragment Self on A { ...Self }", "extend type A { more: Int }", "scalar Later",
                                  "fragment OnMissing on Missing { id }", "fragment OnScalar on Sc { id }", "{ ...OnMissingUse }"]))
        if r.random() < 0.3:
            r.shuffle(defs)
        return "\n".join(defs) + "\n"


def field_set(sch, rng, ty, chaos=0.0):
    g = DocGen(sch, rng, chaos, directives=0.1)
    g.vars = None
    body = g.selset(ty, 2)
    # field sets have no fragment definitions: replace spreads by a field
    for n in list(g.frags):
        body = body.replace("..." + n, "id")
    return body


def chain_doc(n, cyclic=False):
    """fragment chain F0 -> F1 -> ... -> F(n-1), spread from one query (depth limits of the validators)"""
    defs = ["{ a { ...F0 } }"]
    for i in range(n):
        nxt = "...F%d" % (i + 1) if i + 1 < n else ("...F0" if cyclic else "id")
        defs.append("fragment F%d on A { %s }" % (i, nxt))
    return "\n".join(defs) + "\n"


def context_matrix(sch):
    """Systematic documents: each kind of single mistake placed in each kind of context (operation root, untyped
    inline fragment, untyped inline fragment with a directive, typed inline fragment, named fragment, nested object,
    untyped inline fragment inside a named fragment).  Exactly one mistake per document, so a validator that skips
    a context accepts the document."""
    root = sch.roots.get("query", "Query")
    if not {"a", "n", "fa"} <= set(sch.fields.get(root, [])) or not {"n", "b", "fa"} <= set(sch.fields.get("A", [])):
        return []
    mistakes = {
        "composite-without-subselection": ("a", "b"),
        "leaf-with-subselection": ("n { x }", "n { x }"),
        "undefined-variable": ("fa(x: $undef)", "fa(x: $undef)"),
        "undefined-field": ("zz", "zz"),
        "undefined-fragment": ("...nope", "...nope"),
        "unknown-argument": ("fa(zz: 1)", "fa(zz: 1)"),
        "wrong-literal": ('fa(x: "s")', 'fa(x: "s")'),
        "undefined-directive": ("n @nodir", "n @nodir"),
        "none": ("n", "n"),
    }
    docs = []
    for _, (at_root, in_a) in sorted(mistakes.items()):
        docs += [
            "{ %s }" % at_root,
            "{ ... { %s } }" % at_root,
            "{ ... @include(if: true) { %s } }" % at_root,
            "{ ... on %s { %s } }" % (root, at_root),
            "{ ...F } fragment F on %s { %s }" % (root, at_root),
            "{ ...F } fragment F on %s { ... { %s } }" % (root, at_root),
            "{ a { %s } }" % in_a,
            "{ a { ... { %s } } }" % in_a,
            "{ a { ... on A { %s } } }" % in_a,
            "{ ... { a { ... { %s } } } }" % in_a,
            "query Q($v: Int) { ... { fa(x: $v) %s } }" % at_root,
        ]
    return docs
