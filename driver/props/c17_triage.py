"""Development aid: run the C17 generator, shrink and print every disagreement (label, impl, model, document).
usage: python3 driver/props/c17_triage.py [seed] [tier]"""
import copy
import os
import sys
sys.path.insert(0, os.path.join(os.path.dirname(os.path.abspath(__file__)), ".."))
from common import *                      # noqa
from props import c17, c17_gen as g
from props.c17_util import *              # noqa


def candidates(doc):
    """documents obtained by deleting one thing"""
    for i in range(len(doc)):
        yield doc[:i] + doc[i + 1:]
    def sel_lists(d):
        stack = [d["sels"]] if "sels" in d else []
        while stack:
            l = stack.pop()
            yield l
            for x in l:
                if x["k"] in ("F", "I"):
                    stack.append(x["sels"])
    for di, d in enumerate(doc):
        if d["k"] == "raw":
            continue
        nl = sum(1 for _ in sel_lists(d))
        for li in range(nl):
            l = list(sel_lists(d))[li]
            for j in range(len(l)):
                c = copy.deepcopy(doc)
                l2 = list(sel_lists(c[di]))[li]
                x = l2[j]
                if len(l2) > 1 or True:
                    del l2[j]
                    if l2 or li > 0:
                        yield c
                # hoist children
                if x["k"] in ("I",) and x["sels"]:
                    c = copy.deepcopy(doc)
                    l2 = list(sel_lists(c[di]))[li]
                    l2[j:j + 1] = l2[j]["sels"]
                    yield c
                for key in ("args", "dirs"):
                    for k in range(len(x.get(key, []))):
                        c = copy.deepcopy(doc)
                        l2 = list(sel_lists(c[di]))[li]
                        del l2[j][key][k]
                        yield c
                if x["k"] == "F" and x.get("alias"):
                    c = copy.deepcopy(doc)
                    list(sel_lists(c[di]))[li][j]["alias"] = None
                    yield c
        for k in range(len(d.get("vars", []))):
            c = copy.deepcopy(doc)
            del c[di]["vars"][k]
            yield c
            vn, vt, dv, vd = d["vars"][k]
            if vd:
                c = copy.deepcopy(doc)
                c[di]["vars"][k] = (vn, vt, dv, [])
                yield c
        for k in range(len(d.get("dirs", []))):
            c = copy.deepcopy(doc)
            del c[di]["dirs"][k]
            yield c


def cleanup(doc):
    """drop unreachable fragments and unused variable definitions (keeps a shrunk document otherwise valid)"""
    import re
    doc = copy.deepcopy(doc)
    frs = {d["name"]: d for d in doc if d["k"] == "frag"}
    def spreads(d):
        return set(re.findall(r"\.\.\.([A-Za-z_][A-Za-z0-9_]*)", g.def_str(d))) - {"on"}
    def reach(d):
        seen, todo = set(), list(spreads(d))
        while todo:
            n = todo.pop()
            if n in seen or n not in frs:
                continue
            seen.add(n)
            todo += list(spreads(frs[n]))
        return seen
    used = set()
    for d in doc:
        if d["k"] == "op":
            r = reach(d)
            used |= r
            text = " ".join(g.sel_str(x) for x in d["sels"]) + g.dirs_str(d["dirs"]) + " ".join(g.def_str(frs[n]) for n in r)
            names = set(re.findall(r"\$([A-Za-z_][A-Za-z0-9_]*)", text))
            d["vars"] = [v for v in d["vars"] if v[0] in names]
    return [d for d in doc if d["k"] != "frag" or d["name"] in used]


def ok_doc(doc):
    def nonempty(l, top):
        if not l:
            return False
        return all(x["k"] == "S" or (x["k"] == "F" and (not x["sels"] or nonempty(x["sels"], False)))
                   or (x["k"] == "I" and nonempty(x["sels"], False)) for x in l)
    return all(d["k"] == "raw" or nonempty(d["sels"], True) for d in doc) and len(doc) > 0


def shrink(impl, model, schema, doc, want, sdump):
    """greedy: keep deleting while (impl verdict, model verdict) stays `want`"""
    cur = doc
    for _ in range(400):
        cands = [c for c in candidates(cur) if ok_doc(c)]
        cands = cands + [cleanup(c) for c in cands]
        cands = [c for c in cands if ok_doc(c)]
        texts = [g.doc_str(c) for c in cands]
        if not cands:
            break
        ad = run_family(impl, "ast_dump", [hexs(t) for t in texts])
        keep = [(c, t, a[3:]) for c, t, a in zip(cands, texts, ad) if a.startswith("ok ")]
        if not keep:
            break
        io = run_family(impl, "c17_valid", [hexs(schema) + " " + hexs(t) for _, t, _ in keep], shards=8)
        mo = run_family(model, "c17_valid", [sdump + " " + a for _, _, a in keep], shards=8)
        nxt = None
        for (c, t, a), i, m in zip(keep, io, mo):
            if (first_word(i), first_word(m)) == want:
                nxt = c
                break
        if nxt is None:
            break
        cur = nxt
    return cur


def main():
    seed = int(sys.argv[1]) if len(sys.argv) > 1 else 1
    tier = sys.argv[2] if len(sys.argv) > 2 else "quick"
    ctx = Ctx("C17", tier, seed)
    model = build_model()
    impl = build_impl()
    cases = c17.gen_cases(ctx)
    sd, dd = dump_all(impl, [c["schema"] for c in cases], [c["doc"] for c in cases])
    cases = [c for c in cases if sd.get(c["schema"]) and dd.get(c["doc"])]
    cases.sort(key=lambda c: c["schema"])
    io = run_family(impl, "c17_valid", [hexs(c["schema"]) + " " + hexs(c["doc"]) for c in cases], shards=8)
    mo = run_family(model, "c17_valid", [sd[c["schema"]] + " " + dd[c["doc"]] for c in cases], shards=8)
    n = 0
    seen = set()
    for c, i, m in zip(cases, io, mo):
        if m == "outside-limits" or first_word(i) == first_word(m):
            continue
        n += 1
        key = (c["label"], i, m)
        if key in seen:
            continue
        seen.add(key)
        print(f"== {c['label']} | impl: {i} | model: {m}")
        small = shrink(impl, model, c["schema"], c["ast"], (first_word(i), first_word(m)), sd[c["schema"]]) if "ast" in c else None
        print(g.doc_str(small) if small else c["doc"])
        if os.environ.get("SHOW_SCHEMA"):
            print(c["schema"])
    print("disagreements:", n, "of", len(cases))


main()
