"""C05 — grammar-directed generator of GraphQL documents as token lists, with coverage counters per
production / optional part / alternative, the systematic token-level mutators and a small tokenizer
(used for shrinking, for mutating the repository's parser test files and for the known-finding classes;
never for the verdict, which is the Gallina reference's)."""
import itertools
import re
from collections import Counter

PUNCT = ["!", "$", "&", "(", ")", "...", ":", "=", "@", "[", "]", "{", "}", "|"]
KEYWORDS = ["query", "mutation", "subscription", "fragment", "on", "true", "false", "null", "schema", "extend",
            "scalar", "type", "interface", "union", "enum", "input", "directive", "implements", "repeatable"]
EXEC_LOCS = ["QUERY", "MUTATION", "SUBSCRIPTION", "FIELD", "FRAGMENT_DEFINITION", "FRAGMENT_SPREAD",
             "INLINE_FRAGMENT", "VARIABLE_DEFINITION"]
TS_LOCS = ["SCHEMA", "SCALAR", "OBJECT", "FIELD_DEFINITION", "ARGUMENT_DEFINITION", "INTERFACE", "UNION", "ENUM",
           "ENUM_VALUE", "INPUT_OBJECT", "INPUT_FIELD_DEFINITION"]
OTHER = ["x", "FIELD", "ENUM_VALUE", "1", "1.5", '"s"', '"""b"""']
REPLACEMENTS = PUNCT + KEYWORDS + OTHER

TOKEN_RE = re.compile(r'''
    (?P<ign>[\ \t\n\r,﻿]+|\#[^\n\r]*)
  | (?P<spread>\.\.\.)
  | (?P<punct>[!$&():=@\[\]{}|])
  | (?P<name>[_A-Za-z][_0-9A-Za-z]*)
  | (?P<num>-?(?:0|[1-9][0-9]*)(?:\.[0-9]+)?(?:[eE][+-]?[0-9]+)?)
  | (?P<block>"""(?:\\"""|(?!""").|\n)*?""")
  | (?P<str>"(?:\\.|[^"\\\n\r])*")
''', re.X | re.S)


def tokenize(text):
    """significant tokens of a lexically well-formed text, or None"""
    out, k = [], 0
    while k < len(text):
        m = TOKEN_RE.match(text, k)
        if not m or m.end() == k:
            return None
        if m.lastgroup != "ign":
            out.append(m.group(0))
        k = m.end()
    return out


def kind_of(tok):
    if tok in PUNCT:
        return tok
    if tok[0] == '"':
        return "str"
    if tok[0] in "-0123456789":
        return "num"
    return "name"


SEPARATORS = [" ", ",", "\n", " , ", " #c\n", "﻿ "]


def render(tokens, sep=" "):
    return sep.join(tokens)


class Gen:
    """every random choice goes through opt/alt/count so that coverage is recorded; `force` pins options"""

    def __init__(self, rng):
        self.rng = rng
        self.cov = Counter()
        self.force = {}

    def hit(self, k):
        self.cov[k] += 1

    def opt(self, k):
        b = self.force[k] if k in self.force else self.rng.random() < 0.5
        self.hit(f"{k}:{'on' if b else 'off'}")
        return b

    def alt(self, k, names):
        if k in self.force:
            i = self.force[k] % len(names)
        else:
            i = self.rng.randrange(len(names))
        self.hit(f"{k}={names[i]}")
        return names[i]

    def count(self, k, lo, hi):
        n = self.force[k] if k in self.force else self.rng.randint(lo, hi)
        self.hit(f"{k}*{min(n, 2)}{'+' if n > 2 else ''}")
        return n

    # ---- lexical level
    def name(self, but=()):
        pool = ["a", "b", "f", "T", "x1", "_y", "Query", "on", "query", "fragment", "true", "null", "type",
                "extend", "schema", "input", "enum", "implements", "repeatable", "directive", "FIELD", "mutation"]
        while True:
            n = self.rng.choice(pool[:8] if self.rng.random() < 0.7 else pool)
            if n not in but:
                return n

    def string(self):
        return self.alt("string", ['"s"', '""', '"""b"""', '"a\\"b"', '"\\u00e9"'])

    # ---- values, types
    def value(self, const, depth=2):
        alts = ["int", "float", "string", "true", "false", "null", "enum", "list", "object"]
        if not const:
            alts.append("variable")
        if depth <= 0:
            alts = [a for a in alts if a not in ("list", "object")]
        k = self.alt("value[const]" if const else "value", alts)
        if k == "int":
            return [self.rng.choice(["0", "1", "-7", "42"])]
        if k == "float":
            return [self.rng.choice(["1.5", "-0.5e3", "2E+1", "0.0"])]
        if k == "string":
            return [self.string()]
        if k in ("true", "false", "null"):
            return [k]
        if k == "enum":
            return [self.name(but=("true", "false", "null"))]
        if k == "variable":
            return ["$", self.name()]
        if k == "list":
            out = ["["]
            for _ in range(self.count("listvalue.items", 0, 3)):
                out += self.value(const, depth - 1)
            return out + ["]"]
        out = ["{"]
        for _ in range(self.count("objectvalue.fields", 0, 3)):
            out += [self.name(), ":"] + self.value(const, depth - 1)
        return out + ["}"]

    def type(self, depth=2):
        k = self.alt("type", ["named", "list"] if depth > 0 else ["named"])
        t = [self.name()] if k == "named" else ["["] + self.type(depth - 1) + ["]"]
        if self.opt("type.nonnull"):
            t.append("!")
        return t

    def arguments(self, const):
        out = ["("]
        for _ in range(self.count("arguments.items", 1, 3)):
            out += [self.name(), ":"] + self.value(const, 1)
        return out + [")"]

    def directive(self, const):
        out = ["@", self.name()]
        if self.opt("directive.args"):
            out += self.arguments(const)
        return out

    def directives(self, const):
        out = []
        for _ in range(self.count("directives.items", 1, 2)):
            out += self.directive(const)
        return out

    # ---- executable definitions
    def vardef(self):
        out = ["$", self.name(), ":"] + self.type()
        if self.opt("vardef.default"):
            out += ["="] + self.value(True, 1)
        if self.opt("vardef.dirs"):
            out += self.directives(True)
        return out

    def vardefs(self):
        out = ["("]
        for _ in range(self.count("vardefs.items", 1, 3)):
            out += self.vardef()
        return out + [")"]

    def field(self, depth):
        out = []
        if self.opt("field.alias"):
            out += [self.name(), ":"]
        out.append(self.name())
        if self.opt("field.args"):
            out += self.arguments(False)
        if self.opt("field.dirs"):
            out += self.directives(False)
        if depth > 0 and self.opt("field.selset"):
            out += self.selset(depth - 1)
        return out

    def spread(self):
        out = ["...", self.name(but=("on",))]
        if self.opt("spread.dirs"):
            out += self.directives(False)
        return out

    def inline(self, depth):
        out = ["..."]
        if self.opt("inline.typecond"):
            out += ["on", self.name()]
        if self.opt("inline.dirs"):
            out += self.directives(False)
        return out + self.selset(depth - 1)

    def selection(self, depth):
        k = self.alt("selection", ["field", "spread", "inline"] if depth > 0 else ["field", "spread"])
        return self.field(depth) if k == "field" else self.spread() if k == "spread" else self.inline(depth)

    def selset(self, depth=2):
        out = ["{"]
        for _ in range(self.count("selset.items", 1, 3)):
            out += self.selection(depth)
        return out + ["}"]

    def operation(self):
        k = self.alt("operation", ["shorthand", "query", "mutation", "subscription"])
        if k == "shorthand":
            return self.selset()
        out = [k]
        if self.opt("operation.name"):
            out.append(self.name())
        if self.opt("operation.vardefs"):
            out += self.vardefs()
        if self.opt("operation.dirs"):
            out += self.directives(False)
        return out + self.selset()

    def fragment(self):
        out = ["fragment", self.name(but=("on",)), "on", self.name()]
        if self.opt("fragment.dirs"):
            out += self.directives(False)
        return out + self.selset()

    # ---- type system
    def desc(self, k):
        return [self.string()] if self.opt(k + ".desc") else []

    def inputval(self):
        out = self.desc("inputval") + [self.name(), ":"] + self.type()
        if self.opt("inputval.default"):
            out += ["="] + self.value(True, 1)
        if self.opt("inputval.dirs"):
            out += self.directives(True)
        return out

    def argsdef(self):
        out = ["("]
        for _ in range(self.count("argsdef.items", 1, 2)):
            out += self.inputval()
        return out + [")"]

    def fielddef(self):
        out = self.desc("fielddef") + [self.name()]
        if self.opt("fielddef.args"):
            out += self.argsdef()
        out += [":"] + self.type()
        if self.opt("fielddef.dirs"):
            out += self.directives(True)
        return out

    def fieldsdef(self):
        out = ["{"]
        for _ in range(self.count("fieldsdef.items", 1, 3)):
            out += self.fielddef()
        return out + ["}"]

    def implements(self):
        out = ["implements"]
        if self.opt("implements.amp"):
            out.append("&")
        out.append(self.name())
        for _ in range(self.count("implements.more", 0, 2)):
            out += ["&", self.name()]
        return out

    def rootops(self):
        out = ["{"]
        for _ in range(self.count("rootops.items", 1, 3)):
            out += [self.alt("rootop", ["query", "mutation", "subscription"]), ":", self.name()]
        return out + ["}"]

    def schema_def(self):
        out = self.desc("schema") + ["schema"]
        if self.opt("schema.dirs"):
            out += self.directives(True)
        return out + self.rootops()

    def scalar_def(self):
        out = self.desc("scalar") + ["scalar", self.name()]
        if self.opt("scalar.dirs"):
            out += self.directives(True)
        return out

    def object_like(self, kw, ext):
        lab = ("ext." if ext else "") + ("object" if kw == "type" else "interface")
        while True:
            out = (["extend"] if ext else self.desc(lab)) + [kw, self.name()]
            n = len(out)
            if self.opt(lab + ".implements"):
                out += self.implements()
            if self.opt(lab + ".dirs"):
                out += self.directives(True)
            if self.opt(lab + ".fields"):
                out += self.fieldsdef()
            if not ext or len(out) > n:
                return out
            if any(k.startswith(lab + ".") for k in self.force):
                return None     # forced to add nothing: not a document of the grammar

    def unionmembers(self):
        out = ["="]
        if self.opt("unionmembers.pipe"):
            out.append("|")
        out.append(self.name())
        for _ in range(self.count("unionmembers.more", 0, 2)):
            out += ["|", self.name()]
        return out

    def enumvals(self):
        out = ["{"]
        for _ in range(self.count("enumvals.items", 1, 3)):
            out += self.desc("enumval") + [self.name(but=("true", "false", "null"))]
            if self.opt("enumval.dirs"):
                out += self.directives(True)
        return out + ["}"]

    def inputfields(self):
        out = ["{"]
        for _ in range(self.count("inputfields.items", 1, 3)):
            out += self.inputval()
        return out + ["}"]

    def tail2(self, lab, kw, ext, second):
        """union / enum / input: [desc|extend] kw Name Directives? <second>?"""
        while True:
            out = (["extend"] if ext else self.desc(lab)) + [kw, self.name()]
            n = len(out)
            if self.opt(lab + ".dirs"):
                out += self.directives(True)
            if self.opt(lab + ".body"):
                out += second()
            if not ext or len(out) > n:
                return out
            if any(k.startswith(lab + ".") for k in self.force):
                return None

    def dirdef(self):
        out = self.desc("dirdef") + ["directive", "@", self.name()]
        if self.opt("dirdef.args"):
            out += self.argsdef()
        if self.opt("dirdef.repeatable"):
            out.append("repeatable")
        out.append("on")
        if self.opt("dirlocs.pipe"):
            out.append("|")
        out.append(self.alt("dirloc", EXEC_LOCS + TS_LOCS))
        for _ in range(self.count("dirlocs.more", 0, 2)):
            out += ["|", self.alt("dirloc", EXEC_LOCS + TS_LOCS)]
        return out

    def schema_ext(self):
        k = self.alt("ext.schema", ["dirs", "rootops", "both"])
        out = ["extend", "schema"]
        if k in ("dirs", "both"):
            out += self.directives(True)
        if k in ("rootops", "both"):
            out += self.rootops()
        return out

    def scalar_ext(self):
        return ["extend", "scalar", self.name()] + self.directives(True)

    PRODUCTIONS = ["operation", "fragment", "schema_def", "scalar_def", "object_def", "interface_def", "union_def",
                   "enum_def", "input_def", "dirdef", "schema_ext", "scalar_ext", "object_ext", "interface_ext",
                   "union_ext", "enum_ext", "input_ext"]

    def definition(self, k):
        self.hit("definition=" + k)
        if k == "object_def":
            return self.object_like("type", False)
        if k == "interface_def":
            return self.object_like("interface", False)
        if k == "object_ext":
            return self.object_like("type", True)
        if k == "interface_ext":
            return self.object_like("interface", True)
        if k in ("union_def", "union_ext"):
            return self.tail2("ext.union" if k.endswith("ext") else "union", "union", k.endswith("ext"), self.unionmembers)
        if k in ("enum_def", "enum_ext"):
            return self.tail2("ext.enum" if k.endswith("ext") else "enum", "enum", k.endswith("ext"), self.enumvals)
        if k in ("input_def", "input_ext"):
            return self.tail2("ext.input" if k.endswith("ext") else "input", "input", k.endswith("ext"), self.inputfields)
        return getattr(self, k)()

    def document(self, kinds=None):
        """Definition+ ; a definition that may not be followed by `{` ([lookahead != {]) is not followed by a
        shorthand operation"""
        out, prev = [], None
        n = self.count("document.definitions", 1, 3) if kinds is None else len(kinds)
        for i in range(n):
            k = kinds[i] if kinds else self.rng.choice(self.PRODUCTIONS)
            d = self.definition(k)
            if d is None:
                return None
            if out and d[0] == "{" and prev in self.OPEN and out[-1] != "}":
                d = ["query"] + d
            out += d
            prev = k
        return out

    def small_document(self, kinds, limit=40, tries=8):
        """a document of at most `limit` tokens if one comes up in `tries` draws, else the shortest drawn;
        only the kept draw is counted in the coverage"""
        best, best_cov = None, None
        for _ in range(tries):
            saved = self.cov.copy()
            d = self.document(kinds)
            new_cov, self.cov = self.cov, saved
            if d is None:
                return None
            if best is None or len(d) < len(best):
                best, best_cov = d, new_cov
            if len(best) <= limit:
                break
        self.cov = best_cov
        return best

    # productions with a `[lookahead != {]` alternative
    OPEN = {"object_def", "interface_def", "enum_def", "input_def", "schema_ext", "object_ext", "interface_ext",
            "enum_ext", "input_ext"}


# options of each production, enumerated exhaustively by systematic_docs (label -> wrapper kinds)
SYSTEMATIC = {
    "operation": (["operation.name", "operation.vardefs", "operation.dirs"], ["operation"]),
    "vardef": (["vardef.default", "vardef.dirs", "type.nonnull"], ["operation"]),
    "field": (["field.alias", "field.args", "field.dirs", "field.selset"], ["operation"]),
    "spread+inline": (["spread.dirs", "inline.typecond", "inline.dirs"], ["operation"]),
    "fragment": (["fragment.dirs", "directive.args"], ["fragment"]),
    "schema_def": (["schema.desc", "schema.dirs"], ["schema_def"]),
    "scalar_def": (["scalar.desc", "scalar.dirs"], ["scalar_def"]),
    "object_def": (["object.desc", "object.implements", "object.dirs", "object.fields", "implements.amp"], ["object_def"]),
    "interface_def": (["interface.desc", "interface.implements", "interface.dirs", "interface.fields"], ["interface_def"]),
    "fielddef": (["fielddef.desc", "fielddef.args", "fielddef.dirs"], ["object_def"]),
    "inputval": (["inputval.desc", "inputval.default", "inputval.dirs"], ["input_def"]),
    "union_def": (["union.desc", "union.dirs", "union.body", "unionmembers.pipe"], ["union_def"]),
    "enum_def": (["enum.desc", "enum.dirs", "enum.body", "enumval.desc", "enumval.dirs"], ["enum_def"]),
    "input_def": (["input.desc", "input.dirs", "input.body"], ["input_def"]),
    "dirdef": (["dirdef.desc", "dirdef.args", "dirdef.repeatable", "dirlocs.pipe"], ["dirdef"]),
    "object_ext": (["ext.object.implements", "ext.object.dirs", "ext.object.fields"], ["object_ext"]),
    "interface_ext": (["ext.interface.implements", "ext.interface.dirs", "ext.interface.fields"], ["interface_ext"]),
    "union_ext": (["ext.union.dirs", "ext.union.body"], ["union_ext"]),
    "enum_ext": (["ext.enum.dirs", "ext.enum.body"], ["enum_ext"]),
    "input_ext": (["ext.input.dirs", "ext.input.body"], ["input_ext"]),
    "schema_ext": ([], ["schema_ext"]),
    "scalar_ext": ([], ["scalar_ext"]),
}
# what must be present for the options of a production to be exercised at all
ENABLE = {
    "vardef": {"operation.vardefs": True, "operation=": 1},
    "field": {"operation=": 0},
    "spread+inline": {"operation=": 0},
    "fielddef": {"object.fields": True},
    "inputval": {"input.body": True},
    "enum_def": {},
}


def systematic_docs(gen, per_combo=1):
    """every on/off combination of the optional parts of every production (other choices random)"""
    out = []
    for prod, (labels, kinds) in SYSTEMATIC.items():
        for bits in itertools.product([False, True], repeat=len(labels)):
            for _ in range(per_combo):
                gen.force = dict(zip(labels, bits))
                for k, v in ENABLE.get(prod, {}).items():
                    if k == "operation=":
                        gen.force["operation"] = v
                    else:
                        gen.force[k] = v
                if prod == "enum_def" and (bits[3] or bits[4]):
                    gen.force["enum.body"] = True
                d = gen.small_document(kinds)
                gen.force = {}
                if d is not None:
                    out.append((prod, d))
    # every alternative of the productions that are plain choices
    for i in range(3):
        gen.force = {"ext.schema": i}
        out.append(("schema_ext", gen.document(["schema_ext"])))
    for i in range(4):
        gen.force = {"operation": i}
        out.append(("operation", gen.document(["operation"])))
    for i in range(len(EXEC_LOCS + TS_LOCS)):
        gen.force = {"dirloc": i, "dirlocs.more": 0, "dirdef.args": False}
        out.append(("dirdef", gen.document(["dirdef"])))
    for const, n in ((False, 10), (True, 9)):
        for i in range(n):
            gen.force = {"value[const]" if const else "value": i, "arguments.items": 1}
            if const:
                gen.force.update({"operation": 1, "operation.vardefs": True, "vardef.default": True, "vardefs.items": 1})
                out.append(("value[const]", gen.document(["operation"])))
            else:
                gen.force.update({"operation": 0, "selset.items": 1, "selection": 0, "field.args": True})
                out.append(("value", gen.document(["operation"])))
    for i in range(3):
        gen.force = {"selection": i, "operation": 0}
        out.append(("selection", gen.document(["operation"])))
    gen.force = {}
    return out


def mutants(tokens, replacements=REPLACEMENTS, inserts=PUNCT):
    """every mutator at every position: delete, duplicate, swap with the right neighbour, replace by each
    punctuator / keyword / other token kind, insert each punctuator"""
    n = len(tokens)
    for i in range(n):
        yield "delete", tokens[:i] + tokens[i + 1:]
        yield "duplicate", tokens[:i + 1] + tokens[i:]
        if i + 1 < n and tokens[i] != tokens[i + 1]:
            yield "swap", tokens[:i] + [tokens[i + 1], tokens[i]] + tokens[i + 2:]
        for r in replacements:
            if r != tokens[i]:
                yield "replace", tokens[:i] + [r] + tokens[i + 1:]
    for i in range(n + 1):
        for r in inserts:
            yield "insert", tokens[:i] + [r] + tokens[i:]
