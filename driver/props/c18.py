"""C18 — executable documents are typed consistently with the schema; iterators visit exactly the reachable fields."""
import json
from common import *
from props import exec_gen as G
from props import exec_util as U

FIXED = [
    # (schema, document): hand-written corner cases that run first
    ("type Query { a: A, u: U } type A { id: ID, a: A } type B { id: ID } union U = A | B",
     "{ a { ...F } u { __typename ... on A { id ...F } } __schema { types { name } } __type(name: \"A\") { name } __typename }\n"
     "fragment F on A { id a { ...F ...G } }\nfragment G on A { a { ...F } }\n"),
    ("type Query { a: A } type A { id: ID, a: A }",
     "query Q { a { __schema { types { name } } __type(name: \"A\") { name } id { x } zz ... on Missing { id } ... { id } } }\n"
     "{ a { id } }\nquery Q { a { id } }\nfragment X on Missing { id }\nfragment Y on A { ...X ...Y ...Nope }\ntype T { x: Int }\n"),
    ("schema { query: Root } type Root { r: Root, __typename: Int, s: String } type Query { q: Int }",
     "{ r { r { __typename __schema { description } s { x } } } q }\nmutation { r }\nsubscription S { r }\n"),
    ("interface Pet { name: String } type Dog implements Pet { name: String bark: Int } type Cat implements Pet { name: String meow: Int } type Query { pet: Pet f(n: Int!): Int }",
     "query A($size: Int!) { ...F } query B { ...F } fragment F on Query { f(n: $size) }\n"),
    ("interface Pet { name: String } type Dog implements Pet { name: String bark: Int } type Cat implements Pet { name: String meow: Int } type Query { pet: Pet f(n: Int!): Int }",
     "query B { ...G } query A($size: Int!) { ...G } fragment G on Query { ...F } fragment F on Query { f(n: $size) pet { ...D ... on Cat { ...D } } } fragment D on Dog { bark }\n"),
    ("type Query { f: Missing, g: [Missing!]!, e: E, u: U } enum E { X } union U = Query",
     "{ f { x } g { y { z } } e { x } u { __typename __schema { types { name } } ... on Query { e } } }\n"),
]


def run(ctx):
    props = check_props(ctx.pid)
    model = build_model()
    impl = build_impl()
    quick = ctx.tier == "quick"
    # fixed corner cases + corpus
    fixed_schemas = []
    for s, _ in FIXED:
        sc = G.Sch()
        sc.text = s
        fixed_schemas.append(sc)
    fe = U.schema_terms(impl, fixed_schemas)
    pairs = []
    for e, (_, d) in zip(fe, FIXED):
        pairs += [(e, d), (None, d)]
    # fragment chains around the iterator's fuel bound / cyclic chains
    chain_schema = U.schema_terms(impl, [fixed_schemas[1]])[0]
    for n in (1, 2, 5, 40):
        pairs += [(chain_schema, G.chain_doc(n)), (chain_schema, G.chain_doc(n, cyclic=True)), (None, G.chain_doc(n, cyclic=True))]
    n_s, per = (120, 50) if quick else (600, 80)
    entries, gen = U.gen_pairs(ctx, impl, n_s, per, [0.0, 0.03, 0.08, 0.15, 0.0, 0.3])
    pairs += gen
    cases, dropped = U.make_cases(impl, pairs)
    rows = ctx.correspond(impl, model, "xbuild", cases, describe=U.describe_case,
                          nontrivial=lambda c, o: "F(" in o)
    fam = ctx.cov["families"]["xbuild"]
    fam["documents_with_syntax_errors_dropped"] = dropped
    fam["build_ok"] = sum(1 for _, i, _ in rows if i.startswith("build=ok"))
    fam["build_err"] = sum(1 for _, i, _ in rows if i.startswith("build=err"))
    fam["schemaless"] = sum(1 for c, _, _ in rows if c.startswith("N "))
    fam["invalid_schemas"] = sum(1 for e in entries if not e[3])
    fam["fields_observed"] = sum(i.count("F(") for _, i, _ in rows)
    fam["fields_yielded_by_iterators"] = sum(i.count("P(") for _, i, _ in rows)
    import re
    meta = re.compile(r"F\((?:N|S\(h[0-9a-f]+\)),h5f5f")
    fam["meta_field_selections"] = sum(len(meta.findall(i)) for _, i, _ in rows)
    fam["unknown_definitions(no schema)"] = sum(i.count("Tn(h554e4b4e4f574e)") for _, i, _ in rows)
    for c, i, m in rows[:: max(1, len(rows) // 4)]:
        ctx.sample({"family": "xbuild", "case": U.describe_case(c), "impl": i[:600], "model": m[:600]}, limit=4)
    ctx.cov["rule"] = (
        f"{n_s} generated schemas (objects, interface, union, enum, scalar, input, custom root names, custom directives; "
        "20% with irregularities: undefined field types, explicit fields named like meta-fields, undefined root/union members) "
        f"x {per} documents each: valid by construction and with per-decision error rates 3%..30% (undefined fields/types/"
        "fragments, sub-selections on leaves, meta-fields on every kind of parent, cyclic and repeated spreads, duplicate/"
        "anonymous operations, type-system definitions), 15% also built without a schema; plus fixed corner cases and "
        "fragment chains. Observation: the whole typed document (per field: alias, name, full definition, selection-set "
        "type; per inline fragment: condition and type; operation/fragment types) and the root_fields/all_fields "
        "sequences of every operation. A case is non-trivial if the built document has a field.")
    ctx.cov["exhaustive"] = False
    ctx.assumptions += [
        "documents are fed as ASTs produced by the real parser (ast_dump); schemas as built and validated by the real builder (xschema_dump)",
        "build errors are compared as ok/err only (messages and classes are pub(crate) in the crate)",
        "C18_valid_guarantees (what validation guarantees) is not proved here: the validator with a schema has no model in this property",
    ]
    return ctx.finish(props)


def replay(ctx, path):
    r = json.load(open(path))
    model = build_model()
    impl = build_impl()
    fam, case = r["family"], r["case"]
    print("case :", json.dumps(r.get("case_readable", ""), ensure_ascii=False)[:2000])
    print("impl :", run_family(impl, fam, [case])[0])
    print("model:", run_family(model, fam, [case])[0])
    return 0
