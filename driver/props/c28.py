"""C28 — variable coercion follows the specification.

Two-stage tie: the driver writes a schema, a document and a JSON variables object as text; the real crates
parse them (schema_dump / ast_dump / json_dump); `coerce_vars` of the harness calls
request::coerce_variable_values, `coerce_vars` of the model runs Coerce.coerce_variable_values on the dumped
data.  Observation: `ok <json, keys sorted>` | `err value` | `err bug`."""
import itertools
import json
from common import *
from props.run_util import *

FIXED = """scalar Date
enum Color { RED GREEN }
input N { a: Int! = 7, b: [[Int!]], s: String }
input I { x: Int = 3, y: [Int], z: Int!, c: Color = RED, n: N, f: Float = 1.5, l: [Int!] = [1, 2], o: N = {a: 1} }
input R { r: R, v: Int, rs: [R!] }
"""
# defaults that are not in coerced form (finding D17)
UNCOERCED = """input U { l: [Int] = 1, n: N = {b: 2}, m: N = {}, k: Int }
"""
BASES = ["Int", "Float", "String", "Boolean", "ID", "Color", "Date", "I", "N", "R"]

I31, I53, I63, I64 = 2 ** 31, 2 ** 53, 2 ** 63, 2 ** 64
SCALARS = ["null", "true", "false", "0", "1", "-1", str(I31 - 1), str(I31), str(-I31), str(-I31 - 1),
           str(I53 - 2), str(I53 - 1), str(I53), str(-(I53 - 1)), str(-(I53 - 2)), str(I63 - 1), str(I63),
           str(-I63), str(I64 - 1), "1.5", "1.0", "-0.0", "1e+20", '"a"', '"1"', '"1.5"', '"RED"', '"BLUE"',
           '"true"', '""', '"é"']
OBJECTS = ['{}', '{"z":1}', '{"z":null}', '{"x":1,"z":2}', '{"z":1,"q":1}', '{"q":1}', '{"z":1,"y":5}',
           '{"y":[1,null],"z":1}', '{"z":1,"n":{}}', '{"z":1,"n":{"a":null}}', '{"z":1,"n":{"a":5,"b":1}}',
           '{"z":1,"n":{"b":[[1],[2,3]]}}', '{"z":1,"n":{"b":[[1,null]]}}', '{"z":1,"n":null}',
           '{"z":1,"c":"BLUE"}', '{"z":1,"c":"GREEN"}', '{"z":"1"}', '{"z":1.0}', '{"z":%d}' % I31,
           '{"z":1,"f":1}', '{"z":1,"f":"1"}', '{"z":1,"x":null,"c":null,"l":null,"o":null}', '{"z":1,"l":3}',
           '{"z":1,"l":[null]}', '{"z":1,"o":{}}', '{"z":1,"o":{"a":2,"s":"x"}}', '{"z":1,"z":2}',
           '{"a":1}', '{"a":null}', '{"s":"x"}', '{"s":1}', '{"b":[[1]],"a":2,"s":null}', '{"b":[1]}', '{"b":1}',
           '{"r":{"r":{"v":1}}}', '{"r":{"r":{"v":"1"}}}', '{"r":{"q":1}}', '{"rs":{"v":1}}', '{"rs":[{"v":1},null]}',
           '{"rs":[{"rs":[{"v":2}]}]}', '{"v":1,"r":null}']


def wrappers(depth):
    level = ["%s", "%s!"]
    out = list(level)
    for _ in range(depth):
        level = [f"[{w}]" for w in level] + [f"[{w}]!" for w in level]
        out += level
    return out


def lists_of(xs):
    out = ["[]", "[[]]", "[null]", "[[null]]", "[[],null]"]
    for x in xs:
        out += [f"[{x}]", f"[[{x}]]", f"[{x},null]", f"[[{x}],[null]]", f"[[[{x}]]]", f"[{x},{x}]", f"[[{x}],{x}]"]
    return out


def values_for(base, tier):
    if base in ("I", "N", "R"):
        own = OBJECTS
        few = ['{"z":1}', '{"a":1}', '{"v":1}', '{}', '1']
        other = ["null", "1", '"a"', "true", "1.5"]
    else:
        own = SCALARS
        few = {"Int": ["1", str(I31), '"1"'], "Float": ["1.5", "1", str(I53 - 1), '"1"'],
               "String": ['"a"', "1"], "Boolean": ["true", "0"], "ID": ['"a"', "1", str(I63), "1.5"],
               "Color": ['"RED"', '"BLUE"', "1"], "Date": ['"a"', "1", "{}"]}[base]
        other = ["{}", '{"z":1}']
    return own + other + lists_of(few)


def doc_for(ty, default=None):
    d = f" = {default}" if default is not None else ""
    return f"query($v: {ty}{d}) {{ f(a: $v) }}"


def schema_for(ty, extra=""):
    return FIXED + extra + f"type Query {{ f(a: {ty}): Int }}\n"


DEFAULTS = ["null", "1", "[1]", "[[1]]", "[1, null]", "1.5", "1.0", '"a"', "RED", "true", "{z: 1}", "{z: 1, y: 2}",
            "{z: 1, y: [2]}", "{z: 1, n: {b: 1}}", "{z: 1, n: {a: 1, b: [[1]]}}", "{a: 1}", "{}", "{v: 1}",
            "{r: {r: {}}}", "{rs: {v: 1}}", "[{z: 1}]", "[{a: 2}]", "{z: 1, x: 3, c: RED, f: 1.5, l: [1, 2], o: {a: 1}}",
            "[[1], [2]]", "[[1], 2]", str(I31), str(I53 - 1)]


def gen_cases(ctx):
    """returns list of (schema text, doc text, json text)"""
    depth = 2 if ctx.tier == "quick" else 3
    cases = []
    for base in BASES:
        vals = values_for(base, ctx.tier)
        for w in wrappers(depth):
            ty = w % base
            sch, doc = schema_for(ty), doc_for(ty)
            cases.append((sch, doc, "{}"))
            cases.append((sch, doc, '{"w":1}'))
            vs = vals
            if ctx.tier == "quick" and w.count("[") == 2:
                vs = vals[::2] if w.count("!") % 2 else vals[1::2]
            for v in vs:
                cases.append((sch, doc, '{"v":%s}' % v))
                if v in ("1", '{"z":1}'):
                    cases.append((sch, doc, '{"u":0,"v":%s,"w":2}' % v))
    # defaults: candidates filtered by the real validation
    for base in BASES:
        right = {"Int": "1", "Float": "2.5", "String": '"s"', "Boolean": "false", "ID": '"i"', "Color": '"GREEN"',
                 "Date": "[1]", "I": '{"z":9}', "N": '{"b":[[4]]}', "R": '{"v":3}'}[base]
        for w in wrappers(2):
            ty = w % base
            for d in DEFAULTS:
                for extra in ("", UNCOERCED):
                    if extra and base not in ("I", "Int"):
                        continue
                    sch, doc = schema_for(ty, extra), doc_for(ty, d)
                    for v in ("{}", '{"v":null}', '{"v":%s}' % right, '{"v":[%s]}' % right):
                        cases.append((sch, doc, v))
    # input type with uncoerced field defaults, provided values
    for ty in ("U", "U!", "[U]", "[U!]!"):
        sch, doc = schema_for(ty, UNCOERCED), doc_for(ty)
        for v in ("{}", '{"v":{}}', '{"v":{"l":[2]}}', '{"v":{"l":2,"n":{"a":1},"m":{"a":2}}}', '{"v":[{"k":1}]}',
                  '{"v":{"n":null}}', '{"v":null}'):
            cases.append((sch, doc, v))
    # input object field matrix: one field of every wrapped type over a scalar and an input object, with and without
    # a default, omitted / null / provided (a required field of list type behaves like one of named type)
    for fbase, right, dflts in (("Int", "4", ["5", "[5]", "[[5]]"]), ("N", '{"a":4}', ["{a: 5}", "[{a: 5}]"]),
                                ("String", '"s"', ['"d"', '["d"]'])):
        for w in wrappers(2):
            fty = w % fbase
            for d in [None] + dflts:
                extra = f"input M {{ k: {fty}{'' if d is None else ' = ' + d}, o: Int }}\n"
                for vty in ("M", "M!", "[M!]"):
                    sch, doc = schema_for(vty, extra), doc_for(vty)
                    for v in ("{}", '{"o":1}', '{"k":null}', '{"k":%s}' % right, '{"k":[%s]}' % right, '{"k":[[%s]],"o":2}' % right,
                              '{"k":[null]}'):
                        cases.append((sch, doc, '{"v":%s}' % v))
    # several variables: the domain of the result
    sch = FIXED + "type Query { f(a: Int, b: Int, c: Int!, d: [Int], e: I, g: String! = \"x\"): Int }\n"
    doc = 'query($a: Int, $b: Int = 2, $c: Int!, $d: [Int] = [1], $e: I, $g: String! = "y") { f(a: $a, b: $b, c: $c, d: $d, e: $e, g: $g) }'
    prov = {"a": ["1", "null", '"x"'], "b": ["5", "null"], "c": ["3", "null"], "d": ["7", "[8]", "null"],
            "e": ['{"z":1}', "null", "{}"], "g": ['"s"', "null"]}
    names = list(prov)
    for mask in range(2 ** len(names)):
        chosen = [n for i, n in enumerate(names) if mask >> i & 1]
        for pick in range(3):
            kv = [(n, prov[n][min(pick, len(prov[n]) - 1)]) for n in chosen]
            if pick == 2:
                kv = list(reversed(kv))
            cases.append((sch, doc, "{" + ",".join(f'"{k}":{v}' for k, v in kv) + "}"))
    # random compositions (thorough): nested values built from the alphabets
    if ctx.tier != "quick":
        rng = ctx.rng
        atoms = SCALARS + OBJECTS
        for _ in range(20000):
            base = rng.choice(BASES)
            ty = rng.choice(wrappers(3)) % base

            def rv(d):
                r = rng.random()
                if d == 0 or r < 0.5:
                    return rng.choice(atoms)
                if r < 0.8:
                    return "[" + ",".join(rv(d - 1) for _ in range(rng.randint(0, 3))) + "]"
                keys = rng.sample(["x", "y", "z", "c", "n", "a", "b", "s", "r", "v", "rs", "f", "l", "o", "q"], rng.randint(0, 4))
                return "{" + ",".join(f'"{k}":{rv(d - 1)}' for k in keys) + "}"
            cases.append((schema_for(ty), doc_for(ty), '{"v":%s}' % rv(3)))
    seen, out = set(), []
    for c in cases:
        if c not in seen:
            seen.add(c)
            out.append(c)
    return out


def build_triples(impl, cases):
    """first stage: dumps from the real crates; drops cases whose schema/document is invalid"""
    pairs = sorted({(s, d) for s, d, _ in cases})
    valid = run_family(impl, "coerce_vars", [f"{hexs(s)} {hexs(d)} {hexs('{}')}" for s, d in pairs])
    ok_pair = {p for p, o in zip(pairs, valid) if not o.startswith("invalid")}
    sd = dump_all(impl, "schema_dump", [s for s, _ in ok_pair], prefix="u ")
    dd = dump_all(impl, "ast_dump", [d for _, d in ok_pair])
    jd = dump_all(impl, "json_dump", [j for _, _, j in cases])
    triples, skipped = [], 0
    for s, d, j in cases:
        if (s, d) not in ok_pair or sd[s] is None or dd[d] is None or jd[j] is None:
            skipped += 1
            continue
        triples.append((f"{hexs(s)} {hexs(d)} {hexs(j)}", f"{sd[s]} {dd[d]} {jd[j]}", f"{s.replace(FIXED, '<FIXED> ')!r} {d!r} {j}"))
    return triples, skipped, len(pairs) - len(ok_pair)


def strip_cls(m):
    return m.rsplit(" cls=", 1)[0]


def cls_of(m):
    c = m.rsplit(" cls=", 1)[-1] if " cls=" in m else "-"
    return None if c == "-" else c


EDGE_WITNESS = {("Float", str(I53 - 1)), ("Float", str(-(I53 - 1))), ("Float!", str(I53 - 1)),
                ("Float!", str(-(I53 - 1))), ("ID", str(I63)), ("ID!", str(I63)), ("ID", str(I64 - 1)), ("ID!", str(I64 - 1))}


def oracle_c(ctx, model, triples, rows):
    """(C): the property's own predicates on the IMPLEMENTATION's results.
    1. domain and conformance of every `ok` result (Coq predicates cv_var_present / conforms_input, extracted);
    2. the specification accepts the boundary integers at Float / ID (C28_edge_accepted): `err` there is a violation."""
    mc_of = {ic: mc for ic, mc, _ in triples}
    ok_rows = [r for r in rows if r[1].startswith("ok ")]
    lines = []
    for ic, iobs, mo, rd in ok_rows:
        sd, dd, jd = mc_of[ic].split(" ")
        lines.append(f"{sd} {dd} {jd} {iobs[3:]}")
    outs = run_family(model, "c28_oracle", lines)
    fam = ctx.cov["families"].setdefault("c28_oracle", {"cases": 0, "agree": 0, "known": 0})
    for (ic, iobs, mo, rd), o in zip(ok_rows, outs):
        fam["cases"] += 1
        if o == "ok":
            fam["agree"] += 1
            continue
        if o.startswith("model-"):
            raise MachineryError(f"oracle failed on {rd}: {o}")
        cls = cls_of(mo)
        if cls == "default_not_coerced" and ctx.known_hit(cls):
            fam["known"] += 1
            continue
        ctx.oracle_failures += 1
        ctx.violation({"family": "coerce_vars", "case": ic, "model_case": mc_of[ic], "case_readable": rd, "impl": iobs,
                       "oracle": o, "what": "the result of coerce_variable_values does not have the domain / does not "
                       "conform to the declared types (C28_domain, C28_conforms evaluated on the implementation)"})
    for ic, iobs, mo, rd in rows:
        m = re.search(r"query\(\$v: ([A-Za-z!]+)\) .*\{\"v\":(-?[0-9]+)\}$", rd)
        if m and (m.group(1), m.group(2)) in EDGE_WITNESS:
            fam["cases"] += 1
            if iobs.startswith("ok "):
                fam["agree"] += 1
            else:
                ctx.oracle_failures += 1
                ctx.violation({"family": "coerce_vars", "case": ic, "model_case": mc_of[ic], "case_readable": rd,
                               "impl": iobs, "what": "the specification accepts this integer at this type"})


def run(ctx):
    props = check_props(ctx.pid)
    model = build_model()
    impl = build_impl()
    cases = gen_cases(ctx)
    triples, skipped, invalid_pairs = build_triples(impl, cases)
    rows = correspond_pairs(ctx, impl, model, "coerce_vars", triples,
                            classify=lambda rd, i, m: cls_of(m),
                            nontrivial=lambda rd, o: True,
                            compare=lambda i, m: i == strip_cls(m))
    oracle_c(ctx, model, triples, rows)
    fam = ctx.cov["families"]["coerce_vars"]
    fam["accepted"] = sum(1 for _, i, _, _ in rows if i.startswith("ok"))
    fam["rejected"] = sum(1 for _, i, _, _ in rows if i.startswith("err"))
    fam["skipped_invalid_cases"] = skipped
    fam["invalid_schema_document_pairs"] = invalid_pairs
    fam["with_default_value"] = sum(1 for _, _, _, rd in rows if " = " in rd.split("'")[3] if rd.count("'") >= 4)
    for r in rows[:: max(1, len(rows) // 6)]:
        ctx.sample({"family": "coerce_vars", "case": r[3], "impl": r[1], "model": r[2]}, limit=6)
    ctx.cov["rule"] = (
        "coerce_vars: one variable of every type over 10 base types (5 built-in scalars, enum, custom scalar, input "
        "objects with defaults / required fields / recursion) x every list/non-null wrapper to depth "
        f"{2 if ctx.tier == 'quick' else 3} x a per-type alphabet of JSON values (right type, each wrong type, null, "
        "absent, single value for a list, nested lists, objects with extra/missing/null keys, 2^31, -2^31-1, 2^53-2, "
        "2^53-1, 2^53, 2^63, 2^64-1, 1.5, 1.0, numeric strings); default values from 27 literals filtered by the real "
        "validation (valid ones kept) x {absent, null, provided}; 6 variables at once with every subset provided; "
        "thorough adds random nested values. Documents rejected by validation are skipped. Non-trivial: every case.")
    ctx.cov["exhaustive"] = False
    ctx.assumptions += [
        "the schema reaches the model as dumped by the real builder without built-in definitions; the five built-in scalars are added by the glue",
        "JSON text is parsed by serde_json in the harness (json_dump) and handed to the model as data: number classification i64/u64/f64 is the real parser's",
        "object key order and float formatting are not part of the observation (keys sorted; float texts are those serde prints)",
        "error messages are not compared, only value-error vs suspected-validation-bug",
    ]
    return ctx.finish(props)


def replay(ctx, path):
    r = json.load(open(path))
    model = build_model()
    impl = build_impl()
    print("case :", r.get("case_readable", r["case"]))
    print("impl :", run_family(impl, r["family"], [r["case"]])[0])
    if "model_case" in r:
        print("model:", run_family(model, r["family"], [r["model_case"]])[0])
    return 0
